package lib

// @immutable
type Counter int

func (c *Counter) Bump() { *c += 5 }
func (c *Counter) Inc()  { *c++ }
func (c *Counter) Set()  { *c = 1 }

type Inner struct{}

// @testonly
func (i *Inner) Reset() {}

// @packageonly lib
type Secret struct{ N int }

// @constructor NewT
type T struct{ N int }

func NewT() *T { return &T{} }
