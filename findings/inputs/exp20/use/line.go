//line gen_test.go:1
package use

import "w6/lib"

func C() *lib.T { return &lib.T{} }
