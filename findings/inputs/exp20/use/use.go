package use

import "w6/lib"

type Outer struct{ lib.Inner }

func A(o *Outer) {
	o.Reset()       // promoted @testonly method
	o.Inner.Reset() // spelled out
}

type Wrap struct{ lib.Secret } // embedded restricted type

type Named struct{ S lib.Secret }

func B() {
	_ = new(*lib.T) // no T instantiated
	_ = new(lib.T)
}
