package a

// @immutable
type P struct{ N int }

func F(p *P) {
	var _ = "yyyyyyyyyyyyyyyyyyyyyyyyyyyyyyyyyyyyyyyyyyyyyyyyyyyyyyyyyyyyyyyyyyyyyyyyyyyyyyyyyyyyyyyyyyyyyyyyyyyyyyyyyyyyyyyyyyyyyyyyyyyyyyyyyyyyyyyyyyyyyyyyyyyyyyyyyyyyyyyyyyyyyyyyyyyyyyyyyyyyyyyy"; p.N = 1; _ = "zzzzzzzzzzzzzzzzzzzzzzzzzzzzzzzzzzzzzzzzzzzzzzzzzzzzzzzzzzzzzzzzzzzzzzzzzzzzzzzzzzzzzzzzzzzzzzzzzzzz"
}
