package a

// @immutable
type P struct{ N int }

func F(p *P) { p.N = 1 }
