package io

const BufSize = 512
