package q

import (
	"io"
	myio "x/lib/io"
)

// @implements &io.Writer
type W struct{ n [myio.BufSize]byte }

func (w *W) Write(b []byte) (int, error) { return len(b), nil }

var _ io.Writer = (*W)(nil)
