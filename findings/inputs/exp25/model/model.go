package model

// @immutable
type Account struct {
	Balance int
}
