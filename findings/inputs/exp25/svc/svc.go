package svc

import "x/model"

func Charge(a *model.Account) {
	a.Balance = 0 // IMM01
}
