package a

// @immutable
type T struct {
	N int
}
