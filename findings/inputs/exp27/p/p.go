package p

// @immutable
type T struct{ f int }

func Mut(t *T) {
//line p.go:9:50000000
	t.f = 1
}
