package gen

// #include <stdlib.h>
import "C"

// Row is in a directory excluded with --config.exclude-paths=gen
// @immutable
type Row struct {
	N int
}

func Touch(r *Row) {
	r.N++
	_ = C.abs(1)
}
