package gen

func Touch2(r *Row) {
	r.N++
}
