package use

import "x/gen"

func Set(r *gen.Row) {
	r.N = 2 // Row's @immutable sits in gen/c.go, an excluded file
}
