package main

// A-ORIGIN on SSA: value origins ("roots") and canonical descriptors.
//
// Resolve(v) follows everything that merely transports a value (conversions, phi, parameters <- arguments
// at all static product call sites, free variables <- closure bindings, loads of local cells <- all stores
// to the cell incl. from closures, loads of fields of module-defined structs <- all stores to that field
// anywhere in product code incl. composite literals) and returns the set of terminal values.
// Flow-insensitive union = over-approximation, the sound direction for "all origins are in the allowed set".
//
// Desc(v) renders the set as a canonical string; two conditions with the same Desc are the same predicate
// on the same origins. Names of locals never occur in it (renaming-invariant), positions never occur in it.

import (
	"crypto/sha1"
	"fmt"
	"go/token"
	"go/types"
	"sort"
	"strings"

	"golang.org/x/tools/go/ssa"
)

const maxParamCallers = 12

// descriptors longer than this are replaced by a hash (never reached on this code base: the longest is reported
// in the evidence; substring queries on descriptors rely on that)
var descHashLimit = 2000000
var descMaxSeen = 0

// Resolve returns the terminal origins of v.
func (P *Program) Resolve(v ssa.Value) []ssa.Value { return P.resolve(v, false) }

// ResolveDeep additionally looks through loads of fields of module-defined structs (union of all stores).
func (P *Program) ResolveDeep(v ssa.Value) []ssa.Value { return P.resolve(v, true) }

// ResolveOpaque: like Resolve, but calls of product helpers are kept as roots (for rules about WHICH function is
// called rather than what value arrives).
func (P *Program) ResolveOpaque(v ssa.Value) []ssa.Value {
	old := P.opaqueCalls
	P.opaqueCalls = true
	defer func() { P.opaqueCalls = old }()
	return P.resolve(v, false)
}

func (P *Program) resolve(v ssa.Value, deep bool) []ssa.Value {
	out, _ := P.resolveCtx(v, deep)
	return out
}

type pinMap = map[*ssa.Function]ssa.CallInstruction

// resolveCtx: the origins of v and, for origins found inside a transparent helper, the calling context (helper ->
// the call through which it was entered) under which the origin has to be described.
func (P *Program) resolveCtx(v ssa.Value, deep bool) ([]ssa.Value, map[ssa.Value]pinMap) {
	seen := map[ssa.Value]bool{}
	var out []ssa.Value
	var ctxOf map[ssa.Value]pinMap
	var cur pinMap
	// inHelper walks the values returned by helper call x with the helper pinned to x
	inHelper := func(x *ssa.Call, rets []ssa.Value, walk func(ssa.Value)) {
		callee := x.Call.StaticCallee()
		savedPin, savedCur := P.pin, cur
		np, nc := pinMap{}, pinMap{}
		for k, c := range savedPin {
			np[k] = c
		}
		for k, c := range savedCur {
			nc[k] = c
		}
		np[callee], nc[callee] = x, x
		P.pin, cur = np, nc
		for _, r := range rets {
			walk(r)
		}
		P.pin, cur = savedPin, savedCur
	}
	var walk func(v ssa.Value)
	add := func(v ssa.Value) {
		for _, o := range out {
			if o == v {
				return
			}
		}
		out = append(out, v)
		if cur != nil {
			if _, isConst := v.(*ssa.Const); !isConst {
				if ctxOf == nil {
					ctxOf = map[ssa.Value]pinMap{}
				}
				ctxOf[v] = cur
			}
		}
	}
	walk = func(v ssa.Value) {
		if v == nil || seen[v] {
			return
		}
		seen[v] = true
		switch x := v.(type) {
		case *ssa.ChangeType:
			walk(x.X)
		case *ssa.ChangeInterface:
			walk(x.X)
		case *ssa.MakeInterface:
			walk(x.X)
		case *ssa.Convert:
			walk(x.X)
		case *ssa.MultiConvert:
			walk(x.X)
		case *ssa.SliceToArrayPointer:
			walk(x.X)
		case *ssa.Phi:
			for _, e := range x.Edges {
				walk(e)
			}
		case *ssa.Parameter:
			args := P.paramArgs(x)
			if args == nil {
				add(x)
				return
			}
			for _, a := range args {
				walk(a)
			}
		case *ssa.FreeVar:
			if b := P.freeVarBinding(x); b != nil {
				walk(b)
			} else {
				add(x)
			}
		case *ssa.UnOp:
			if x.Op == token.MUL {
				if vals, ok := P.loadSources(x.X, deep); ok {
					for _, s := range vals {
						walk(s)
					}
					return
				}
			}
			add(x)
		case *ssa.Call:
			if !P.opaqueCalls {
				if rets := P.helperReturns(x, 0); rets != nil {
					inHelper(x, rets, walk)
					return
				}
				// at() with at one of several method values (sel.Pos, id.Pos handed down as func() token.Pos): what
				// each of the bound methods returns - the method call inside go/ssa's wrapper, on the bound receiver
				if x.Call.StaticCallee() == nil && !x.Call.IsInvoke() {
					if cands := P.closureCandidates(x.Call.Value, 0); len(cands) > 1 {
						all := true
						for _, f := range cands {
							if !isBoundWrapper(f) || len(f.Blocks) == 0 {
								all = false
							}
						}
						if all {
							for _, f := range cands {
								allInstrs(f, func(_ *ssa.BasicBlock, ins ssa.Instruction) {
									if r, ok := ins.(*ssa.Return); ok && len(r.Results) == 1 {
										walk(r.Results[0])
									}
								})
							}
							return
						}
					}
				}
			}
			add(x)
		case *ssa.Extract:
			if !P.opaqueCalls {
				if call, ok := x.Tuple.(*ssa.Call); ok {
					if rets := P.helperReturns(call, x.Index); rets != nil {
						inHelper(call, rets, walk)
						return
					}
				}
			}
			add(x)
		case *ssa.Field:
			if vals, ok := P.fieldSources(x.X.Type(), x.Field); ok && deep {
				for _, s := range vals {
					walk(s)
				}
				return
			}
			add(x)
		default:
			add(v)
		}
	}
	walk(v)
	return out, ctxOf
}

// paramArgs: the arguments bound to parameter p at all static product call sites; nil when p is a root
// (no such call site, too many, or p belongs to a closure / callback).
func (P *Program) paramArgs(p *ssa.Parameter) []ssa.Value {
	fn := p.Parent()
	if fn == nil {
		return nil
	}
	if w := P.visitorWalk(fn); w != nil {
		// Visit method of the visitor handed to ast.Walk: the receiver is that visitor, the node comes from the walk
		if len(fn.Params) > 0 && fn.Params[0] == p {
			return []ssa.Value{w.Call.Args[0]}
		}
		return nil
	}
	if closureLike(fn) && len(P.Callers(fn)) == 0 {
		return nil // callback / range-over-func body: parameters come from the library
	}
	idx := -1
	for i, q := range fn.Params {
		if q == p {
			idx = i
		}
	}
	if idx < 0 {
		return nil
	}
	callers := P.Callers(fn)
	if len(callers) == 0 || len(callers) > maxParamCallers {
		return nil
	}
	var out []ssa.Value
	for _, c := range callers {
		args := c.Common().Args
		if idx >= len(args) {
			return nil
		}
		out = append(out, args[idx])
	}
	return out
}

// closureSite returns the MakeClosure instruction creating fn in its parent.
func (P *Program) closureSite(fn *ssa.Function) *ssa.MakeClosure {
	par := fn.Parent()
	if par == nil {
		if !isBoundWrapper(fn) {
			return nil
		}
		// a method value `x.m`: go/ssa makes a parentless wrapper closure; find the one place it is created
		if P.boundSites == nil {
			P.boundSites = map[*ssa.Function][]*ssa.MakeClosure{}
			for _, f := range P.ModFuncs {
				allInstrs(f, func(b *ssa.BasicBlock, ins ssa.Instruction) {
					if m, ok := ins.(*ssa.MakeClosure); ok {
						if g, ok := m.Fn.(*ssa.Function); ok && isBoundWrapper(g) {
							P.boundSites[g] = append(P.boundSites[g], m)
						}
					}
				})
			}
		}
		if sites := P.boundSites[fn]; len(sites) == 1 {
			return sites[0]
		}
		return nil
	}
	var mc *ssa.MakeClosure
	allInstrs(par, func(b *ssa.BasicBlock, ins ssa.Instruction) {
		if m, ok := ins.(*ssa.MakeClosure); ok && m.Fn == fn {
			mc = m
		}
	})
	return mc
}

// isBoundWrapper: the closure go/ssa synthesises for a method value (receiver captured as free variable).
func isBoundWrapper(fn *ssa.Function) bool {
	return fn != nil && strings.HasPrefix(fn.Synthetic, "bound method wrapper")
}

// closureLike: a function literal or a method-value wrapper (created at a MakeClosure, may capture variables).
func closureLike(fn *ssa.Function) bool {
	return fn != nil && (fn.Parent() != nil || isBoundWrapper(fn))
}

func (P *Program) freeVarBinding(fv *ssa.FreeVar) ssa.Value {
	fn := fv.Parent()
	mc := P.closureSite(fn)
	if mc == nil {
		return nil
	}
	for i, f := range fn.FreeVars {
		if f == fv && i < len(mc.Bindings) {
			return mc.Bindings[i]
		}
	}
	return nil
}

// cellOf resolves an address value to the local cell (Alloc) it denotes, looking through free variables.
func (P *Program) cellOf(addr ssa.Value) *ssa.Alloc {
	for i := 0; i < 8; i++ {
		switch x := addr.(type) {
		case *ssa.Alloc:
			return x
		case *ssa.FreeVar:
			b := P.freeVarBinding(x)
			if b == nil {
				return nil
			}
			addr = b
		default:
			return nil
		}
	}
	return nil
}

// cellAliases: the alloc itself plus every FreeVar (transitively) bound to it.
func (P *Program) cellAliases(a *ssa.Alloc) []ssa.Value {
	out := []ssa.Value{a}
	for i := 0; i < len(out); i++ {
		refs := out[i].Referrers()
		if refs == nil {
			continue
		}
		for _, r := range *refs {
			if mc, ok := r.(*ssa.MakeClosure); ok {
				fn := mc.Fn.(*ssa.Function)
				for j, b := range mc.Bindings {
					if b == out[i] && j < len(fn.FreeVars) {
						out = append(out, fn.FreeVars[j])
					}
				}
			}
		}
	}
	return out
}

// CellStores returns every value stored into the local cell (from the declaring function and closures).
// escaped reports that the address is used in some other way (passed to a call, stored somewhere).
func (P *Program) CellStores(a *ssa.Alloc) (vals []ssa.Value, stores []*ssa.Store, escaped bool) {
	for _, al := range P.cellAliases(a) {
		refs := al.Referrers()
		if refs == nil {
			continue
		}
		for _, r := range *refs {
			switch x := r.(type) {
			case *ssa.Store:
				if x.Addr == al {
					vals = append(vals, x.Val)
					stores = append(stores, x)
				} else {
					escaped = true // address stored somewhere
				}
			case *ssa.UnOp, *ssa.MakeClosure, *ssa.DebugRef:
			case *ssa.FieldAddr, *ssa.IndexAddr:
				// partial access to a struct/array cell: handled by field logic
			default:
				escaped = true
			}
		}
	}
	return
}

// loadSources: the values a load from addr may yield, when addr is a local cell or a field of a module struct.
func (P *Program) loadSources(addr ssa.Value, deep bool) ([]ssa.Value, bool) {
	if a := P.cellOf(addr); a != nil {
		vals, _, _ := P.CellStores(a)
		if len(vals) == 0 {
			// a struct/array cell that is filled field by field (composite literal) is loaded as a whole
			if refs := a.Referrers(); refs != nil {
				for _, r := range *refs {
					switch r.(type) {
					case *ssa.FieldAddr, *ssa.IndexAddr:
						return nil, false
					}
				}
			}
			// never stored: zero value (e.g. `var violations []T`)
			return []ssa.Value{ssa.NewConst(nil, deref(a.Type()))}, true
		}
		// a cell of struct type initialised by a composite literal is loaded as a whole: keep the load
		return vals, true
	}
	if fa, ok := addr.(*ssa.FieldAddr); ok && deep {
		return P.fieldSources(deref(fa.X.Type()), fa.Field)
	}
	// load through a pointer value whose every origin is the address of a local cell (or nil)
	if _, isLoad := addr.(*ssa.UnOp); isLoad || isPhi(addr) {
		roots := P.resolve(addr, deep)
		var vals []ssa.Value
		n := 0
		for _, r := range roots {
			if isNilConst(r) {
				continue
			}
			a, ok := r.(*ssa.Alloc)
			if !ok {
				return nil, false
			}
			n++
			sv, _, _ := P.CellStores(a)
			if len(sv) == 0 {
				sv = []ssa.Value{ssa.NewConst(nil, deref(a.Type()))}
			}
			vals = append(vals, sv...)
		}
		if n > 0 {
			return vals, true
		}
	}
	return nil, false
}

func deref(t types.Type) types.Type {
	if p, ok := t.Underlying().(*types.Pointer); ok {
		return p.Elem()
	}
	return t
}

// moduleStruct returns the named struct type defined in a product package, or nil.
func (P *Program) moduleStruct(t types.Type) *types.Named {
	t = types.Unalias(t)
	n, ok := t.(*types.Named)
	if !ok {
		return nil
	}
	if _, ok := n.Underlying().(*types.Struct); !ok {
		return nil
	}
	if n.Obj().Pkg() == nil || !strings.HasPrefix(n.Obj().Pkg().Path(), modulePath) {
		return nil
	}
	return n
}

// fieldSources: union of every value stored to field #idx of module struct type t anywhere in product code
// (explicit stores and composite literals; a composite literal that omits the field contributes the zero value).
func (P *Program) fieldSources(t types.Type, idx int) ([]ssa.Value, bool) {
	n := P.moduleStruct(t)
	if n == nil {
		return nil, false
	}
	P.buildFieldStores()
	vals := P.fieldStores[fieldKey{n, idx}]
	if len(vals) == 0 {
		return nil, false
	}
	return vals, true
}

func (P *Program) buildFieldStores() {
	if P.fieldStores != nil {
		return
	}
	P.fieldStores = map[fieldKey][]ssa.Value{}
	for _, fn := range P.ModFuncs {
		complits := map[*ssa.Alloc]map[int]bool{}
		allInstrs(fn, func(b *ssa.BasicBlock, ins ssa.Instruction) {
			switch x := ins.(type) {
			case *ssa.Alloc:
				if x.Comment == "complit" {
					if n := P.moduleStruct(deref(x.Type())); n != nil {
						complits[x] = map[int]bool{}
					}
				}
			case *ssa.Store:
				if fa, ok := x.Addr.(*ssa.FieldAddr); ok {
					if n := P.moduleStruct(deref(fa.X.Type())); n != nil {
						k := fieldKey{n, fa.Field}
						P.fieldStores[k] = append(P.fieldStores[k], x.Val)
						if a, ok := fa.X.(*ssa.Alloc); ok {
							if m := complits[a]; m != nil {
								m[fa.Field] = true
							}
						}
					}
				}
			}
		})
		for a, set := range complits {
			n := P.moduleStruct(deref(a.Type()))
			st := n.Underlying().(*types.Struct)
			for i := 0; i < st.NumFields(); i++ {
				if !set[i] {
					k := fieldKey{n, i}
					P.fieldStores[k] = append(P.fieldStores[k], ssa.NewConst(nil, st.Field(i).Type()))
				}
			}
		}
	}
}

// ---------------------------------------------------------------------------------------------
// Descriptors

func (P *Program) Desc(v ssa.Value) string { return P.desc(v, false) }

// KeyDesc: descriptor used in the keys of guard literals. Calls of product helpers are NOT looked through here: the
// key has to tell apart the results of different helpers (`v != nil` for v from two different finders would otherwise
// both read `{new(T)|nil} != nil`); what a helper's result implies is added by Expand / inlineBoolHelper instead.
func (P *Program) KeyDesc(v ssa.Value) string {
	old := P.opaqueCalls
	P.opaqueCalls = true
	defer func() { P.opaqueCalls = old }()
	return P.desc(v, false)
}

// DescDeep renders provenance through fields of module structs as well.
func (P *Program) DescDeep(v ssa.Value) string { return P.desc(v, true) }

func (P *Program) desc(v ssa.Value, deep bool) string {
	if P.descMemo == nil {
		P.descMemo = map[descKey]string{}
	}
	if P.descBusy == nil {
		P.descBusy = map[descKey]bool{}
	}
	memo := P.descMemo
	if P.ov != nil {
		if s, ok := P.ov[v]; ok {
			return s
		}
		memo = P.ovMemo
	}
	k := descKey{v, deep, P.opaqueCalls}
	if s, ok := memo[k]; ok {
		return s
	}
	if P.descBusy[k] {
		return "cycle"
	}
	P.descBusy[k] = true
	roots, ctxOf := P.resolveCtx(v, deep)
	set := map[string]bool{}
	for _, r := range roots {
		if ctx := ctxOf[r]; ctx != nil && P.pinDepth < 3 {
			// an origin inside a helper is described in the calling context it was reached through
			P.pinDepth++
			P.PinnedAll(ctx, func() { set[P.termDesc(r, deep)] = true })
			P.pinDepth--
			continue
		}
		set[P.termDesc(r, deep)] = true
	}
	var alts []string
	for s := range set {
		alts = append(alts, s)
	}
	sort.Strings(alts)
	var s string
	if len(alts) == 1 {
		s = alts[0]
	} else {
		s = "{" + strings.Join(alts, "|") + "}"
	}
	if len(s) > descMaxSeen {
		descMaxSeen = len(s)
	}
	if len(s) > descHashLimit {
		s = fmt.Sprintf("h%x<%s...>", sha1.Sum([]byte(s)), s[:200])
	}
	delete(P.descBusy, k)
	memo[k] = s
	return s
}

func typeStr(t types.Type) string {
	s := types.TypeString(t, func(p *types.Package) string {
		pp := p.Path()
		pp = strings.TrimPrefix(pp, modulePath+"/src/")
		pp = strings.TrimPrefix(pp, modulePath+"/")
		return pp
	})
	return s
}

func (P *Program) descArgs(args []ssa.Value, deep bool) string {
	var parts []string
	for _, a := range args {
		parts = append(parts, P.desc(a, deep))
	}
	return strings.Join(parts, ", ")
}

// calleeName names what a call invokes: static function, builtin, interface method or dynamic value.
func (P *Program) calleeName(c *ssa.CallCommon) string {
	if c.IsInvoke() {
		return "invoke " + typeStr(c.Value.Type()) + "." + c.Method.Name()
	}
	switch f := c.Value.(type) {
	case *ssa.Function:
		return FuncName(f)
	case *ssa.Builtin:
		return "builtin " + f.Name()
	case *ssa.MakeClosure:
		return FuncName(f.Fn.(*ssa.Function))
	}
	return "dyn " + P.Desc(c.Value)
}

func (P *Program) termDesc(v ssa.Value, deep bool) string {
	switch x := v.(type) {
	case *ssa.Const:
		if x.Value == nil {
			if x.IsNil() {
				return "nil"
			}
			return "zero(" + typeStr(x.Type()) + ")"
		}
		return "const(" + x.Value.ExactString() + ")"
	case *ssa.Parameter:
		fn := x.Parent()
		idx := 0
		for i, q := range fn.Params {
			if q == x {
				idx = i
			}
		}
		if w := P.visitorWalk(fn); w != nil && idx == 1 {
			// the node parameter of a Visit method: the walk callback parameter of the walk that is given the visitor
			// (named like the callback parameter of ast.Inspect: the same nodes, in the same order)
			return fmt.Sprintf("cbparam0(go/ast.Inspect; %s)", P.descArgs([]ssa.Value{w.Call.Args[1]}, deep))
		}
		if closureLike(fn) {
			// callback / range-over-func body parameter: describe by the call the closure is passed to
			if mc := P.closureSite(fn); mc != nil {
				if call, argi := closurePassedTo(mc); call != nil {
					c := call.Common()
					if fn.Synthetic == "range-over-func yield" || strings.HasPrefix(P.calleeName(c), "dyn ") {
						return fmt.Sprintf("iterelem%d(%s)", idx, P.desc(c.Value, deep))
					}
					var others []ssa.Value
					for i, a := range c.Args {
						if i != argi {
							others = append(others, a)
						}
					}
					return fmt.Sprintf("cbparam%d(%s; %s)", idx, P.calleeName(c), P.descArgs(others, deep))
				}
			}
		}
		return fmt.Sprintf("param(%s#%d)", FuncName(fn), idx)
	case *ssa.FreeVar:
		return "freevar(" + FuncName(x.Parent()) + ")"
	case *ssa.Alloc:
		kind := "local"
		if x.Heap {
			kind = "new"
		}
		return fmt.Sprintf("%s(%s)", kind, typeStr(deref(x.Type())))
	case *ssa.Global:
		return "&global(" + typeStr(types.NewPointer(deref(x.Type())))[1:] + " " + x.Pkg.Pkg.Name() + "." + x.Name() + ")"
	case *ssa.Function:
		return "func(" + FuncName(x) + ")"
	case *ssa.Builtin:
		return "builtin(" + x.Name() + ")"
	case *ssa.MakeClosure:
		return "closure(" + FuncName(x.Fn.(*ssa.Function)) + ")"
	case *ssa.Call:
		if x.Call.IsInvoke() {
			return "call(" + P.calleeName(x.Common()) + "; " + P.descArgs(append([]ssa.Value{x.Call.Value}, x.Call.Args...), deep) + ")"
		}
		return "call(" + P.calleeName(x.Common()) + "; " + P.descArgs(x.Common().Args, deep) + ")"
	case *ssa.BinOp:
		return "binop(" + x.Op.String() + "; " + P.desc(x.X, deep) + ", " + P.desc(x.Y, deep) + ")"
	case *ssa.UnOp:
		if x.Op == token.MUL {
			switch a := x.X.(type) {
			case *ssa.FieldAddr:
				st := deref(a.X.Type()).Underlying().(*types.Struct)
				return "field(" + P.descBase(a.X, deep) + "." + typeStr(deref(a.X.Type())) + "." + st.Field(a.Field).Name() + ")"
			case *ssa.IndexAddr:
				return "elem" + idxTagB(a.Index, a.X) + "(" + P.desc(a.X, deep) + ")"
			case *ssa.Global:
				return "global(" + a.Pkg.Pkg.Name() + "." + a.Name() + ")"
			}
			return "load(" + P.desc(x.X, deep) + ")"
		}
		return "unop(" + x.Op.String() + "; " + P.desc(x.X, deep) + ")"
	case *ssa.Field:
		st := x.X.Type().Underlying().(*types.Struct)
		return "field(" + P.descBase(x.X, deep) + "." + typeStr(x.X.Type()) + "." + st.Field(x.Field).Name() + ")"
	case *ssa.FieldAddr:
		st := deref(x.X.Type()).Underlying().(*types.Struct)
		return "&field(" + P.desc(x.X, deep) + "." + typeStr(deref(x.X.Type())) + "." + st.Field(x.Field).Name() + ")"
	case *ssa.IndexAddr:
		return "&elem" + idxTagB(x.Index, x.X) + "(" + P.desc(x.X, deep) + ")"
	case *ssa.Index:
		return "elem" + idxTagB(x.Index, x.X) + "(" + P.desc(x.X, deep) + ")"
	case *ssa.Lookup:
		return "lookup(" + P.desc(x.X, deep) + "; " + P.desc(x.Index, deep) + ")"
	case *ssa.Slice:
		if a, ok := x.X.(*ssa.Alloc); ok {
			// slice literal / varargs: describe by its elements
			type ent struct {
				idx string
				d   string
			}
			var es []ent
			if refs := a.Referrers(); refs != nil {
				for _, rr := range *refs {
					ia, ok := rr.(*ssa.IndexAddr)
					if !ok {
						continue
					}
					if irefs := ia.Referrers(); irefs != nil {
						for _, st := range *irefs {
							if s, ok := st.(*ssa.Store); ok && s.Addr == ia {
								es = append(es, ent{idxTag(ia.Index), P.desc(s.Val, deep)})
							}
						}
					}
				}
			}
			if len(es) > 0 {
				sort.Slice(es, func(i, j int) bool { return es[i].idx < es[j].idx })
				var parts []string
				for _, e := range es {
					parts = append(parts, e.d)
				}
				return "lit[" + strings.Join(parts, ", ") + "]"
			}
		}
		return "slice(" + P.desc(x.X, deep) + ")"
	case *ssa.TypeAssert:
		return "typeassert(" + P.desc(x.X, deep) + "; " + typeStr(x.AssertedType) + ")"
	case *ssa.Extract:
		switch t := x.Tuple.(type) {
		case *ssa.Next:
			r, _ := t.Iter.(*ssa.Range)
			if r != nil {
				if x.Index == 1 {
					return "rangekey(" + P.desc(r.X, deep) + ")"
				}
				if x.Index == 2 {
					return "elem(" + P.desc(r.X, deep) + ")"
				}
				return "rangeok(" + P.desc(r.X, deep) + ")"
			}
		case *ssa.TypeAssert:
			if x.Index == 0 {
				return "typeassert(" + P.desc(t.X, deep) + "; " + typeStr(t.AssertedType) + ")"
			}
			return "typeassert-ok(" + P.desc(t.X, deep) + "; " + typeStr(t.AssertedType) + ")"
		case *ssa.Lookup:
			if x.Index == 0 {
				return "lookup(" + P.desc(t.X, deep) + "; " + P.desc(t.Index, deep) + ")"
			}
			return "lookup-ok(" + P.desc(t.X, deep) + "; " + P.desc(t.Index, deep) + ")"
		}
		return fmt.Sprintf("extract%d(%s)", x.Index, P.desc(x.Tuple, deep))
	case *ssa.MakeMap:
		return "make(" + typeStr(x.Type()) + ")"
	case *ssa.MakeSlice:
		return "make(" + typeStr(x.Type()) + ")"
	case *ssa.MakeChan:
		return "make(" + typeStr(x.Type()) + ")"
	case *ssa.Range:
		return "range(" + P.desc(x.X, deep) + ")"
	case *ssa.Next:
		return "next(" + P.desc(x.Iter, deep) + ")"
	}
	return fmt.Sprintf("?%T", v)
}

// closurePassedTo finds the call instruction that receives the closure as an argument (or as callee operand
// of a range-over-func iterator call), and the argument index.
func closurePassedTo(mc *ssa.MakeClosure) (ssa.CallInstruction, int) {
	var vals []ssa.Value = []ssa.Value{mc}
	for i := 0; i < len(vals); i++ {
		refs := vals[i].Referrers()
		if refs == nil {
			continue
		}
		for _, r := range *refs {
			switch x := r.(type) {
			case ssa.CallInstruction:
				for ai, a := range x.Common().Args {
					if a == vals[i] {
						return x, ai
					}
				}
			case *ssa.ChangeType:
				vals = append(vals, x)
			case *ssa.MakeInterface:
				vals = append(vals, x)
			}
		}
	}
	return nil, -1
}

// ---------------------------------------------------------------------------------------------
// Structured queries used by the rules

// CallTo reports whether v is a call to the named function (FuncName form, e.g. "util.(TypesMap).Contains"),
// ignoring type arguments when name has none.
func (P *Program) CallTo(v ssa.Value, name string) *ssa.Call {
	c, ok := v.(*ssa.Call)
	if !ok {
		return nil
	}
	n := P.calleeName(c.Common())
	if n == name {
		return c
	}
	if i := strings.Index(n, "["); i >= 0 && !strings.Contains(name, "[") && n[:i] == name {
		return c
	}
	return nil
}

// RootsAll reports whether every origin of v satisfies pred (and there is at least one).
func (P *Program) RootsAll(v ssa.Value, pred func(ssa.Value) bool) bool {
	roots := P.Resolve(v)
	if len(roots) == 0 {
		return false
	}
	for _, r := range roots {
		if !pred(r) {
			return false
		}
	}
	return true
}

// RootsAny reports whether some origin of v satisfies pred.
func (P *Program) RootsAny(v ssa.Value, pred func(ssa.Value) bool) bool {
	for _, r := range P.Resolve(v) {
		if pred(r) {
			return true
		}
	}
	return false
}

// idxTag distinguishes element accesses: "" for the induction variable of a range loop,
// "[k]" for a constant index, "[?]" for anything else.
func idxTag(idx ssa.Value) string {
	if c, ok := idx.(*ssa.Const); ok && c.Value != nil {
		return "[" + c.Value.ExactString() + "]"
	}
	if isRangeIndex(idx) {
		return ""
	}
	return "[?]"
}

// isRangeIndex: idx is the induction variable of a `for i := range x` / `for _, v := range x` loop.
func isRangeIndex(idx ssa.Value) bool {
	switch x := idx.(type) {
	case *ssa.Phi:
		return x.Block().Comment == "rangeindex.loop" || x.Comment == "rangeindex"
	case *ssa.BinOp:
		// go/ssa emits  t = phi[-1, t+1]; idx = t + 1  in block rangeindex.loop
		if x.Block() != nil && x.Block().Comment == "rangeindex.loop" {
			return true
		}
	}
	return false
}

// rangeIndexOver: idx is the index variable of a `for i := range x` loop: the ranged value x (nil if unknown).
func rangeIndexOver(idx ssa.Value) ssa.Value {
	if !isRangeIndex(idx) {
		return nil
	}
	in, ok := idx.(ssa.Instruction)
	if !ok || in.Block() == nil {
		return nil
	}
	blk := in.Block()
	if blk.Comment != "rangeindex.loop" {
		return nil
	}
	ifi, isIf := lastInstr(blk).(*ssa.If)
	if !isIf {
		return nil
	}
	bo, isB := ifi.Cond.(*ssa.BinOp)
	if !isB || bo.Op != token.LSS {
		return nil
	}
	if bo.X != idx {
		// the phi itself: the compared value is phi+1
		inc, isInc := bo.X.(*ssa.BinOp)
		if !isInc || inc.X != idx {
			return nil
		}
	}
	return lenOf(bo.Y)
}

// sameSliceValue: a and b denote the same slice (the same SSA value, or two loads of the same variable / field).
func sameSliceValue(a, b ssa.Value) bool {
	if a == b {
		return true
	}
	la, ok1 := a.(*ssa.UnOp)
	lb, ok2 := b.(*ssa.UnOp)
	if ok1 && ok2 && la.Op == token.MUL && lb.Op == token.MUL {
		if la.X == lb.X {
			return true
		}
		fa1, okA := la.X.(*ssa.FieldAddr)
		fa2, okB := lb.X.(*ssa.FieldAddr)
		if okA && okB && fa1.X == fa2.X && fa1.Field == fa2.Field {
			return true
		}
	}
	if fa, ok := a.(*ssa.Field); ok {
		if fb, ok := b.(*ssa.Field); ok && fa.X == fb.X && fa.Field == fb.Field {
			return true
		}
	}
	return false
}

func isPhi(v ssa.Value) bool { _, ok := v.(*ssa.Phi); return ok }

// LitKeyWith recomputes the key of a literal with some values replaced by placeholders
// (used to compare literals about "the value returned by this call" across call sites).
func (P *Program) LitKeyWith(l Lit, ov map[ssa.Value]string) string {
	P.ov, P.ovMemo = ov, map[descKey]string{}
	defer func() { P.ov, P.ovMemo = nil, nil }()
	return P.litKey(l)
}

func (P *Program) litKey(l Lit) string {
	switch l.Kind {
	case "eq":
		a, b := P.KeyDesc(l.X), P.KeyDesc(l.Y)
		if a > b {
			a, b = b, a
		}
		return "eq(" + a + ", " + b + ")"
	case "lt":
		return "lt(" + P.KeyDesc(l.X) + ", " + P.KeyDesc(l.Y) + ")"
	case "or", "and":
		var keys []string
		for _, s := range l.Subs {
			k := P.litKey(s)
			if !s.Pos {
				k = "not(" + k + ")"
			}
			keys = append(keys, k)
		}
		sort.Strings(keys)
		return l.Kind + "(" + strings.Join(keys, ", ") + ")"
	}
	if l.Val != nil {
		if l.Kind == "rangeloop" || l.Kind == "rangefunc" {
			if b, ok := l.Val.(*ssa.BinOp); ok {
				return "lt(" + P.KeyDesc(b.X) + ", " + P.KeyDesc(b.Y) + ")"
			}
		}
		return P.KeyDesc(l.Val)
	}
	return l.Key
}

// descBase describes the object a field is read from. A local struct variable that only ever receives whole
// struct values (`for _, annot := range list`, `x := *p`) is transparent: the field is described as a field of
// those values.
func (P *Program) descBase(v ssa.Value, deep bool) string {
	// x[i].f read in place (no copy of the element): the base is the element itself
	if ia, ok := v.(*ssa.IndexAddr); ok {
		if _, isStruct := deref(ia.Type()).Underlying().(*types.Struct); isStruct {
			return "elem" + idxTagB(ia.Index, ia.X) + "(" + P.desc(ia.X, deep) + ")"
		}
	}
	if cell := P.cellOf(v); cell != nil && cell.Comment != "complit" {
		if _, isStruct := deref(cell.Type()).Underlying().(*types.Struct); isStruct {
			vals, _, escaped := P.CellStores(cell)
			if len(vals) > 0 && !escaped {
				set := map[string]bool{}
				for _, x := range vals {
					set[P.desc(x, deep)] = true
				}
				var alts []string
				for s := range set {
					alts = append(alts, s)
				}
				sort.Strings(alts)
				if len(alts) == 1 {
					return alts[0]
				}
				return "{" + strings.Join(alts, "|") + "}"
			}
		}
	}
	return P.desc(v, deep)
}

// ResolveThroughCalls: like ResolveDeep, but a call of a product function with a body is replaced by the origins
// of the values it returns (depth-limited).
func (P *Program) ResolveThroughCalls(v ssa.Value, depth int) []ssa.Value {
	var out []ssa.Value
	for _, r := range P.ResolveDeep(v) {
		call, ok := r.(*ssa.Call)
		var callee *ssa.Function
		if ok {
			callee = P.Callee(&call.Call)
		}
		if callee == nil || depth <= 0 || !P.IsProductFunc(callee) || len(callee.Blocks) == 0 {
			out = append(out, r)
			continue
		}
		allInstrs(callee, func(b *ssa.BasicBlock, ins ssa.Instruction) {
			if ret, ok := ins.(*ssa.Return); ok && len(ret.Results) == 1 {
				out = append(out, P.ResolveThroughCalls(ret.Results[0], depth-1)...)
			}
		})
	}
	return out
}

// anchorNames: the product functions that the rules refer to by name (frozen from the reviewed tree; a function
// that is not listed - e.g. one extracted later - is a helper). A call of any other product function with
// a body ("helper") is transparent for deep origin resolution: its result is described by what it returns, so
// that extracting or inlining a helper does not change provenance.
var anchorNames = map[string]bool{
	"(*annotations.PackageAnnotations).AFact":            true,
	"(*annotations.PackageAnnotations).ToInterfaceQuery": true,
	"(*annotations.PackageAnnotations).ToTypeQuery":      true,
	"(*config.Config).FilterFiles":                       true,
	"(*config.Config).ShouldSkipFile":                    true,
	"(*config.Config).WithExcludeChecks":                 true,
	"(*config.Config).WithExcludePaths":                  true,
	"(*config.Config).WithScanTests":                     true,
	"(*reporting.Reporter).ReportViolation":              true,
	"(*reporting.Reporter).ReportViolations":             true,
	"(*reporting.Reporter).formatPrettyError":            true,
	"(*reporting.Reporter).getFileLines":                 true,
	"(*reporting.Reporter).readSourceLines":              true,
	"(*util.AttachmentsMap).AddPkgAttachment":            true,
	"(*util.AttachmentsMap).AddPkgFunctionAttachment":    true,
	"(*util.AttachmentsMap).AddPkgTypeAttachment":        true,
	"(*util.AttachmentsMap).AddPkgTypeFieldAttachment":   true,
	"(*util.AttachmentsMap).AddPkgTypeMethodAttachment":  true,
	"(*util.AttachmentsMap).Empty":                       true,
	"(*util.AttachmentsMap).GetAttachmentsForFunction":   true,
	"(*util.AttachmentsMap).GetAttachmentsForMethod":     true,
	"(*util.AttachmentsMap).GetAttachmentsForType":       true,
	"(*util.AttachmentsMap).GetPackageAttachments":       true,
	"(*util.AttachmentsMap).HasAnyFunctionAttachments":   true,
	"(*util.AttachmentsMap).HasAnyMethodAttachments":     true,
	"(*util.AttachmentsMap).HasAnyTypeAttachments":       true,
	"(*util.AttachmentsMap).HasPkgAttachment":            true,
	"(*util.AttachmentsMap).HasPkgFunctionAttachment":    true,
	"(*util.AttachmentsMap).HasPkgTypeAttachment":        true,
	"(*util.AttachmentsMap).HasPkgTypeFieldAttachment":   true,
	"(*util.AttachmentsMap).HasPkgTypeMethodAttachment":  true,
	"(*util.IgnoreSet).Add":                              true,
	"(*util.IgnoreSet).AddModuleIgnore":                  true,
	"(*util.IgnoreSet).Contains":                         true,
	"(*util.IgnoreSet).Empty":                            true,
	"(*util.IgnoreSet).Len":                              true,
	"(*util.IgnoreSet).ensureInitialized":                true,
	"(*util.ImportMap).Add":                              true,
	"(*util.ImportMap).Find":                             true,
	"(*util.PackageAttachments).AddAttachment":           true,
	"(*util.PackageAttachments).AddFunctionAttachment":   true,
	"(*util.PackageAttachments).AddTypeAttachment":       true,
	"(*util.PackageAttachments).AddTypeFieldAttachment":  true,
	"(*util.PackageAttachments).AddTypeMethodAttachment": true,
	"(*util.PackageAttachments).GetTypeAttachments":      true,
	"(*util.PackageAttachments).HasAttachment":           true,
	"(*util.PackageAttachments).HasFunctionAttachment":   true,
	"(*util.PackageAttachments).HasTypeAttachment":       true,
	"(*util.PackageAttachments).HasTypeFieldAttachment":  true,
	"(*util.PackageAttachments).HasTypeMethodAttachment": true,
	"(*util.TypeAssociationRegistry).Add":                true,
	"(*util.TypeAssociationRegistry).Empty":              true,
	"(*util.TypeAssociationRegistry).GetAssociated":      true,
	"(*util.TypeAssociationRegistry).HasType":            true,
	"(*util.TypeAssociationRegistry).Len":                true,
	"(*util.TypeAssociationRegistry).Match":              true,
	"(*util.TypeAttachments).AddAttachment":              true,
	"(*util.TypeAttachments).AddFieldAttachment":         true,
	"(*util.TypeAttachments).AddMethodAttachment":        true,
	"(*util.TypeAttachments).HasAttachment":              true,
	"(*util.TypeAttachments).HasFieldAttachment":         true,
	"(*util.TypeAttachments).HasMethodAttachment":        true,
	"(*util.TypesMap).Add":                               true,
	"(*util.TypesMap).Contains":                          true,
	"(*util.TypesMap).Empty":                             true,
	"(*util.TypesMap).Len":                               true,
	"(util.TypeAssociationRegistry).Add":                 true,
	"(util.TypeAssociationRegistry).Empty":               true,
	"(util.TypeAssociationRegistry).GetAssociated":       true,
	"(util.TypeAssociationRegistry).HasType":             true,
	"(util.TypeAssociationRegistry).Len":                 true,
	"(util.TypeAssociationRegistry).Match":               true,
	"(util.TypesMap).Add":                                true,
	"(util.TypesMap).Contains":                           true,
	"(util.TypesMap).Empty":                              true,
	"(util.TypesMap).Len":                                true,
	"annotations.ExtractReceiverType":                    true,
	"annotations.ReadAllAnnotations":                     true,
	"annotations.parseConstructorAnnotation":             true,
	"annotations.parseImmutableAnnotation":               true,
	"annotations.parseImplementsAnnotation":              true,
	"annotations.parseMutableAnnotation":                 true,
	"annotations.parsePackageOnlyAnnotation":             true,
	"annotations.parseTestOnlyAnnotation":                true,
	"codes.GetCodesForCheck":                             true,
	"codes.GetDocumentationURL":                          true,
	"config.CreateFlagSet":                               true,
	"config.Default":                                     true,
	"config.Empty":                                       true,
	"config.FromEnv":                                     true,
	"config.New":                                         true,
	"config.ParseFlagsFromFlagSet":                       true,
	"config.parseBool":                                   true,
	"config.parseStringList":                             true,
	"constructor.CheckConstructor":                       true,
	"ignore.ReadIgnoreAnnotations":                       true,
	"ignore.findInlineNode":                              true,
	"ignore.findNextNodeAfterComment":                    true,
	"ignore.parseIgnoreAnnotation":                       true,
	"immutable.CheckImmutable":                           true,
	"implements.FindMissingInterfaces":                   true,
	"implements.FindMissingMethods":                      true,
	"implements.FindMissingPackages":                     true,
	"implements.LoadInterfaces":                          true,
	"implements.LoadTypes":                               true,
	"implements.ReportProblems":                          true,
	"implements.checkImplementation":                     true,
	"implements.convertTypesToInterfaceType":             true,
	"implements.convertTypesToMethodType":                true,
	"implements.extractMethodTypesFromTuple":             true,
	"implements.extractMethodsFromInterface":             true,
	"implements.extractMethodsFromNamedType":             true,
	"implements.extractTypesFromTuple":                   true,
	"implements.findInterfacesInPackage":                 true,
	"implements.findTypesInPackage":                      true,
	"implements.formatMethodSignature":                   true,
	"implements.formatType":                              true,
	"implements.formatTypeList":                          true,
	"implements.getUnderlyingTypeName":                   true,
	"implements.isPointerReceiver":                       true,
	"implements.signaturesMatch":                         true,
	"implements.typesMatch":                              true,
	"indexing.BuildConstructorIndex":                     true,
	"indexing.BuildImmutableTypesIndex":                  true,
	"indexing.BuildMutableFieldsIndex":                   true,
	"indexing.BuildPackageOnlyIndex":                     true,
	"indexing.BuildTestOnlyFuncsIndex":                   true,
	"indexing.BuildTestOnlyMethodsIndex":                 true,
	"indexing.BuildTestOnlyTypesIndex":                   true,
	"indexing.iterOverPackages":                          true,
	"packageonly.CheckPackageOnly":                       true,
	"reporting.NewReporter":                              true,
	"reporting.calculateDisplayColumn":                   true,
	"reporting.truncateString":                           true,
	"testonly.CheckTestOnly":                             true,
	"util.ExtractTypeInfo":                               true,
	"util.ExtractTypeName":                               true,
	"util.NewTypeAssociationRegistry":                    true,
	"util.NewTypesMap":                                   true,
	"util.matchesPathComponentWithSlash":                 true,
}

func (P *Program) isAnchor(fn *ssa.Function) bool {
	if fn == nil {
		return false
	}
	for fn.Parent() != nil {
		fn = fn.Parent()
	}
	if anchorNames[baseName(fn)] {
		return true
	}
	// functions handing out function values (iterators) are described by their call, not looked into
	if res := fn.Signature.Results(); res.Len() == 1 {
		if _, isFunc := res.At(0).Type().Underlying().(*types.Signature); isFunc {
			return true
		}
	}
	return false
}

// helperReturns: the values result #idx of the called helper may be (nil if the callee is not a transparent helper).
func (P *Program) helperReturns(call *ssa.Call, idx int) []ssa.Value {
	callee := call.Call.StaticCallee()
	if callee == nil && !call.Call.IsInvoke() {
		// a call of a function-typed parameter / local variable that stands for one function literal (in the
		// current calling context)
		callee = P.Callee(&call.Call)
	}
	if callee == nil || !P.IsProductFunc(callee) || len(callee.Blocks) == 0 || P.isAnchor(callee) {
		return nil
	}
	res := callee.Signature.Results()
	if idx >= res.Len() {
		return nil
	}
	if b, ok := res.At(idx).Type().Underlying().(*types.Basic); ok && b.Kind() == types.Bool {
		return nil // predicates are summarised, not inlined
	}
	if P.helperBusy == nil {
		P.helperBusy = map[*ssa.Function]bool{}
	}
	if P.helperBusy[callee] {
		return nil
	}
	P.helperBusy[callee] = true
	defer delete(P.helperBusy, callee)
	var out []ssa.Value
	allInstrs(callee, func(b *ssa.BasicBlock, ins ssa.Instruction) {
		if r, ok := ins.(*ssa.Return); ok && idx < len(r.Results) {
			out = append(out, r.Results[idx])
		}
	})
	return out
}

// idxTagB: like idxTag, and the induction variable of a full counting loop `for i := 0; i < len(x); i++`
// indexing that same x counts as a range element.
func idxTagB(idx, base ssa.Value) string {
	if isFullIndexLoopOver(idx, base) {
		return ""
	}
	return idxTag(idx)
}

// fullIndexLoopBound: idx is phi[0, idx+1] and the loop is controlled by `idx < len(b)`; returns b.
func fullIndexLoopBound(idx ssa.Value) ssa.Value {
	phi, ok := idx.(*ssa.Phi)
	if !ok || len(phi.Edges) != 2 {
		return nil
	}
	okInit, okStep := false, false
	for _, e := range phi.Edges {
		if c, isC := e.(*ssa.Const); isC && c.Value != nil && c.Value.ExactString() == "0" {
			okInit = true
		}
		if bo, isB := e.(*ssa.BinOp); isB && bo.Op == token.ADD && bo.X == phi {
			if c, isC := bo.Y.(*ssa.Const); isC && c.Value != nil && c.Value.ExactString() == "1" {
				okStep = true
			}
		}
	}
	if !okInit || !okStep {
		return nil
	}
	// the rotated form (`for i := range len(b)`): the value is tested on the way in - `0 < n` before the loop,
	// `i+1 < n` at the end of a round - against one n
	var rot ssa.Value
	okRot := true
	for i, e := range phi.Edges {
		pred := phi.Block().Preds[i]
		ifi, isIf := lastInstr(pred).(*ssa.If)
		if !isIf || len(pred.Succs) != 2 || pred.Succs[0] != phi.Block() {
			okRot = false
			break
		}
		bo, isB := ifi.Cond.(*ssa.BinOp)
		if !isB || bo.Op != token.LSS {
			okRot = false
			break
		}
		same := bo.X == e
		if cx, isC := bo.X.(*ssa.Const); isC && !same {
			ce, isCE := e.(*ssa.Const)
			same = isCE && cx.Value != nil && ce.Value != nil && cx.Value.ExactString() == ce.Value.ExactString()
		}
		if !same || (rot != nil && rot != bo.Y) {
			okRot = false
			break
		}
		rot = bo.Y
	}
	if okRot && rot != nil {
		return lenOf(rot)
	}
	// the controlling condition: an If in phi's block (or a successor chain of plain jumps) on phi < len(b)
	blk := phi.Block()
	for i := 0; i < 3 && blk != nil; i++ {
		if ifi, isIf := lastInstr(blk).(*ssa.If); isIf {
			if bo, isB := ifi.Cond.(*ssa.BinOp); isB && bo.Op == token.LSS && bo.X == phi {
				return lenOf(bo.Y)
			}
			return nil
		}
		if len(blk.Succs) != 1 {
			return nil
		}
		blk = blk.Succs[0]
	}
	return nil
}

func isFullIndexLoopOver(idx, base ssa.Value) bool {
	b := fullIndexLoopBound(idx)
	if b == nil {
		return false
	}
	if b == base {
		return true
	}
	// same memory location loaded twice (x.f / x.f.g read in the condition and in the body)
	return sameLoadedLoc(b, base, 0)
}

// sameLoadedLoc: a and b are the same value, or loads of the same field path of the same value.
func sameLoadedLoc(a, b ssa.Value, depth int) bool {
	if a == b {
		return true
	}
	if depth > 4 {
		return false
	}
	la, ok1 := a.(*ssa.UnOp)
	lb, ok2 := b.(*ssa.UnOp)
	if !ok1 || !ok2 || la.Op != token.MUL || lb.Op != token.MUL {
		return false
	}
	if la.X == lb.X {
		return true
	}
	fa1, okA := la.X.(*ssa.FieldAddr)
	fa2, okB := lb.X.(*ssa.FieldAddr)
	return okA && okB && fa1.Field == fa2.Field && sameLoadedLoc(fa1.X, fa2.X, depth+1)
}

// throughParams follows a value backwards through parameters bound at exactly one call site, local cells with a
// single store and type-only conversions - without flattening phis (the caller wants to see the join itself).
func (P *Program) throughParams(v ssa.Value) ssa.Value {
	for i := 0; i < 12; i++ {
		switch x := v.(type) {
		case *ssa.Parameter:
			args := P.paramArgs(x)
			if len(args) != 1 {
				return v
			}
			v = args[0]
		case *ssa.FreeVar:
			b := P.freeVarBinding(x)
			if b == nil {
				return v
			}
			v = b
		case *ssa.ChangeType:
			v = x.X
		case *ssa.UnOp:
			if x.Op != token.MUL {
				return v
			}
			cell := P.cellOf(x.X)
			if cell == nil {
				return v
			}
			vals, _, escaped := P.CellStores(cell)
			if escaped || len(vals) != 1 {
				return v
			}
			v = vals[0]
		default:
			return v
		}
	}
	return v
}

// visitorWalk: fn is the Visit method of a type whose values are handed to ast.Walk at exactly one place in the
// module: that call. (ast.Walk(v, root) calls v.Visit(n) for root and - while Visit returns a non-nil visitor - for
// every node below it: what ast.Inspect does with a callback that returns true.)
func (P *Program) visitorWalk(fn *ssa.Function) *ssa.Call {
	if fn == nil || fn.Signature == nil || fn.Signature.Recv() == nil || fn.Name() != "Visit" || len(fn.Params) != 2 {
		return nil
	}
	P.buildVisitorWalks()
	if ws := P.visitorWalks[fn]; len(ws) == 1 {
		return ws[0]
	}
	return nil
}

func (P *Program) buildVisitorWalks() {
	if P.visitorWalks == nil {
		P.visitorWalks = map[*ssa.Function][]*ssa.Call{}
		for _, f := range P.ModFuncs {
			allInstrs(f, func(_ *ssa.BasicBlock, ins ssa.Instruction) {
				call, ok := ins.(*ssa.Call)
				if !ok || call.Call.StaticCallee() == nil || FuncName(call.Call.StaticCallee()) != "go/ast.Walk" || len(call.Call.Args) != 2 {
					return
				}
				v := call.Call.Args[0]
				for {
					if mi, isMI := v.(*ssa.MakeInterface); isMI {
						v = mi.X
						continue
					}
					if ci, isCI := v.(*ssa.ChangeInterface); isCI {
						v = ci.X
						continue
					}
					break
				}
				if m := P.SSA.LookupMethod(v.Type(), nil, "Visit"); m != nil && P.IsProductFunc(m) {
					P.visitorWalks[m] = append(P.visitorWalks[m], call)
				}
			})
		}
	}
}
