package main

// Forward value flow (where does a violation value go, and under which conditions), natural loops,
// static call closure.

import (
	"go/token"
	"go/types"
	"sort"
	"strings"

	"golang.org/x/tools/go/ssa"
)

type litSet map[string]Lit

func newLitSet(ls []Lit) litSet {
	s := litSet{}
	for _, l := range ls {
		s[l.String()] = l
	}
	return s
}

func (s litSet) union(o litSet) litSet {
	r := litSet{}
	for k, v := range s {
		r[k] = v
	}
	for k, v := range o {
		r[k] = v
	}
	return r
}

func (s litSet) intersect(o litSet) litSet {
	r := litSet{}
	for k, v := range s {
		if _, ok := o[k]; ok {
			r[k] = v
		}
	}
	return r
}

func (s litSet) list() []Lit {
	var out []Lit
	for _, v := range s {
		out = append(out, v)
	}
	sort.Slice(out, func(i, j int) bool { return out[i].String() < out[j].String() })
	return out
}

// FlowResult of following a value forward to a terminal.
type FlowResult struct {
	Reached   bool
	Guards    litSet   // literals that hold on every successful path (∪ along a path, ∩ across paths)
	Dropped   []string // call sites / places where the value is dropped although it must flow on
	Terminals []ssa.Instruction
}

// FlowToTerminal follows value v forward until isTerminal(call, argIndex) holds for a call receiving it.
// Returns must succeed for ALL static product callers.
func (P *Program) FlowToTerminal(v ssa.Value, isTerminal func(c ssa.CallInstruction, arg int) bool) FlowResult {
	f := &flower{P: P, isTerminal: isTerminal, onPath: map[ssa.Value]bool{}}
	ok, g := f.flow(v, litSet{}, 0)
	return FlowResult{Reached: ok, Guards: g, Dropped: f.dropped, Terminals: f.terminals}
}

type flower struct {
	viaFn         *ssa.Function // returns of this function go to viaCall only
	viaCall       ssa.CallInstruction
	P             *Program
	isTerminal    func(c ssa.CallInstruction, arg int) bool
	storeTerminal func(st *ssa.Store) bool
	onPath        map[ssa.Value]bool
	onField       map[fieldKey]bool
	dropped       []string
	terminals     []ssa.Instruction
	steps         int
}

func (f *flower) blockLits(ins ssa.Instruction) litSet {
	if ins.Block() == nil {
		return litSet{}
	}
	return newLitSet(f.P.BlockGuards(ins.Block()))
}

// flow explores the uses of v. acc = literals known to hold on the path so far.
func (f *flower) flow(v ssa.Value, acc litSet, depth int) (bool, litSet) {
	if v == nil || f.onPath[v] || depth > 60 {
		return false, nil
	}
	f.steps++
	if f.steps > 20000 {
		return false, nil
	}
	f.onPath[v] = true
	defer delete(f.onPath, v)

	reached := false
	var result litSet
	merge := func(ok bool, g litSet) {
		if !ok {
			return
		}
		if !reached {
			reached = true
			result = g
		} else {
			result = result.intersect(g)
		}
	}

	// parameters: value continues inside the function; free variables likewise.
	refs := v.Referrers()
	if refs == nil {
		return false, nil
	}
	for _, r := range *refs {
		switch x := r.(type) {
		case *ssa.Phi:
			merge(f.flow(x, acc.union(f.blockLits(x)), depth+1))
		case *ssa.ChangeType:
			merge(f.flow(x, acc, depth+1))
		case *ssa.ChangeInterface:
			merge(f.flow(x, acc, depth+1))
		case *ssa.MakeInterface:
			merge(f.flow(x, acc.union(f.blockLits(x)), depth+1))
		case *ssa.Convert:
			merge(f.flow(x, acc, depth+1))
		case *ssa.Slice:
			if x.X == v {
				merge(f.flow(x, acc.union(f.blockLits(x)), depth+1))
			}
		case *ssa.UnOp:
			// load through a pointer to the value (e.g. *v where v is *Violation, or load of a tainted cell)
			merge(f.flow(x, acc.union(f.blockLits(x)), depth+1))
		case *ssa.Extract:
			merge(f.flow(x, acc.union(f.blockLits(x)), depth+1))
		case *ssa.Range:
			merge(f.flow(x, acc.union(f.blockLits(x)), depth+1))
		case *ssa.Next:
			merge(f.flow(x, acc.union(f.blockLits(x)), depth+1))
		case *ssa.Index:
			if x.X == v {
				merge(f.flow(x, acc.union(f.blockLits(x)), depth+1))
			}
		case *ssa.IndexAddr:
			if x.X == v {
				// element address of a tainted slice/array: loads of it are tainted
				merge(f.flow(x, acc.union(f.blockLits(x)), depth+1))
			}
		case *ssa.Lookup:
			if x.X == v {
				merge(f.flow(x, acc.union(f.blockLits(x)), depth+1))
			}
		case *ssa.TypeAssert:
			merge(f.flow(x, acc.union(f.blockLits(x)), depth+1))
		case *ssa.MakeClosure:
			fn := x.Fn.(*ssa.Function)
			for i, b := range x.Bindings {
				if b == v && i < len(fn.FreeVars) {
					merge(f.flow(fn.FreeVars[i], acc.union(f.blockLits(x)), depth+1))
				}
			}
		case *ssa.Store:
			if x.Val != v {
				continue
			}
			a2 := acc.union(f.blockLits(x))
			if f.storeTerminal != nil && f.storeTerminal(x) {
				f.terminals = append(f.terminals, x)
				merge(true, a2)
				continue
			}
			// where is it stored?
			switch addr := x.Addr.(type) {
			case *ssa.IndexAddr:
				// element of an array/slice: the container is tainted
				merge(f.flowContainer(addr.X, a2, depth+1))
			case *ssa.FieldAddr:
				// a field of some struct: the struct object is tainted
				merge(f.flowContainer(addr.X, a2, depth+1))
				// a field of a module-defined struct (accumulator object): the value is seen by every read of that field
				if n := f.P.moduleStruct(deref(addr.X.Type())); n != nil {
					merge(f.flowField(n, addr.Field, a2, depth+1))
				}
			default:
				if cell := f.P.cellOf(addr); cell != nil {
					merge(f.flowCell(cell, a2, depth+1))
				} else {
					// *p = v with p a pointer kept in a field / handed down (found: &violations): the variables p may
					// point to
					roots := f.P.ResolveDeep(addr)
					all := len(roots) > 0
					for _, r := range roots {
						if _, isAlloc := r.(*ssa.Alloc); !isAlloc {
							all = false
						}
					}
					if all {
						for _, r := range roots {
							merge(f.flowCell(r.(*ssa.Alloc), a2, depth+1))
						}
					}
				}
			}
		case *ssa.Return:
			fn := x.Parent()
			a2 := acc.union(f.blockLits(x))
			idx := -1
			for i, res := range x.Results {
				if res == v {
					idx = i
				}
			}
			merge(f.flowReturn(fn, idx, a2, depth+1, x))
		case ssa.CallInstruction:
			c := x.Common()
			a2 := acc.union(f.blockLits(x))
			// the value itself is asked for its position by a diagnostic sink (a reporting loop that was not
			// factored into a per-violation function)
			if c.IsInvoke() && c.Value == v && f.storeTerminal == nil && f.P.RecvTerminal != nil && f.P.RecvTerminal(x) {
				f.terminals = append(f.terminals, x)
				merge(true, acc)
				continue
			}
			for ai, a := range c.Args {
				if a != v {
					continue
				}
				if f.isTerminal(x, ai) {
					f.terminals = append(f.terminals, x)
					merge(true, a2)
					continue
				}
				if b, ok := c.Value.(*ssa.Builtin); ok {
					if b.Name() == "append" {
						if val, ok := x.(ssa.Value); ok {
							merge(f.flow(val, a2, depth+1))
						}
					}
					continue
				}
				var callee *ssa.Function
				if sc := f.P.Callee(c); sc != nil {
					callee = sc
				}
				if callee != nil && f.P.IsProductFunc(callee) && len(callee.Blocks) > 0 && ai < len(callee.Params) {
					merge(f.flow(callee.Params[ai], a2, depth+1))
				}
			}
			// dynamic call of a known local closure value: v passed as argument handled above only for static;
			// handle `closure(args)` where the callee value is a MakeClosure
			if mc, ok := c.Value.(*ssa.MakeClosure); ok {
				fn := mc.Fn.(*ssa.Function)
				for ai, a := range c.Args {
					if a == v && ai < len(fn.Params) {
						merge(f.flow(fn.Params[ai], a2, depth+1))
					}
				}
			}
		}
	}
	return reached, result
}

// FlowToTerminalVia: like FlowToTerminal, but the value returned by fn is followed at call site via only.
func (P *Program) FlowToTerminalVia(v ssa.Value, isTerminal func(c ssa.CallInstruction, arg int) bool, fn *ssa.Function, via ssa.CallInstruction) FlowResult {
	f := &flower{P: P, isTerminal: isTerminal, onPath: map[ssa.Value]bool{}, viaFn: fn, viaCall: via}
	ok, g := f.flow(v, litSet{}, 0)
	return FlowResult{Reached: ok, Guards: g, Dropped: f.dropped, Terminals: f.terminals}
}

// FlowToStore follows v forward until it is stored by a Store instruction accepted by isSink.
func (P *Program) FlowToStore(v ssa.Value, isSink func(st *ssa.Store) bool) FlowResult {
	f := &flower{P: P, isTerminal: func(ssa.CallInstruction, int) bool { return false }, storeTerminal: isSink, onPath: map[ssa.Value]bool{}}
	ok, g := f.flow(v, litSet{}, 0)
	return FlowResult{Reached: ok, Guards: g, Dropped: f.dropped, Terminals: f.terminals}
}

// flowContainer: a value was stored into (part of) the object addressed by base.
func (f *flower) flowContainer(base ssa.Value, acc litSet, depth int) (bool, litSet) {
	if cell := f.P.cellOf(base); cell != nil {
		return f.flowCell(cell, acc, depth)
	}
	// base is some pointer value (e.g. result of a call): follow its uses
	return f.flow(base, acc, depth)
}

// flowField: a tainted value was stored into field #idx of module struct n; continue from every load of that field
// (field-based: objects of the same type are not told apart).
func (f *flower) flowField(n *types.Named, idx int, acc litSet, depth int) (bool, litSet) {
	key := fieldKey{n, idx}
	if f.onField[key] {
		return false, nil
	}
	if f.onField == nil {
		f.onField = map[fieldKey]bool{}
	}
	f.onField[key] = true
	defer delete(f.onField, key)
	reached := false
	var result litSet
	merge := func(ok bool, g litSet) {
		if !ok {
			return
		}
		if !reached {
			reached = true
			result = g
		} else {
			result = result.intersect(g)
		}
	}
	for _, fn := range f.P.ModFuncs {
		allInstrs(fn, func(b *ssa.BasicBlock, ins ssa.Instruction) {
			switch x := ins.(type) {
			case *ssa.FieldAddr:
				if x.Field != idx || f.P.moduleStruct(deref(x.X.Type())) != n {
					return
				}
				if refs := x.Referrers(); refs != nil {
					for _, r := range *refs {
						if u, ok := r.(*ssa.UnOp); ok && u.Op == token.MUL {
							merge(f.flow(u, acc.union(f.blockLits(u)), depth+1))
						}
					}
				}
			case *ssa.Field:
				if x.Field == idx && f.P.moduleStruct(x.X.Type()) == n {
					merge(f.flow(x, acc.union(f.blockLits(x)), depth+1))
				}
			}
		})
	}
	return reached, result
}

// flowCell: the local cell now holds the tainted value; continue from every read of it
// (loads, slices of an array cell, the address escaping into calls is not followed).
func (f *flower) flowCell(cell *ssa.Alloc, acc litSet, depth int) (bool, litSet) {
	if f.onPath[cell] {
		return false, nil
	}
	f.onPath[cell] = true
	defer delete(f.onPath, cell)
	reached := false
	var result litSet
	merge := func(ok bool, g litSet) {
		if !ok {
			return
		}
		if !reached {
			reached = true
			result = g
		} else {
			result = result.intersect(g)
		}
	}
	for _, al := range f.P.cellAliases(cell) {
		refs := al.Referrers()
		if refs == nil {
			continue
		}
		for _, r := range *refs {
			switch x := r.(type) {
			case *ssa.UnOp:
				merge(f.flow(x, acc.union(f.blockLits(x)), depth+1))
			case *ssa.Slice:
				merge(f.flow(x, acc.union(f.blockLits(x)), depth+1))
			case *ssa.Return:
				// `v := build(); return &v`: the address of the variable holding the value is handed on
				for i, res := range x.Results {
					if res == al {
						merge(f.flowReturn(x.Parent(), i, acc.union(f.blockLits(x)), depth+1, x))
					}
				}
			case ssa.CallInstruction:
				// `use(&v)`: the callee reads the value through the pointer
				c := x.Common()
				for ai, a := range c.Args {
					if a != al {
						continue
					}
					if f.isTerminal(x, ai) {
						f.terminals = append(f.terminals, x)
						merge(true, acc.union(f.blockLits(x)))
						continue
					}
					if callee := f.P.Callee(c); callee != nil && f.P.IsProductFunc(callee) && len(callee.Blocks) > 0 && ai < len(callee.Params) {
						merge(f.flow(callee.Params[ai], acc.union(f.blockLits(x)), depth+1))
					}
				}
			}
		}
	}
	return reached, result
}

// flowReturn: the value is result #idx of fn; it must flow on at ALL static product call sites.
func (f *flower) flowReturn(fn *ssa.Function, idx int, acc litSet, depth int, ret *ssa.Return) (bool, litSet) {
	callers := f.P.Callers(fn)
	if f.viaFn == fn && f.viaCall != nil {
		callers = []ssa.CallInstruction{f.viaCall}
	}
	if len(callers) == 0 {
		return false, nil
	}
	all := true
	first := true
	nImpossible := 0
	var result litSet
	for _, c := range callers {
		val, ok := c.(ssa.Value)
		if !ok {
			// go/defer statement: result dropped
			all = false
			f.dropped = append(f.dropped, FuncName(fn)+" result dropped (go/defer) at "+f.P.Pos(c.Pos()))
			continue
		}
		a2 := acc.union(f.blockLits(c))
		var okc bool
		var g litSet
		if fn.Signature.Results().Len() > 1 {
			// tuple: follow the matching Extract
			okc = false
			if refs := val.Referrers(); refs != nil {
				for _, r := range *refs {
					if ex, isEx := r.(*ssa.Extract); isEx && ex.Index == idx {
						o, gg := f.flow(ex, a2, depth+1)
						if o {
							if !okc {
								okc, g = true, gg
							} else {
								g = g.intersect(gg)
							}
						}
					}
				}
			}
		} else {
			okc, g = f.flow(val, a2, depth+1)
		}
		if !okc {
			all = false
			f.dropped = append(f.dropped, "result of "+FuncName(fn)+" does not reach the reporter from call site "+f.P.Pos(c.Pos())+" in "+FuncName(c.Parent()))
			continue
		}
		// `v, ok := helper(x); if ok { use(v) }`: a condition on another result of the same call is, on this path,
		// the value this return statement gives for it - true / false, or the conditions that make it up
		if ret != nil && fn.Signature.Results().Len() > 1 {
			impossible := false
			g2 := litSet{}
			for k, l := range g {
				ex, isEx := l.Val.(*ssa.Extract)
				if l.Kind != "cond" || !isEx || ex.Tuple != val || ex.Index == idx || ex.Index >= len(ret.Results) {
					g2[k] = l
					continue
				}
				sib := ret.Results[ex.Index]
				if b, isC := constBool(sib); isC {
					if b != l.Pos {
						impossible = true
					}
					continue
				}
				for _, nl := range literals(f.P.condFormula(sib, 0), l.Pos) {
					g2[nl.String()] = nl
				}
			}
			if impossible {
				nImpossible++
				continue // this return never reaches the use under that condition
			}
			g = g2
		}
		// literals about the returned value itself are made comparable across call sites:
		// the descriptor of this call is replaced by a placeholder
		g = f.P.rekey(g, map[ssa.Value]string{val: "$ret(" + FuncName(fn) + ")"})
		if first {
			result, first = g, false
		} else {
			result = result.intersect(g)
		}
	}
	if !all || (first && nImpossible > 0) {
		return false, nil // (nothing reaches the reporter: every caller drops the value on this return)
	}
	return true, result
}

// ---------------------------------------------------------------------------------------------
// natural loops

// loopOf returns the blocks of the innermost natural loop containing b (nil if none).
func loopOf(b *ssa.BasicBlock) map[*ssa.BasicBlock]bool {
	fn := b.Parent()
	// natural loops, merged per header
	loops := map[*ssa.BasicBlock]map[*ssa.BasicBlock]bool{}
	for _, t := range fn.Blocks {
		for _, h := range t.Succs {
			if !dominates(h, t) {
				continue
			}
			body := loops[h]
			if body == nil {
				body = map[*ssa.BasicBlock]bool{h: true}
				loops[h] = body
			}
			work := []*ssa.BasicBlock{t}
			for len(work) > 0 {
				x := work[len(work)-1]
				work = work[:len(work)-1]
				if body[x] {
					continue
				}
				body[x] = true
				work = append(work, x.Preds...)
			}
		}
	}
	var best map[*ssa.BasicBlock]bool
	for _, body := range loops {
		if body[b] && (best == nil || len(body) < len(best)) {
			best = body
		}
	}
	return best
}

// StaticClosure: fn plus every product function statically called (transitively) from it,
// including closures it creates.
func (P *Program) StaticClosure(fn *ssa.Function) []*ssa.Function {
	seen := map[*ssa.Function]bool{}
	var out []*ssa.Function
	var walk func(f *ssa.Function)
	walk = func(f *ssa.Function) {
		if f == nil || seen[f] || !P.IsProductFunc(f) || len(f.Blocks) == 0 {
			return
		}
		seen[f] = true
		out = append(out, f)
		allInstrs(f, func(b *ssa.BasicBlock, ins ssa.Instruction) {
			switch x := ins.(type) {
			case ssa.CallInstruction:
				if c := P.Callee(x.Common()); c != nil {
					walk(c)
				}
			case *ssa.MakeClosure:
				walk(x.Fn.(*ssa.Function))
			}
		})
	}
	walk(fn)
	return out
}

// renameInKeys rewrites every literal key, replacing occurrences of old by new.
func renameInKeys(s litSet, old, new string) litSet {
	if old == "" || len(old) < 8 {
		return s
	}
	r := litSet{}
	for _, l := range s {
		if strings.Contains(l.Key, old) {
			l.Key = strings.ReplaceAll(l.Key, old, new)
		}
		r[l.String()] = l
	}
	return r
}

// rekey recomputes the keys of all literals under the given placeholder substitution.
func (P *Program) rekey(s litSet, ov map[ssa.Value]string) litSet {
	r := litSet{}
	for _, l := range s {
		if l.Val != nil || l.X != nil || len(l.Subs) > 0 {
			if !strings.Contains(l.Key, "$ret(") { // already normalised literals keep their key
				l.Key = P.LitKeyWith(l, ov)
			}
		}
		r[l.String()] = l
	}
	return r
}

// diagPosCall: ci is v.GetPos() on a reporting.Violation whose result becomes the Pos of an analysis.Diagnostic -
// the violation has reached a diagnostic sink (REPORT-GATE checks the sink itself).
func (P *Program) diagPosCall(ci ssa.CallInstruction) bool {
	call, ok := ci.(*ssa.Call)
	if !ok || !call.Call.IsInvoke() || call.Call.Method.Name() != "GetPos" || typeStr(call.Call.Value.Type()) != "reporting.Violation" {
		return false
	}
	refs := call.Referrers()
	if refs == nil {
		return false
	}
	for _, r := range *refs {
		st, ok := r.(*ssa.Store)
		if !ok || st.Val != ssa.Value(call) {
			continue
		}
		fa, ok := st.Addr.(*ssa.FieldAddr)
		if !ok || typeStr(deref(fa.X.Type())) != "golang.org/x/tools/go/analysis.Diagnostic" {
			continue
		}
		if deref(fa.X.Type()).Underlying().(*types.Struct).Field(fa.Field).Name() == "Pos" {
			return true
		}
	}
	return false
}
