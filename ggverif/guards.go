package main

// A-GUARD on SSA: which conditions hold whenever a block executes.
//
// A literal (condition, polarity) guards block B of function F iff every path from F's entry to B takes an
// edge on which the literal is known - decided by removing those edges and testing reachability. This is
// insensitive to the spelling of control flow: early return vs. nesting, switch vs. if-chain, operand
// order of && / ||, negated comparisons, temporaries.
//
// Entry guards of a function compose interprocedurally: a closure inherits the guards of the point where it is
// created (ast.Inspect callbacks, range-over-func bodies); a named function gets the intersection over all its
// static product call sites.

import (
	"go/token"
	"go/types"
	"sort"
	"strings"

	"golang.org/x/tools/go/ssa"
)

// Lit is a literal: the condition Key holds (Pos) or does not hold (!Pos).
type Lit struct {
	Key  string
	Pos  bool
	Val  ssa.Value // the leaf condition value (nil for compound keys)
	Fn   *ssa.Function
	Kind string    // "cond", "eq", "lt", "or", "and", "rangeloop", "rangefunc"
	X, Y ssa.Value // operands for eq / lt
	Subs []Lit     // for compound literals: the sub-literals (each with its own polarity inside the compound)
	Via  string    // helper function this literal was expanded from ("" if direct)
	Ctx  pinMap    // calling context (helper -> call) in which Val / X / Y have to be described (nil: none)
}

// In evaluates f in the calling context the literal was made in.
func (l Lit) In(P *Program, f func()) {
	if len(l.Ctx) == 0 || P == nil {
		f()
		return
	}
	P.PinnedAll(l.Ctx, f)
}

// withCtx marks every literal of the formula as made under pins.
func (f *formula) withCtx(pins pinMap) {
	if f == nil || len(pins) == 0 {
		return
	}
	if f.op == "leaf" {
		np := pinMap{}
		for k, v := range pins {
			np[k] = v
		}
		for k, v := range f.lit.Ctx { // inner context wins
			np[k] = v
		}
		f.lit.Ctx = np
		return
	}
	for _, s := range f.sub {
		s.withCtx(pins)
	}
}

func (l Lit) String() string {
	if l.Pos {
		return "+" + l.Key
	}
	return "-" + l.Key
}

// formula is a boolean combination of leaf conditions.
type formula struct {
	op  string // "leaf", "not", "or", "and"
	sub []*formula
	lit Lit // for leaf: positive literal
}

func (P *Program) condFormula(v ssa.Value, depth int) *formula {
	if depth > 6 {
		return P.leaf(v)
	}
	switch x := v.(type) {
	case *ssa.UnOp:
		if x.Op == token.NOT {
			return &formula{op: "not", sub: []*formula{P.condFormula(x.X, depth+1)}}
		}
	case *ssa.BinOp:
		switch x.Op {
		case token.EQL, token.NEQ:
			a, b := P.KeyDesc(x.X), P.KeyDesc(x.Y)
			X, Y := x.X, x.Y
			if a > b {
				a, b = b, a
				X, Y = Y, X
			}
			f := &formula{op: "leaf", lit: Lit{Key: "eq(" + a + ", " + b + ")", Pos: true, Val: v, Kind: "eq", X: X, Y: Y}}
			if x.Op == token.NEQ {
				return &formula{op: "not", sub: []*formula{f}}
			}
			return f
		case token.LSS, token.GTR, token.LEQ, token.GEQ:
			X, Y := x.X, x.Y
			neg := false
			switch x.Op {
			case token.GTR: // X > Y == Y < X
				X, Y = Y, X
			case token.LEQ: // X <= Y == !(Y < X)
				X, Y = Y, X
				neg = true
			case token.GEQ: // X >= Y == !(X < Y)
				neg = true
			}
			f := &formula{op: "leaf", lit: Lit{Key: "lt(" + P.KeyDesc(X) + ", " + P.KeyDesc(Y) + ")", Pos: true, Val: v, Kind: "lt", X: X, Y: Y}}
			if neg {
				return &formula{op: "not", sub: []*formula{f}}
			}
			return f
		}
	case *ssa.Phi:
		if f := P.phiFormula(x, depth); f != nil {
			return f
		}
	case *ssa.Call:
		if f := P.inlineBoolHelper(x, 0, depth); f != nil {
			return f
		}
	case *ssa.Extract:
		if call, ok := x.Tuple.(*ssa.Call); ok {
			if f := P.inlineBoolHelper(call, x.Index, depth); f != nil {
				return f
			}
		}
	}
	return P.leaf(v)
}

// inlineBoolHelper: the condition is bool result #k of a non-anchor product helper with a single return statement:
// it IS the returned expression, evaluated in the calling context of this call (extracting a condition - or a
// comma-ok lookup - into a helper does not change the literal).
func (P *Program) inlineBoolHelper(call *ssa.Call, k int, depth int) *formula {
	// the static callee, or the function literal a function-typed parameter / local variable stands for
	callee := P.Callee(&call.Call)
	if callee == nil || !P.IsProductFunc(callee) || len(callee.Blocks) == 0 || P.isAnchor(callee) || P.inlineBusy[callee] {
		return nil
	}
	res := callee.Signature.Results()
	if k >= res.Len() {
		return nil
	}
	if b, ok := res.At(k).Type().Underlying().(*types.Basic); !ok || b.Kind() != types.Bool {
		return nil
	}
	var ret *ssa.Return
	n, nFalse := 0, 0
	allInstrs(callee, func(b *ssa.BasicBlock, ins ssa.Instruction) {
		if r, ok := ins.(*ssa.Return); ok {
			// early `return <zero>, false` exits of a (value, ok) helper: the flag is true only on the other return
			if k < len(r.Results) {
				if cv, isC := constBool(r.Results[k]); isC && !cv {
					nFalse++
					return
				}
			}
			ret = r
			n++
		}
	})
	if n != 1 || k >= len(ret.Results) {
		return nil
	}
	if nFalse > 0 {
		return P.inlineGuardedReturn(callee, call, ret, k, depth)
	}
	rv := ret.Results[k]
	if _, isC := rv.(*ssa.Const); isC {
		return nil
	}
	if u, isLoad := rv.(*ssa.UnOp); isLoad && u.Op == token.MUL {
		if cell := P.cellOf(u.X); cell != nil {
			return nil // result variable assigned on several paths (range-over-func bodies): judged by its outcomes
		}
	}
	if P.inlineBusy == nil {
		P.inlineBusy = map[*ssa.Function]bool{}
	}
	P.inlineBusy[callee] = true
	defer delete(P.inlineBusy, callee)
	var f *formula
	pins := map[*ssa.Function]ssa.CallInstruction{callee: call}
	P.PinnedAll(pins, func() { f = P.condFormula(rv, depth+1) })
	f.withCtx(pins)
	return f
}

// inlineGuardedReturn: bool result #k of the helper is false on every return but ret: at the call it is
// (path condition of ret) && (the value returned there), read in the calling context of this call.
func (P *Program) inlineGuardedReturn(callee *ssa.Function, call *ssa.Call, ret *ssa.Return, k int, depth int) *formula {
	if callee.Parent() != nil || len(callee.AnonFuncs) > 0 || len(naturalLoops(callee)) > 0 {
		return nil // a search loop's "found" is an existential over iterations, not one path condition: judged by outcomes
	}
	if P.inlineBusy == nil {
		P.inlineBusy = map[*ssa.Function]bool{}
	}
	P.inlineBusy[callee] = true
	defer delete(P.inlineBusy, callee)
	pins := map[*ssa.Function]ssa.CallInstruction{callee: call}
	f := &formula{op: "and"}
	P.PinnedAll(pins, func() {
		for _, l := range P.BlockGuards(ret.Block()) {
			pos := l.Pos
			l.Pos = true
			leaf := &formula{op: "leaf", lit: l}
			if !pos {
				leaf = &formula{op: "not", sub: []*formula{leaf}}
			}
			f.sub = append(f.sub, leaf)
		}
		if cv, isC := constBool(ret.Results[k]); !(isC && cv) {
			f.sub = append(f.sub, P.condFormula(ret.Results[k], depth+1))
		}
	})
	if len(f.sub) == 0 {
		return nil
	}
	if len(f.sub) == 1 {
		f = f.sub[0]
	}
	f.withCtx(pins)
	return f
}

func (P *Program) leaf(v ssa.Value) *formula {
	return &formula{op: "leaf", lit: Lit{Key: P.KeyDesc(v), Pos: true, Val: v, Kind: "cond"}}
}

// phiFormula recognises the two exact short-circuit shapes:
//
//	A: if c goto J else B ; B (dominated by A's false successor): w ; J: phi[A: true|c, B: w]  ==>  c || w
//	A: if c goto B else J ; B (dominated by A's true successor):  w ; J: phi[A: false|c, B: w] ==>  c && w
func (P *Program) phiFormula(phi *ssa.Phi, depth int) *formula {
	if len(phi.Edges) > 2 {
		return P.phiChainFormula(phi, depth)
	}
	if len(phi.Edges) != 2 {
		return nil
	}
	J := phi.Block()
	for i := 0; i < 2; i++ {
		A := J.Preds[i]
		Bp := J.Preds[1-i]
		ifi, ok := lastInstr(A).(*ssa.If)
		if !ok || A.Succs[0] == A.Succs[1] {
			continue
		}
		ev := phi.Edges[i]
		w := phi.Edges[1-i]
		var trueEdge bool
		var other *ssa.BasicBlock
		if A.Succs[0] == J {
			trueEdge, other = true, A.Succs[1]
		} else if A.Succs[1] == J {
			trueEdge, other = false, A.Succs[0]
		} else {
			continue
		}
		// value on the A->J edge must be the constant the branch implies, or the condition itself
		okVal := ev == ifi.Cond
		inverted := false
		if c, isC := ev.(*ssa.Const); isC && c.Value != nil {
			okVal = true
			// `!x && y` is built as `if x { false } else { y }`: the constant is the opposite of the branch taken
			inverted = (c.Value.ExactString() == "true") != trueEdge
		}
		if !okVal {
			continue
		}
		if !dominates(other, Bp) {
			continue
		}
		cf := P.condFormula(ifi.Cond, depth+1)
		wf := P.condFormula(w, depth+1)
		if inverted {
			ncf := &formula{op: "not", sub: []*formula{cf}}
			if trueEdge { // cond -> false; !cond -> w
				return &formula{op: "and", sub: []*formula{ncf, wf}}
			}
			return &formula{op: "or", sub: []*formula{ncf, wf}} // !cond -> true; cond -> w
		}
		if trueEdge {
			return &formula{op: "or", sub: []*formula{cf, wf}}
		}
		return &formula{op: "and", sub: []*formula{cf, wf}}
	}
	return nil
}

func lastInstr(b *ssa.BasicBlock) ssa.Instruction {
	if len(b.Instrs) == 0 {
		return nil
	}
	return b.Instrs[len(b.Instrs)-1]
}

func dominates(a, b *ssa.BasicBlock) bool {
	for x := b; x != nil; x = x.Idom() {
		if x == a {
			return true
		}
	}
	return false
}

// literals returns the literals implied by f having truth value val.
func literals(f *formula, val bool) []Lit {
	switch f.op {
	case "leaf":
		l := f.lit
		l.Pos = val
		return []Lit{l}
	case "not":
		return literals(f.sub[0], !val)
	case "or", "and":
		decomposes := (f.op == "and") == val
		if decomposes {
			var out []Lit
			for _, s := range f.sub {
				out = append(out, literals(s, val)...)
			}
			return out
		}
		// compound literal
		var keys []string
		var subs []Lit
		for _, s := range f.sub {
			keys = append(keys, formulaKey(s))
			subs = append(subs, literals(s, true)...)
		}
		sort.Strings(keys)
		return []Lit{{Key: f.op + "(" + strings.Join(keys, ", ") + ")", Pos: val, Kind: f.op, Subs: subs}}
	}
	return nil
}

func formulaKey(f *formula) string {
	switch f.op {
	case "leaf":
		return f.lit.Key
	case "not":
		return "not(" + formulaKey(f.sub[0]) + ")"
	}
	var keys []string
	for _, s := range f.sub {
		keys = append(keys, formulaKey(s))
	}
	sort.Strings(keys)
	return f.op + "(" + strings.Join(keys, ", ") + ")"
}

type edge struct{ from, to *ssa.BasicBlock }

// funcGuards caches, per function, the literals known on each CFG edge.
type funcGuards struct {
	fn       *ssa.Function
	edgeLits map[edge][]Lit
	all      map[string]Lit // "+key" / "-key"
	memo     map[*ssa.BasicBlock][]Lit
}

func (P *Program) guardsOf(fn *ssa.Function) *funcGuards {
	if P.fg == nil {
		P.fg = map[*ssa.Function]*funcGuards{}
	}
	if g, ok := P.fg[fn]; ok {
		return g
	}
	g := &funcGuards{fn: fn, edgeLits: map[edge][]Lit{}, all: map[string]Lit{}, memo: map[*ssa.BasicBlock][]Lit{}}
	for _, b := range fn.Blocks {
		ifi, ok := lastInstr(b).(*ssa.If)
		if !ok || len(b.Succs) != 2 || b.Succs[0] == b.Succs[1] {
			continue
		}
		f := P.condFormula(ifi.Cond, 0)
		for k, val := range []bool{true, false} {
			lits := literals(f, val)
			for i := range lits {
				lits[i].Fn = fn
				if b.Comment == "rangeindex.loop" || b.Comment == "rangeiter.loop" {
					lits[i].Kind = "rangeloop"
				}
				if bo, isB := ifi.Cond.(*ssa.BinOp); isB && bo.Op == token.LSS && fullIndexLoopBound(bo.X) != nil {
					lits[i].Kind = "rangeloop" // for i := 0; i < len(x); i++
				}
				// the rotated form (`for i := range len(x)`): the test of the value that enters the loop body
				if bo, isB := ifi.Cond.(*ssa.BinOp); isB && bo.Op == token.LSS && len(b.Succs) == 2 {
					for _, ins := range b.Succs[0].Instrs {
						ph, isPhi := ins.(*ssa.Phi)
						if !isPhi {
							break
						}
						if fullIndexLoopBound(ph) == nil {
							continue
						}
						for pi, pred := range b.Succs[0].Preds {
							if pred != b || pi >= len(ph.Edges) {
								continue
							}
							in := ph.Edges[pi]
							same := in == bo.X
							if cx, isC := bo.X.(*ssa.Const); isC && !same {
								ce, isCE := in.(*ssa.Const)
								same = isCE && cx.Value != nil && ce.Value != nil && cx.Value.ExactString() == ce.Value.ExactString()
							}
							if same {
								lits[i].Kind = "rangeloop"
							}
						}
					}
				}
				if isJumpCond(ifi.Cond) {
					lits[i].Kind = "rangefunc"
				}
				g.all[lits[i].String()] = lits[i]
			}
			e := edge{b, b.Succs[k]}
			g.edgeLits[e] = append(g.edgeLits[e], lits...)
		}
	}
	// short-circuit chains lowered to branches:  if c0 && c1 && ... { R } else { T }  /  if c0 || c1 ... { T }
	// every edge into the common target T carries the compound literal -and(c0..cn) resp. +or(c0..cn)
	isIf := func(b *ssa.BasicBlock) *ssa.If {
		ifi, ok := lastInstr(b).(*ssa.If)
		if !ok || len(b.Succs) != 2 || b.Succs[0] == b.Succs[1] {
			return nil
		}
		return ifi
	}
	for _, a0 := range fn.Blocks {
		if isIf(a0) == nil {
			continue
		}
		for e0 := 0; e0 < 2; e0++ {
			// chain of branches that all have one arm into the common target T (the arm may be the true arm of one
			// test and the false arm of the next: `if a || !b { T }`); T is reached from the chain iff some test takes
			// its arm into T
			T := a0.Succs[e0]
			chain := []*ssa.BasicBlock{a0}
			exits := []int{e0}
			cur := a0
			for {
				nxt := cur.Succs[1-exits[len(exits)-1]]
				if isIf(nxt) == nil || len(nxt.Preds) != 1 || nxt == a0 || nxt == T {
					break
				}
				e := -1
				switch {
				case nxt.Succs[0] == T:
					e = 0
				case nxt.Succs[1] == T:
					e = 1
				}
				if e < 0 {
					break
				}
				chain = append(chain, nxt)
				exits = append(exits, e)
				cur = nxt
			}
			if len(chain) < 2 {
				continue
			}
			for n := 2; n <= len(chain); n++ {
				sub := chain[:n]
				allFalse, allTrue := true, true
				var fs []*formula
				for i, b := range sub {
					f := P.condFormula(isIf(b).Cond, 0)
					if exits[i] == 0 {
						allFalse = false
					} else {
						allTrue = false
					}
					fs = append(fs, f)
				}
				var lits []Lit
				switch {
				case allFalse: // if c0 && c1 ... { R } else { T }
					lits = literals(&formula{op: "and", sub: fs}, false)
				case allTrue: // if c0 || c1 ... { T }
					lits = literals(&formula{op: "or", sub: fs}, true)
				default:
					var ms []*formula
					for i, f := range fs {
						if exits[i] == 0 {
							ms = append(ms, f)
						} else {
							ms = append(ms, &formula{op: "not", sub: []*formula{f}})
						}
					}
					lits = literals(&formula{op: "or", sub: ms}, true)
				}
				for i := range lits {
					lits[i].Fn = fn
					g.all[lits[i].String()] = lits[i]
				}
				for _, b := range sub {
					e := edge{b, T}
					g.edgeLits[e] = append(g.edgeLits[e], lits...)
				}
			}
		}
	}
	P.fg[fn] = g
	return g
}

// BlockGuards returns the literals that hold whenever block b executes (intra-procedural).
func (P *Program) BlockGuards(b *ssa.BasicBlock) []Lit {
	fn := b.Parent()
	g := P.guardsOf(fn)
	if r, ok := g.memo[b]; ok {
		return r
	}
	var out []Lit
	keys := make([]string, 0, len(g.all))
	for k := range g.all {
		keys = append(keys, k)
	}
	sort.Strings(keys)
	for _, k := range keys {
		if !reachableWithout(fn, b, g, k) {
			out = append(out, g.all[k])
		}
	}
	g.memo[b] = out
	return out
}

// reachableWithout: is target reachable from entry when every edge carrying literal k is removed?
func reachableWithout(fn *ssa.Function, target *ssa.BasicBlock, g *funcGuards, k string) bool {
	if len(fn.Blocks) == 0 {
		return false
	}
	seen := map[*ssa.BasicBlock]bool{fn.Blocks[0]: true}
	work := []*ssa.BasicBlock{fn.Blocks[0]}
	for len(work) > 0 {
		b := work[len(work)-1]
		work = work[:len(work)-1]
		if b == target {
			return true
		}
		for _, s := range b.Succs {
			if seen[s] {
				continue
			}
			blocked := false
			for _, l := range g.edgeLits[edge{b, s}] {
				if l.String() == k {
					blocked = true
				}
			}
			if blocked {
				continue
			}
			seen[s] = true
			work = append(work, s)
		}
	}
	return false
}

// EdgeGuards: literals that hold when the edge from->to is taken.
func (P *Program) EdgeGuards(from, to *ssa.BasicBlock) []Lit {
	out := append([]Lit{}, P.BlockGuards(from)...)
	g := P.guardsOf(from.Parent())
	out = append(out, g.edgeLits[edge{from, to}]...)
	return dedupLits(out)
}

func dedupLits(in []Lit) []Lit {
	seen := map[string]bool{}
	var out []Lit
	for _, l := range in {
		if !seen[l.String()] {
			seen[l.String()] = true
			out = append(out, l)
		}
	}
	sort.Slice(out, func(i, j int) bool { return out[i].String() < out[j].String() })
	return out
}

// EntryGuards: literals that hold whenever fn is entered (through product code).
func (P *Program) EntryGuards(fn *ssa.Function) []Lit {
	if P.entryMemo == nil {
		P.entryMemo = map[*ssa.Function][]Lit{}
		P.entryBusy = map[*ssa.Function]bool{}
	}
	if r, ok := P.entryMemo[fn]; ok {
		return r
	}
	if P.entryBusy[fn] {
		return nil
	}
	P.entryBusy[fn] = true
	defer delete(P.entryBusy, fn)
	var out []Lit
	if closureLike(fn) {
		if mc := P.closureSite(fn); mc != nil {
			out = append(out, P.BlockGuards(mc.Block())...)
			out = append(out, P.EntryGuards(mc.Parent())...)
		}
		// a function literal that is called directly from product code additionally has its call sites' guards
		if callers := P.Callers(fn); len(callers) > 0 {
			var inter []Lit
			for i, c := range callers {
				cg := append([]Lit{}, P.BlockGuards(c.Block())...)
				cg = append(cg, P.EntryGuards(c.Parent())...)
				if i == 0 {
					inter = cg
				} else {
					inter = intersectLits(inter, cg)
				}
			}
			out = append(out, inter...)
		}
	} else {
		callers := P.Callers(fn)
		first := true
		for _, c := range callers {
			cg := append([]Lit{}, P.BlockGuards(c.Block())...)
			cg = append(cg, P.EntryGuards(c.Parent())...)
			if first {
				out = cg
				first = false
			} else {
				out = intersectLits(out, cg)
			}
		}
	}
	out = dedupLits(out)
	P.entryMemo[fn] = out
	return out
}

func intersectLits(a, b []Lit) []Lit {
	in := map[string]bool{}
	for _, l := range b {
		in[l.String()] = true
	}
	var out []Lit
	for _, l := range a {
		if in[l.String()] {
			out = append(out, l)
		}
	}
	return out
}

// Guards: all literals that hold when instruction ins executes (intra + entry guards).
func (P *Program) Guards(ins ssa.Instruction) []Lit {
	out := append([]Lit{}, P.BlockGuards(ins.Block())...)
	out = append(out, P.EntryGuards(ins.Parent())...)
	return dedupLits(out)
}

// GuardsFromCallback: like Guards, but stops composing at the innermost enclosing callback function
// (used for per-node properties of walk callbacks).
func litKeys(ls []Lit) []string {
	var out []string
	for _, l := range ls {
		out = append(out, l.String())
	}
	sort.Strings(out)
	return out
}

// isJumpCond: condition on the synthetic jump$N state variable of a range-over-func loop.
func isJumpCond(v ssa.Value) bool {
	b, ok := v.(*ssa.BinOp)
	if !ok {
		return false
	}
	for _, op := range []ssa.Value{b.X, b.Y} {
		if u, ok := op.(*ssa.UnOp); ok && u.Op == token.MUL {
			switch a := u.X.(type) {
			case *ssa.Alloc:
				if strings.HasPrefix(a.Comment, "jump$") {
					return true
				}
			case *ssa.FreeVar:
				if strings.HasPrefix(a.Name(), "jump$") {
					return true
				}
			}
		}
	}
	return false
}

// ---------------------------------------------------------------------------------------------
// Predicate summaries: what a product function returning bool implies when it returns true / false.

type boolSum struct {
	ok        bool
	trueLits  []Lit
	falseLits []Lit
	returns   []boolReturn
}

type boolReturn struct {
	ret      *ssa.Return
	val      ssa.Value
	guards   []Lit
	mayTrue  bool
	mayFalse bool
}

func constBool(v ssa.Value) (val bool, isConst bool) {
	c, ok := v.(*ssa.Const)
	if !ok || c.Value == nil {
		return false, false
	}
	s := c.Value.ExactString()
	if s == "true" {
		return true, true
	}
	if s == "false" {
		return false, true
	}
	return false, false
}

func (P *Program) BoolSummary(fn *ssa.Function) *boolSum { return P.BoolSummaryK(fn, 0, true) }

// BoolSummaryK summarises result #k of fn (a bool). single = fn must have exactly one result.
func (P *Program) BoolSummaryK(fn *ssa.Function, k int, single bool) *boolSum {
	if P.boolSumsK == nil {
		P.boolSumsK = map[boolSumKey]*boolSum{}
	}
	key := boolSumKey{fn, k}
	if s, ok := P.boolSumsK[key]; ok {
		return s
	}
	s := &boolSum{}
	P.boolSumsK[key] = s
	if fn == nil || len(fn.Blocks) == 0 || k >= fn.Signature.Results().Len() {
		return s
	}
	if b, ok := fn.Signature.Results().At(k).Type().Underlying().(*types.Basic); !ok || b.Kind() != types.Bool {
		return s
	}
	firstT, firstF := true, true
	var tl, fl litSet
	allInstrs(fn, func(b *ssa.BasicBlock, ins ssa.Instruction) {
		r, ok := ins.(*ssa.Return)
		if !ok || k >= len(r.Results) {
			return
		}
		v := r.Results[k]
		br := boolReturn{ret: r, val: v, guards: P.BlockGuards(b), mayTrue: true, mayFalse: true}
		if cv, isC := constBool(v); isC {
			br.mayTrue, br.mayFalse = cv, !cv
		}
		s.returns = append(s.returns, br)
		f := P.condFormula(v, 0)
		if br.mayTrue {
			set := newLitSet(br.guards)
			if _, isC := constBool(v); !isC {
				set = set.union(newLitSet(literals(f, true)))
			}
			if firstT {
				tl, firstT = set, false
			} else {
				tl = tl.intersect(set)
			}
		}
		if br.mayFalse {
			set := newLitSet(br.guards)
			if _, isC := constBool(v); !isC {
				set = set.union(newLitSet(literals(f, false)))
			}
			if firstF {
				fl, firstF = set, false
			} else {
				fl = fl.intersect(set)
			}
		}
	})
	s.ok = len(s.returns) > 0
	s.trueLits = tl.list()
	s.falseLits = fl.list()
	return s
}

// litHelperCall: the literal is the bool result (#k) of a call of a product function with a body.
func (P *Program) litHelperCall(l Lit) (*ssa.Call, int) {
	if l.Kind != "cond" || l.Val == nil {
		return nil, 0
	}
	var call *ssa.Call
	k := 0
	switch x := l.Val.(type) {
	case *ssa.Call:
		call = x
	case *ssa.Extract:
		c, ok := x.Tuple.(*ssa.Call)
		if !ok {
			return nil, 0
		}
		call, k = c, x.Index
	default:
		return nil, 0
	}
	callee := P.Callee(&call.Call)
	if callee == nil || !P.IsProductFunc(callee) || len(callee.Blocks) == 0 {
		return nil, 0
	}
	if !P.BoolSummaryK(callee, k, false).ok {
		return nil, 0
	}
	return call, k
}

// Expand adds, for every literal that is a call of a product bool function, the literals its result implies; and
// for every literal "the pointer/slice returned by product helper h is not nil", the conditions common to all the
// ways h returns something other than the constant nil (read in the calling context of that call).
func (P *Program) Expand(lits []Lit) []Lit {
	out := append([]Lit{}, lits...)
	seen := map[string]bool{}
	for _, l := range out {
		seen[l.String()] = true
	}
	addAll := func(add []Lit, via string) {
		for _, a := range add {
			if a.Kind == "rangeloop" || a.Kind == "rangefunc" {
				continue
			}
			if a.Via == "" {
				a.Via = via
			}
			if !seen[a.String()] {
				seen[a.String()] = true
				out = append(out, a)
			}
		}
	}
	for i := 0; i < len(out) && i < 600; i++ {
		l := out[i]
		if call, k := P.nonNilHelperResult(l); call != nil {
			callee := call.Call.StaticCallee()
			addAll(P.nonNilSummary(call, k), FuncName(callee))
			continue
		}
		call, k := P.litHelperCall(l)
		if call == nil {
			continue
		}
		callee := P.Callee(&call.Call)
		if P.isAnchor(callee) {
			continue // anchors (containers, configuration, ...) are judged by their own rules, not looked into
		}
		sum := P.BoolSummaryK(callee, k, false)
		add := sum.falseLits
		if l.Pos {
			add = sum.trueLits
		}
		addAll(add, FuncName(callee))
	}
	return out
}

// nonNilHelperResult: literal l says that result #k of a call of a non-anchor product helper is not nil.
func (P *Program) nonNilHelperResult(l Lit) (*ssa.Call, int) {
	if l.Kind != "eq" || l.Pos || l.X == nil || l.Y == nil {
		return nil, 0
	}
	var v ssa.Value
	switch {
	case isNilConst(l.X):
		v = l.Y
	case isNilConst(l.Y):
		v = l.X
	default:
		return nil, 0
	}
	// look through a single-assignment local variable
	for i := 0; i < 4; i++ {
		u, ok := v.(*ssa.UnOp)
		if !ok || u.Op != token.MUL {
			break
		}
		cell := P.cellOf(u.X)
		if cell == nil {
			break
		}
		vals, _, escaped := P.CellStores(cell)
		if escaped || len(vals) != 1 {
			break
		}
		v = vals[0]
	}
	var call *ssa.Call
	k := 0
	switch x := v.(type) {
	case *ssa.Call:
		call = x
	case *ssa.Extract:
		c, ok := x.Tuple.(*ssa.Call)
		if !ok {
			return nil, 0
		}
		call, k = c, x.Index
	default:
		return nil, 0
	}
	callee := call.Call.StaticCallee()
	if callee == nil || !P.IsProductFunc(callee) || len(callee.Blocks) == 0 || P.isAnchor(callee) || P.inlineBusy[callee] {
		return nil, 0
	}
	return call, k
}

// nonNilSummary: the literals that hold on every return of the callee whose result #k is not the constant nil.
func (P *Program) nonNilSummary(call *ssa.Call, k int) []Lit {
	callee := call.Call.StaticCallee()
	if P.inlineBusy == nil {
		P.inlineBusy = map[*ssa.Function]bool{}
	}
	P.inlineBusy[callee] = true
	defer delete(P.inlineBusy, callee)
	var res litSet
	first := true
	P.PinnedAll(map[*ssa.Function]ssa.CallInstruction{callee: call}, func() {
		allInstrs(callee, func(b *ssa.BasicBlock, ins ssa.Instruction) {
			r, ok := ins.(*ssa.Return)
			if !ok || k >= len(r.Results) || isNilConst(r.Results[k]) {
				return
			}
			g := P.BlockGuards(b)
			// a result that is itself another helper's non-nil result / a phi of such is not followed: its own
			// literal (result != nil) is not implied here
			set := newLitSet(g)
			if first {
				res, first = set, false
			} else {
				res = res.intersect(set)
			}
		})
	})
	if first {
		return nil
	}
	out := res.list()
	for i := range out {
		np := pinMap{callee: call}
		for k, v := range out[i].Ctx {
			np[k] = v
		}
		out[i].Ctx = np
	}
	return out
}

// BlockCutBy: does every path from entry to b take an edge carrying a literal that satisfies pred?
func (P *Program) BlockCutBy(b *ssa.BasicBlock, pred func(Lit) bool) bool {
	return P.BlockCutByOrVia(b, pred, nil)
}

// BlockCutByOrVia: every path from entry to b takes an edge carrying a literal that satisfies pred, or passes
// through block via first.
func (P *Program) BlockCutByOrVia(b *ssa.BasicBlock, pred func(Lit) bool, via *ssa.BasicBlock) bool {
	fn := b.Parent()
	g := P.guardsOf(fn)
	if len(fn.Blocks) == 0 {
		return false
	}
	seen := map[*ssa.BasicBlock]bool{fn.Blocks[0]: true}
	work := []*ssa.BasicBlock{fn.Blocks[0]}
	for len(work) > 0 {
		x := work[len(work)-1]
		work = work[:len(work)-1]
		if x == via {
			continue
		}
		if x == b {
			return false
		}
		for _, s := range x.Succs {
			if seen[s] {
				continue
			}
			blocked := false
			for _, l := range g.edgeLits[edge{x, s}] {
				if pred(l) {
					blocked = true
				}
			}
			if blocked {
				continue
			}
			seen[s] = true
			work = append(work, s)
		}
	}
	return true
}

// GuardPaths enumerates the static call paths from a root (walk callback, function without product callers)
// to instruction ins and returns, for each, the literals that hold along it (union of block guards).
func (P *Program) GuardPaths(ins ssa.Instruction) [][]Lit { return P.GuardPathsVia(ins, nil) }

// GuardPathsVia: like GuardPaths; when via != nil only the paths that enter ins's function through that call site.
func (P *Program) GuardPathsVia(ins ssa.Instruction, via ssa.CallInstruction) [][]Lit {
	var out [][]Lit
	var walk func(fn *ssa.Function, acc litSet, onPath map[*ssa.Function]bool)
	walk = func(fn *ssa.Function, acc litSet, onPath map[*ssa.Function]bool) {
		if len(out) >= 64 || onPath[fn] {
			return
		}
		onPath[fn] = true
		defer delete(onPath, fn)
		if closureLike(fn) && len(P.Callers(fn)) == 0 {
			if mc := P.closureSite(fn); mc != nil {
				a2 := acc.union(newLitSet(P.BlockGuards(mc.Block())))
				walk(mc.Parent(), a2, onPath)
				return
			}
		}
		callers := P.Callers(fn)
		if len(callers) == 0 {
			out = append(out, acc.list())
			return
		}
		for _, c := range callers {
			if via != nil && fn == ins.Parent() && c != via {
				continue
			}
			a2 := acc.union(newLitSet(P.BlockGuards(c.Block())))
			walk(c.Parent(), a2, onPath)
		}
	}
	walk(ins.Parent(), newLitSet(P.BlockGuards(ins.Block())), map[*ssa.Function]bool{})
	return out
}

// phiChainFormula: value of `c0 && c1 && ... && w` (or the || form) lowered to an n-edge phi:
// all edges but one carry the same boolean constant k and come straight from the If block of c_i on the
// branch that decides the result; the remaining edge carries w.
func (P *Program) phiChainFormula(phi *ssa.Phi, depth int) *formula {
	J := phi.Block()
	wIdx := -1
	var k, kSet bool
	for i, e := range phi.Edges {
		cv, isC := constBool(e)
		if !isC {
			if wIdx >= 0 {
				return nil
			}
			wIdx = i
			continue
		}
		if kSet && cv != k {
			return nil
		}
		k, kSet = cv, true
	}
	if wIdx < 0 || !kSet {
		return nil
	}
	var subs []*formula
	B := J.Preds[wIdx]
	for i := range phi.Edges {
		if i == wIdx {
			continue
		}
		A := J.Preds[i]
		ifi, ok := lastInstr(A).(*ssa.If)
		if !ok || A.Succs[0] == A.Succs[1] {
			return nil
		}
		// edge A->J must be the branch on which c_i has value k
		if k && A.Succs[0] != J {
			return nil
		}
		if !k && A.Succs[1] != J {
			return nil
		}
		if !dominates(A, B) {
			return nil
		}
		subs = append(subs, P.condFormula(ifi.Cond, depth+1))
	}
	subs = append(subs, P.condFormula(phi.Edges[wIdx], depth+1))
	if k {
		return &formula{op: "or", sub: subs}
	}
	return &formula{op: "and", sub: subs}
}

// GuardsWithin: literals that hold at ins, composed only up to (and including) function top
// (closure-creation points between ins and top are followed; callers of top are not).
func (P *Program) GuardsWithin(ins ssa.Instruction, top *ssa.Function) []Lit {
	out := append([]Lit{}, P.BlockGuards(ins.Block())...)
	fn := ins.Parent()
	for steps := 0; fn != nil && fn != top && steps < 16; steps++ {
		if closureLike(fn) {
			if mc := P.closureSite(fn); mc != nil {
				out = append(out, P.BlockGuards(mc.Block())...)
			}
		}
		// invoked at exactly one (pinned) place - a helper called from top, or a function literal handed to such a
		// helper and called there: the guards of that place hold as well, and the chain continues from there
		if callers := P.Callers(fn); len(callers) == 1 {
			out = append(out, P.BlockGuards(callers[0].Block())...)
			fn = callers[0].Parent()
			continue
		}
		if mc := P.closureSite(fn); mc != nil {
			fn = mc.Parent()
		} else {
			fn = fn.Parent()
		}
	}
	return dedupLits(out)
}

// ValueCase: value v takes (terminal) value Val when the literals Guards hold (those on the way from the
// alternatives' origins to v; the guards of v's own block are not included).
type ValueCase struct {
	Val    ssa.Value
	Guards []Lit
	Desc   string // descriptor of Val in the calling context it was found in
}

// ValueCases splits v into its alternatives through phis (edge guards) and through product helpers that compute
// it (guards of each return statement, read in the calling context of that call).
func (P *Program) ValueCases(v ssa.Value, depth int) []ValueCase {
	if depth > 6 {
		return []ValueCase{{Val: v, Desc: P.Desc(v)}}
	}
	with := func(cs []ValueCase, g []Lit) []ValueCase {
		var out []ValueCase
		for _, c := range cs {
			out = append(out, ValueCase{c.Val, dedupLits(append(append([]Lit{}, c.Guards...), g...)), c.Desc})
		}
		return out
	}
	helper := func(call *ssa.Call, k int) []ValueCase {
		callee := call.Call.StaticCallee()
		if callee == nil || !P.IsProductFunc(callee) || len(callee.Blocks) == 0 || P.isAnchor(callee) || P.inlineBusy[callee] {
			return nil
		}
		if P.inlineBusy == nil {
			P.inlineBusy = map[*ssa.Function]bool{}
		}
		P.inlineBusy[callee] = true
		defer delete(P.inlineBusy, callee)
		var out []ValueCase
		P.PinnedAll(map[*ssa.Function]ssa.CallInstruction{callee: call}, func() {
			allInstrs(callee, func(b *ssa.BasicBlock, ins ssa.Instruction) {
				if r, ok := ins.(*ssa.Return); ok && k < len(r.Results) {
					out = append(out, with(P.ValueCases(r.Results[k], depth+1), P.BlockGuards(b))...)
				}
			})
		})
		return out
	}
	switch x := v.(type) {
	case *ssa.Phi:
		var out []ValueCase
		for i, e := range x.Edges {
			out = append(out, with(P.ValueCases(e, depth+1), P.EdgeGuards(x.Block().Preds[i], x.Block()))...)
		}
		return out
	case *ssa.Call:
		if cs := helper(x, 0); cs != nil {
			return cs
		}
	case *ssa.Extract:
		if call, ok := x.Tuple.(*ssa.Call); ok {
			if cs := helper(call, x.Index); cs != nil {
				return cs
			}
		}
	}
	return []ValueCase{{Val: v, Desc: P.Desc(v)}}
}
