package main

// Linear integer reasoning for the BOUNDS rule (C10): an index or slice expression is in range if
//
//	0 <= lo <= hi <= len(x)
//
// follows from (a) how the operands are computed (constants, +, -, *const, /const, len, min, max, joins with the
// conditions of each incoming edge, counting-loop variables) and (b) the conditions that guard the access. The
// entailment is decided by Fourier-Motzkin elimination over the rationals (sound for integers: if the relaxation of
// "facts and not goal" has no solution, no integer solution exists), with a bounded number of case splits for
// joins / min / max / disjunctive guards. Machine-integer overflow is not modelled.
//
// Soundness notes. Variables stand for SSA values; two SSA values share a variable only if they are structurally
// the same read (same field / element / length of the same SSA value) - memory is assumed not to be written between
// two such reads (the analysed code only reads the AST and its own finished tables). A condition is used as a fact
// only where its branch dominates the access (or, for a parameter, where it dominates the call in every caller that
// is taken as an alternative). Descriptor equality is NOT used here: the values of different loop iterations have
// equal descriptors.

import (
	"fmt"
	"go/constant"
	"go/token"
	"go/types"
	"os"
	"sort"
	"strings"

	"golang.org/x/tools/go/ssa"
)

// linExpr: c + sum t[v]*v ; as a constraint it means  expr >= 0.
type linExpr struct {
	c int64
	t map[string]int64
}

func linConst(c int64) linExpr { return linExpr{c: c} }
func linVar(v string) linExpr  { return linExpr{t: map[string]int64{v: 1}} }

func (a linExpr) add(b linExpr, kb int64) linExpr {
	out := linExpr{c: a.c + kb*b.c, t: map[string]int64{}}
	for v, k := range a.t {
		out.t[v] = k
	}
	for v, k := range b.t {
		out.t[v] += kb * k
		if out.t[v] == 0 {
			delete(out.t, v)
		}
	}
	return out
}

func (a linExpr) scale(k int64) linExpr { return linConst(0).add(a, k) }
func (a linExpr) isConst() bool         { return len(a.t) == 0 }

func (a linExpr) key() string {
	var vs []string
	for v := range a.t {
		vs = append(vs, v)
	}
	sort.Strings(vs)
	var sb strings.Builder
	fmt.Fprintf(&sb, "%d", a.c)
	for _, v := range vs {
		fmt.Fprintf(&sb, "%+d*%s", a.t[v], v)
	}
	return sb.String()
}

// geq: a >= b  as constraint.
func geq(a, b linExpr) linExpr { return a.add(b, -1) }

// linAlt: one alternative of a disjunction: a conjunction of constraints.
type linAlt []linExpr

type linCtx struct {
	c         *Ctx
	P         *Program
	facts     []linExpr
	disj      [][]linAlt
	vars      map[ssa.Value]linExpr
	trust     bool // parameters / entry guards may be taken from the product callers (function not exported)
	depth     int
	nFresh    int
	ids       map[ssa.Value]string
	bound     map[*ssa.Function]bool // functions whose parameters were bound to their callers already
	inst      string                 // suffix of names local to one inlined helper call
	root      *linCtx                // the context facts are collected in (nil: this one)
	joinDepth int
	defSink   *linCtx // where facts that define values (true wherever the value exists) are collected; nil: here
}

// def: the context that collects definitional facts (len >= 0, min/max relations, parameter bindings, ...): a
// context made for one edge or one caller keeps only what is known on that edge for itself.
func (lc *linCtx) def() *linCtx {
	if lc.defSink != nil {
		return lc.defSink
	}
	return lc
}

func (lc *linCtx) top() *linCtx {
	if lc.root != nil {
		return lc.root
	}
	return lc
}

func isIntType(t types.Type) bool {
	b, ok := t.Underlying().(*types.Basic)
	return ok && b.Info()&types.IsInteger != 0
}

func (lc *linCtx) fresh(prefix string, v ssa.Value) string {
	lc.nFresh++
	return fmt.Sprintf("%s#%d", prefix, lc.nFresh)
}

func (lc *linCtx) lenVar(x ssa.Value) linExpr {
	P := lc.P
	if cs, ok := x.(*ssa.Const); ok && cs.Value != nil && cs.Value.Kind() == constant.String {
		return linConst(int64(len(constant.StringVal(cs.Value))))
	}
	_ = P
	name := "len:" + lc.id(x)
	e := linVar(name)
	lc.def().facts = append(lc.def().facts, e) // len >= 0
	if prm, ok := lc.strip(x).(*ssa.Parameter); ok && lc.trust && lc.root == nil {
		lc.bindParams(prm.Parent())
	}
	// parallel slices: fields of one struct that only ever grow together have the same length
	if n, fi := sliceFieldOf(lc.strip(x)); n != nil && lc.c != nil {
		own := "." + n.Underlying().(*types.Struct).Field(fi).Name() + "))"
		if strings.HasSuffix(name, own) {
			sibs := lc.c.lenEqSiblings(n, fi)
			if in, isI := lc.strip(x).(ssa.Instruction); isI && lc.c.lenEqWriters[n][in.Parent()] {
				sibs = nil // a function that builds the lists sees them half built
			}
			for _, sib := range sibs {
				sn := strings.TrimSuffix(name, own) + "." + n.Underlying().(*types.Struct).Field(sib).Name() + "))"
				se := linVar(sn)
				lc.def().facts = append(lc.def().facts, se, geq(e, se), geq(se, e))
			}
		}
	}
	if mk, ok := lc.strip(x).(*ssa.MakeSlice); ok {
		n := lc.of(mk.Len)
		lc.def().facts = append(lc.def().facts, geq(e, n), geq(n, e))
	}
	// []rune(s) has at most len(s) elements (one per character); string(runes) at least len(runes) bytes
	if cv, ok := lc.strip(x).(*ssa.Convert); ok && lc.depth < 20 {
		switch runeConversion(cv) {
		case 1: // string -> []rune
			lc.depth++
			ls := lc.lenVar(cv.X)
			lc.depth--
			lc.def().facts = append(lc.def().facts, geq(ls, e))
		case 2: // []rune -> string
			lc.depth++
			lr := lc.lenVar(cv.X)
			lc.depth--
			lc.def().facts = append(lc.def().facts, geq(e, lr))
		}
	}
	switch y := lc.strip(x).(type) {
	case *ssa.BinOp:
		// string concatenation: the lengths add up
		if b, isB := y.Type().Underlying().(*types.Basic); isB && b.Info()&types.IsString != 0 && y.Op == token.ADD && lc.depth < 20 {
			lc.depth++
			sum := lc.lenVar(y.X).add(lc.lenVar(y.Y), 1)
			lc.depth--
			lc.def().facts = append(lc.def().facts, geq(e, sum), geq(sum, e))
		}
	case *ssa.Slice:
		// x[lo:hi] that was evaluated (did not panic): 0 <= lo <= hi <= len(x), and its length is hi - lo
		if _, isArr := deref(y.X.Type()).Underlying().(*types.Array); !isArr && y.Max == nil && lc.depth < 20 {
			lc.depth++
			lx := lc.lenVar(y.X)
			lo, hi := linConst(0), lx
			if y.Low != nil {
				lo = lc.of(y.Low)
			}
			if y.High != nil {
				hi = lc.of(y.High)
			}
			lc.depth--
			d := hi.add(lo, -1)
			lc.def().facts = append(lc.def().facts, lo, geq(hi, lo), geq(lx, hi), geq(e, d), geq(d, e))
		}
	}
	return e
}

// strip looks through value-preserving wrappers and single-assignment local variables.
func (lc *linCtx) strip(v ssa.Value) ssa.Value {
	for i := 0; i < 10; i++ {
		switch x := v.(type) {
		case *ssa.ChangeType:
			v = x.X
		case *ssa.MakeInterface:
			v = x.X
		case *ssa.UnOp:
			if x.Op != token.MUL {
				return v
			}
			cell := lc.P.cellOf(x.X) // a local variable, also when captured by a function literal
			if cell == nil {
				return v
			}
			vals, _, escaped := lc.P.CellStores(cell)
			if escaped || len(vals) != 1 {
				return v
			}
			v = vals[0]
		default:
			return v
		}
	}
	return v
}

// id: a name for the value that two SSA values share only if they are the same read of the same SSA values.
func (lc *linCtx) id(v ssa.Value) string {
	if s, ok := lc.ids[v]; ok {
		return s
	}
	if lc.ids == nil {
		lc.ids = map[ssa.Value]string{}
	}
	lc.ids[v] = "?" // recursion guard
	var s string
	if st := lc.strip(v); st != v {
		s = lc.id(st)
	} else {
		s = lc.id1(v)
	}
	lc.ids[v] = s
	return s
}

// pureAccessors: go/types and go/token objects are immutable once type checking is done.
var pureAccessors = map[string]bool{
	"(*go/types.Tuple).Len": true, "(*go/types.Tuple).At": true,
	"(*go/types.Interface).NumMethods": true, "(*go/types.Interface).Method": true,
	"(*go/types.Struct).NumFields": true, "(*go/types.Struct).Field": true,
	"(*go/types.MethodSet).Len": true, "(*go/types.MethodSet).At": true,
	"(*go/types.Named).NumMethods": true, "(*go/types.Named).Method": true,
	"(*go/types.Signature).Params": true, "(*go/types.Signature).Results": true,
}

func (lc *linCtx) id1(v ssa.Value) string {
	P := lc.P
	unique := func() string {
		fn := "?"
		if ins, ok := v.(ssa.Instruction); ok && ins.Parent() != nil {
			fn = FuncName(ins.Parent())
		} else if p, ok := v.(*ssa.Parameter); ok {
			fn = FuncName(p.Parent())
		} else if f, ok := v.(*ssa.FreeVar); ok {
			fn = FuncName(f.Parent())
		}
		return fmt.Sprintf("%s.%s@%p%s", fn, v.Name(), v, lc.inst)
	}
	switch x := v.(type) {
	case *ssa.Const:
		return "c:" + P.Desc(x)
	case *ssa.Global:
		return "g:" + x.Pkg.Pkg.Path() + "." + x.Name()
	case *ssa.Convert:
		if runeConversion(x) != 0 {
			return "rn(" + lc.id(x.X) + ")" // another length: characters, not bytes
		}
		return lc.id(x.X)
	case *ssa.ChangeInterface:
		return lc.id(x.X)
	case *ssa.FreeVar:
		if b := P.freeVarBinding(x); b != nil {
			return lc.id(b)
		}
	case *ssa.Parameter:
		if lc.trust {
			if args := P.paramArgs(x); len(args) == 1 {
				return lc.id(args[0])
			}
		}
	case *ssa.Field:
		return "fd(" + lc.id(x.X) + "." + fieldName(x.X.Type(), x.Field) + ")"
	case *ssa.FieldAddr:
		return "&fd(" + lc.id(x.X) + "." + fieldName(deref(x.X.Type()), x.Field) + ")"
	case *ssa.IndexAddr:
		return "&ix(" + lc.id(x.X) + "," + lc.of(x.Index).key() + ")"
	case *ssa.Index:
		return "ix(" + lc.id(x.X) + "," + lc.of(x.Index).key() + ")"
	case *ssa.UnOp:
		if x.Op == token.MUL {
			switch a := x.X.(type) {
			case *ssa.FieldAddr, *ssa.IndexAddr, *ssa.Global:
				return "ld(" + lc.id(a) + ")"
			case *ssa.FreeVar, *ssa.Parameter:
				return "ld(" + lc.id(a) + ")"
			}
		}
	case *ssa.TypeAssert:
		if !x.CommaOk {
			return "ta(" + lc.id(x.X) + ";" + typeStr(x.AssertedType) + ")"
		}
	case *ssa.Call:
		// accessors of immutable library objects: the same receiver gives the same answer
		if n := P.calleeName(x.Common()); pureAccessors[n] && !x.Call.IsInvoke() {
			var parts []string
			for _, a := range x.Call.Args {
				if isIntType(a.Type()) {
					parts = append(parts, lc.of(a).key())
				} else {
					parts = append(parts, lc.id(a))
				}
			}
			return "pure(" + n + ";" + strings.Join(parts, ",") + ")"
		}
	case *ssa.Extract:
		if ta, ok := x.Tuple.(*ssa.TypeAssert); ok && x.Index == 0 {
			return "ta(" + lc.id(ta.X) + ";" + typeStr(ta.AssertedType) + ")"
		}
	}
	return unique()
}

// of: the linear expression of integer value v (fresh variables for what is not linear).
func (lc *linCtx) of(v ssa.Value) linExpr {
	if e, ok := lc.vars[v]; ok {
		return e
	}
	lc.depth++
	defer func() { lc.depth-- }()
	P := lc.P
	opaque := func() linExpr {
		e := linVar("v:" + lc.id(v))
		lc.vars[v] = e
		return e
	}
	if lc.depth > 24 {
		return opaque()
	}
	set := func(e linExpr) linExpr {
		lc.vars[v] = e
		return e
	}
	switch x := v.(type) {
	case *ssa.Const:
		if n, ok := constInt(x); ok {
			return linConst(n)
		}
	case *ssa.Convert:
		if isIntType(x.X.Type()) && isIntType(x.Type()) {
			return set(lc.of(x.X))
		}
	case *ssa.ChangeType:
		return set(lc.of(x.X))
	case *ssa.UnOp:
		if x.Op == token.SUB {
			return set(lc.of(x.X).scale(-1))
		}
		if st := lc.strip(v); st != v {
			return set(lc.of(st)) // read of a local variable that is assigned once
		}
	case *ssa.BinOp:
		a, b := lc.of(x.X), lc.of(x.Y)
		switch x.Op {
		case token.ADD:
			return set(a.add(b, 1))
		case token.SUB:
			return set(a.add(b, -1))
		case token.MUL:
			if a.isConst() {
				return set(b.scale(a.c))
			}
			if b.isConst() {
				return set(a.scale(b.c))
			}
		case token.QUO:
			if a.isConst() && b.isConst() && b.c != 0 {
				return set(linConst(a.c / b.c))
			}
			if b.isConst() && b.c > 0 {
				q := linVar(lc.fresh("quo", v))
				lc.vars[v] = q
				if lc.prove(a) { // numerator >= 0: c*q <= n <= c*q + c-1
					lc.def().facts = append(lc.def().facts, geq(a, q.scale(b.c)), geq(q.scale(b.c).add(linConst(b.c-1), 1), a))
				}
				return q
			}
		case token.REM:
			if b.isConst() && b.c > 0 {
				r := linVar(lc.fresh("rem", v))
				lc.vars[v] = r
				if lc.prove(a) {
					lc.def().facts = append(lc.def().facts, r, geq(linConst(b.c-1), r))
				}
				return r
			}
		}
	case *ssa.Call:
		if bi, ok := x.Call.Value.(*ssa.Builtin); ok {
			switch bi.Name() {
			case "len", "cap":
				if len(x.Call.Args) == 1 {
					return set(lc.lenVar(x.Call.Args[0]))
				}
			case "min", "max":
				z := linVar(lc.fresh(bi.Name(), v))
				lc.vars[v] = z
				var alts []linAlt
				for _, a := range x.Call.Args {
					ea := lc.of(a)
					if bi.Name() == "min" {
						lc.def().facts = append(lc.def().facts, geq(ea, z))
					} else {
						lc.def().facts = append(lc.def().facts, geq(z, ea))
					}
					alts = append(alts, linAlt{geq(z, ea), geq(ea, z)})
				}
				lc.def().disj = append(lc.def().disj, alts)
				return z
			}
		}
		// strings.Index / LastIndex (and the Byte / Rune forms): -1 <= r <= len(s) - len(sep) for a non-empty
		// separator, -1 <= r <= len(s) otherwise (documented results)
		switch P.calleeName(x.Common()) {
		case "strings.Index", "strings.LastIndex", "strings.IndexByte", "strings.LastIndexByte", "strings.IndexRune", "strings.IndexAny", "strings.LastIndexAny":
			if len(x.Call.Args) == 2 {
				r := linVar("v:" + lc.id(v))
				lc.vars[v] = r
				ls := lc.lenVar(x.Call.Args[0])
				upper := ls
				if cs, ok := x.Call.Args[1].(*ssa.Const); ok && cs.Value != nil {
					if cs.Value.Kind() == constant.String && len(constant.StringVal(cs.Value)) >= 1 {
						upper = ls.add(linConst(1), -1)
					}
					if cs.Value.Kind() == constant.Int {
						upper = ls.add(linConst(1), -1)
					}
				}
				lc.def().facts = append(lc.def().facts, r.add(linConst(1), 1), geq(upper, r))
				return r
			}
		}
		// slices.Index / IndexFunc / BinarySearch...: an index into the slice, or -1 (documented results)
		if cn := P.calleeName(x.Common()); len(x.Call.Args) >= 2 && isIntType(x.Type()) {
			base := cn
			if i := strings.Index(base, "["); i >= 0 {
				base = base[:i]
			}
			switch base {
			case "slices.Index", "slices.IndexFunc":
				r := linVar("v:" + lc.id(v))
				lc.vars[v] = r
				ls := lc.lenVar(x.Call.Args[0])
				lc.def().facts = append(lc.def().facts, r.add(linConst(1), 1), geq(ls.add(linConst(1), -1), r)) // -1 <= r <= len-1
				return r
			}
		}
		if P.CallTo(x, "sort.Search") != nil && len(x.Call.Args) == 2 {
			r := linVar("v:" + lc.id(v))
			lc.vars[v] = r
			n := lc.of(x.Call.Args[0])
			lc.def().facts = append(lc.def().facts, r, geq(n, r)) // 0 <= r <= n (documented contract)
			return r
		}
		// an integer computed by a product helper with a single return statement: the returned expression, with the
		// helper's parameters standing for this call's arguments
		if callee := x.Call.StaticCallee(); callee != nil && P.IsProductFunc(callee) && len(callee.Blocks) > 0 && !P.isAnchor(callee) &&
			isIntType(x.Type()) && lc.depth < 12 && len(callee.Params) == len(x.Call.Args) {
			var ret *ssa.Return
			n := 0
			allInstrs(callee, func(b *ssa.BasicBlock, ins ssa.Instruction) {
				if r, ok := ins.(*ssa.Return); ok {
					ret = r
					n++
				}
			})
			if n == 1 && len(ret.Results) == 1 {
				t := lc.top()
				t.nFresh++
				sub := &linCtx{c: lc.c, P: P, vars: map[ssa.Value]linExpr{}, ids: map[ssa.Value]string{}, trust: false, depth: lc.depth + 1,
					inst: fmt.Sprintf("%s/call%d", lc.inst, t.nFresh), root: t, nFresh: t.nFresh * 1000}
				for i, p := range callee.Params {
					if isIntType(p.Type()) {
						sub.vars[p] = lc.of(x.Call.Args[i])
					}
					sub.ids[p] = lc.id(x.Call.Args[i])
				}
				e := sub.of(ret.Results[0])
				lc.def().facts = append(lc.def().facts, sub.facts...)
				lc.def().disj = append(lc.def().disj, sub.disj...)
				return set(e)
			}
			// several returns (a classification helper: `switch { case a < b: return head; ... }`): the result is the
			// value of one of them, under the conditions that dominate that return
			if n >= 2 && n <= 8 {
				t := lc.top()
				t.nFresh++
				inst := fmt.Sprintf("%s/call%d", lc.inst, t.nFresh)
				z := linVar("v:" + lc.id(v))
				lc.vars[v] = z
				var alts []linAlt
				okAll := true
				allInstrs(callee, func(b *ssa.BasicBlock, ins ssa.Instruction) {
					r, isRet := ins.(*ssa.Return)
					if !isRet {
						return
					}
					if len(r.Results) != 1 {
						okAll = false
						return
					}
					sub := &linCtx{c: lc.c, P: P, vars: map[ssa.Value]linExpr{}, ids: map[ssa.Value]string{}, trust: false, depth: lc.depth + 1,
						inst: inst, root: t, nFresh: t.nFresh * 1000, defSink: lc.def()}
					for i, p := range callee.Params {
						if isIntType(p.Type()) {
							sub.vars[p] = lc.of(x.Call.Args[i])
						}
						sub.ids[p] = lc.id(x.Call.Args[i])
					}
					e := sub.of(r.Results[0])
					sub.blockFacts(b)
					alt := linAlt{geq(z, e), geq(e, z)}
					alt = append(alt, sub.facts...) // (case splits inside the helper are dropped: weaker, still true)
					alts = append(alts, alt)
				})
				if okAll && len(alts) == n {
					lc.def().disj = append(lc.def().disj, alts)
					return z
				}
				delete(lc.vars, v)
			}
		}
	case *ssa.Parameter:
		fn := x.Parent()
		// predicate of sort.Search(n, f): called with 0 <= i < n
		if fn.Parent() != nil && len(fn.Params) == 1 {
			if mc := P.closureSite(fn); mc != nil {
				if call, argi := closurePassedTo(mc); call != nil && argi == 1 && P.calleeName(call.Common()) == "sort.Search" {
					p := linVar("v:" + lc.id(v))
					lc.vars[v] = p
					n := lc.of(call.Common().Args[0])
					lc.def().facts = append(lc.def().facts, p, geq(n.add(linConst(-1), 1), p))
					return p
				}
			}
		}
		if lc.trust && isIntType(x.Type()) {
			lc.bindParams(fn)
			if e, ok := lc.vars[v]; ok {
				return e
			}
		}
	case *ssa.FreeVar:
		if b := P.freeVarBinding(x); b != nil && isIntType(x.Type()) {
			return set(lc.of(b))
		}
	case *ssa.Phi:
		if !isIntType(x.Type()) {
			break
		}
		z := linVar(fmt.Sprintf("phi:%s.%s", FuncName(x.Parent()), x.Name()))
		lc.vars[v] = z
		var inits []int
		counting := true
		nBack := 0
		for i, e := range x.Edges {
			bo, ok := e.(*ssa.BinOp)
			if ok && bo.Op == token.ADD && (bo.X == x || bo.Y == x) {
				step := bo.Y
				if bo.Y == x {
					step = bo.X
				}
				if k, isC := constInt(step); isC && k > 0 {
					nBack++
					continue
				}
				counting = false
			}
			inits = append(inits, i)
		}
		if nBack > 0 {
			if counting { // counts upwards: never below its start value
				var alts []linAlt
				for _, i := range inits {
					alts = append(alts, linAlt{geq(z, lc.of(x.Edges[i]))})
				}
				if len(alts) == 1 {
					lc.def().facts = append(lc.def().facts, alts[0]...)
				} else if len(alts) > 1 {
					lc.def().disj = append(lc.def().disj, alts)
				}
				// a rotated loop (`for i := range n`, `for ... { } ` with the test at the bottom): the value enters
				// the body over edges that each tested it - `init < n` before the loop, `i+1 < n` at the end of
				// the previous round - against a bound that does not change inside the loop. What the test says
				// about the incoming value holds for the variable in this round.
				body := loopOf(x.Block())
				var ups []linAlt
				okAll := body != nil
				for i, e := range x.Edges {
					if !okAll {
						break
					}
					pred := x.Block().Preds[i]
					ifi, isIf := lastInstr(pred).(*ssa.If)
					bo, isB := (ssa.Value)(nil), false
					var cmp *ssa.BinOp
					if isIf && len(pred.Succs) == 2 && pred.Succs[0] != pred.Succs[1] {
						cmp, isB = ifi.Cond.(*ssa.BinOp)
					}
					_ = bo
					if !isB {
						okAll = false
						break
					}
					var other ssa.Value
					switch {
					case cmp.X == e:
						other = cmp.Y
					case cmp.Y == e:
						other = cmp.X
					default:
						// the start value may be a constant that is tested as another constant object
						ce, isCE := e.(*ssa.Const)
						if cx, isCX := cmp.X.(*ssa.Const); isCE && isCX && ce.Value != nil && cx.Value != nil && ce.Value.ExactString() == cx.Value.ExactString() {
							other = cmp.Y
						} else if cy, isCY := cmp.Y.(*ssa.Const); isCE && isCY && ce.Value != nil && cy.Value != nil && ce.Value.ExactString() == cy.Value.ExactString() {
							other = cmp.X
						}
					}
					if other == nil {
						okAll = false
						break
					}
					if oi, isI := other.(ssa.Instruction); isI && body[oi.Block()] {
						okAll = false // the bound is computed inside the loop
						break
					}
					vars2 := map[ssa.Value]linExpr{}
					for k, vv := range lc.vars {
						vars2[k] = vv
					}
					if cmp.X == e || cmp.Y == e {
						vars2[e] = z
					} else if cmp.X != other {
						vars2[cmp.X] = z
					} else {
						vars2[cmp.Y] = z
					}
					sub := &linCtx{c: lc.c, P: P, vars: vars2, ids: lc.ids, trust: lc.trust, depth: lc.depth, bound: lc.bound, nFresh: lc.nFresh + 7000*(i+1), defSink: lc.def()}
					sub.condFacts(cmp, pred.Succs[0] == x.Block())
					if len(sub.facts) == 0 {
						okAll = false
						break
					}
					ups = append(ups, linAlt(sub.facts))
				}
				if okAll && len(ups) > 0 {
					if len(ups) == 1 {
						lc.def().facts = append(lc.def().facts, ups[0]...)
					} else {
						lc.def().disj = append(lc.def().disj, ups)
					}
				}
			}
			return z
		}
		// a join: one of the incoming values, under the conditions of its edge
		var alts []linAlt
		for i, e := range x.Edges {
			ee := lc.of(e)
			alt := linAlt{geq(z, ee), geq(ee, z)}
			// what is known when control arrives over this edge: the conditions dominating the predecessor, and the
			// predecessor's own branch if this edge is one of its two arms
			pred := x.Block().Preds[i]
			sub := &linCtx{c: lc.c, P: P, vars: lc.vars, ids: lc.ids, trust: lc.trust, depth: lc.depth, bound: lc.bound, nFresh: lc.nFresh + 1000*(i+1), defSink: lc.def()}
			sub.blockFacts(pred)
			if ifi, ok := lastInstr(pred).(*ssa.If); ok && len(pred.Succs) == 2 && pred.Succs[0] != pred.Succs[1] {
				sub.condFacts(ifi.Cond, pred.Succs[0] == x.Block())
			}
			alt = append(alt, sub.facts...) // (case splits met on the way are dropped: weaker, still true)
			alts = append(alts, alt)
		}
		lc.def().disj = append(lc.def().disj, alts)
		return z
	}
	return opaque()
}

// bindParams: the integer parameters of fn are the arguments of its product call sites; with several call sites one
// alternative per call site (all parameters bound together, with what is known at that call).
func (lc *linCtx) bindParams(fn *ssa.Function) {
	if lc.bound == nil {
		lc.bound = map[*ssa.Function]bool{}
	}
	if lc.bound[fn] {
		return
	}
	lc.bound[fn] = true
	P := lc.P
	if fn.Parent() != nil && len(P.Callers(fn)) == 0 {
		return // callback: called by the library
	}
	callers := P.Callers(fn)
	if len(callers) == 0 || len(callers) > 6 {
		return
	}
	var ints, seqs []int
	for i, p := range fn.Params {
		if isIntType(p.Type()) {
			ints = append(ints, i)
		}
		// the length of a slice / string parameter is the length of what the caller passes
		switch u := p.Type().Underlying().(type) {
		case *types.Slice:
			seqs = append(seqs, i)
		case *types.Basic:
			if u.Info()&types.IsString != 0 {
				seqs = append(seqs, i)
			}
		}
	}
	if len(callers) == 1 {
		seqs = nil // a single caller: the parameter is named after its argument already
	}
	if len(ints) == 0 && len(seqs) == 0 {
		return
	}
	zs := map[int]linExpr{}
	for _, i := range ints {
		z := linVar(fmt.Sprintf("p:%s.%s", FuncName(fn), fn.Params[i].Name()))
		zs[i] = z
		lc.vars[fn.Params[i]] = z
	}
	ls := map[int]linExpr{}
	for _, i := range seqs {
		ls[i] = linVar("len:" + lc.id(fn.Params[i]))
	}
	var alts []linAlt
	for ci, cs := range callers {
		args := cs.Common().Args
		if len(args) < len(fn.Params) {
			return
		}
		sub := &linCtx{c: lc.c, P: P, vars: lc.vars, ids: lc.ids, trust: lc.trust, depth: lc.depth + 1, bound: lc.bound, nFresh: lc.nFresh + 100000*(ci+1), defSink: lc.def()}
		var alt linAlt
		for _, i := range ints {
			a := sub.of(args[i])
			alt = append(alt, geq(zs[i], a), geq(a, zs[i]))
		}
		for _, i := range seqs {
			a := sub.lenVar(args[i])
			alt = append(alt, geq(ls[i], a), geq(a, ls[i]))
		}
		if top := topFunc(cs.Parent()); top.Object() == nil || !top.Object().Exported() || true {
			sub.blockFacts(cs.Block())
		}
		if len(sub.disj) > 0 && len(callers) > 1 {
			// nested alternatives inside one caller: keep only the unconditional part
			sub.disj = nil
		}
		alt = append(alt, sub.facts...)
		if len(callers) == 1 {
			lc.def().facts = append(lc.def().facts, alt...)
			lc.def().disj = append(lc.def().disj, sub.disj...)
			return
		}
		alts = append(alts, alt)
	}
	lc.def().disj = append(lc.def().disj, alts)
}

func topFunc(fn *ssa.Function) *ssa.Function {
	for fn.Parent() != nil {
		fn = fn.Parent()
	}
	return fn
}

// blockFacts: the branch conditions that dominate block b (a condition holds in b if the branch target it leads to
// dominates b and is entered only from that branch), and - for function literals - those dominating the place the
// literal is created.
func (lc *linCtx) blockFacts(b *ssa.BasicBlock) {
	for d := b.Idom(); d != nil; d = d.Idom() {
		ifi, ok := lastInstr(d).(*ssa.If)
		if !ok || len(d.Succs) != 2 || d.Succs[0] == d.Succs[1] {
			continue
		}
		for k, s := range d.Succs {
			if len(s.Preds) == 1 && dominates(s, b) {
				lc.condFacts(ifi.Cond, k == 0)
			}
		}
	}
	// a block entered over several forward edges (`if a || b { ... }`): what is known on one of them
	if n := len(b.Preds); n >= 2 && n <= 4 && lc.joinDepth < 2 {
		forward := true
		for _, p := range b.Preds {
			if dominates(b, p) {
				forward = false // loop head
			}
		}
		if forward {
			var alts []linAlt
			for i, p := range b.Preds {
				sub := &linCtx{c: lc.c, P: lc.P, vars: lc.vars, ids: lc.ids, trust: lc.trust, depth: lc.depth, bound: lc.bound, inst: lc.inst, root: lc.root,
					nFresh: lc.nFresh + 100000*(i+1), joinDepth: lc.joinDepth + 1, defSink: lc.def()}
				sub.blockFacts(p)
				if ifi, ok := lastInstr(p).(*ssa.If); ok && len(p.Succs) == 2 && p.Succs[0] != p.Succs[1] {
					sub.condFacts(ifi.Cond, p.Succs[0] == b)
				}
				alts = append(alts, linAlt(sub.facts)) // (case splits on the way are dropped: weaker, still true)
			}
			useful := false
			for _, a := range alts {
				if len(a) > 0 {
					useful = true
				}
			}
			if useful {
				lc.disj = append(lc.disj, alts)
			}
		}
	}
	fn := b.Parent()
	if fn.Parent() != nil {
		if mc := lc.P.closureSite(fn); mc != nil {
			lc.blockFacts(mc.Block())
			// the block creating the literal itself is dominated by its own dominators only; its own incoming
			// branch is covered by the loop above applied to mc.Block()
		}
	}
}

// condFacts adds what it means for integers that bool value cond is val.
func (lc *linCtx) condFacts(cond ssa.Value, val bool) {
	switch x := cond.(type) {
	case *ssa.UnOp:
		if x.Op == token.NOT {
			lc.condFacts(x.X, !val)
		}
	case *ssa.BinOp:
		// a nil slice has no elements: `lines == nil` says len(lines) <= 0
		if sl := nilComparedSlice(x.X, x.Y); sl != nil && (x.Op == token.EQL || x.Op == token.NEQ) {
			if (x.Op == token.EQL) == val {
				lc.facts = append(lc.facts, geq(linConst(0), lc.lenVar(sl)))
			}
			return
		}
		if !isIntType(x.X.Type()) || !isIntType(x.Y.Type()) {
			return
		}
		a, b := lc.of(x.X), lc.of(x.Y)
		lt := func(p, q linExpr) linExpr { return geq(q, p.add(linConst(1), 1)) } // p < q
		op := x.Op
		if !val {
			switch op {
			case token.LSS:
				op = token.GEQ
			case token.LEQ:
				op = token.GTR
			case token.GTR:
				op = token.LEQ
			case token.GEQ:
				op = token.LSS
			case token.EQL:
				op = token.NEQ
			case token.NEQ:
				op = token.EQL
			default:
				return
			}
		}
		switch op {
		case token.LSS:
			lc.facts = append(lc.facts, lt(a, b))
		case token.LEQ:
			lc.facts = append(lc.facts, geq(b, a))
		case token.GTR:
			lc.facts = append(lc.facts, lt(b, a))
		case token.GEQ:
			lc.facts = append(lc.facts, geq(a, b))
		case token.EQL:
			lc.facts = append(lc.facts, geq(a, b), geq(b, a))
		case token.NEQ:
			lc.disj = append(lc.disj, []linAlt{{lt(a, b)}, {lt(b, a)}})
		}
	}
}

// addLit adds what literal l says about integers.
func (lc *linCtx) addLit(l Lit) {
	alt, disj := lc.litFacts(l)
	lc.facts = append(lc.facts, alt...)
	lc.disj = append(lc.disj, disj...)
}

func (lc *linCtx) litFacts(l Lit) (linAlt, [][]linAlt) {
	switch l.Kind {
	case "lt", "rangeloop":
		if l.X == nil || l.Y == nil || !isIntType(l.X.Type()) || !isIntType(l.Y.Type()) {
			return nil, nil
		}
		x, y := lc.of(l.X), lc.of(l.Y)
		if l.Pos {
			return linAlt{geq(y, x.add(linConst(1), 1))}, nil // x+1 <= y
		}
		return linAlt{geq(x, y)}, nil
	case "eq":
		if l.X != nil && l.Y != nil {
			if sl := nilComparedSlice(l.X, l.Y); sl != nil {
				if l.Pos {
					return linAlt{geq(linConst(0), lc.lenVar(sl))}, nil
				}
				return linAlt{}, nil // not nil: nothing about its length, but an alternative that can be expressed
			}
		}
		if l.X == nil || l.Y == nil || !isIntType(l.X.Type()) || !isIntType(l.Y.Type()) {
			return nil, nil
		}
		x, y := lc.of(l.X), lc.of(l.Y)
		if l.Pos {
			return linAlt{geq(x, y), geq(y, x)}, nil
		}
		return nil, [][]linAlt{{linAlt{geq(x, y.add(linConst(1), 1))}, linAlt{geq(y, x.add(linConst(1), 1))}}}
	case "and", "or":
		conj := (l.Kind == "and") == l.Pos
		var all linAlt
		var allDisj [][]linAlt
		var alts []linAlt
		for _, s := range l.Subs {
			if !l.Pos {
				s.Pos = !s.Pos
			}
			a, d := lc.litFacts(s)
			if conj {
				all = append(all, a...)
				allDisj = append(allDisj, d...)
				continue
			}
			if len(d) > 0 || a == nil {
				return nil, nil // an alternative we cannot express: the disjunction says nothing
			}
			alts = append(alts, a)
		}
		if conj {
			return all, allDisj
		}
		return nil, [][]linAlt{alts}
	}
	return nil, nil
}

// prove: goal >= 0 follows from the facts (with case splits over the disjunctions).
func (lc *linCtx) prove(goal linExpr) bool {
	neg := goal.scale(-1).add(linConst(-1), 1) // goal <= -1
	base := append(append([]linExpr{}, lc.facts...), neg)
	if fmUnsat(base) {
		return true
	}
	// relevant disjunctions only (sharing a variable, transitively, with the goal)
	rel := relevantDisj(base, lc.disj)
	if len(rel) == 0 {
		return false
	}
	total := 1
	for _, d := range rel {
		total *= len(d)
		if total > 60000 {
			return false
		}
	}
	idx := make([]int, len(rel))
	for {
		cons := append([]linExpr{}, base...)
		for i, d := range rel {
			cons = append(cons, d[idx[i]]...)
		}
		if !fmUnsat(cons) {
			return false
		}
		k := 0
		for k < len(rel) {
			idx[k]++
			if idx[k] < len(rel[k]) {
				break
			}
			idx[k] = 0
			k++
		}
		if k == len(rel) {
			return true
		}
	}
}

func relevantDisj(base []linExpr, disj [][]linAlt) [][]linAlt {
	vars := map[string]bool{}
	last := base[len(base)-1]
	for v := range last.t {
		vars[v] = true
	}
	if len(last.t) == 0 {
		// the goal is a constant (a consistency question about the facts themselves): everything is relevant
		return disj
	}
	touches := func(e linExpr) bool {
		for v := range e.t {
			if vars[v] {
				return true
			}
		}
		return false
	}
	used := make([]bool, len(disj))
	for changed := true; changed; {
		changed = false
		for _, f := range base {
			if touches(f) {
				for v := range f.t {
					if !vars[v] {
						vars[v] = true
						changed = true
					}
				}
			}
		}
		for i, d := range disj {
			if used[i] {
				continue
			}
			hit := false
			for _, alt := range d {
				for _, e := range alt {
					if touches(e) {
						hit = true
					}
				}
			}
			if hit {
				used[i] = true
				changed = true
				for _, alt := range d {
					for _, e := range alt {
						for v := range e.t {
							vars[v] = true
						}
					}
				}
			}
		}
	}
	var out [][]linAlt
	for i, d := range disj {
		if used[i] {
			out = append(out, d)
		}
	}
	return out
}

// fmUnsat: the conjunction of (expr >= 0) constraints has no rational solution.
func fmUnsat(cons []linExpr) bool {
	cur := map[string]linExpr{}
	addC := func(m map[string]linExpr, e linExpr) bool {
		e = normalize(e)
		if e.isConst() {
			return e.c < 0
		}
		m[e.key()] = e
		return false
	}
	for _, e := range cons {
		if addC(cur, e) {
			return true
		}
	}
	for rounds := 0; rounds < 64; rounds++ {
		// choose the variable with the fewest pos*neg combinations
		count := map[string][2]int{}
		for _, e := range cur {
			for v, k := range e.t {
				c := count[v]
				if k > 0 {
					c[0]++
				} else {
					c[1]++
				}
				count[v] = c
			}
		}
		if len(count) == 0 {
			return false
		}
		best, bestCost := "", -1
		var names []string
		for v := range count {
			names = append(names, v)
		}
		sort.Strings(names)
		for _, v := range names {
			cost := count[v][0] * count[v][1]
			if bestCost < 0 || cost < bestCost {
				best, bestCost = v, cost
			}
		}
		next := map[string]linExpr{}
		var pos, negs []linExpr
		for _, e := range cur {
			k := e.t[best]
			switch {
			case k > 0:
				pos = append(pos, e)
			case k < 0:
				negs = append(negs, e)
			default:
				next[e.key()] = e
			}
		}
		if len(pos)*len(negs) > 4000 {
			return false
		}
		for _, p := range pos {
			for _, n := range negs {
				kp, kn := p.t[best], -n.t[best]
				comb := p.scale(kn).add(n, kp)
				delete(comb.t, best)
				if addC(next, comb) {
					return true
				}
			}
		}
		cur = next
		if len(cur) > 6000 {
			return false
		}
	}
	return false
}

func normalize(e linExpr) linExpr {
	g := int64(0)
	for _, k := range e.t {
		if k < 0 {
			k = -k
		}
		g = gcd64(g, k)
	}
	if g <= 1 {
		return e
	}
	out := linExpr{t: map[string]int64{}}
	for v, k := range e.t {
		out.t[v] = k / g
	}
	// floor division of the constant keeps the integer solutions (tightening)
	c := e.c
	if c >= 0 {
		out.c = c / g
	} else {
		out.c = -((-c + g - 1) / g)
	}
	return out
}

func gcd64(a, b int64) int64 {
	for b != 0 {
		a, b = b, a%b
	}
	return a
}

// linInRange: 0 <= lo <= hi <= len(base) (lo nil = 0, hi nil = len; for an index: lo = idx, hi = idx+1) follows
// from the computation of the operands and the guards of instruction ins.
func (c *Ctx) linInRange(ins ssa.Instruction, base, lo, hi ssa.Value, isIndex bool) bool {
	P := c.P
	top := ins.Parent()
	for top.Parent() != nil {
		top = top.Parent()
	}
	trust := top.Object() == nil || !top.Object().Exported()
	lc := &linCtx{c: c, P: P, vars: map[ssa.Value]linExpr{}, trust: trust}
	lc.blockFacts(ins.Block())
	ln := lc.lenVar(base)
	if _, isPtr := base.Type().Underlying().(*types.Pointer); isPtr {
		if arr, isArr := deref(base.Type()).Underlying().(*types.Array); isArr {
			ln = linConst(arr.Len())
		}
	}
	if arr, isArr := base.Type().Underlying().(*types.Array); isArr {
		ln = linConst(arr.Len()) // an array value
	}
	var elo, ehi linExpr
	if lo != nil {
		elo = lc.of(lo)
	} else {
		elo = linConst(0)
	}
	switch {
	case isIndex:
		ehi = elo.add(linConst(1), 1)
	case hi != nil:
		ehi = lc.of(hi)
	default:
		ehi = ln
	}
	if os.Getenv("GGV_LIN_DEBUG") != "" && strings.Contains(FuncName(ins.Parent()), os.Getenv("GGV_LIN_DEBUG")) {
		fmt.Printf("LIN %s %s\n", FuncName(ins.Parent()), P.Pos(ins.Pos()))
		fmt.Printf("  lo=%s hi=%s len=%s\n", elo.key(), ehi.key(), ln.key())
		for _, f := range lc.facts {
			fmt.Printf("  FACT %s >= 0\n", f.key())
		}
		for i, d := range lc.disj {
			for j, a := range d {
				for _, e := range a {
					fmt.Printf("  DISJ %d alt %d: %s >= 0\n", i, j, e.key())
				}
			}
		}
		fmt.Printf("  base unsat (facts alone): %v\n", fmUnsat(lc.facts))
	}
	return lc.prove(elo) && lc.prove(geq(ehi, elo)) && lc.prove(geq(ln, ehi))
}

// sliceFieldOf: v is the value of a field of a product struct (a load through a field address, or a field of a
// struct value): the struct type and the field index.
func sliceFieldOf(v ssa.Value) (*types.Named, int) {
	switch x := v.(type) {
	case *ssa.UnOp:
		if fa, ok := x.X.(*ssa.FieldAddr); ok && x.Op == token.MUL {
			if n, ok := deref(fa.X.Type()).(*types.Named); ok {
				return n, fa.Field
			}
		}
	case *ssa.Field:
		if n, ok := x.X.Type().(*types.Named); ok {
			return n, x.Field
		}
	}
	return nil, 0
}

// lenEqSiblings: the other slice fields of struct n that provably have the same length as field fi at all times:
// the only writes to either field, anywhere in product code, are `x.f = append(x.f, one element)` paired in the same
// basic block with `x.g = append(x.g, one element)` on the same x; no composite literal sets either field; the
// address of neither field is taken for anything but these loads and stores.
func (c *Ctx) lenEqSiblings(n *types.Named, fi int) []int {
	if c.lenEq == nil {
		c.lenEq = map[*types.Named]map[int][]int{}
	}
	if m, ok := c.lenEq[n]; ok {
		return m[fi]
	}
	P := c.P
	res := map[int][]int{}
	c.lenEq[n] = res
	if c.lenEqWriters == nil {
		c.lenEqWriters = map[*types.Named]map[*ssa.Function]bool{}
	}
	writers := map[*ssa.Function]bool{}
	c.lenEqWriters[n] = writers
	st, ok := n.Underlying().(*types.Struct)
	if !ok || P.moduleStruct(n) == nil {
		return nil
	}
	var sliceFields []int
	for i := 0; i < st.NumFields(); i++ {
		if _, isS := st.Field(i).Type().Underlying().(*types.Slice); isS {
			sliceFields = append(sliceFields, i)
		}
	}
	if len(sliceFields) < 2 {
		return nil
	}
	// per field: is every write a one-element self-append; (block, base) of each such append
	type site struct {
		b    *ssa.BasicBlock
		base ssa.Value
	}
	disciplined := map[int]bool{}
	appends := map[int][]site{}
	for _, f := range sliceFields {
		disciplined[f] = true
	}
	oneElemSelfAppend := func(st *ssa.Store, fa *ssa.FieldAddr) bool {
		call, ok := st.Val.(*ssa.Call)
		if !ok {
			return false
		}
		if b, isB := call.Call.Value.(*ssa.Builtin); !isB || b.Name() != "append" || len(call.Call.Args) != 2 {
			return false
		}
		ld, ok := call.Call.Args[0].(*ssa.UnOp)
		if !ok || ld.Op != token.MUL {
			return false
		}
		fa0, ok := ld.X.(*ssa.FieldAddr)
		if !ok || fa0.X != fa.X || fa0.Field != fa.Field {
			return false
		}
		sl, ok := call.Call.Args[1].(*ssa.Slice)
		if !ok || sl.Low != nil || sl.High != nil {
			return false
		}
		al, ok := sl.X.(*ssa.Alloc)
		if !ok {
			return false
		}
		arr, ok := deref(al.Type()).Underlying().(*types.Array)
		return ok && arr.Len() == 1
	}
	for _, fn := range P.ModFuncs {
		allInstrs(fn, func(b *ssa.BasicBlock, ins ssa.Instruction) {
			fa, ok := ins.(*ssa.FieldAddr)
			if !ok {
				return
			}
			if nn, _ := deref(fa.X.Type()).(*types.Named); nn != n || !disciplined[fa.Field] {
				if nn != n {
					return
				}
			}
			if _, tracked := disciplined[fa.Field]; !tracked {
				return
			}
			refs := fa.Referrers()
			if refs == nil {
				return
			}
			for _, r := range *refs {
				switch x := r.(type) {
				case *ssa.UnOp:
					if x.Op != token.MUL {
						disciplined[fa.Field] = false
					}
				case *ssa.Store:
					if x.Addr != fa {
						disciplined[fa.Field] = false // the field's address is stored somewhere
						continue
					}
					if oneElemSelfAppend(x, fa) {
						appends[fa.Field] = append(appends[fa.Field], site{x.Block(), fa.X})
					} else {
						disciplined[fa.Field] = false
					}
				case *ssa.DebugRef:
				default:
					disciplined[fa.Field] = false
				}
			}
		})
	}
	// equal by construction: each of the two fields gets its length in one place of one function - a sub-slice
	// x[lo:hi], a make of given length, or one element appended per iteration of `for i := lo; i < hi; i++` to the
	// field of a fresh struct - and the two lengths are the same linear expression
	type lenDef struct {
		fn   *ssa.Function
		base ssa.Value
		e    linExpr
		st   *ssa.Store
		head *ssa.BasicBlock          // of the counting loop, for the appended field
		body map[*ssa.BasicBlock]bool //
	}
	defs := map[int][]lenDef{}
	okDefs := map[int]bool{}
	for _, f := range sliceFields {
		okDefs[f] = true
	}
	for _, fn := range P.ModFuncs {
		allInstrs(fn, func(b *ssa.BasicBlock, ins ssa.Instruction) {
			fa, ok := ins.(*ssa.FieldAddr)
			if !ok {
				return
			}
			if nn, _ := deref(fa.X.Type()).(*types.Named); nn != n {
				return
			}
			if _, tracked := okDefs[fa.Field]; !tracked || fa.Referrers() == nil {
				return
			}
			for _, r := range *fa.Referrers() {
				st, isSt := r.(*ssa.Store)
				if !isSt {
					if u, isU := r.(*ssa.UnOp); isU && u.Op == token.MUL {
						continue
					}
					if _, isD := r.(*ssa.DebugRef); isD {
						continue
					}
					okDefs[fa.Field] = false
					continue
				}
				if st.Addr != fa {
					okDefs[fa.Field] = false
					continue
				}
				writers[fn] = true
				lc := c.newLin(st.Block())
				lc.trust = false
				switch v := st.Val.(type) {
				case *ssa.Slice:
					if _, isArr := deref(v.X.Type()).Underlying().(*types.Array); isArr {
						okDefs[fa.Field] = false
						continue
					}
					lo, hi := linConst(0), lc.lenVar(v.X)
					if v.Low != nil {
						lo = lc.of(v.Low)
					}
					if v.High != nil {
						hi = lc.of(v.High)
					}
					defs[fa.Field] = append(defs[fa.Field], lenDef{fn: fn, base: fa.X, e: hi.add(lo, -1), st: st})
				case *ssa.MakeSlice:
					defs[fa.Field] = append(defs[fa.Field], lenDef{fn: fn, base: fa.X, e: lc.of(v.Len), st: st})
				case *ssa.Call:
					if !oneElemSelfAppend(st, fa) {
						okDefs[fa.Field] = false
						continue
					}
					// once per iteration of a counting loop, on a struct that is fresh in this function
					var found bool
					for _, l := range naturalLoops(fn) {
						if !l.body[st.Block()] {
							continue
						}
						ifi, isIf := lastInstr(l.head).(*ssa.If)
						if !isIf {
							continue
						}
						bo, isB := ifi.Cond.(*ssa.BinOp)
						if !isB || bo.Op != token.LSS {
							continue
						}
						ph, isPhi := bo.X.(*ssa.Phi)
						if !isPhi || ph.Block() != l.head {
							continue
						}
						var init ssa.Value
						step := true
						for ei, e := range ph.Edges {
							if l.body[l.head.Preds[ei]] {
								b2, isB2 := e.(*ssa.BinOp)
								k, isC := int64(0), false
								if isB2 && b2.Op == token.ADD && b2.X == ssa.Value(ph) {
									k, isC = constInt(b2.Y)
								}
								if !isC || k != 1 {
									step = false
								}
							} else {
								init = e
							}
						}
						atHead, every := true, true
						for _, ex := range l.exits {
							if ex[0] != l.head {
								atHead = false
							}
						}
						for _, tb := range fn.Blocks {
							for _, h := range tb.Succs {
								if h == l.head && l.body[tb] && !dominates(st.Block(), tb) {
									every = false
								}
							}
						}
						if _, fresh := fa.X.(*ssa.Alloc); !fresh || init == nil || !step || !atHead || !every {
							continue
						}
						defs[fa.Field] = append(defs[fa.Field], lenDef{fn: fn, base: fa.X, e: lc.of(bo.Y).add(lc.of(init), -1), st: st, head: l.head, body: l.body})
						found = true
					}
					if !found {
						okDefs[fa.Field] = false
					}
				default:
					if cs, isC := v.(*ssa.Const); isC && cs.IsNil() {
						continue // = nil: the empty list
					}
					okDefs[fa.Field] = false
				}
			}
		})
	}
	for _, f := range sliceFields {
		for _, g := range sliceFields {
			if f == g || !okDefs[f] || !okDefs[g] || len(defs[f]) != 1 || len(defs[g]) != 1 {
				continue
			}
			df, dg := defs[f][0], defs[g][0]
			if df.fn != dg.fn || !sameStructCell(df.base, dg.base) {
				continue
			}
			if d := df.e.add(dg.e, -1); !d.isConst() || d.c != 0 {
				continue
			}
			// the struct is seen as a whole (loaded, returned, passed on) only when both fields have their length
			before := func(a, b ssa.Instruction) bool {
				if a.Block() == b.Block() {
					return instrIdx(a) < instrIdx(b)
				}
				return dominates(a.Block(), b.Block())
			}
			done := func(d lenDef, at ssa.Instruction) bool {
				if d.head != nil {
					return at.Block() != d.head && dominates(d.head, at.Block()) && !d.body[at.Block()]
				}
				return before(d.st, at)
			}
			complete := true
			for _, base := range []ssa.Value{df.base, dg.base} {
				al, isAl := base.(*ssa.Alloc)
				if !isAl || al.Referrers() == nil {
					complete = false
					break
				}
				for _, r := range *al.Referrers() {
					switch u := r.(type) {
					case *ssa.FieldAddr, *ssa.DebugRef:
						continue
					case *ssa.UnOp:
						// the copy of the literal's temporary into the variable: before the loop, after the store
						if other := map[ssa.Value]ssa.Value{df.base: dg.base, dg.base: df.base}[base]; other != base && u.Op == token.MUL && u.Referrers() != nil && len(*u.Referrers()) == 1 {
							if cp, isSt := (*u.Referrers())[0].(*ssa.Store); isSt && cp.Addr == other && cp.Val == ssa.Value(u) {
								for _, d := range []lenDef{df, dg} {
									if d.base == base && !done(d, u) {
										complete = false
									}
									if d.base == other && (d.head == nil || !dominates(cp.Block(), d.head) || d.body[cp.Block()]) {
										complete = false
									}
								}
								continue
							}
						}
					case *ssa.Store:
						if u.Addr == base {
							if ld, isLd := u.Val.(*ssa.UnOp); isLd && ld.Op == token.MUL && (ld.X == df.base || ld.X == dg.base) {
								continue // judged at the load
							}
						}
					}
					if !done(df, r) || !done(dg, r) {
						complete = false
					}
				}
			}
			if complete {
				res[f] = append(res[f], g)
			}
		}
	}
	for _, f := range sliceFields {
		for _, g := range sliceFields {
			if f == g || !disciplined[f] || !disciplined[g] || len(appends[f]) != len(appends[g]) {
				continue
			}
			// every append to f has its partner on g in the same block on the same struct, and vice versa
			match := func(a, b []site) bool {
				used := make([]bool, len(b))
				for _, s := range a {
					found := false
					for j, t := range b {
						if !used[j] && s.b == t.b && s.base == t.base {
							used[j], found = true, true
							break
						}
					}
					if !found {
						return false
					}
				}
				return true
			}
			if match(appends[f], appends[g]) {
				res[f] = append(res[f], g)
			}
		}
	}
	return res[fi]
}

// runeConversion: 1 for string -> []rune, 2 for []rune -> string, 0 otherwise (conversions that keep the length).
func runeConversion(cv *ssa.Convert) int {
	isStr := func(t types.Type) bool {
		b, ok := t.Underlying().(*types.Basic)
		return ok && b.Info()&types.IsString != 0
	}
	isRunes := func(t types.Type) bool {
		sl, ok := t.Underlying().(*types.Slice)
		if !ok {
			return false
		}
		b, ok := sl.Elem().Underlying().(*types.Basic)
		return ok && (b.Kind() == types.Int32 || b.Kind() == types.Rune)
	}
	switch {
	case isStr(cv.X.Type()) && isRunes(cv.Type()):
		return 1
	case isRunes(cv.X.Type()) && isStr(cv.Type()):
		return 2
	}
	return 0
}

// nilComparedSlice: one of a, b is the nil constant and the other a slice: that slice.
func nilComparedSlice(a, b ssa.Value) ssa.Value {
	isNil := func(v ssa.Value) bool {
		cs, ok := v.(*ssa.Const)
		return ok && cs.Value == nil
	}
	isSl := func(v ssa.Value) bool {
		_, ok := v.Type().Underlying().(*types.Slice)
		return ok
	}
	switch {
	case isNil(b) && isSl(a):
		return a
	case isNil(a) && isSl(b):
		return b
	}
	return nil
}
