package main

// Helpers to classify guard literals and to query value provenance.

import (
	"go/token"
	"go/types"
	"os"
	"sort"
	"strconv"
	"strings"

	"golang.org/x/tools/go/ssa"
)

// ---- literal shape helpers -------------------------------------------------------------------

func isNilConst(v ssa.Value) bool {
	c, ok := v.(*ssa.Const)
	return ok && c.Value == nil && c.IsNil()
}

// nilCheck: literal compares something with nil.
func nilCheck(l Lit) bool {
	return l.Kind == "eq" && (isNilConst(l.X) || isNilConst(l.Y))
}

// nilCheckedValue returns the non-nil operand of a nil comparison.
func nilCheckedValue(l Lit) ssa.Value {
	if l.Kind != "eq" {
		return nil
	}
	if isNilConst(l.X) {
		return l.Y
	}
	if isNilConst(l.Y) {
		return l.X
	}
	return nil
}

// typeAssertOK: literal is the ok result of a comma-ok type assertion; returns operand and asserted type.
func typeAssertOK(l Lit) (ssa.Value, types.Type, *ssa.TypeAssert) {
	if l.Kind != "cond" || l.Val == nil {
		return nil, nil, nil
	}
	ex, ok := l.Val.(*ssa.Extract)
	if !ok || ex.Index != 1 {
		return nil, nil, nil
	}
	ta, ok := ex.Tuple.(*ssa.TypeAssert)
	if !ok || !ta.CommaOk {
		return nil, nil, nil
	}
	return ta.X, ta.AssertedType, ta
}

// lookupOK: literal is the ok result of a comma-ok map lookup.
func lookupOK(l Lit) *ssa.Lookup {
	if l.Kind != "cond" || l.Val == nil {
		return nil
	}
	if lk, ok := l.Val.(*ssa.Lookup); ok && !lk.CommaOk && boolSetMap(lk.X) {
		return lk // m[k] on a map[K]bool that only ever stores true: the same membership test
	}
	ex, ok := l.Val.(*ssa.Extract)
	if !ok || ex.Index != 1 {
		return nil
	}
	lk, _ := ex.Tuple.(*ssa.Lookup)
	return lk
}

// boolSetMap: m is a locally made map[K]bool into which only the constant true is ever stored.
func boolSetMap(m ssa.Value) bool {
	mt, ok := m.Type().Underlying().(*types.Map)
	if !ok {
		return false
	}
	if b, ok := mt.Elem().Underlying().(*types.Basic); !ok || b.Kind() != types.Bool {
		return false
	}
	// the map value itself, or the single-assignment local variable holding it
	holders := []ssa.Value{m}
	if u, ok := m.(*ssa.UnOp); ok && u.Op == token.MUL {
		cell, ok := u.X.(*ssa.Alloc)
		if !ok {
			return false
		}
		var made ssa.Value
		nStores := 0
		for _, r := range *cell.Referrers() {
			switch x := r.(type) {
			case *ssa.Store:
				if x.Addr == cell {
					nStores++
					made = x.Val
				}
			case *ssa.UnOp:
				holders = append(holders, x)
			default:
				return false // address escapes
			}
		}
		if nStores != 1 {
			return false
		}
		holders = append(holders, made)
		m = made
	}
	if _, ok := m.(*ssa.MakeMap); !ok {
		return false
	}
	n := 0
	for _, h := range holders {
		refs := h.Referrers()
		if refs == nil {
			continue
		}
		for _, r := range *refs {
			switch x := r.(type) {
			case *ssa.MapUpdate:
				if x.Map != h {
					return false
				}
				cv, isC := constBool(x.Value)
				if !isC || !cv {
					return false
				}
				n++
			case *ssa.Lookup, *ssa.Store, *ssa.DebugRef:
			case *ssa.Call:
				if bi, isB := x.Call.Value.(*ssa.Builtin); !isB || bi.Name() != "len" {
					return false
				}
			default:
				return false // handed elsewhere: cannot see all writes
			}
		}
	}
	return n > 0
}

// litCall: literal is (the bool result of) a call; returns the call.
func litCall(l Lit) *ssa.Call {
	if l.Kind != "cond" || l.Val == nil {
		return nil
	}
	c, _ := l.Val.(*ssa.Call)
	return c
}

func (P *Program) litCallTo(l Lit, name string) *ssa.Call {
	if l.Kind != "cond" || l.Val == nil {
		return nil
	}
	return P.CallTo(l.Val, name)
}

// lenOf: v is len(x); returns x.
func lenOf(v ssa.Value) ssa.Value {
	c, ok := v.(*ssa.Call)
	if !ok {
		return nil
	}
	b, ok := c.Call.Value.(*ssa.Builtin)
	if !ok || b.Name() != "len" || len(c.Call.Args) != 1 {
		return nil
	}
	return c.Call.Args[0]
}

// lenZeroCheck: literal compares len(x) with 0 (or is `len(x) > 0` etc.).
func lenCheck(l Lit) bool {
	if l.Kind != "eq" && l.Kind != "lt" {
		return false
	}
	return lenOf(l.X) != nil || lenOf(l.Y) != nil
}

// ---- provenance helpers ----------------------------------------------------------------------

// derives reports whether target is reachable from v by walking backwards through operands and
// origin resolution (deep). calleesOut collects the names of calls on the way.
func (P *Program) derives(v ssa.Value, target func(ssa.Value) bool, maxDepth int) (bool, []string) {
	seen := map[ssa.Value]bool{}
	var callees []string
	found := false
	var walk func(v ssa.Value, d int)
	walk = func(v ssa.Value, d int) {
		if v == nil || d > maxDepth || seen[v] {
			return
		}
		seen[v] = true
		if target(v) {
			found = true
		}
		for _, r := range P.ResolveDeep(v) {
			if r != v {
				if target(r) {
					found = true
				}
				if seen[r] {
					continue
				}
				seen[r] = true
			}
			if c, ok := r.(*ssa.Call); ok {
				callees = append(callees, P.calleeName(c.Common()))
			}
			if ex, ok := r.(*ssa.Extract); ok {
				walk(ex.Tuple, d+1)
				continue
			}
			ins, ok := r.(ssa.Instruction)
			if !ok {
				continue
			}
			for _, op := range ins.Operands(nil) {
				if *op != nil {
					walk(*op, d+1)
				}
			}
		}
	}
	walk(v, 0)
	sort.Strings(callees)
	return found, callees
}

func hasCallee(callees []string, sub string) bool {
	for _, c := range callees {
		if strings.Contains(c, sub) {
			return true
		}
	}
	return false
}

// originCalls: the names of the calls that are direct (deep) origins of v; ok=false if some origin is not a call.
func (P *Program) originCalls(v ssa.Value) (names []string, allCalls bool) {
	allCalls = true
	for _, r := range P.ResolveDeep(v) {
		if c, ok := r.(*ssa.Call); ok {
			names = append(names, P.calleeName(c.Common()))
		} else {
			allCalls = false
			names = append(names, P.termDesc(r, false))
		}
	}
	sort.Strings(names)
	return
}

// originatesOnlyFrom: every deep origin of v is a call to a function whose name has one of the prefixes.
func (P *Program) originatesOnlyFrom(v ssa.Value, prefixes ...string) bool {
	names, all := P.originCalls(v)
	if !all || len(names) == 0 {
		return false
	}
	for _, n := range names {
		ok := false
		for _, p := range prefixes {
			if strings.HasPrefix(n, p) {
				ok = true
			}
		}
		if !ok {
			return false
		}
	}
	return true
}

// isPassPkgCall: v is pass.Pkg.<method>() for the analysis pass (method = "Path" or "Name").
func (P *Program) isPassPkgCall(v ssa.Value, method string) bool {
	return P.RootsAllDeep(v, func(r ssa.Value) bool {
		c := P.CallTo(r, "(*go/types.Package)."+method)
		if c == nil {
			return false
		}
		return P.isPassField(c.Call.Args[0], "Pkg")
	})
}

// isPassField: v is the field `name` of an *analysis.Pass.
func (P *Program) isPassField(v ssa.Value, name string) bool {
	return P.RootsAllDeep(v, func(r ssa.Value) bool {
		u, ok := r.(*ssa.UnOp)
		if !ok {
			return false
		}
		fa, ok := u.X.(*ssa.FieldAddr)
		if !ok {
			return false
		}
		if typeStr(deref(fa.X.Type())) != "golang.org/x/tools/go/analysis.Pass" {
			return false
		}
		st := deref(fa.X.Type()).Underlying().(*types.Struct)
		return st.Field(fa.Field).Name() == name
	})
}

// RootsAllDeep: every deep origin satisfies pred (and there is at least one).
func (P *Program) RootsAllDeep(v ssa.Value, pred func(ssa.Value) bool) bool {
	roots := P.ResolveDeep(v)
	if len(roots) == 0 {
		return false
	}
	for _, r := range roots {
		if !pred(r) {
			return false
		}
	}
	return true
}

// fieldLoad: r is a load of field `field` of a struct whose type renders as `typ`; returns the base pointer/value.
func fieldLoad(r ssa.Value, typ, field string) ssa.Value {
	switch x := r.(type) {
	case *ssa.UnOp:
		fa, ok := x.X.(*ssa.FieldAddr)
		if !ok {
			return nil
		}
		if typ != "" && typeStr(deref(fa.X.Type())) != typ {
			return nil
		}
		st := deref(fa.X.Type()).Underlying().(*types.Struct)
		if st.Field(fa.Field).Name() != field {
			return nil
		}
		return fa.X
	case *ssa.Field:
		if typ != "" && typeStr(x.X.Type()) != typ {
			return nil
		}
		st := x.X.Type().Underlying().(*types.Struct)
		if st.Field(x.Field).Name() != field {
			return nil
		}
		return x.X
	}
	return nil
}

// short renders a (possibly long) descriptor for messages.
var shortLimit = func() int {
	if n, err := strconv.Atoi(os.Getenv("GGV_SHORT")); err == nil && n > 0 {
		return n
	}
	return 220
}()

func short(s string) string {
	if len(s) > shortLimit {
		return s[:shortLimit] + "…"
	}
	return s
}

// litOther: for an eq literal one side of which has descriptor c (a constant), the descriptor of the other side as
// it was computed when the literal was made (i.e. in the calling context it was made in); "" if l is not that.
func litOther(l Lit, c string) string {
	if l.Kind != "eq" {
		return ""
	}
	k := l.Key
	if strings.HasPrefix(k, "eq("+c+", ") && strings.HasSuffix(k, ")") {
		return k[len("eq("+c+", ") : len(k)-1]
	}
	if strings.HasPrefix(k, "eq(") && strings.HasSuffix(k, ", "+c+")") {
		return k[len("eq(") : len(k)-len(", "+c+")")]
	}
	return ""
}

// RootsAnyDeep: some deep origin of v satisfies pred.
func (P *Program) RootsAnyDeep(v ssa.Value, pred func(ssa.Value) bool) bool {
	for _, r := range P.ResolveDeep(v) {
		if pred(r) {
			return true
		}
	}
	return false
}
