package main

// Loading of the analysed tree: go/packages (typed syntax) + go/ssa + call graph.
// Nothing of the analysed program is executed.

import (
	"fmt"
	"go/ast"
	"go/token"
	"go/types"
	"os"
	"path/filepath"
	"sort"
	"strings"
	"time"

	"golang.org/x/tools/go/callgraph"
	"golang.org/x/tools/go/callgraph/cha"
	"golang.org/x/tools/go/callgraph/vta"
	"golang.org/x/tools/go/packages"
	"golang.org/x/tools/go/ssa"
	"golang.org/x/tools/go/ssa/ssautil"
)

const modulePath = "github.com/a14e/gogreement"

// Program is the loaded, type-checked and SSA-built tree.
type Program struct {
	RecvTerminal func(ci ssa.CallInstruction) bool // see flows.go
	Root         string                            // directory of the analysed tree
	Fset         *token.FileSet
	Pkgs         []*packages.Package          // all module packages (product + testutil)
	ByPath       map[string]*packages.Package // import path -> package
	Product      []*packages.Package          // product packages (no testutil)
	SSA          *ssa.Program
	SSAPkg       map[string]*ssa.Package
	AllFuncs     map[*ssa.Function]bool // every function incl. anonymous + instantiations
	ModFuncs     []*ssa.Function        // functions whose package is in the module (product only)
	cg           *callgraph.Graph
	cgCHA        *callgraph.Graph
	LoadSecs     float64
	GOARCH       string

	// lazily built
	callers       map[*ssa.Function][]ssa.CallInstruction
	descMemo      map[descKey]string
	descBusy      map[descKey]bool
	fieldStores   map[fieldKey][]ssa.Value
	fileOf        map[*token.File]*ast.File
	fg            map[*ssa.Function]*funcGuards
	entryMemo     map[*ssa.Function][]Lit
	entryBusy     map[*ssa.Function]bool
	boolSums      map[*ssa.Function]*boolSum
	ov            map[ssa.Value]string
	ovMemo        map[descKey]string
	helperBusy    map[*ssa.Function]bool
	boolSumsK     map[boolSumKey]*boolSum
	pin           map[*ssa.Function]ssa.CallInstruction
	callersHO     map[*ssa.Function][]ssa.CallInstruction // calls through function-typed parameters (depends on pins)
	dynCalls      []ssa.CallInstruction                   // calls of function values not resolved in the first phase
	noParamCallee bool
	boundSites    map[*ssa.Function][]*ssa.MakeClosure
	visitorWalks  map[*ssa.Function][]*ssa.Call // Visit method -> the ast.Walk calls that are given a value of its receiver type
	opaqueCalls   bool
	pinDepth      int
	inlineBusy    map[*ssa.Function]bool
}

// Pinned runs f with fn considered to be called from call only (one calling context of a shared helper).
// Everything memoised that depends on callers is recomputed inside and restored afterwards.
func (P *Program) Pinned(fn *ssa.Function, call ssa.CallInstruction, f func()) {
	if call == nil {
		f()
		return
	}
	P.PinnedAll(map[*ssa.Function]ssa.CallInstruction{fn: call}, f)
}

func (P *Program) PinnedAll(pins map[*ssa.Function]ssa.CallInstruction, f func()) {
	if len(pins) == 0 {
		f()
		return
	}
	P.Callers(nil) // first phase built before pinning
	sDesc, sFg, sEntry, sBool, sBoolK, sPin, sHO := P.descMemo, P.fg, P.entryMemo, P.boolSums, P.boolSumsK, P.pin, P.callersHO
	P.descMemo, P.fg, P.entryMemo, P.boolSums, P.boolSumsK, P.callersHO = nil, nil, nil, nil, nil, nil
	P.pin = map[*ssa.Function]ssa.CallInstruction{}
	for k, v := range sPin {
		P.pin[k] = v
	}
	for k, v := range pins {
		P.pin[k] = v
	}
	defer func() {
		P.descMemo, P.fg, P.entryMemo, P.boolSums, P.boolSumsK, P.pin, P.callersHO = sDesc, sFg, sEntry, sBool, sBoolK, sPin, sHO
	}()
	f()
}

// ContextPins: the calling context "inside root": every product helper that root (with its function literals, and,
// transitively, the helpers so pinned) calls at exactly one place, but which has other callers elsewhere, is
// pinned to that one call.
func (P *Program) ContextPins(root *ssa.Function) (map[*ssa.Function]ssa.CallInstruction, map[*ssa.Function]bool) {
	pins := map[*ssa.Function]ssa.CallInstruction{}
	family := map[*ssa.Function]bool{}
	var addFamily func(f *ssa.Function)
	addFamily = func(f *ssa.Function) {
		if family[f] {
			return
		}
		family[f] = true
		for _, a := range f.AnonFuncs {
			addFamily(a)
		}
	}
	addFamily(root)
	for changed := true; changed; {
		changed = false
		calls := map[*ssa.Function][]ssa.CallInstruction{}
		for f := range family {
			allInstrs(f, func(b *ssa.BasicBlock, ins ssa.Instruction) {
				if ci, ok := ins.(ssa.CallInstruction); ok {
					if g := ci.Common().StaticCallee(); g != nil && P.IsProductFunc(g) && len(g.Blocks) > 0 && !family[g] {
						calls[g] = append(calls[g], ci)
					}
				}
			})
		}
		for g, cs := range calls {
			if len(cs) == 1 {
				if len(P.Callers(g)) >= 2 {
					pins[g] = cs[0]
				}
				addFamily(g)
				changed = true
			}
		}
	}
	return pins, family
}

type boolSumKey struct {
	fn *ssa.Function
	k  int
}

type descKey struct {
	v      ssa.Value
	deep   bool
	opaque bool
}

type fieldKey struct {
	T     *types.Named
	Index int
}

func repoRoot() string {
	if r := os.Getenv("GGV_REPO"); r != "" {
		return r
	}
	return "/repo"
}

// Load loads ./... of the tree at root. Any load or type error is returned (never a verdict).
func Load(root string, goarch string) (*Program, error) {
	t0 := time.Now()
	os.Setenv("PATH", "/opt/veriftools/go1.26.8/bin:"+os.Getenv("PATH"))
	env := []string{}
	for _, e := range os.Environ() {
		if strings.HasPrefix(e, "GOFLAGS=") || strings.HasPrefix(e, "GOWORK=") || strings.HasPrefix(e, "GOTOOLCHAIN=") ||
			strings.HasPrefix(e, "GOPROXY=") || strings.HasPrefix(e, "GOARCH=") || strings.HasPrefix(e, "GOSUMDB=") {
			continue
		}
		env = append(env, e)
	}
	env = append(env, "GOFLAGS=-mod=mod", "GOPROXY=off", "GOTOOLCHAIN=local", "GOWORK=off", "GOSUMDB=off")
	if goarch != "" {
		env = append(env, "GOARCH="+goarch)
	}
	cfg := &packages.Config{
		Mode:  packages.LoadAllSyntax,
		Dir:   root,
		Env:   env,
		Tests: false,
	}
	pkgs, err := packages.Load(cfg, "./...")
	if err != nil {
		return nil, fmt.Errorf("packages.Load: %w", err)
	}
	if len(pkgs) == 0 {
		return nil, fmt.Errorf("no packages loaded from %s", root)
	}
	var errs []string
	packages.Visit(pkgs, nil, func(p *packages.Package) {
		for _, e := range p.Errors {
			errs = append(errs, e.Error())
		}
	})
	if len(errs) > 0 {
		return nil, fmt.Errorf("load/type errors: %s", strings.Join(errs, "; "))
	}
	P := &Program{Root: root, ByPath: map[string]*packages.Package{}, SSAPkg: map[string]*ssa.Package{}, GOARCH: goarch}
	for _, p := range pkgs {
		if !strings.HasPrefix(p.PkgPath, modulePath) {
			continue
		}
		P.Pkgs = append(P.Pkgs, p)
		P.ByPath[p.PkgPath] = p
		if !strings.Contains(p.PkgPath, "/testutil") {
			P.Product = append(P.Product, p)
		}
		P.Fset = p.Fset
	}
	sort.Slice(P.Product, func(i, j int) bool { return P.Product[i].PkgPath < P.Product[j].PkgPath })
	if len(P.Product) == 0 {
		return nil, fmt.Errorf("no product packages of module %s under %s", modulePath, root)
	}
	prog, _ := ssautil.AllPackages(pkgs, ssa.InstantiateGenerics)
	prog.Build()
	P.SSA = prog
	for _, p := range P.Pkgs {
		sp := prog.Package(p.Types)
		if sp == nil {
			return nil, fmt.Errorf("no SSA for %s", p.PkgPath)
		}
		P.SSAPkg[p.PkgPath] = sp
	}
	P.AllFuncs = ssautil.AllFunctions(prog)
	// a generic function is analysed through its instances (built with InstantiateGenerics): the body of the
	// uninstantiated origin has no callers and no concrete types; it is kept only when nothing instantiates it
	instantiated := map[*ssa.Function]bool{}
	for fn := range P.AllFuncs {
		for f := fn; f != nil; f = f.Parent() {
			if o := f.Origin(); o != nil && o != f {
				instantiated[o] = true
			}
		}
	}
	for fn := range P.AllFuncs {
		if !P.IsProductFunc(fn) {
			continue
		}
		skip := false
		for f := fn; f != nil; f = f.Parent() {
			if instantiated[f] && f.TypeParams().Len() > 0 && len(f.TypeArgs()) == 0 {
				skip = true
			}
		}
		if !skip {
			P.ModFuncs = append(P.ModFuncs, fn)
		}
	}
	sort.Slice(P.ModFuncs, func(i, j int) bool { return P.ModFuncs[i].String() < P.ModFuncs[j].String() })
	P.fileOf = map[*token.File]*ast.File{}
	for _, p := range P.Pkgs {
		for _, f := range p.Syntax {
			P.fileOf[P.Fset.File(f.Pos())] = f
		}
	}
	P.LoadSecs = time.Since(t0).Seconds()
	P.RecvTerminal = P.diagPosCall
	return P, nil
}

// funcPkgPath returns the import path of the package a function belongs to ("" if none).
func funcPkgPath(fn *ssa.Function) string {
	for fn != nil {
		if fn.Pkg != nil {
			return fn.Pkg.Pkg.Path()
		}
		if o := fn.Origin(); o != nil && o != fn {
			fn = o
			continue
		}
		if fn.Parent() != nil {
			fn = fn.Parent()
			continue
		}
		if fn.Object() != nil && fn.Object().Pkg() != nil {
			return fn.Object().Pkg().Path()
		}
		return ""
	}
	return ""
}

// IsModuleFunc: function of the analysed module (including testutil).
func (P *Program) IsModuleFunc(fn *ssa.Function) bool {
	return strings.HasPrefix(funcPkgPath(fn), modulePath)
}

// IsProductFunc: function of a product package, with a body, not from a _test file.
func (P *Program) IsProductFunc(fn *ssa.Function) bool {
	pp := funcPkgPath(fn)
	if !strings.HasPrefix(pp, modulePath) || strings.Contains(pp, "/testutil") {
		return false
	}
	return true
}

// CallGraph returns the VTA call graph (built on demand).
func (P *Program) CallGraph() *callgraph.Graph {
	if P.cg == nil {
		P.cgCHA = cha.CallGraph(P.SSA)
		P.cg = vta.CallGraph(P.AllFuncs, P.cgCHA)
	}
	return P.cg
}

// CHAGraph returns the CHA call graph.
func (P *Program) CHAGraph() *callgraph.Graph {
	P.CallGraph()
	return P.cgCHA
}

// Pos renders a position relative to the tree root ("src/x/y.go:12").
func (P *Program) Pos(p token.Pos) string {
	if !p.IsValid() {
		return "-"
	}
	pos := P.Fset.Position(p)
	rel, err := filepath.Rel(P.Root, pos.Filename)
	if err != nil {
		rel = pos.Filename
	}
	return fmt.Sprintf("%s:%d", rel, pos.Line)
}

// FuncName renders a short stable name for an SSA function: pkg.Func, pkg.(T).M, pkg.F$1.
func FuncName(fn *ssa.Function) string {
	if fn == nil {
		return "<nil>"
	}
	s := fn.String()
	s = strings.ReplaceAll(s, modulePath+"/src/", "")
	s = strings.ReplaceAll(s, modulePath+"/", "")
	return s
}

// Pkg returns the product package with the given last path element(s), e.g. "immutable".
func (P *Program) Pkg(short string) *packages.Package {
	for _, p := range P.Pkgs {
		if p.PkgPath == modulePath+"/src/"+short || p.PkgPath == modulePath+"/"+short {
			return p
		}
	}
	return nil
}

// SrcFunc returns the SSA function for a source-level function object.
func (P *Program) SrcFunc(obj *types.Func) *ssa.Function {
	return P.SSA.FuncValue(obj)
}

// LookupFunc finds pkg-level function or method "T.M" in a product package by short name.
func (P *Program) LookupFunc(pkgShort, name string) *ssa.Function {
	p := P.Pkg(pkgShort)
	if p == nil {
		return nil
	}
	if i := strings.Index(name, "."); i >= 0 {
		tn, _ := p.Types.Scope().Lookup(name[:i]).(*types.TypeName)
		if tn == nil {
			return nil
		}
		for _, t := range []types.Type{tn.Type(), types.NewPointer(tn.Type())} {
			ms := types.NewMethodSet(t)
			for j := 0; j < ms.Len(); j++ {
				if ms.At(j).Obj().Name() == name[i+1:] {
					return P.SSA.FuncValue(ms.At(j).Obj().(*types.Func))
				}
			}
		}
		return nil
	}
	f, _ := p.Types.Scope().Lookup(name).(*types.Func)
	if f == nil {
		return nil
	}
	return P.SSA.FuncValue(f)
}

// EnclosingFuncDecl returns the top-level FuncDecl (or nil) of the file that encloses pos.
func (P *Program) FileAt(pos token.Pos) *ast.File {
	tf := P.Fset.File(pos)
	if tf == nil {
		return nil
	}
	return P.fileOf[tf]
}

// allInstrs iterates over all instructions of a function.
func allInstrs(fn *ssa.Function, f func(b *ssa.BasicBlock, ins ssa.Instruction)) {
	for _, b := range fn.Blocks {
		for _, ins := range b.Instrs {
			f(b, ins)
		}
	}
}

// Callers returns the static in-module call sites of fn (product code only): direct calls, calls through a local
// variable holding one function literal, and - second phase - calls through a function-typed parameter of a product
// helper whose every (pinned) call site passes the same function literal.
func (P *Program) Callers(fn *ssa.Function) []ssa.CallInstruction {
	if P.callers == nil {
		P.callers = map[*ssa.Function][]ssa.CallInstruction{}
		P.noParamCallee = true
		for _, f := range P.ModFuncs {
			if f.Synthetic != "" && f.Synthetic != "range-over-func yield" && !strings.HasPrefix(f.Synthetic, "instance of ") && !isBoundWrapper(f) {
				continue // wrappers / thunks synthesised by go/ssa are not source call sites
			}
			allInstrs(f, func(b *ssa.BasicBlock, ins ssa.Instruction) {
				if ci, ok := ins.(ssa.CallInstruction); ok {
					if callee := P.Callee(ci.Common()); callee != nil {
						P.callers[callee] = append(P.callers[callee], ci)
					} else if !ci.Common().IsInvoke() {
						P.dynCalls = append(P.dynCalls, ci)
					}
				}
			})
		}
		P.noParamCallee = false
	}
	if call, ok := P.pin[fn]; ok {
		return []ssa.CallInstruction{call}
	}
	if w := P.visitorWalk(fn); w != nil {
		// the Visit method is entered (by the library) where its visitor is handed to ast.Walk
		return []ssa.CallInstruction{w}
	}
	if P.noParamCallee {
		return P.callers[fn]
	}
	if P.callersHO == nil {
		ho := map[*ssa.Function][]ssa.CallInstruction{}
		P.callersHO = map[*ssa.Function][]ssa.CallInstruction{} // non-nil: recursion sees phase 1 only
		for _, ci := range P.dynCalls {
			if callee := P.closureValue(ci.Common().Value, 0); callee != nil {
				ho[callee] = append(ho[callee], ci)
				continue
			}
			// a function-typed parameter that different callers bind to different literals (a shared body that is
			// handed its varying steps): this call invokes each of those literals
			prm, ok := ci.Common().Value.(*ssa.Parameter)
			if !ok {
				continue
			}
			h := prm.Parent()
			pi := -1
			for i, q := range h.Params {
				if q == prm {
					pi = i
				}
			}
			if pi < 0 || !P.IsProductFunc(h) {
				continue
			}
			seenLit := map[*ssa.Function]bool{}
			for _, cs := range P.callers[h] {
				if pi >= len(cs.Common().Args) {
					continue
				}
				if lit := P.closureValue(cs.Common().Args[pi], 0); lit != nil && !seenLit[lit] {
					seenLit[lit] = true
					ho[lit] = append(ho[lit], ci)
				}
			}
		}
		P.callersHO = ho
	}
	if extra := P.callersHO[fn]; len(extra) > 0 {
		return append(append([]ssa.CallInstruction{}, P.callers[fn]...), extra...)
	}
	return P.callers[fn]
}

// Callee resolves the function a call invokes: the static callee, or - for a call through a local variable that
// only ever holds one function literal (`add := func(...){...}; add(x)`, also when captured by another closure) -
// that literal.
func (P *Program) Callee(c *ssa.CallCommon) *ssa.Function {
	if sc := c.StaticCallee(); sc != nil {
		return sc
	}
	if c.IsInvoke() {
		return nil
	}
	return P.closureValue(c.Value, 0)
}

func (P *Program) closureValue(v ssa.Value, depth int) *ssa.Function {
	if depth > 6 {
		return nil
	}
	switch x := v.(type) {
	case *ssa.MakeClosure:
		f, _ := x.Fn.(*ssa.Function)
		return f
	case *ssa.Function:
		return x
	case *ssa.FreeVar:
		if b := P.freeVarBinding(x); b != nil {
			return P.closureValue(b, depth+1)
		}
	case *ssa.Parameter:
		// function-typed parameter of a product helper: the literal every call site passes
		if P.noParamCallee {
			return nil
		}
		args := P.paramArgs(x)
		var f *ssa.Function
		for _, a := range args {
			g := P.closureValue(a, depth+1)
			if g == nil || (f != nil && g != f) {
				return nil
			}
			f = g
		}
		return f
	case *ssa.UnOp:
		if x.Op != token.MUL {
			return nil
		}
		cell := P.cellOf(x.X)
		if cell == nil {
			return nil
		}
		vals, _, escaped := P.CellStores(cell)
		if escaped || len(vals) == 0 {
			return nil
		}
		var f *ssa.Function
		for _, s := range vals {
			g := P.closureValue(s, depth+1)
			if g == nil || (f != nil && g != f) {
				return nil
			}
			f = g
		}
		return f
	}
	return nil
}

// closureCandidates: the functions a function-typed value may be (a literal, a method value, a function; through
// free variables and the arguments of every call site of a parameter); nil if some origin is unknown.
func (P *Program) closureCandidates(v ssa.Value, depth int) []*ssa.Function {
	if depth > 6 {
		return nil
	}
	switch x := v.(type) {
	case *ssa.MakeClosure:
		if f, ok := x.Fn.(*ssa.Function); ok {
			return []*ssa.Function{f}
		}
	case *ssa.Function:
		return []*ssa.Function{x}
	case *ssa.ChangeType:
		return P.closureCandidates(x.X, depth+1)
	case *ssa.FreeVar:
		if b := P.freeVarBinding(x); b != nil {
			return P.closureCandidates(b, depth+1)
		}
	case *ssa.Parameter:
		args := P.paramArgs(x)
		if len(args) == 0 {
			return nil
		}
		var out []*ssa.Function
		for _, a := range args {
			fs := P.closureCandidates(a, depth+1)
			if fs == nil {
				return nil
			}
			out = append(out, fs...)
		}
		return out
	case *ssa.Phi:
		var out []*ssa.Function
		for _, e := range x.Edges {
			fs := P.closureCandidates(e, depth+1)
			if fs == nil {
				return nil
			}
			out = append(out, fs...)
		}
		return out
	}
	return nil
}
