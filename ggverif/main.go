package main

import (
	"fmt"
	"go/token"
	"go/types"
	"os"
	"sort"

	"golang.org/x/tools/go/ssa"
)

func main() {
	if len(os.Args) < 2 {
		fmt.Fprintln(os.Stderr, "usage: ggverif check -prop <id|all> -tier quick|thorough | dump <what> | replay <file>")
		os.Exit(2)
	}
	switch os.Args[1] {
	case "dump":
		cmdDump(os.Args[2:])
	case "check":
		os.Exit(cmdCheck(os.Args[2:]))
	default:
		fmt.Fprintln(os.Stderr, "unknown command")
		os.Exit(2)
	}
}

func cmdDump(args []string) {
	P, err := Load(repoRoot(), "")
	if err != nil {
		fmt.Println("ERROR:", err)
		os.Exit(2)
	}
	M, err := P.BuildModel()
	if err != nil {
		fmt.Println("ERROR:", err)
		os.Exit(2)
	}
	if len(args) >= 1 {
		if h, ok := debugHooks[args[0]]; ok {
			a := ""
			if len(args) > 1 {
				a = args[1]
			}
			h(P, M, a)
			return
		}
	}
	fmt.Printf("packages=%d product=%d funcs=%d load=%.1fs\n", len(P.Pkgs), len(P.Product), len(P.ModFuncs), P.LoadSecs)
	for _, a := range M.Analyzers {
		fmt.Printf("analyzer %s name=%q run=%v requires=%d facts=%v\n", a.VarName, a.Name, a.Run != nil, len(a.Requires), a.FactTypes)
	}
	for _, vt := range M.VTypes {
		fmt.Printf("vtype %s.%s\n", vt.Pkg, vt.Named.Obj().Name())
	}
	for _, s := range M.Sites {
		fmt.Printf("\nSITE %s %s in %s code=%s\n", P.Pos(s.Alloc.Pos()), s.VT.Named.Obj().Name(), FuncName(s.Fn), s.Code)
		if s.PosVal != nil {
			fmt.Printf("   pos: %s\n", P.Desc(s.PosVal))
		}
		for _, l := range P.Guards(s.Alloc) {
			fmt.Printf("   %s\n", l)
		}
	}
}

func init() {
	debugHooks["flow"] = func(P *Program, M *Model, arg string) {
		c := &Ctx{P: P, M: M}
		for _, s := range M.Sites {
			if !containsStr(FuncName(s.Fn), arg) {
				continue
			}
			si := c.buildSiteInfo(s)
			fmt.Printf("SITE %s reached=%v dropped=%v\n", si.Name, si.Flow.Reached, si.Flow.Dropped)
			for _, l := range si.Flow.Guards.list() {
				fmt.Printf("   FLOW %s\n", short(l.String()))
			}
		}
	}
}

var debugHooks = map[string]func(P *Program, M *Model, arg string){}

func containsStr(s, sub string) bool {
	return len(sub) == 0 || (len(s) >= len(sub) && indexOf(s, sub) >= 0)
}
func indexOf(s, sub string) int {
	for i := 0; i+len(sub) <= len(s); i++ {
		if s[i:i+len(sub)] == sub {
			return i
		}
	}
	return -1
}

func init() {
	debugHooks["ssa"] = func(P *Program, M *Model, arg string) {
		for _, fn := range P.ModFuncs {
			if containsStr(FuncName(fn), arg) {
				fn.WriteTo(os.Stdout)
			}
		}
	}
}

func init() {
	debugHooks["index"] = func(P *Program, M *Model, arg string) {
		for _, fn := range P.ModFuncs {
			allInstrs(fn, func(b *ssa.BasicBlock, ins ssa.Instruction) {
				switch x := ins.(type) {
				case *ssa.IndexAddr:
					if isRangeIndex(x.Index) {
						return
					}
					if _, isArr := deref(x.X.Type()).Underlying().(*types.Array); isArr {
						return
					}
					fmt.Printf("INDEXADDR %s %s  idx=%s  base=%s\n", P.Pos(x.Pos()), FuncName(fn), short(P.Desc(x.Index)), short(P.Desc(x.X)))
				case *ssa.Slice:
					if _, isArr := deref(x.X.Type()).Underlying().(*types.Array); isArr {
						return
					}
					lo, hi := "", ""
					if x.Low != nil {
						lo = short(P.Desc(x.Low))
					}
					if x.High != nil {
						hi = short(P.Desc(x.High))
					}
					fmt.Printf("SLICE %s %s  [%s:%s] base=%s\n", P.Pos(x.Pos()), FuncName(fn), lo, hi, short(P.Desc(x.X)))
				case *ssa.Index:
					fmt.Printf("INDEX %s %s idx=%s\n", P.Pos(x.Pos()), FuncName(fn), short(P.Desc(x.Index)))
				}
			})
		}
	}
}

func init() {
	debugHooks["pins"] = func(P *Program, M *Model, arg string) {
		for fn := range P.AllFuncs {
			if !containsStr(FuncName(fn), arg) || fn.Parent() != nil || len(fn.Blocks) == 0 {
				continue
			}
			pins, family := P.ContextPins(fn)
			fmt.Printf("ROOT %s\n", FuncName(fn))
			for g, c := range pins {
				fmt.Printf("  PIN %s <- %s\n", FuncName(g), P.Pos(c.Pos()))
			}
			P.PinnedAll(pins, func() {
				for f := range family {
					fmt.Printf("  FAMILY %s callers=%d\n", FuncName(f), len(P.Callers(f)))
					for _, p := range f.Params {
						fmt.Printf("     param %s = %s\n", p.Name(), short(P.Desc(p)))
					}
				}
				fmt.Printf("  dyn calls: %d\n", len(P.dynCalls))
				for _, ci := range P.dynCalls {
					if containsStr(FuncName(ci.Parent()), arg) || containsStr(FuncName(ci.Parent()), "forEach") {
						fmt.Printf("    DYN %s in %s -> %v\n", P.Pos(ci.Pos()), FuncName(ci.Parent()), P.closureValue(ci.Common().Value, 0))
					}
				}
			})
		}
	}
}

func init() {
	debugHooks["guards"] = func(P *Program, M *Model, arg string) {
		for _, fn := range P.ModFuncs {
			if !containsStr(FuncName(fn), arg) {
				continue
			}
			fmt.Printf("FUNC %s\n", FuncName(fn))
			for _, b := range fn.Blocks {
				fmt.Printf("  block %d (%s) %s\n", b.Index, b.Comment, P.Pos(firstPos(b)))
				for _, l := range P.BlockGuards(b) {
					fmt.Printf("      %s [%s]\n", short(l.String()), l.Kind)
				}
			}
		}
	}
}

func firstPos(b *ssa.BasicBlock) token.Pos {
	for _, ins := range b.Instrs {
		if ins.Pos().IsValid() {
			return ins.Pos()
		}
	}
	return token.NoPos
}

func init() {
	debugHooks["anchors"] = func(P *Program, M *Model, arg string) {
		set := map[string]bool{}
		for fn := range P.AllFuncs {
			if fn.Parent() == nil && P.IsProductFunc(fn) && P.isAnchor(fn) {
				set[baseName(fn)] = true
			}
		}
		var l []string
		for n := range set {
			l = append(l, n)
		}
		sort.Strings(l)
		for _, n := range l {
			fmt.Printf("%q,\n", n)
		}
	}
}

func init() {
	debugHooks["libptr"] = func(P *Program, M *Model, arg string) {
		seen := map[string]int{}
		for _, fn := range P.ModFuncs {
			allInstrs(fn, func(b *ssa.BasicBlock, ins ssa.Instruction) {
				call, ok := ins.(*ssa.Call)
				if !ok {
					return
				}
				callee := call.Call.StaticCallee()
				if callee != nil && P.IsProductFunc(callee) {
					return
				}
				if _, isB := call.Call.Value.(*ssa.Builtin); isB {
					return
				}
				t := call.Type()
				if tup, isT := t.(*types.Tuple); isT {
					if tup.Len() == 0 {
						return
					}
					t = tup.At(0).Type()
				}
				if !isPointerLike(t) {
					return
				}
				n := P.calleeName(call.Common())
				if _, known := nilableCalls[n]; known {
					return
				}
				seen[n]++
			})
		}
		var l []string
		for n, k := range seen {
			l = append(l, fmt.Sprintf("%3d %s", k, n))
		}
		sort.Strings(l)
		for _, x := range l {
			fmt.Println(x)
		}
	}
}
