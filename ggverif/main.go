package main

import (
	"fmt"
	"os"
)

func main() {
	if len(os.Args) < 2 {
		fmt.Fprintln(os.Stderr, "usage: ggverif check -prop <id|all> -tier quick|thorough | dump <what> | replay <file>")
		os.Exit(2)
	}
	switch os.Args[1] {
	case "dump":
		cmdDump(os.Args[2:])
	case "check":
		os.Exit(cmdCheck(os.Args[2:]))
	default:
		fmt.Fprintln(os.Stderr, "unknown command")
		os.Exit(2)
	}
}

func cmdDump(args []string) {
	P, err := Load(repoRoot(), "")
	if err != nil {
		fmt.Println("ERROR:", err)
		os.Exit(2)
	}
	M, err := P.BuildModel()
	if err != nil {
		fmt.Println("ERROR:", err)
		os.Exit(2)
	}
	fmt.Printf("packages=%d product=%d funcs=%d load=%.1fs\n", len(P.Pkgs), len(P.Product), len(P.ModFuncs), P.LoadSecs)
	for _, a := range M.Analyzers {
		fmt.Printf("analyzer %s name=%q run=%v requires=%d facts=%v\n", a.VarName, a.Name, a.Run != nil, len(a.Requires), a.FactTypes)
	}
	for _, vt := range M.VTypes {
		fmt.Printf("vtype %s.%s\n", vt.Pkg, vt.Named.Obj().Name())
	}
	for _, s := range M.Sites {
		fmt.Printf("\nSITE %s %s in %s code=%s\n", P.Pos(s.Alloc.Pos()), s.VT.Named.Obj().Name(), FuncName(s.Fn), s.Code)
		if s.PosVal != nil {
			fmt.Printf("   pos: %s\n", P.Desc(s.PosVal))
		}
		for _, l := range P.Guards(s.Alloc) {
			fmt.Printf("   %s\n", l)
		}
	}
}
