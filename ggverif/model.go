package main

// A-MODEL: the program model extracted from the analysed source (never configured by hand).

import (
	"fmt"
	"go/ast"
	"go/constant"
	"go/token"
	"go/types"
	"regexp"
	"sort"
	"strings"

	"golang.org/x/tools/go/ssa"
)

// AnalyzerInfo describes one package-level *analysis.Analyzer composite literal.
type AnalyzerInfo struct {
	VarName    string
	Obj        *types.Var
	Lit        *ast.CompositeLit
	Name       string
	Run        *types.Func
	RunSSA     *ssa.Function
	Requires   []*types.Var
	FactTypes  []types.Type // pointer types
	ResultType ast.Expr
	Flags      ast.Expr
	Pos        token.Pos
}

// ViolationType is a named type implementing reporting.Violation.
type ViolationType struct {
	Named   *types.Named
	Pkg     string // short package name
	GetCode *ssa.Function
	GetPos  *ssa.Function
	GetMsg  *ssa.Function
}

// ReportSite is a composite literal of a violation type in product code.
type ReportSite struct {
	Alloc   *ssa.Alloc
	Fn      *ssa.Function
	VT      *ViolationType
	Code    string // value of the code constant ("" if undetermined)
	CodeVal ssa.Value
	PosVal  ssa.Value
	Fields  map[string]ssa.Value
	Via     ssa.CallInstruction // when the code is a parameter of Fn: the call site that supplies this code
}

type Model struct {
	P          *Program
	Analyzers  []*AnalyzerInfo
	Violation  *types.Interface
	VTypes     []*ViolationType
	Sites      []*ReportSite
	CodeConsts map[string]string // const name -> value (package codes)
}

func (P *Program) BuildModel() (*Model, error) {
	M := &Model{P: P, CodeConsts: map[string]string{}}
	// analyzers
	for _, pkg := range P.Product {
		for _, f := range pkg.Syntax {
			if strings.HasSuffix(P.Fset.Position(f.Pos()).Filename, "_test.go") {
				continue
			}
			for _, d := range f.Decls {
				gd, ok := d.(*ast.GenDecl)
				if !ok || gd.Tok != token.VAR {
					continue
				}
				for _, sp := range gd.Specs {
					vs := sp.(*ast.ValueSpec)
					for i, nm := range vs.Names {
						if i >= len(vs.Values) {
							continue
						}
						ue, ok := vs.Values[i].(*ast.UnaryExpr)
						if !ok || ue.Op != token.AND {
							continue
						}
						cl, ok := ue.X.(*ast.CompositeLit)
						if !ok {
							continue
						}
						t := pkg.TypesInfo.TypeOf(cl)
						if t == nil || typeStr(t) != "golang.org/x/tools/go/analysis.Analyzer" {
							continue
						}
						ai := &AnalyzerInfo{VarName: nm.Name, Lit: cl, Pos: nm.Pos()}
						ai.Obj, _ = pkg.TypesInfo.Defs[nm].(*types.Var)
						for _, el := range cl.Elts {
							kv, ok := el.(*ast.KeyValueExpr)
							if !ok {
								continue
							}
							key := kv.Key.(*ast.Ident).Name
							switch key {
							case "Name":
								if tv, ok := pkg.TypesInfo.Types[kv.Value]; ok && tv.Value != nil {
									ai.Name = constant.StringVal(tv.Value)
								}
							case "Run":
								if id, ok := kv.Value.(*ast.Ident); ok {
									ai.Run, _ = pkg.TypesInfo.Uses[id].(*types.Func)
								}
							case "Requires":
								if rl, ok := kv.Value.(*ast.CompositeLit); ok {
									for _, e := range rl.Elts {
										if id, ok := e.(*ast.Ident); ok {
											if v, ok := pkg.TypesInfo.Uses[id].(*types.Var); ok {
												ai.Requires = append(ai.Requires, v)
											}
										}
									}
								}
							case "FactTypes":
								if rl, ok := kv.Value.(*ast.CompositeLit); ok {
									for _, e := range rl.Elts {
										if t := pkg.TypesInfo.TypeOf(e); t != nil {
											ai.FactTypes = append(ai.FactTypes, t)
										}
									}
								}
							case "ResultType":
								ai.ResultType = kv.Value
							case "Flags":
								ai.Flags = kv.Value
							}
						}
						if ai.Run != nil {
							ai.RunSSA = P.SSA.FuncValue(ai.Run)
						}
						M.Analyzers = append(M.Analyzers, ai)
					}
				}
			}
		}
	}
	// violation interface + types
	rp := P.Pkg("reporting")
	if rp == nil {
		return nil, fmt.Errorf("package reporting not found")
	}
	vobj, _ := rp.Types.Scope().Lookup("Violation").(*types.TypeName)
	if vobj == nil {
		return nil, fmt.Errorf("reporting.Violation not found")
	}
	M.Violation, _ = vobj.Type().Underlying().(*types.Interface)
	if M.Violation == nil {
		return nil, fmt.Errorf("reporting.Violation is not an interface")
	}
	for _, pkg := range P.Product {
		sc := pkg.Types.Scope()
		for _, name := range sc.Names() {
			tn, ok := sc.Lookup(name).(*types.TypeName)
			if !ok || tn.IsAlias() {
				continue
			}
			n, ok := tn.Type().(*types.Named)
			if !ok || types.IsInterface(n) {
				continue
			}
			if !types.Implements(n, M.Violation) && !types.Implements(types.NewPointer(n), M.Violation) {
				continue
			}
			vt := &ViolationType{Named: n, Pkg: pkg.Types.Name()}
			ms := types.NewMethodSet(types.NewPointer(n))
			for i := 0; i < ms.Len(); i++ {
				fo := ms.At(i).Obj().(*types.Func)
				switch fo.Name() {
				case "GetCode":
					vt.GetCode = P.SSA.FuncValue(fo)
				case "GetPos":
					vt.GetPos = P.SSA.FuncValue(fo)
				case "GetMessage":
					vt.GetMsg = P.SSA.FuncValue(fo)
				}
			}
			M.VTypes = append(M.VTypes, vt)
		}
	}
	// code constants
	if cp := P.Pkg("codes"); cp != nil {
		sc := cp.Types.Scope()
		for _, name := range sc.Names() {
			if c, ok := sc.Lookup(name).(*types.Const); ok && c.Val().Kind() == constant.String {
				// the code table: exported string constants (codes and category prefixes), and anything that looks
				// like a code; private helper constants (a base URL, a format) are not codes
				if v := constant.StringVal(c.Val()); c.Exported() || codeShape.MatchString(v) {
					M.CodeConsts[name] = v
				}
			}
		}
	}
	// report sites
	for _, fn := range P.ModFuncs {
		if fn.Synthetic != "" && fn.Synthetic != "range-over-func yield" {
			continue
		}
		allInstrs(fn, func(b *ssa.BasicBlock, ins ssa.Instruction) {
			a, ok := ins.(*ssa.Alloc)
			if !ok || a.Comment != "complit" {
				return
			}
			vt := M.vtypeOf(deref(a.Type()))
			if vt == nil {
				return
			}
			rs := &ReportSite{Alloc: a, Fn: fn, VT: vt, Fields: map[string]ssa.Value{}}
			st := vt.Named.Underlying().(*types.Struct)
			if refs := a.Referrers(); refs != nil {
				for _, r := range *refs {
					fa, ok := r.(*ssa.FieldAddr)
					if !ok {
						continue
					}
					if frefs := fa.Referrers(); frefs != nil {
						for _, fr := range *frefs {
							if s, ok := fr.(*ssa.Store); ok && s.Addr == fa {
								rs.Fields[st.Field(fa.Field).Name()] = s.Val
							}
						}
					}
				}
			}
			rs.CodeVal = rs.Fields["Code"]
			rs.PosVal = rs.Fields["Pos"]
			if rs.CodeVal != nil {
				rs.Code = constString(rs.CodeVal)
			} else if vt.GetCode != nil {
				rs.Code = M.constReturn(vt.GetCode)
			}
			M.Sites = append(M.Sites, rs)
		})
	}
	// a site whose code is a parameter of its function stands for one site per call site (merged sibling functions)
	var expanded []*ReportSite
	for _, rs := range M.Sites {
		par, isPar := rs.CodeVal.(*ssa.Parameter)
		if rs.Code != "" || !isPar || par.Parent() != rs.Fn {
			// a site in a function with several call sites is analysed once per call site: analogous but
			// textually different guards of the callers (different node kinds, different index arguments)
			// would otherwise be lost in an intersection
			if cs := P.Callers(rs.Fn); len(cs) >= 2 && len(cs) <= 6 {
				for _, c1 := range cs {
					cp := *rs
					cp.Via = c1
					c2 := cp
					expanded = append(expanded, &c2)
				}
				continue
			}
			expanded = append(expanded, rs)
			continue
		}
		idx := -1
		for i, q := range rs.Fn.Params {
			if q == par {
				idx = i
			}
		}
		callers := P.Callers(rs.Fn)
		if idx < 0 || len(callers) == 0 {
			expanded = append(expanded, rs)
			continue
		}
		for _, cs := range callers {
			cp := *rs
			cp.Via = cs
			if idx < len(cs.Common().Args) {
				for _, r := range P.Resolve(cs.Common().Args[idx]) {
					if c := constString(r); c != "" {
						cp.Code = c
					}
				}
			}
			c2 := cp
			expanded = append(expanded, &c2)
		}
	}
	M.Sites = expanded
	sort.SliceStable(M.Sites, func(i, j int) bool { return M.Sites[i].Alloc.Pos() < M.Sites[j].Alloc.Pos() })
	return M, nil
}

func (M *Model) vtypeOf(t types.Type) *ViolationType {
	n, ok := types.Unalias(t).(*types.Named)
	if !ok {
		return nil
	}
	for _, vt := range M.VTypes {
		if vt.Named.Obj() == n.Obj() {
			return vt
		}
	}
	return nil
}

func constString(v ssa.Value) string {
	if c, ok := v.(*ssa.Const); ok && c.Value != nil && c.Value.Kind() == constant.String {
		return constant.StringVal(c.Value)
	}
	return ""
}

// constReturn: the single string constant returned by fn on every path ("" otherwise).
func (M *Model) constReturn(fn *ssa.Function) string {
	res := ""
	okAll := true
	n := 0
	allInstrs(fn, func(b *ssa.BasicBlock, ins ssa.Instruction) {
		if r, ok := ins.(*ssa.Return); ok && len(r.Results) == 1 {
			n++
			s := constString(r.Results[0])
			if s == "" || (res != "" && res != s) {
				okAll = false
			}
			res = s
		}
	})
	if !okAll || n == 0 {
		return ""
	}
	return res
}

// AnalyzerByVar finds the analyzer declared by the package-level variable.
func (M *Model) AnalyzerByVar(v *types.Var) *AnalyzerInfo {
	for _, a := range M.Analyzers {
		if a.Obj == v {
			return a
		}
	}
	return nil
}

var codeShape = regexp.MustCompile(`^[A-Z]+[0-9]{2}$`)
