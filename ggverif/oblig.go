package main

// Obligations, known findings, evidence and replay files.

import (
	"encoding/json"
	"fmt"
	"go/types"
	"os"
	"path/filepath"
	"regexp"
	"sort"
	"strings"
	"time"

	"golang.org/x/tools/go/ssa"
)

type Obligation struct {
	Rule      string `json:"rule"`
	Construct string `json:"construct"`
	Status    string `json:"status"` // discharged | violated | undecided
	Where     string `json:"where,omitempty"`
	Detail    string `json:"detail,omitempty"`
}

func (o Obligation) Key() string { return o.Rule + " " + o.Construct }

// Ctx is the state of one property check.
type Ctx struct {
	starFields       [][2]ssa.Value // %*d fields met by textWidth: (width, number)
	helpChecked      map[*ssa.Function]bool
	onceKeys         map[string]bool
	pathFallbackOpen bool
	lenEq            map[*types.Named]map[int][]int
	lenEqWriters     map[*types.Named]map[*ssa.Function]bool
	cgoNameSeen      bool
	derefVia         map[ssa.Instruction]ssa.Value
	outcomeBusy      map[*ssa.Function]bool
	listBusy         map[*ssa.Phi]bool
	pkgIters         []string
	P                *Program
	M                *Model
	Prop             string
	Tier             string
	Obls             []Obligation
	Floors           []Floor
	Notes            []string
	Analysed         map[string]int
	start            time.Time
	walkCache        []*walkInfo
	parseCache       []*parseSite
	nilSafeMemo      map[string]bool
	abw              map[fieldKey]bool
	focus            []string
	tonl01Kinds      map[string]bool
	pkgoKinds        map[string]map[string]bool
}

type Floor struct {
	What     string `json:"what"`
	Min      int    `json:"min"`
	Measured int    `json:"measured"`
}

func (c *Ctx) add(status, rule, construct, where, detail string) {
	if c.focus != nil {
		keep := false
		for _, f := range c.focus {
			if i := strings.Index(f, "|"); i >= 0 { // rule fragment | construct fragment
				if strings.Contains(rule, f[:i]) && strings.Contains(construct, f[i+1:]) {
					keep = true
				}
			} else if strings.HasPrefix(f, "=") { // the rule of exactly that name
				if rule == f[1:] {
					keep = true
				}
			} else if strings.Contains(rule, f) {
				keep = true
			}
		}
		if !keep {
			return
		}
	}
	c.Obls = append(c.Obls, Obligation{Rule: rule, Construct: construct, Status: status, Where: where, Detail: detail})
}

// only runs fn while recording only the obligations whose rule name contains one of the given fragments:
// a property that depends on one aspect of a shared rule family claims (and alarms on) that aspect only.
func (c *Ctx) only(fragments []string, fn func()) {
	prev := c.focus
	c.focus = fragments
	defer func() { c.focus = prev }()
	fn()
}
func (c *Ctx) ok(rule, construct, where, detail string) {
	c.add("discharged", rule, construct, where, detail)
}
func (c *Ctx) fail(rule, construct, where, detail string) {
	c.add("violated", rule, construct, where, detail)
}
func (c *Ctx) undecided(rule, construct, where, detail string) {
	c.add("undecided", rule, construct, where, detail)
}

// check records discharged/violated depending on cond.
func (c *Ctx) check(cond bool, rule, construct, where, okDetail, failDetail string) bool {
	if cond {
		c.ok(rule, construct, where, okDetail)
	} else {
		c.fail(rule, construct, where, failDetail)
	}
	return cond
}

// floor asserts that a rule matched at least min instances (vacuity protection).
func (c *Ctx) floor(what string, measured, min int) {
	c.Floors = append(c.Floors, Floor{what, min, measured})
	if measured < min {
		c.fail("FLOOR", what, "", fmt.Sprintf("only %d instances found, at least %d expected: the rule would pass vacuously", measured, min))
	} else {
		c.ok("FLOOR", what, "", fmt.Sprintf("%d instances (floor %d)", measured, min))
	}
}

func (c *Ctx) count(what string, n int) {
	if c.Analysed == nil {
		c.Analysed = map[string]int{}
	}
	c.Analysed[what] += n
}

// ---------------------------------------------------------------------------------------------

type KnownFinding struct {
	Property string `json:"property"`
	Key      string `json:"key"`    // rule + " " + construct
	Status   string `json:"status"` // "open" or "fixed"
	Commit   string `json:"commit,omitempty"`
	What     string `json:"what"`
}

func verifDir() string {
	if d := os.Getenv("GGV_VERIF"); d != "" {
		return d
	}
	return "/verif"
}

func loadKnownFindings() ([]KnownFinding, error) {
	b, err := os.ReadFile(filepath.Join(verifDir(), "known_findings.json"))
	if err != nil {
		if os.IsNotExist(err) {
			return nil, nil
		}
		return nil, err
	}
	var doc struct {
		Findings []KnownFinding `json:"findings"`
	}
	if err := json.Unmarshal(b, &doc); err != nil {
		return nil, err
	}
	return doc.Findings, nil
}

var unsafeName = regexp.MustCompile(`[^A-Za-z0-9_.-]+`)

// finish prints the verdict lines, writes evidence and replay files and returns the exit code.
func (c *Ctx) finish(level, explanation string, assumptions []string) int {
	kf, err := loadKnownFindings()
	if err != nil {
		fmt.Printf("ERROR: cannot read known_findings.json: %v\n", err)
		return 2
	}
	open := map[string]KnownFinding{}
	for _, k := range kf {
		if k.Property == c.Prop && k.Status == "open" {
			open[k.Key] = k
		}
	}
	sort.SliceStable(c.Obls, func(i, j int) bool { return c.Obls[i].Key() < c.Obls[j].Key() })
	var discharged, violations, known int
	distinct := map[string]bool{}
	var violated []Obligation
	seenKnown := map[string]bool{}
	for _, o := range c.Obls {
		if os.Getenv("GGV_PRINT_ALL") != "" {
			fmt.Printf("OBL %s %s: %s [%s] %s\n", o.Status, o.Rule, o.Construct, o.Where, short(o.Detail))
		}
		switch o.Status {
		case "discharged":
			discharged++
			if o.Rule != "FLOOR" {
				distinct[o.Key()] = true
			}
		default:
			if k, ok := open[o.Key()]; ok {
				known++
				if !seenKnown[o.Key()] {
					seenKnown[o.Key()] = true
					fmt.Printf("KNOWN-FINDING: property=%s %s: %s [%s]\n", c.Prop, o.Key(), k.What, o.Where)
				}
				continue
			}
			violations++
			violated = append(violated, o)
		}
	}
	replayDir := filepath.Join(verifDir(), "replay", c.Prop)
	if os.Getenv("GGV_NO_REPLAY") != "" {
		replayDir = filepath.Join(os.TempDir(), "ggv_replay", c.Prop)
	}
	os.RemoveAll(replayDir)
	for i, o := range violated {
		os.MkdirAll(replayDir, 0o755)
		name := unsafeName.ReplaceAllString(o.Key(), "_")
		if len(name) > 120 {
			name = name[:120]
		}
		path := filepath.Join(replayDir, fmt.Sprintf("%02d_%s.json", i, name))
		b, _ := json.MarshalIndent(map[string]any{"property": c.Prop, "obligation": o, "tree": c.P.Root}, "", " ")
		os.WriteFile(path, b, 0o644)
		fmt.Printf("%s %s: %s  [%s] %s\n", strings.ToUpper(o.Status), o.Rule, o.Construct, o.Where, o.Detail)
		fmt.Printf("VIOLATION property=%s replay=%s\n", c.Prop, path)
	}
	// evidence
	var samples []any
	step := 1
	if len(c.Obls) > 12 {
		step = len(c.Obls) / 12
	}
	for i := 0; i < len(c.Obls) && len(samples) < 12; i += step {
		samples = append(samples, c.Obls[i])
	}
	if assumptions == nil {
		assumptions = []string{}
	}
	assumptions = append(assumptions,
		"go/parser, go/types and go/ssa (x/tools v0.50.0) represent the analysed sources faithfully",
		"the guard/provenance tables in ggverif are a faithful transcription of the property statement",
		"nothing of the analysed program is executed: obligations are structural necessary conditions, not the behavioural iff")
	rulesSeen := map[string]int{}
	for _, o := range c.Obls {
		rulesSeen[o.Rule]++
	}
	ev := map[string]any{
		"property_id": c.Prop,
		"tier":        c.Tier,
		"seed":        seedFromEnv(),
		"level":       level,
		"wall_s":      time.Since(c.start).Seconds(),
		"violations":  violations,
		"assumptions": assumptions,
		"coverage": map[string]any{
			"explanation":         explanation,
			"obligations":         len(c.Obls),
			"discharged":          discharged,
			"known_findings":      known,
			"evaluations":         len(c.Obls),
			"distinct_nontrivial": len(distinct),
			"rule":                "one obligation per (rule, construct of the analysed source); distinct_nontrivial counts distinct discharged (rule, construct) keys other than instance-count floors",
			"samples":             samples,
			"rules":               rulesSeen,
			"floors":              c.Floors,
			"analysed":            c.Analysed,
			"packages":            len(c.P.Product),
			"functions":           len(c.P.ModFuncs),
			"tree":                c.P.Root,
			"goarch":              c.P.GOARCH,
			"notes":               c.Notes,
			"checker_cmd":         fmt.Sprintf("ggverif check -prop %s -tier %s", c.Prop, c.Tier),
			"trusted_base":        []string{"go/parser", "go/types", "go/ssa", "x/tools go/packages"},
		},
	}
	b, _ := json.MarshalIndent(ev, "", " ")
	evDir := filepath.Join(verifDir(), "evidence")
	os.MkdirAll(evDir, 0o755)
	if os.Getenv("GGV_NO_EVIDENCE") == "" {
		if err := os.WriteFile(filepath.Join(evDir, c.Prop+".json"), b, 0o644); err != nil {
			fmt.Printf("ERROR: cannot write evidence: %v\n", err)
			return 2
		}
	}
	fmt.Printf("%s tier=%s obligations=%d discharged=%d known=%d violations=%d wall=%.1fs\n", c.Prop, c.Tier, len(c.Obls), discharged, known, violations, time.Since(c.start).Seconds())
	if violations > 0 {
		return 1
	}
	return 0
}

func seedFromEnv() int {
	var n int
	fmt.Sscanf(os.Getenv("VERIF_SEED"), "%d", &n)
	return n
}

// once reports true the first time it is asked about key.
func (c *Ctx) once(key string) bool {
	if c.onceKeys == nil {
		c.onceKeys = map[string]bool{}
	}
	if c.onceKeys[key] {
		return false
	}
	c.onceKeys[key] = true
	return true
}
