package main

import (
	"fmt"
	"os"
	"time"
)

type propDef struct {
	ID          string
	Rules       func(c *Ctx)
	Explanation string
	Assumptions []string
}

var props = map[string]*propDef{}

func registerProp(p *propDef) { props[p.ID] = p }

func init() {
	registerProp(&propDef{ID: "C01", Rules: func(c *Ctx) {
		c.ruleSitesIMM()
		c.rulePrune("immutable")
		c.ruleWalkRoot("immutable")
		c.ruleWalkState("immutable")
		c.ruleIter("immutable", "indexing", "annotations")
	}, Explanation: "wip"})
	registerProp(&propDef{ID: "C03", Rules: func(c *Ctx) {
		c.ruleSitesTONL()
		c.rulePrunePred()
		c.ruleGateBeforeDedup("testonly")
		c.ruleTypeInfoHelpers()
		c.rulePrune("testonly")
		c.ruleWalkRoot("testonly")
		c.ruleWalkState("testonly")
		c.ruleIter("testonly", "indexing", "annotations")
	}, Explanation: "wip"})
	registerProp(&propDef{ID: "C04", Rules: func(c *Ctx) {
		c.ruleSitesPKGO()
		c.ruleGateBeforeDedup("packageonly")
		c.ruleCopyWriteback("util")
		c.ruleTypeInfoHelpers()
		c.rulePrune("packageonly")
		c.ruleWalkRoot("packageonly")
		c.ruleWalkState("packageonly")
		c.ruleIter("packageonly", "indexing", "annotations")
	}, Explanation: "wip"})
	registerProp(&propDef{ID: "C02", Rules: func(c *Ctx) {
		c.ruleSitesCTOR()
		c.rulePrune("constructor")
		c.ruleWalkRoot("constructor")
		c.ruleWalkState("constructor")
		c.ruleIter("constructor", "indexing", "annotations")
	}, Explanation: "wip"})
}

func init() {
	registerProp(&propDef{ID: "C15", Rules: func(c *Ctx) {
		c.ruleLangEq()
		c.ruleAttach("@immutable", "@testonly", "@mutable", "@implements", "@constructor", "@packageonly", "@ignore")
		c.rulePost("@constructor", "@packageonly", "@ignore")
	}, Explanation: "wip"})
}

func init() {
	registerProp(&propDef{ID: "C06", Rules: func(c *Ctx) {
		c.ruleReqResult()
		c.ruleFactExport()
		c.ruleFactSchema()
		c.ruleFactType()
		c.ruleImportScope()
		c.ruleIterPackages()
		c.ruleIndexSrc()
	}, Explanation: "wip"})
}

func init() {
	registerProp(&propDef{ID: "C16", Rules: func(c *Ctx) {
		c.ruleIgnoreSetContains()
		c.ruleIgnoreSetAdd()
		c.ruleHierarchy()
	}, Explanation: "wip"})
}

func init() {
	registerProp(&propDef{ID: "C07", Rules: func(c *Ctx) {
		c.ruleIgnoreScope()
		c.ruleReportGate()
		c.ruleGateBeforeDedup("testonly", "packageonly")
		c.ruleLangEq("@ignore")
		c.ruleAttach("@ignore")
		c.rulePost("@ignore")
	}, Explanation: "wip"})
}

func cmdCheck(args []string) int {
	prop, tier := "", "quick"
	for i := 0; i < len(args); i++ {
		switch args[i] {
		case "-prop":
			i++
			prop = args[i]
		case "-tier":
			i++
			tier = args[i]
		}
	}
	pd := props[prop]
	if pd == nil {
		fmt.Printf("ERROR: unknown property %q\n", prop)
		return 2
	}
	start := time.Now()
	P, err := Load(repoRoot(), "")
	if err != nil {
		fmt.Println("ERROR: cannot analyse:", err)
		return 2
	}
	M, err := P.BuildModel()
	if err != nil {
		fmt.Println("ERROR: cannot analyse:", err)
		return 2
	}
	c := &Ctx{P: P, M: M, Prop: prop, Tier: tier, start: start}
	func() {
		defer func() {
			if r := recover(); r != nil {
				fmt.Printf("ERROR: verifier panic: %v\n", r)
				if os.Getenv("GGV_DEBUG") != "" {
					panic(r)
				}
				os.Exit(2)
			}
		}()
		pd.Rules(c)
	}()
	return c.finish("other", pd.Explanation, pd.Assumptions)
}
