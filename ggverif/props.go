package main

// Property -> rules.

import (
	"fmt"
	"os"
	"time"
)

type propDef struct {
	ID          string
	Rules       func(c *Ctx)
	Explanation string
	Assumptions []string
}

var props = map[string]*propDef{}

func registerProp(p *propDef) { props[p.ID] = p }

var allKeywords = []string{"@immutable", "@testonly", "@mutable", "@implements", "@constructor", "@packageonly", "@ignore"}

func init() {
	registerProp(&propDef{ID: "C01", Rules: func(c *Ctx) {
		c.ruleSitesIMM()
		if c.reachesTypeInfoHelpers("immutable") {
			c.ruleTypeInfoHelpers() // the receiver's type is resolved by the shared helper
		}
		c.rulePrune("immutable")
		c.ruleWalkRoot("immutable")
		c.ruleWalkState("immutable")
		c.ruleIter("immutable", "indexing", "annotations")
		c.ruleIndexSrc("indexing.BuildImmutableTypesIndex", "indexing.BuildConstructorIndex", "indexing.BuildMutableFieldsIndex")
		c.ruleIterPackages()
		c.ruleLangEq("@immutable", "@mutable", "@constructor")
		c.ruleAttach("@immutable", "@mutable", "@constructor")
		c.rulePost("@constructor")
		c.ruleReportGate("immutable")
	}, Explanation: "Every IMM report site: complete guard signature (upstream guards of the literal + guards along the forward flow of the value to the reporter) compared with the signature the statement dictates: immutable-index membership (+), @mutable (-), constructor exemption limited to the type's own package and keyed by the enclosing top-level function (-), alias-safe pointer-stripping type resolution, AST dispatch incl. Tok, receiver identity by object; no other restrictive guard. Walk: no pruning, root = every top-level declaration of every filtered file, no state carried between nodes/declarations/files, every list element visited. Indices built uniformly from local + imported annotations; annotation grammar and attachment of @immutable/@mutable/@constructor."})

	registerProp(&propDef{ID: "C02", Rules: func(c *Ctx) {
		c.ruleSitesCTOR()
		c.rulePrune("constructor")
		c.ruleWalkRoot("constructor")
		c.ruleWalkState("constructor")
		c.ruleIter("constructor", "indexing", "annotations")
		c.ruleIndexSrc("indexing.BuildConstructorIndex")
		c.ruleIterPackages()
		c.ruleLangEq("@constructor")
		c.ruleAttach("@constructor")
		c.rulePost("@constructor")
		c.ruleReportGate("constructor")
	}, Explanation: "Every CTOR report site: guard signature = constructor-index membership (+), exemption = own package AND Match(enclosing top-level function) (-), alias-safe type resolution (pointer strip for literals), dispatch CompositeLit / new-call with one argument / var spec without initialiser, not blank, not pointer; no other restrictive guard; value reaches the reporter from every call site. Walk per top-level declaration, no pruning (nested literals), no walk state. Constructor-name list parsing (split/trim) and index construction."})

	registerProp(&propDef{ID: "C03", Rules: func(c *Ctx) {
		c.ruleSitesTONL()
		c.rulePrunePred()
		c.ruleGateBeforeDedup("testonly")
		c.ruleTypeInfoHelpers()
		c.rulePrune("testonly")
		c.ruleWalkRoot("testonly")
		c.ruleWalkState("testonly")
		c.ruleIter("testonly", "indexing", "annotations")
		c.ruleIndexSrc("indexing.BuildTestOnlyTypesIndex", "indexing.BuildTestOnlyFuncsIndex", "indexing.BuildTestOnlyMethodsIndex")
		c.ruleIterPackages()
		c.ruleLangEq("@testonly")
		c.ruleAttach("@testonly")
		c.ruleReportGate("testonly")
		// a method annotation is indexed under the defined type of its receiver (what call sites look up)
		c.only([]string{"RECEIVER-BY-TYPE"}, func() { c.ruleNoSyntacticType() })
		// "in a file whose name does not end in _test.go": which files are checked is decided per file, by its name
		// (a package that is called x_test has ordinary files too)
		c.ruleOneFilter()
	}, Explanation: "Every TONL report site: membership in the type/func/method index (+) with resolved-object provenance (direct calls resolved through TypesInfo.Uses to a package-level *types.Func), not in a _test.go file (-), ignore gate on the violation's own code and position before the per-file dedup (-), dedup keyed by package path and type name and created per file; dispatch per call path (CompositeLit; ValueSpec, Field; CallExpr forms). The only prune is below a FuncDecl whose own kind-specific index lookup matches (predicate summary). Index builders filter on the Kind discriminant."})

	registerProp(&propDef{ID: "C04", Rules: func(c *Ctx) {
		c.ruleSitesPKGO()
		c.ruleGateBeforeDedup("packageonly")
		c.ruleCopyWriteback("util")
		c.ruleKindStorage()
		c.ruleTypeInfoHelpers()
		c.rulePrune("packageonly")
		c.ruleWalkRoot("packageonly")
		c.ruleWalkState("packageonly")
		c.ruleIter("packageonly", "indexing", "annotations")
		c.ruleIndexSrc("indexing.BuildPackageOnlyIndex")
		c.ruleIterPackages()
		c.ruleLangEq("@packageonly")
		c.ruleAttach("@packageonly")
		c.rulePost("@packageonly")
		c.ruleReportGate("packageonly")
		c.only([]string{"RECEIVER-BY-TYPE"}, func() { c.ruleNoSyntacticType() })
	}, Explanation: "Every PKGO report site: annotated (+), other package than the declaring one, NOT allowed by path AND NOT allowed by name (both queries on the same item key, last argument pass.Pkg.Path() resp. pass.Pkg.Name()), ignore gate with the site's own code constant and position, PKGO01 dedup keyed by path+name after the gate; per call path: SelectorExpr and Ident references resolved with ObjectOf to TypeName / Func with/without receiver. Union of all allow lists: builder adds every element of every annotation's AllowedPackages; container write-back on every path; declaring package always in the list; no pruning of selector operands."})

	registerProp(&propDef{ID: "C06", Rules: func(c *Ctx) {
		c.ruleReqResult()
		c.ruleFactExport()
		c.ruleFactSchema()
		c.ruleFactType()
		c.ruleImportScope()
		c.ruleIterPackages()
		c.ruleIndexSrc()
		c.ruleToolIdentity()
		c.ruleCopyWriteback("util")
		c.ruleWalkRoot("immutable", "constructor", "testonly", "packageonly")
		c.ruleLangEq("@immutable", "@testonly", "@mutable", "@implements", "@constructor", "@packageonly")
		c.rulePost("@constructor", "@packageonly")
		c.only([]string{"IMMUTABLE-INDEX", "MUTABLE-FIELD", "CTOR-EXEMPTION", "CONSTRUCTOR-INDEX", "TYPES-INDEX", "FUNCS-INDEX", "METHODS-INDEX", "ANNOTATED", "ALLOWED-BY", "PACKAGE-LEVEL", "CALLEE-BY-OBJECT", "FLOOR"}, func() {
			c.ruleSitesIMM()
			c.ruleSitesCTOR()
			c.ruleSitesTONL()
			c.ruleSitesPKGO()
		})
	}, Explanation: "Fact discipline: every analyzer with FactTypes exports, unconditionally and before any live return, a fact of its own type holding the complete PackageAnnotations; ResultOf uses are in Requires with matching ResultType; fact types are gob-encodable field by field (all exported, same shape as PackageAnnotations); builders are instantiated with the calling analyzer's fact type; facts are imported only over pass.Pkg.Imports(), every import is consulted (a missing fact skips one import only), local and imported annotations are processed by the same statements; no object facts / AllPackageFacts; the containers that carry annotation values store a mutated copy back (COPY-WRITEBACK); every checker walks every declaration of every non-excluded file under no condition but the documented ones (WALK-ROOT: a run that is skipped for one variant of a package makes the drivers disagree); the answer to `-V=full`, on which `go vet` keys its cache of facts, covers every environment variable the configuration reads (TOOL-ID, found as D38). Plus the grammar/argument languages that carry annotation values and the per-family guard signatures that consume them (package-path keyed, no local-only condition except the documented own-package constructor exemption)."})

	registerProp(&propDef{ID: "C07", Rules: func(c *Ctx) {
		c.ruleIgnoreScope()
		c.ruleReportGate()
		c.ruleGateBeforeDedup("testonly", "packageonly")
		c.rulePruneGate("immutable", "constructor", "testonly", "packageonly")
		// the checkers that consult the set themselves ask about the code they report, at the position they report
		c.only([]string{"IGNORE-GATE", "FLOOR"}, func() {
			c.ruleSitesTONL()
			c.ruleSitesPKGO()
		})
		c.ruleIgnoreSetContains()
		c.ruleIgnoreSetAdd()
		c.ruleHierarchy()
		c.ruleLangEq("@ignore")
		c.ruleAttach("@ignore")
		c.rulePost("@ignore")
	}, Explanation: "Scope of an @ignore comment per placement, read off the (start,end) selection: before the package clause -> [comment, file.End()]; trailing code -> [start of the comment's physical (//line-unadjusted) line, comment.End()] iff a node that starts before the comment ends on its line; stand-alone -> [comment, End() of the following declaration / of the first node starting after it]; nothing after -> the comment. Report-time gate on the violation's own GetCode()/GetPos() (or detection-time gate before the dedup update for TONL/PKGO), closed-interval + hierarchy decision of the ignore set, @ignore grammar with upper-cased codes."})

	registerProp(&propDef{ID: "C08", Rules: func(c *Ctx) {
		c.ruleExcludeFlow()
		c.ruleExcludeConsumers()
		c.ruleFlagTable()
		c.ruleParseHelpers()
		c.ruleConfigWiring()
		c.ruleIgnoreSetContains()
		c.ruleIgnoreSetAdd()
		c.ruleHierarchy()
		c.ruleReportGate()
		c.rulePruneGate("immutable", "constructor", "testonly", "packageonly")
		c.ruleCodeTable()
		// the checkers that consult the set themselves ask about the code and the position they report
		c.only([]string{"IGNORE-GATE", "FLOOR"}, func() {
			c.ruleSitesTONL()
			c.ruleSitesPKGO()
		})
	}, Explanation: "exclude-checks: both inputs (flag value, environment value) are split/trimmed/upper-cased; the list of the effective configuration is added, whenever non-empty, as global tokens to the very ignore set every analyzer receives; the global phase of Contains precedes the range fast-reject and matches by exact equality against ALL/category/code of the queried code; every diagnostic passes the gate (single report sink, or detection-time gate for every site of packages reporting without a set); the hierarchy table covers every code constant."})

	registerProp(&propDef{ID: "C14", Rules: func(c *Ctx) {
		c.ruleOneFilter()
		c.ruleSkipShape()
		c.ruleCfgSrc()
		c.ruleConfigWiring()
		c.only([]string{"NOT-TEST-FILE", "FLOOR"}, func() { c.ruleSitesTONL() })
		// "checked like any other file": the package a @packageonly reference is made from is the package of the
		// pass itself - an external test package x_test is not its package x
		c.only([]string{"ALLOWED-BY", "OTHER-PACKAGE", "FLOOR"}, func() { c.ruleSitesPKGO() })
		c.rulePosInFile()
		// under go vet the facts of a dependency are cached per tool identity: computed under one exclude-paths /
		// scan-tests value they must not be reused under another (annotations of files excluded now would act)
		c.ruleToolIdentity()
	}, Explanation: "pass.Files is read in exactly one place, Config.FilterFiles, which yields every file for which ShouldSkipFile is false; ShouldSkipFile is true exactly for (name contains an exclude-paths entry) or (!ScanTests and name ends in _test.go), on the file's own name; every reader/checker filters with the effective configuration of its own pass; every TONL site is additionally guarded by !HasSuffix(name,\"_test.go\") regardless of configuration; the referring package of every PKGO site is pass.Pkg itself (path and name unedited: an external test package is checked as what it is); every diagnostic position is Pos() of a node of a filtered file (or of an annotation read from one). Under go vet the tool identity covers the GOGREEMENT_* variables, set or unset (TOOL-ID/*): facts cached under one exclusion are not reused under another."})

	registerProp(&propDef{ID: "C15", Rules: func(c *Ctx) {
		c.ruleLangEq()
		c.ruleAttach(allKeywords...)
		c.rulePost("@constructor", "@packageonly", "@ignore")
		c.ruleNoWalkInReader()
		// every declaration, spec, doc line and declared name is read: no list of the reader is cut short
		c.ruleIter("annotations", "ignore")
		// every recognised line takes effect: a well-formed @implements is checked whatever the other lines on the type
		c.only([]string{"QUERY-SHAPE"}, func() { c.ruleQueries() })
	}, Explanation: "Decision procedure: for each of the 7 keywords the language of the source regular expression (with the argument group made mandatory where the parser rejects an empty argument, all quantifiers greedy) equals the reference grammar over comment texts (no newline), by product-automaton exploration with a shortest distinguishing comment as witness; capture-group languages equal the documented argument languages; every pre-filter (Aho-Corasick dictionary, strings.Contains dispatch) is implied by the regex; the only guards on the way to a parser are its own pre-filters and the declaration-kind dispatch; the parsed text is a line of TypeSpec.Doc-else-GenDecl.Doc / FuncDecl.Doc / Field.Doc of a top-level declaration of a filtered file (no AST walk, no trailing comments); every non-nil result reaches the matching list; list arguments are split on commas, trimmed, empties dropped, codes upper-cased."})

	registerProp(&propDef{ID: "C16", Rules: func(c *Ctx) {
		c.ruleIgnoreSetContains()
		c.ruleIgnoreSetAdd()
		c.ruleHierarchy()
		c.ruleCodeTable()
		// the decision is asked for the diagnostic's own code and position: by the one report sink, and by the
		// checkers that consult the set themselves
		c.ruleReportGate()
		c.only([]string{"IGNORE-GATE", "FLOOR"}, func() {
			c.ruleSitesTONL()
			c.ruleSitesPKGO()
		})
		// ... and nothing but that decision drops it: the once-per-file bookkeeping comes after the gate, and the walk
		// descends whatever the gate said (a suppressed report does not take the diagnostics below it along)
		c.ruleGateBeforeDedup("testonly", "packageonly")
		c.rulePruneGate("immutable", "constructor", "testonly", "packageonly")
	}, Explanation: "All outcomes of IgnoreSet.Contains enumerated (through the result cell of the range-over-func loops): false for nil/uninitialised; true iff a global token equals (slices.Contains) an element of GetCodesForCheck(code); fast reject only for pos strictly outside [MinPos,MaxPos] and only after the global phase; true iff StartPos <= pos <= EndPos for a marker taken from a range over CodeIndex[element of GetCodesForCheck(code)]; positions are only compared; Add appends every marker, indexes it under each of its codes, maintains MinPos/MaxPos as min/max; GetCodesForCheck yields ALL, category, code from a table built for every category and code."})

	registerProp(&propDef{ID: "C19", Rules: func(c *Ctx) {
		c.ruleExcerpt()
	}, Explanation: "Window: an excerpt line is lines[i] of the diagnostic's file stored with the number i+1; filled by a +1 counting loop left only at its head (also over a sub-slice); contains the reported line whenever the file has it; empty only for an unreadable file or a missing line. Formatter: prints each line with its own number, shows truncateString(line, limit, column), writes the caret line exactly under the line numbered like the diagnostic. Truncation: every result is at most limit + 6 bytes long and keeps the reported character (VISIBLE: lo <= column-1 < hi). Caret: for every jointly satisfiable pair of returns of calculateDisplayColumn and truncateString the display column is len(markers before) + column - lo (CARET-COLUMN); the caret line has the margin of the text line (MARGIN, WIDEST), displayColumn-1 single-byte paddings repeating the tabs of the shown text (COUNT, ONE-PER-STEP, TAB), then the caret, on the same builder (SINK, CARET). All arithmetic: Fourier-Motzkin over the conditions dominating each return, joins and classification helpers as case splits. Known finding KF-C19-1 (CELLS): one padding per byte before the column, while a terminal shows one cell per character - multi-byte characters before the column displace the caret. Failure-freedom is C10's."})
	registerProp(&propDef{ID: "C18", Rules: func(c *Ctx) {
		c.ruleFlagTable()
		c.ruleParseHelpers()
		c.ruleConfigWiring()
		c.rulePanicFree("config")
		// "... and that the resolved value is what the analyzers actually use": how the resolved ScanTests and
		// ExcludePaths are consumed
		c.ruleSkipShape()
		// ... by every reader and checker: the files are filtered with the configuration of the config analyzer
		// (which each of them requires), not with one resolved some other way
		c.ruleCfgSrc()
		c.only([]string{"REQ-RESULT/REQUIRES|<-ConfigReader"}, func() { c.ruleReqResult() })
		// ... and the resolved ExcludeChecks: handed to the ignore set as it is, matched there by plain membership
		// (no order or form of the list is assumed)
		c.ruleExcludeFlow()
		c.only([]string{"IGNORESET/GLOBAL", "IGNORESET/OUTCOME", "IGNORESET/SHAPE", "IGNORESET/EXTRA-GUARD", "IGNORESET/MODULE"}, func() {
			c.ruleIgnoreSetContains()
			c.ruleIgnoreSetAdd()
		})
	}, Explanation: "Flags defined = flags read = documented flags; each flag's default is the environment-derived value (flag > env > default by construction of package flag); FromEnv reads exactly the documented variables, lists through os.LookupEnv (set-but-empty honoured) with the documented defaults, the bool through parseBool on a non-empty value; parseStringList = split on commas, trim, drop empty, upper-case iff requested (requested for check codes on both paths); parseBool = strconv.ParseBool(lower(trim)) else yes/on; the analyzer owning the flags is named config and parses &pass.Analyzer.Flags once; the configuration cone has no reachable panic site; the resolved ScanTests / ExcludePaths are consumed by ShouldSkipFile as (name contains an exclude-paths entry) or (!ScanTests and *_test.go), each option independently of the other; the resolved ExcludeChecks reaches IgnoreSet.AddModuleIgnore unconditionally and is matched by exact membership of a hierarchy element (whatever the order of its items)."})
}

func init() {
	registerProp(&propDef{ID: "C10", Rules: func(c *Ctx) {
		c.ruleNilDeref()
		c.ruleAsserts()
		c.rulePartialAPI()
		c.ruleNilMap()
		c.ruleDivExit()
		c.ruleReadFileErr()
		c.ruleTerminates()
		c.ruleBounds()
		c.ruleReqResult()
		c.ruleMainExit()
		c.ruleIgnoreScopeLineUnadj()
		// resources: what the tool writes for one diagnostic is bounded by the text it shows, not by a number a
		// //line directive names (found as D39)
		c.only([]string{"EXCERPT/CARET-PAD/BOUNDED-BY-TEXT"}, func() { c.ruleExcerpt() })
	}, Explanation: "All product functions (superset of what is reachable from the analyzers): every dereference of a value from a nilable source is dominated by a nil check / comma-ok or discharged by a named rule (per-iteration assignment before the walk, lazy-initialisation helper); every unchecked type assertion is justified (REQ-RESULT, go/types contracts, dominating comma-ok); partial library APIs get their preconditions (MustCompile on compiling constants at init, Repeat counts from lengths, At(i)/Method(i) under i < Len(), LineStart on unadjusted lines); written maps come from make; integer divisions by non-zero constants; no explicit panic / os.Exit / log.Fatal; ReadFile error checked; loops are range, counting or scanner loops and recursion is structural descent; analyzers' ResultType/Requires agree (no driver-internal error); the caret line of an excerpt is at most one byte longer than the shown text for any column (a //line directive can name any: found as D39). Index/slice bounds: by the linear-arithmetic prover."})
	registerProp(&propDef{ID: "C17", Rules: func(c *Ctx) {
		c.ruleCodeTable()
		c.ruleReportGate()
		c.ruleIgnoreScope()
		c.only([]string{"IGNORE-GATE", "FLOOR"}, func() {
			c.ruleSitesTONL()
			c.ruleSitesPKGO()
		})
		// "appending // @ignore CODE to its line removes it": a suppressed report does not come back - neither as
		// the next use of the same type (once-per-file bookkeeping behind the gate) nor as the bare identifier of
		// the selector it was found with
		c.ruleGateBeforeDedup("testonly", "packageonly")
		c.rulePosInFile()
		// "positioned inside a non-excluded file": which files are excluded
		c.ruleSkipShape()
		c.ruleOneFilter()
		// ... by the configuration the command line gives: each setting is the value of its flag
		c.only([]string{"FLAG-VALUE"}, func() { c.ruleFlagTable() })
		c.ruleMainExit()
		c.ruleHierarchy()
	}, Explanation: "The 16 code constants, CodesByCategory (each code once under its own category), the documented code tables and the URL switch (each category -> an existing page that is the category's documentation page) agree; every report site carries a documented code of its analyzer's category and every code has a site; one report sink, in which the same GetCode()/GetPos() feed the ignore lookup, the `[code] message` header, the help URL and the diagnostic position; positions come from nodes (or annotations) of filtered files; main hands all eight analyzers to multichecker.Main and nothing else terminates the process. Which files the command line excludes: each setting is the value of its flag on every path of ParseFlagsFromFlagSet (FLAG-VALUE; KF-C18-1 as it affects C17)."})
}

func init() {
	registerProp(&propDef{ID: "C05", Rules: func(c *Ctx) {
		c.ruleSitesIMPL()
		c.ruleImportResolution()
		c.ruleMatcherShape()
		c.ruleTypeModelKey()
		c.ruleTypeIdent()
		c.ruleAliasAll("implements")
		c.ruleQueries()
		c.ruleLangEq("@implements")
		c.ruleAttach("@implements")
		c.ruleReportGate("implements")
	}, Explanation: "Cascade of the three IMPL sites (IMPL01 iff the annotation's qualifier is unresolved; IMPL02 iff resolved and the key PackageFullPath.InterfaceName is not among the loaded interfaces; IMPL03 iff both found and checkImplementation(type, interface, ann.IsPointer) is non-empty, listing exactly that result); qualifier resolution: the package recorded for an import spec is PkgNameOf(spec).Imported(), resolution order alias > declared name > exact path > last path element, empty qualifier = current package; shape of the existing structural matcher (all four components compared, counts and every pair compared, every interface method examined, & = all methods / no & = value receivers). TYPE-IDENT / METHOD-SET (the verdict must be decided by go/types identity and the real method set of T, not by renderings of types and a receiver-kind filter) fail on today's tree: six recorded known findings (D11); any other violation is reported. Inside the known receiver-kind approximation the kind recorded for a method is computed from Signature.Recv() of that method on every path (METHOD-SET/RECV-KIND)."})
}

func init() {
	registerProp(&propDef{ID: "C09", Rules: func(c *Ctx) {
		c.only([]string{"IMMUTABLE-INDEX", "CONSTRUCTOR-INDEX", "TYPES-INDEX", "FUNCS-INDEX", "METHODS-INDEX", "ANNOTATED", "PACKAGE-NOT-FOUND", "PACKAGE-FOUND", "INTERFACE-", "TYPE-FOUND", "MISSING-METHODS", "FLOOR"}, func() {
			c.ruleSitesIMM()
			c.ruleSitesCTOR()
			c.ruleSitesTONL()
			c.ruleSitesPKGO()
			c.ruleSitesIMPL()
		})
		c.ruleIndexSrc()
		c.ruleIterPackages()
		c.ruleContainersEmptyFalse()
		c.ruleKindStorage()
		c.ruleLangEq()
		c.ruleAttach(allKeywords...)
		c.ruleNoWalkInReader()
	}, Explanation: "Every report site of all five checkers is control-dependent on a positive membership test in an index (or iterates the @implements annotations); every index entry originates from an annotation list of the local package or of a directly imported fact; annotation lists are extended only with non-nil results of the parse functions; the parse functions recognise exactly the documented grammar (automata) on doc comments of top-level declarations only (no AST walk, no trailing comments); the containers answer false when empty. Hence without a recognised annotation in the package and its direct imports no report site is reachable."})
	registerProp(&propDef{ID: "C11", Rules: func(c *Ctx) {
		c.ruleNoConcurrency()
		c.ruleGlobalWrites()
		c.ruleSharedReadOnly()
		c.ruleMapOrder()
		c.ruleMapIterators()
		c.ruleSyntaxReadOnly()
		c.ruleSharedSliceMutation()
		c.ruleNoNondet()
		c.ruleConfigWiring()
		// "identical across repeated runs" under go vet: facts cached for one environment are not used under another
		c.ruleToolIdentity()
		// positions of different files are ordered by parse scheduling: a decision that assumes an insertion order
		// of markers differs between runs
		c.only([]string{"LOOP-COMPLETE"}, func() { c.ruleIgnoreSetContains() })
	}, Explanation: "No goroutine, channel, atomic or WaitGroup in product code; package-level state is written only at initialisation, except the configuration cache written once inside sync.Once.Do and read after it; every object shared between concurrently running actions (package-level matchers/regexps/tables, the annotation result, the ignore set, the configuration, imported facts) is only read - write effects computed on the callee bodies including the Aho-Corasick dependency (Contains is read-only, Match is not); the body of every range over a map is order-independent accumulation, maps.Keys / Values / All are consumed by a sort only; no field of a syntax node of the pass is assigned (the trees are shared by the analyzers of a package); the tool identity go vet keys its cache on covers the configuration variables (TOOL-ID); no clock, randomness, pointer formatting, and no environment read outside package config; no loop of IgnoreSet.Contains is left early without a match, so the answer does not depend on the order in which the files of a package were registered in the FileSet. No in-place library mutator (sort.*, slices.Sort*, slices.Reverse, copy) is applied to a slice handed out by go/types, go/ast, go/token or the pass; FileSet.Base / Iterate are not used (the shared file set grows in parse order)."})
	registerProp(&propDef{ID: "C12", Rules: func(c *Ctx) {
		c.ruleWalkState("immutable", "constructor", "testonly", "packageonly")
		c.ruleWalkRoot("immutable", "constructor", "testonly", "packageonly")
		c.rulePrune("immutable", "constructor", "testonly", "packageonly")
		c.rulePrunePred()
		c.ruleGateBeforeDedup("testonly", "packageonly")
		c.rulePosCompare()
		c.ruleReaderState()
		c.only([]string{"RECEIVER-BY-OBJECT", "CALLEE-BY-OBJECT", "FUNCS-INDEX", "CTOR-EXEMPTION", "DEDUP", "FLOOR"}, func() {
			c.ruleSitesIMM()
			c.ruleSitesCTOR()
			c.ruleSitesTONL()
			c.ruleSitesPKGO()
		})
		// reordering declarations / moving them between files: the last declaration of a file is like any other, and
		// which files are analysed does not depend on the order of the files
		c.only([]string{"SCOPE/INLINE-LAST-DECL"}, func() { c.scopeInline() })
		c.only([]string{"ONE-FILTER/ALL-FILES"}, func() { c.ruleOneFilter() })
		c.ruleAttach("@immutable", "@testonly", "@mutable", "@implements", "@constructor", "@packageonly")
		// moving a declaration to another file / inserting an ordinary comment: qualifiers are resolved against
		// the imports of the annotation's own file only, and the node after a stand-alone @ignore is the first
		// node, not a comment group attached to it
		c.only([]string{"IMPORTS-PER-FILE"}, func() { c.ruleQueries() })
		c.only([]string{"SCOPE-END", "FLOOR"}, func() { c.scopeNextNode() })
		// inserting a blank line or an ordinary comment: which of the four placements an @ignore comment has is decided
		// by positions (before the package clause / code on its line / alone), not by which declaration the parser
		// attached its comment group to
		c.only([]string{"SCOPE/"}, func() { c.ruleIgnoreScope() })
		// gofmt sorts the specs of an import block: which import a qualifier names must not depend on their order
		c.only([]string{"=RESOLVE-ORDER"}, func() { c.ruleImportResolution() })
		// in which file of its package an annotated declaration stands decides the order in which the containers are
		// filled: a mutated copy is stored back whether or not an earlier annotation created the inner maps
		c.ruleCopyWriteback("util")
	}, Explanation: "Nothing a walk callback (or what it calls) writes outlives the visit of one node except append-only accumulators and per-file dedup maps created inside the file loop; context fields read during a walk are re-assigned on every path of each iteration before the walk; walk roots are all top-level declarations / whole filtered files with no filter in between; no pruning except the @testonly FuncDecl prune decided on the declaration's own name; ordered position comparisons and line/column numbers occur only in scope computation and rendering; readers carry no state between declarations (doc selection per spec); identity is by object (receiver, direct callee), not by spelling. Which placement an @ignore comment has is decided by positions, not by comment-group attachment (SCOPE/*); the scope end of a stand-alone comment is that of the next node of the enclosing declaration (SCOPE-END)."})
	registerProp(&propDef{ID: "C13", Rules: func(c *Ctx) {
		c.ruleAliasAll()
		c.ruleTypeInfoHelpers()
		c.ruleNoSyntacticType()
		// whether a type is in an index does not depend on how its name is spelled (exported or not)
		c.only([]string{"INDEX-SRC/UNIFORM"}, func() {
			c.ruleIndexSrc()
		})
		// ... nor on how the package that declares it is imported (by name, renamed, dot, blank): the annotations of
		// every direct import with a fact are merged
		c.only([]string{"ITER-PACKAGES/IMPORTS"}, func() { c.ruleIterPackages() })
		// no file or declaration is skipped on the strength of how it spells things (its import list, its syntax)
		c.ruleWalkRoot("immutable", "constructor", "testonly", "packageonly")
		// a reference is found whether it is written pkg.T, T (dot import, local alias) or as an embedded field: the
		// object comes from TypesInfo.Uses, and an identifier is skipped only as the Sel of its selector
		c.only([]string{"QUALIFIED-SET", "FLOOR"}, func() { c.ruleGateBeforeDedup("packageonly") })
		c.only([]string{"TYPE-RESOLVE", "ALIAS-RESOLVED", "PACKAGE-LEVEL", "NOT-POINTER", "IMMUTABLE-INDEX", "CONSTRUCTOR-INDEX", "TYPES-INDEX", "METHODS-INDEX", "OBJECT-BY-USE", "UNEXPECTED-GUARD", "FLOOR"}, func() {
			c.ruleSitesIMM()
			c.ruleSitesCTOR()
			c.ruleSitesTONL()
			c.ruleSitesPKGO()
		})
	}, Explanation: "Every assertion from types.Type to a concrete go/types node in product code is made on an un-aliased operand (types.Unalias / Underlying / Func.Type) - five reviewed exceptions in package implements with one line of reason each (two of them part of known finding KF-C05-1; two former entries were wrong and hid defects D15/D16, now repaired); the pointer strip happens on the un-aliased value and its element is un-aliased again (sites and util helpers); use-site types come from TypesInfo; a @packageonly type reference is resolved through type aliases to the defined type before it is looked up (D18); the only spelling-based type reader is the receiver of a method declaration. An alias of a pointer type is resolved to the type pointed to in the @packageonly path as well; the annotations of every direct import with a fact are merged however the import is written (ITER-PACKAGES/IMPORTS)."})
}

func (c *Ctx) ruleIgnoreScopeLineUnadj() { c.scopeInline() }

func cmdCheck(args []string) int {
	prop, tier := "", "quick"
	for i := 0; i < len(args); i++ {
		switch args[i] {
		case "-prop":
			i++
			prop = args[i]
		case "-tier":
			i++
			tier = args[i]
		}
	}
	pd := props[prop]
	if pd == nil {
		fmt.Printf("ERROR: unknown property %q\n", prop)
		return 2
	}
	start := time.Now()
	P, err := Load(repoRoot(), "")
	if err != nil {
		fmt.Println("ERROR: cannot analyse:", err)
		return 2
	}
	M, err := P.BuildModel()
	if err != nil {
		fmt.Println("ERROR: cannot analyse:", err)
		return 2
	}
	c := &Ctx{P: P, M: M, Prop: prop, Tier: tier, start: start}
	func() {
		defer func() {
			if r := recover(); r != nil {
				fmt.Printf("ERROR: verifier panic: %v\n", r)
				if os.Getenv("GGV_DEBUG") != "" {
					panic(r)
				}
				os.Exit(2)
			}
		}()
		curP = c.P
		pd.Rules(c)
		if tier == "thorough" {
			c.thorough(pd)
		}
	}()
	c.Notes = append(c.Notes, fmt.Sprintf("longest value descriptor: %d bytes (hash limit %d)", descMaxSeen, descHashLimit))
	return c.finish("other", pd.Explanation, pd.Assumptions)
}
