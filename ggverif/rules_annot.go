package main

// Rules about reading annotations (C15, C09 and the annotation clauses of C01..C05, C07):
// LANG-EQ / ARG-LANG / PREFILTER on the source regular expressions (automata, package rx),
// ATTACH (which comment text reaches which parse function, under which conditions),
// DOC-PRIORITY, POST (argument post-processing), ANNOT-FLOW (parse result reaches the matching list).

import (
	"fmt"
	"go/token"
	"go/types"
	"regexp"
	"sort"
	"strings"

	"ggverif/rx"

	"golang.org/x/tools/go/ssa"
)

// reference grammar of the annotation comment lines (from the statement of C15 and the docs' Syntax sections).
// Domain: comment texts never contain '\n'.
const (
	refID   = `[A-Za-z_][A-Za-z0-9_]*` // "Go identifiers" read as ASCII identifiers (the code's own comment says so)
	refPATH = `[A-Za-z0-9_/.-]+`       // package paths: letters, digits, _ / . -
	refCODE = `[A-Za-z0-9]+`           // alphanumeric codes
)

func refList(item string) string { return item + `(?:\s*,\s*` + item + `)*(?:\s*,)?` } // trailing comma tolerated

type kwSpec struct {
	keyword     string
	recognition string   // language of recognised comment lines
	argRequired bool     // recognition needs capture group 1 to participate
	groups      []string // reference language of each capture group (anchored comparison)
}

var kwSpecs = map[string]kwSpec{
	"@immutable":   {"@immutable", `^\s*//\s*@immutable(?:\s.*)?$`, false, nil},
	"@testonly":    {"@testonly", `^\s*//\s*@testonly(?:\s.*)?$`, false, nil},
	"@mutable":     {"@mutable", `^\s*//\s*@mutable(?:\s.*)?$`, false, nil},
	"@implements":  {"@implements", `^\s*//\s*@implements\s+&?(?:\w+\.)?\w+(?:\s.*)?$`, false, []string{`&`, `\w+`, `\w+`}},
	"@constructor": {"@constructor", `^\s*//\s*@constructor\s+` + refList(refID) + `(?:\s.*)?$`, true, []string{refList(refID)}},
	"@packageonly": {"@packageonly", `^\s*//\s*@packageonly(?:\s.*)?$`, false, []string{refList(refPATH)}},
	"@ignore":      {"@ignore", `^\s*//\s*@ignore\s+` + refList(refCODE) + `(?:\s.*)?$`, true, []string{refList(refCODE)}},
}

var noNL = rx.Options{ExcludeRunes: []rune{'\n'}}

// parseSite: one call of a parse_K function from a reader.
type parseSite struct {
	Call    *ssa.Call
	Parse   *ssa.Function
	Regex   string              // pattern constant used by Parse
	RegexG  *ssa.Global         // the package-level *regexp.Regexp
	Keyword string              // from the strings.Contains(text, "@K") guard
	Text    ssa.Value           // the text argument
	ViaFn   *ssa.Function       // shared helper the call sits in (several callers): analysed once per caller
	Via     ssa.CallInstruction // the calling context of ViaFn this site stands for
}

// regexOf: the constant pattern of the package-level regexp used by fn through FindStringSubmatch.
func (c *Ctx) regexOf(fn *ssa.Function) (string, *ssa.Global, *ssa.Call) {
	P := c.P
	var pat string
	var glob *ssa.Global
	var fcall *ssa.Call
	allInstrs(fn, func(b *ssa.BasicBlock, ins ssa.Instruction) {
		call, ok := ins.(*ssa.Call)
		if !ok {
			return
		}
		if P.CallTo(call, "(*regexp.Regexp).FindStringSubmatch") == nil && P.CallTo(call, "(*regexp.Regexp).MatchString") == nil {
			return
		}
		for _, r := range P.Resolve(call.Call.Args[0]) {
			u, ok := r.(*ssa.UnOp)
			if !ok {
				continue
			}
			g, ok := u.X.(*ssa.Global)
			if !ok {
				continue
			}
			if p, ok := c.globalRegexPattern(g); ok {
				pat, glob, fcall = p, g, call
			}
		}
	})
	return pat, glob, fcall
}

// globalRegexPattern: the constant argument of regexp.MustCompile that initialises global g.
func (c *Ctx) globalRegexPattern(g *ssa.Global) (string, bool) {
	initFn := g.Pkg.Func("init")
	if initFn == nil {
		return "", false
	}
	var pat string
	found := false
	allInstrs(initFn, func(b *ssa.BasicBlock, ins ssa.Instruction) {
		st, ok := ins.(*ssa.Store)
		if !ok || st.Addr != g {
			return
		}
		call := c.P.CallTo(st.Val, "regexp.MustCompile")
		if call == nil {
			return
		}
		if s := constString(call.Call.Args[0]); s != "" {
			pat, found = s, true
		}
	})
	return pat, found
}

// parseSites finds every call of a function that applies a package-level regexp to its first argument,
// made from the annotation / ignore readers.
func (c *Ctx) parseSites() []*parseSite {
	if c.parseCache != nil {
		return c.parseCache
	}
	P := c.P
	for _, fn := range P.ModFuncs {
		pp := funcPkgPath(fn)
		if pp != modulePath+"/src/annotations" && pp != modulePath+"/src/ignore" {
			continue
		}
		allInstrs(fn, func(b *ssa.BasicBlock, ins ssa.Instruction) {
			call, ok := ins.(*ssa.Call)
			if !ok {
				return
			}
			callee := call.Call.StaticCallee()
			if callee == nil || !P.IsProductFunc(callee) || len(callee.Blocks) == 0 || len(call.Call.Args) == 0 {
				return
			}
			pat, g, _ := c.regexOf(callee)
			if g == nil {
				return
			}
			ps := &parseSite{Call: call, Parse: callee, Regex: pat, RegexG: g, Text: call.Call.Args[0]}
			for _, l := range P.BlockGuards(b) {
				if sc := P.litCallTo(l, "strings.Contains"); sc != nil && l.Pos {
					if k := constString(sc.Call.Args[1]); strings.HasPrefix(k, "@") && P.Desc(sc.Call.Args[0]) == P.Desc(ps.Text) {
						ps.Keyword = k
					}
				}
			}
			c.parseCache = append(c.parseCache, ps)
		})
	}
	sort.SliceStable(c.parseCache, func(i, j int) bool { return c.parseCache[i].Call.Pos() < c.parseCache[j].Call.Pos() })
	// a parse call inside a helper shared by several declaration kinds stands for one site per calling context
	var expanded []*parseSite
	for _, ps := range c.parseCache {
		top := ps.Call.Parent()
		for top.Parent() != nil {
			top = top.Parent()
		}
		callers := P.Callers(top)
		if len(callers) < 2 || len(callers) > 6 {
			expanded = append(expanded, ps)
			continue
		}
		for _, cs := range callers {
			cp := *ps
			cp.ViaFn, cp.Via = top, cs
			expanded = append(expanded, &cp)
		}
	}
	c.parseCache = expanded
	return c.parseCache
}

// keywordOfRegex: keyword a regex constant is meant for = the keyword guarding the calls of its parse function.
func (c *Ctx) regexKeywords() map[string]*parseSite {
	out := map[string]*parseSite{}
	for _, ps := range c.parseSites() {
		if ps.Keyword != "" {
			if _, ok := out[ps.Keyword]; !ok {
				out[ps.Keyword] = ps
			}
		}
	}
	return out
}

// ruleLangEq: C15 LANG-EQ + ARG-LANG (+ greedy, group count).
func (c *Ctx) ruleLangEq(keywords ...string) {
	P := c.P
	byKw := c.regexKeywords()
	if len(keywords) == 0 {
		for k := range kwSpecs {
			keywords = append(keywords, k)
		}
	}
	sort.Strings(keywords)
	n := 0
	for _, kw := range keywords {
		spec := kwSpecs[kw]
		ps := byKw[kw]
		if ps == nil {
			c.fail("LANG-EQ", kw, "", "no parse function is called under strings.Contains(text, \""+kw+"\"): the keyword is never recognised")
			continue
		}
		n++
		where := P.Pos(ps.RegexG.Pos())
		src := ps.Regex
		if _, err := regexp.Compile(src); err != nil {
			c.fail("LANG-EQ", kw, where, "source pattern does not compile: "+err.Error())
			continue
		}
		recog := src
		if spec.argRequired {
			// the parse function must reject an empty argument; then recognition = regex with group 1 mandatory
			if c.rejectsEmptyArg(ps.Parse) {
				rg, err := rx.RequireGroup(src, 1)
				if err != nil {
					c.fail("LANG-EQ", kw, where, "cannot make capture group 1 mandatory: "+err.Error())
					continue
				}
				recog = rg
				c.ok("LANG-EQ/ARG-REQUIRED", kw, P.Pos(ps.Parse.Pos()), FuncName(ps.Parse)+" returns nil when the captured argument is empty")
			} else {
				c.fail("LANG-EQ/ARG-REQUIRED", kw, P.Pos(ps.Parse.Pos()), FuncName(ps.Parse)+" does not reject an empty argument: `// "+kw+"` without argument is recognised")
			}
			if g, err := rx.AllGreedy(src); err != nil || !g {
				c.fail("LANG-EQ/GREEDY", kw, where, "pattern has a non-greedy repetition: the optional argument group may be skipped although an argument is present")
			} else {
				c.ok("LANG-EQ/GREEDY", kw, where, "all repetitions greedy (leftmost-first takes the argument group whenever some match does)")
			}
		}
		res, err := rx.Equivalent(recog, spec.recognition, noNL)
		if err != nil {
			c.undecided("LANG-EQ", kw, where, "automata comparison failed: "+err.Error())
			continue
		}
		if res.Holds {
			c.ok("LANG-EQ", kw, where, fmt.Sprintf("L(source) = L(reference %s) over comment texts (%d product states)", spec.recognition, res.States))
		} else {
			side := "is recognised by the source pattern but must not be"
			if !res.InA {
				side = "must be recognised but is rejected by the source pattern"
			}
			c.fail("LANG-EQ", kw, where, fmt.Sprintf("comment text %q %s (source %s)", res.Witness, side, src))
		}
		// capture groups
		ng, _ := rx.NumGroups(src)
		if ng != len(spec.groups) {
			c.fail("ARG-LANG", kw, where, fmt.Sprintf("pattern has %d capture groups, the grammar has %d arguments", ng, len(spec.groups)))
			continue
		}
		for i, ref := range spec.groups {
			gsrc, err := rx.Group(src, i+1)
			if err != nil {
				c.fail("ARG-LANG", fmt.Sprintf("%s#%d", kw, i+1), where, err.Error())
				continue
			}
			r2, err := rx.Equivalent(`^(?:`+gsrc+`)$`, `^(?:`+ref+`)$`, noNL)
			if err != nil {
				c.undecided("ARG-LANG", fmt.Sprintf("%s#%d", kw, i+1), where, err.Error())
				continue
			}
			if r2.Holds {
				c.ok("ARG-LANG", fmt.Sprintf("%s#%d", kw, i+1), where, "argument language = "+ref)
			} else {
				side := "is accepted as argument but is not in the documented argument language"
				if !r2.InA {
					side = "is a documented argument but cannot be captured"
				}
				c.fail("ARG-LANG", fmt.Sprintf("%s#%d", kw, i+1), where, fmt.Sprintf("argument %q %s (group %s)", r2.Witness, side, gsrc))
			}
		}
	}
	c.floor("keywords with a source regular expression", n, len(keywords))
}

// rejectsEmptyArg: every return of a non-nil result in the parse function is guarded by
// strings.TrimSpace(match[1]) != "".
func (c *Ctx) rejectsEmptyArg(fn *ssa.Function) bool {
	P := c.P
	ok := true
	n := 0
	allInstrs(fn, func(b *ssa.BasicBlock, ins ssa.Instruction) {
		r, isR := ins.(*ssa.Return)
		if !isR || len(r.Results) != 1 || isNilConst(r.Results[0]) {
			return
		}
		n++
		guarded := false
		for _, l := range P.BlockGuards(b) {
			// the list built from the argument is not empty (its items are the non-empty parts of capture 1: an
			// empty or missing argument leaves it empty)
			if (l.Kind == "lt" && l.Pos) || (l.Kind == "eq" && !l.Pos) {
				for _, pr := range [][2]ssa.Value{{l.X, l.Y}, {l.Y, l.X}} {
					if cs, isC := pr[0].(*ssa.Const); isC && cs.Value != nil && cs.Value.ExactString() == "0" && (l.Kind == "eq" || pr[0] == l.X) {
						if x := lenOf(pr[1]); x != nil && typeStr(x.Type()) == "[]string" {
							elems, unknown := c.listElems(x)
							okList := len(unknown) == 0 && len(elems) > 0
							for _, e := range elems {
								if c.splitItem(e, false) != "" && c.splitItem(e, true) != "" {
									okList = false
								}
							}
							if okList {
								guarded = true
							}
						}
					}
				}
			}
			if l.Kind != "eq" || l.Pos {
				continue
			}
			for _, pr := range [][2]ssa.Value{{l.X, l.Y}, {l.Y, l.X}} {
				if cs, isC := pr[0].(*ssa.Const); isC && cs.Value != nil && cs.Value.ExactString() == `""` {
					d := P.Desc(pr[1])
					if strings.Contains(d, "elem[1](call((*regexp.Regexp).FindStringSubmatch") {
						guarded = true
					}
				}
			}
		}
		if !guarded {
			ok = false
		}
	})
	return ok && n > 0
}

// constStringElems: the constant strings of a []string literal value.
func (c *Ctx) constStringElems(v ssa.Value) []string {
	var out []string
	for _, r := range c.P.Resolve(v) {
		sl, ok := r.(*ssa.Slice)
		if !ok {
			continue
		}
		a, ok := sl.X.(*ssa.Alloc)
		if !ok {
			continue
		}
		if refs := a.Referrers(); refs != nil {
			for _, rr := range *refs {
				ia, ok := rr.(*ssa.IndexAddr)
				if !ok {
					continue
				}
				if irefs := ia.Referrers(); irefs != nil {
					for _, s := range *irefs {
						if st, ok := s.(*ssa.Store); ok {
							if cs := constString(st.Val); cs != "" {
								out = append(out, cs)
							}
						}
					}
				}
			}
		}
	}
	sort.Strings(out)
	return out
}

// matcherDict: dictionary of the Aho-Corasick matcher consulted by v (a *ahocorasick.Matcher value).
func (c *Ctx) matcherDict(v ssa.Value) []string {
	P := c.P
	var dict []string
	for _, r := range P.Resolve(v) {
		u, ok := r.(*ssa.UnOp)
		if !ok {
			continue
		}
		g, ok := u.X.(*ssa.Global)
		if !ok {
			continue
		}
		initFn := g.Pkg.Func("init")
		allInstrs(initFn, func(b *ssa.BasicBlock, ins ssa.Instruction) {
			st, ok := ins.(*ssa.Store)
			if !ok || st.Addr != g {
				return
			}
			if call, ok := st.Val.(*ssa.Call); ok && strings.HasSuffix(P.calleeName(call.Common()), "ahocorasick.NewStringMatcher") {
				dict = append(dict, c.constStringElems(call.Call.Args[0])...)
			}
		})
	}
	return dict
}

// ruleAttach: for every parse call — the guards are exactly the pre-filters, every pre-filter is implied by the
// regex, the text is a line of the right doc comment, names/positions come from the declaration, and the
// litSetsCoverAll: the disjunction of the conjunctions is a tautology (every valuation of the literals satisfies
// one of the sets) - decided by splitting on one literal at a time.
func litSetsCoverAll(sets [][]Lit, depth int) bool {
	if len(sets) == 0 || depth > 8 {
		return false
	}
	for _, s := range sets {
		if len(s) == 0 {
			return true
		}
	}
	key := sets[0][0].Key
	for _, val := range []bool{true, false} {
		var sub [][]Lit
		for _, s := range sets {
			var rest []Lit
			contradicted := false
			for _, l := range s {
				if l.Key == key {
					if l.Pos != val {
						contradicted = true
					}
					continue
				}
				rest = append(rest, l)
			}
			if !contradicted {
				sub = append(sub, rest)
			}
		}
		if !litSetsCoverAll(sub, depth+1) {
			return false
		}
	}
	return true
}

// result reaches the matching list of PackageAnnotations.
func (c *Ctx) ruleAttach(keywords ...string) {
	P := c.P
	want := map[string]bool{}
	for _, k := range keywords {
		want[k] = true
	}
	perKw := map[string]int{}
	type pendingGuards struct {
		kw, cons, where string
		unexpected      []string
		lits            []Lit
	}
	groups := map[string][]pendingGuards{}
	defer func() {
		var keys []string
		for k := range groups {
			keys = append(keys, k)
		}
		sort.Strings(keys)
		for _, k := range keys {
			g := groups[k]
			var sets [][]Lit
			any := false
			for _, pg := range g {
				sets = append(sets, pg.lits)
				if len(pg.unexpected) > 0 {
					any = true
				}
			}
			if !any {
				continue
			}
			if len(g) > 1 && litSetsCoverAll(sets, 0) {
				for _, pg := range g {
					if len(pg.unexpected) > 0 {
						c.ok("ATTACH/NO-EXTRA-GUARD", pg.cons, pg.where, "one of several calls of the parser on the same text; together they are reached for every comment line that passes the pre-filters")
					}
				}
				continue
			}
			for _, pg := range g {
				for _, u := range pg.unexpected {
					c.fail("ATTACH/UNEXPECTED-GUARD", pg.cons, pg.where, "annotation "+pg.kw+" is not parsed under a condition the grammar does not mention: "+u)
				}
			}
		}
	}()
	for _, ps := range c.parseSites() {
		if len(want) > 0 && !want[ps.Keyword] {
			continue
		}
		kw := ps.Keyword
		cons := fmt.Sprintf("%s<-%s", FuncName(ps.Parse), FuncName(ps.Call.Parent()))
		// several calls of the same parse function from the same function: number them
		nSame := 0
		for _, o := range c.parseSites() {
			if o == ps {
				break
			}
			if o.Parse == ps.Parse && o.Call.Parent() == ps.Call.Parent() && o.Via == ps.Via {
				nSame++
			}
		}
		if nSame > 0 {
			cons += fmt.Sprintf("/%d", nSame+1)
		}
		if ps.Via != nil {
			cons += "<-" + FuncName(ps.Via.Parent())
		}
		where := P.Pos(ps.Call.Pos())
		if kw == "" {
			c.fail("ATTACH/KEYWORD", cons, where, "parse function is not called under a strings.Contains(text, \"@keyword\") dispatch on the same text")
			continue
		}
		perKw[kw]++
		P.Pinned(ps.ViaFn, ps.Via, func() {
			// ---- guards: exactly the pre-filters (+ declaration-kind dispatch, nil checks, loops)
			var unexpected []string
			var unexpectedLits []Lit
			sawMatcher := false
			for _, l := range P.Guards(ps.Call) {
				switch {
				case l.Kind == "rangeloop" || l.Kind == "rangefunc" || nilCheck(l):
				case l.Pos && P.litCallTo(l, "strings.Contains") != nil && constString(P.litCallTo(l, "strings.Contains").Call.Args[1]) == kw:
					// L(regex) must be within "contains kw"
					res, err := rx.Subset(ps.Regex, regexp.QuoteMeta(kw), noNL)
					if err != nil || !res.Holds {
						c.fail("PREFILTER", cons, where, fmt.Sprintf("dispatch strings.Contains(text, %q) is narrower than the regex: %q is recognised by the pattern but never reaches it", kw, res.Witness))
					} else {
						c.ok("PREFILTER", cons+"#contains", where, "L(regex) ⊆ texts containing "+kw)
					}
				case kw == "@mutable" && l.Pos && c.enclosingImmutableLit(l, ps):
					// @mutable is read only for fields of a type whose own doc line was recognised as @immutable
				case l.Pos && litCall(l) != nil && strings.HasSuffix(P.calleeName(litCall(l).Common()), "ahocorasick.Matcher).Contains"):
					sawMatcher = true
					dict := c.matcherDict(litCall(l).Call.Args[0])
					var alts []string
					for _, d := range dict {
						alts = append(alts, regexp.QuoteMeta(d))
					}
					if len(alts) == 0 {
						c.fail("PREFILTER", cons+"#matcher", where, "cannot determine the dictionary of the Aho-Corasick pre-filter")
						break
					}
					res, err := rx.Subset(ps.Regex, "(?:"+strings.Join(alts, "|")+")", noNL)
					if err != nil || !res.Holds {
						c.fail("PREFILTER", cons+"#matcher", where, fmt.Sprintf("pre-filter dictionary %v is narrower than the regex: %q is recognised by the pattern but filtered out before", dict, res.Witness))
					} else {
						c.ok("PREFILTER", cons+"#matcher", where, fmt.Sprintf("L(regex) ⊆ texts containing one of %v", dict))
					}
					// the matcher must see the same text
					if d := P.Desc(litCall(l).Call.Args[1]); !strings.Contains(d, P.Desc(ps.Text)) {
						c.fail("PREFILTER", cons+"#matcher-text", where, "pre-filter is applied to a different text than the one parsed")
					}
				case c.attachDispatchLit(l, kw):
				default:
					if x, t, _ := typeAssertOK(l); x != nil && !l.Pos && strings.HasPrefix(typeStr(t), "*go/ast.") {
						break
					}
					unexpected = append(unexpected, short(l.String()))
					unexpectedLits = append(unexpectedLits, l)
				}
			}
			_ = sawMatcher
			if len(unexpected) == 0 {
				c.ok("ATTACH/NO-EXTRA-GUARD", cons, where, "parse is reached for every comment line that passes its own pre-filters")
			}
			// (a condition that only chooses between several calls of the same parser on the same text is no
			// condition on the annotation being parsed: decided per group below)
			via := ""
			if ps.Via != nil {
				via = P.Pos(ps.Via.Pos())
			}
			gk := fmt.Sprintf("%s|%s|%s|%s", FuncName(ps.Parse), FuncName(ps.Call.Parent()), via, P.Desc(ps.Text))
			groups[gk] = append(groups[gk], pendingGuards{kw, cons, where, unexpected, unexpectedLits})
			// ---- text provenance
			c.attachText(ps, cons, where)
			// ---- result flows into the matching list
			c.attachFlow(ps, cons, where)
		})
	}
	for _, kw := range keywords {
		min := 1
		if kw == "@testonly" || kw == "@packageonly" {
			min = 2 // on types and on functions/methods
		}
		c.floor("parse call sites for "+kw, perKw[kw], min)
	}
}

// attachDispatchLit: declaration-kind conditions that belong to the attachment rule itself.
func (c *Ctx) attachDispatchLit(l Lit, kw string) bool {
	P := c.P
	if x, t, _ := typeAssertOK(l); x != nil && l.Pos {
		switch typeStr(t) {
		case "*go/ast.GenDecl", "*go/ast.TypeSpec", "*go/ast.FuncDecl", "*go/ast.StructType":
			return true
		}
	}
	if l.Pos && tokAtom(l, "go/ast.GenDecl", 84 /* token.TYPE */) {
		return true
	}
	if lenCheck(l) {
		// len(field.Names) == 0 skip (embedded fields)
		for _, side := range []ssa.Value{l.X, l.Y} {
			if x := lenOf(side); x != nil && fieldLoad(firstRoot(P, x), "go/ast.Field", "Names") != nil {
				return true
			}
		}
	}
	_ = kw
	return false
}

// attachText: the parsed text is Comment.Text of an element of the List of the right doc comment group.
func (c *Ctx) attachText(ps *parseSite, cons, where string) {
	P := c.P
	okText := P.RootsAll(ps.Text, func(r ssa.Value) bool {
		cm := fieldLoad(r, "go/ast.Comment", "Text")
		if cm == nil {
			return false
		}
		return true
	})
	if !okText {
		c.fail("ATTACH/TEXT", cons, where, "parsed text is not <comment>.Text: "+short(P.Desc(ps.Text)))
		return
	}
	d := P.Desc(ps.Text)
	inIgnore := funcPkgPath(ps.Call.Parent()) == modulePath+"/src/ignore"
	switch {
	case inIgnore:
		ok := strings.Contains(d, "elem(field(elem(field(iterelem0(call((*config.Config).FilterFiles;") && strings.Contains(d, ".go/ast.File.Comments)).go/ast.CommentGroup.List)).go/ast.Comment.Text)")
		c.check(ok, "ATTACH/TEXT", cons, where, "every comment of every comment group of each filtered file", "@ignore text is not taken from range file.Comments / group.List of a filtered file: "+short(d))
	case strings.Contains(d, "go/ast.FuncDecl.Doc"):
		ok := strings.Contains(d, "elem(field(field(typeassert(elem(field(iterelem0(call((*config.Config).FilterFiles;") && strings.Contains(d, ".go/ast.File.Decls)); *go/ast.FuncDecl).go/ast.FuncDecl.Doc).go/ast.CommentGroup.List))")
		okKw := ps.Keyword == "@testonly" || ps.Keyword == "@packageonly"
		c.check(ok && okKw, "ATTACH/TEXT", cons, where, "doc comment lines of a top-level FuncDecl of a filtered file", "function-level annotation text has an unexpected origin or keyword: "+short(d))
	case strings.Contains(d, "go/ast.Field.Doc"):
		ok := ps.Keyword == "@mutable" && strings.Contains(d, "go/ast.FieldList.List") && strings.Contains(d, "go/ast.StructType.Fields")
		c.check(ok, "ATTACH/TEXT", cons, where, "doc comment lines of a struct field", "field-level annotation text has an unexpected origin or keyword: "+short(d))
	default:
		// type-level: doc = typeSpec.Doc if present else genDecl.Doc
		c.docPriority(ps, cons, where)
	}
}

// docPriority: the comment group used for a type is TypeSpec.Doc when it is non-nil and GenDecl.Doc otherwise,
// decided afresh for every spec.
func (c *Ctx) docPriority(ps *parseSite, cons, where string) {
	P := c.P
	// find the comment group value: text = load Comment.Text of elem(range <group>.List)
	var groups []ssa.Value
	for _, r := range P.Resolve(ps.Text) {
		cm := fieldLoad(r, "go/ast.Comment", "Text")
		if cm == nil {
			continue
		}
		for _, e := range P.Resolve(cm) {
			// element of range over List: UnOp load of IndexAddr(list)
			u, ok := e.(*ssa.UnOp)
			if !ok {
				continue
			}
			ia, ok := u.X.(*ssa.IndexAddr)
			if !ok {
				continue
			}
			for _, l := range P.Resolve(ia.X) {
				if g := fieldLoad(l, "go/ast.CommentGroup", "List"); g != nil {
					groups = append(groups, g)
				}
			}
		}
	}
	if len(groups) == 0 {
		c.fail("DOC-PRIORITY", cons, where, "cannot find the comment group the parsed line belongs to: "+short(P.Desc(ps.Text)))
		return
	}
	for _, g := range groups {
		g = P.throughParams(g)
		phi, isPhi := g.(*ssa.Phi)
		type docAlt struct {
			val    ssa.Value
			guards []Lit
		}
		var alts []docAlt
		if isPhi {
			for i, e := range phi.Edges {
				alts = append(alts, docAlt{e, P.EdgeGuards(phi.Block().Preds[i], phi.Block())})
			}
		} else if hc, isCall := g.(*ssa.Call); isCall {
			// the choice made in a helper (`typeSpecDoc(genDecl, typeSpec)`): one alternative per return
			if callee := hc.Call.StaticCallee(); callee != nil && P.IsProductFunc(callee) && !P.isAnchor(callee) && len(callee.Blocks) > 0 && callee.Signature.Results().Len() == 1 {
				allInstrs(callee, func(b2 *ssa.BasicBlock, i2 ssa.Instruction) {
					if r2, isRet := i2.(*ssa.Return); isRet && len(r2.Results) == 1 {
						if p2, isP2 := r2.Results[0].(*ssa.Phi); isP2 {
							for i, e := range p2.Edges {
								alts = append(alts, docAlt{e, P.EdgeGuards(p2.Block().Preds[i], p2.Block())})
							}
						} else {
							alts = append(alts, docAlt{r2.Results[0], P.BlockGuards(b2)})
						}
					}
				})
			}
		}
		if len(alts) == 0 {
			// a single source
			d := P.Desc(g)
			if strings.Contains(d, "go/ast.TypeSpec.Doc") || strings.Contains(d, "go/ast.GenDecl.Doc") {
				c.fail("DOC-PRIORITY", cons, where, "type annotations are read from only one of TypeSpec.Doc / GenDecl.Doc: "+short(d))
			} else {
				c.fail("DOC-PRIORITY", cons, where, "type annotation text does not come from TypeSpec.Doc / GenDecl.Doc: "+short(d))
			}
			continue
		}
		okAll := len(alts) == 2
		var why string
		sawSpec, sawGen := false, false
		for _, alt := range alts {
			e, eg := alt.val, alt.guards
			specNonNil, specNil := false, false
			for _, l := range eg {
				if v := nilCheckedValue(l); v != nil && fieldLoad(firstRoot(P, v), "go/ast.TypeSpec", "Doc") != nil {
					if l.Pos {
						specNil = true
					} else {
						specNonNil = true
					}
				}
			}
			switch {
			case fieldLoad(e, "go/ast.TypeSpec", "Doc") != nil:
				sawSpec = true
				if !specNonNil {
					okAll, why = false, "TypeSpec.Doc is selected on a path that does not test it for non-nil"
				}
			case fieldLoad(e, "go/ast.GenDecl", "Doc") != nil:
				sawGen = true
				if !specNil {
					okAll, why = false, "GenDecl.Doc is selected although TypeSpec.Doc may be present (it must only be the fallback when the spec has no doc comment of its own)"
				}
			default:
				okAll, why = false, "the doc comment of a spec depends on a value carried over from elsewhere (previous spec / declaration): "+short(P.Desc(e))
			}
		}
		if okAll && !(sawSpec && sawGen) {
			okAll, why = false, "both TypeSpec.Doc and GenDecl.Doc must be candidates"
		}
		c.check(okAll, "DOC-PRIORITY", cons, where, "doc = TypeSpec.Doc if non-nil else GenDecl.Doc, per spec", why)
	}
	// and the declaration is a top-level TYPE GenDecl of a filtered file
	d := P.Desc(ps.Text)
	ok := strings.Contains(d, "typeassert(elem(field(iterelem0(call((*config.Config).FilterFiles;") && strings.Contains(d, ".go/ast.File.Decls)); *go/ast.GenDecl)")
	c.check(ok, "ATTACH/TEXT", cons, where, "doc comment lines of a top-level type declaration of a filtered file", "type-level annotation text does not come from a top-level GenDecl of a filtered file: "+short(d))
}

// attachFlow: the non-nil parse result is appended to a list that becomes the PackageAnnotations field whose
// element type is the result type (or is handed to IgnoreSet.Add), with no further condition.
func (c *Ctx) attachFlow(ps *parseSite, cons, where string) {
	P := c.P
	resT := ps.Parse.Signature.Results().At(0).Type()
	elemT := deref(resT)
	inIgnore := funcPkgPath(ps.Call.Parent()) == modulePath+"/src/ignore"
	var fr FlowResult
	target := ""
	if inIgnore {
		fr = P.FlowToTerminal(ps.Call, func(ci ssa.CallInstruction, arg int) bool {
			callee := ci.Common().StaticCallee()
			return callee != nil && FuncName(callee) == "(*util.IgnoreSet).Add" && arg == 1
		})
		target = "IgnoreSet.Add"
	} else {
		fr = P.FlowToStore(ps.Call, func(st *ssa.Store) bool {
			fa, ok := st.Addr.(*ssa.FieldAddr)
			if !ok || typeStr(deref(fa.X.Type())) != "annotations.PackageAnnotations" {
				return false
			}
			ft := deref(fa.X.Type()).Underlying().(*types.Struct).Field(fa.Field).Type()
			sl, ok := ft.Underlying().(*types.Slice)
			return ok && types.Identical(sl.Elem(), elemT)
		})
		target = "PackageAnnotations.[]" + typeStr(elemT)
	}
	if !fr.Reached {
		c.fail("ANNOT-FLOW", cons, where, "parsed annotation never reaches "+target+" "+strings.Join(fr.Dropped, "; "))
		return
	}
	var extra []string
	mine := newLitSet(P.Guards(ps.Call))
	for k, l := range fr.Guards {
		if _, ok := mine[k]; ok {
			continue
		}
		if l.Kind == "rangeloop" || l.Kind == "rangefunc" || nilCheck(l) {
			continue
		}
		if _, ok := mine[l.String()]; ok {
			continue
		}
		// guards that already hold at the call are not new; compare by key text
		dup := false
		for mk := range mine {
			if mk == k {
				dup = true
			}
		}
		if dup {
			continue
		}
		if inIgnore {
			// scope computation conditions sit between parse and Add only as position computations, not as guards
		}
		extra = append(extra, short(l.String()))
	}
	if len(extra) == 0 {
		c.ok("ANNOT-FLOW", cons, where, "non-nil result is always added to "+target)
	} else {
		sort.Strings(extra)
		for _, e := range extra {
			c.fail("ANNOT-FLOW/UNEXPECTED-GUARD", cons, where, "a recognised annotation is dropped under a condition the grammar does not mention: "+e)
		}
	}
}

// enclosingImmutableLit: a pre-filter literal on the *type's* comment line (not on the field's line) that
// guards the call of the field reader: the type carries @immutable.
func (c *Ctx) enclosingImmutableLit(l Lit, ps *parseSite) bool {
	P := c.P
	call := litCall(l)
	if call == nil {
		return false
	}
	name := P.calleeName(call.Common())
	var text ssa.Value
	switch {
	case name == "strings.Contains" && constString(call.Call.Args[1]) == "@immutable":
		text = call.Call.Args[0]
	case strings.HasSuffix(name, "ahocorasick.Matcher).Contains"):
		text = call.Call.Args[1]
	default:
		return false
	}
	d := P.Desc(text)
	return !strings.Contains(d, "go/ast.Field.Doc") && (strings.Contains(d, "go/ast.TypeSpec.Doc") || strings.Contains(d, "go/ast.GenDecl.Doc"))
}

// listElem: one value that can become an element of a list, the instruction that adds it (an append call or a
// slice literal) and the calling context (helpers entered on the way) in which both have to be read.
type listElem struct {
	Val  ssa.Value
	At   ssa.Instruction
	Pins pinMap
}

// listElems: every value that can be an element of slice value v - through slice literals, append (item by item
// or spread), phis, local variables, parameters and product helpers that build and return the list. unknown lists
// the origins that are none of these.
func (c *Ctx) listElems(v ssa.Value) (elems []listElem, unknown []string) {
	P := c.P
	type key struct {
		v ssa.Value
		n int
	}
	seen := map[key]bool{}
	var walk func(v ssa.Value, pins pinMap)
	litElems := func(sl *ssa.Slice, at ssa.Instruction, pins pinMap) bool {
		a, ok := sl.X.(*ssa.Alloc)
		if !ok {
			return false
		}
		if refs := a.Referrers(); refs != nil {
			for _, rr := range *refs {
				ia, ok := rr.(*ssa.IndexAddr)
				if !ok {
					continue
				}
				if irefs := ia.Referrers(); irefs != nil {
					for _, st := range *irefs {
						if s, ok := st.(*ssa.Store); ok && s.Addr == ia {
							elems = append(elems, listElem{s.Val, at, pins})
						}
					}
				}
			}
		}
		return true
	}
	walk = func(v ssa.Value, pins pinMap) {
		k := key{v, len(pins)}
		if seen[k] {
			return
		}
		seen[k] = true
		switch x := v.(type) {
		case *ssa.Const:
		case *ssa.MakeSlice:
		case *ssa.Phi:
			for _, e := range x.Edges {
				walk(e, pins)
			}
		case *ssa.ChangeType:
			walk(x.X, pins)
		case *ssa.Slice:
			if !litElems(x, x, pins) {
				walk(x.X, pins) // s[i:j] of a list: a subset of its elements
			}
		case *ssa.Parameter:
			var args []ssa.Value
			P.PinnedAll(pins, func() { args = P.paramArgs(x) })
			if args == nil {
				unknown = append(unknown, short(P.Desc(v)))
				return
			}
			// the argument is read in the caller: leave the context of this function
			outer := pinMap{}
			for f, cs := range pins {
				if f != x.Parent() {
					outer[f] = cs
				}
			}
			if len(outer) == 0 {
				outer = nil
			}
			for _, a := range args {
				walk(a, outer)
			}
		case *ssa.UnOp:
			if x.Op == token.MUL {
				if cell := P.cellOf(x.X); cell != nil {
					if vals, _, escaped := P.CellStores(cell); !escaped {
						for _, s := range vals {
							walk(s, pins)
						}
						return
					}
				}
			}
			unknown = append(unknown, short(P.Desc(v)))
		case *ssa.Extract:
			if call, ok := x.Tuple.(*ssa.Call); ok {
				if rets := P.helperReturns(call, x.Index); rets != nil {
					np := pinMap{}
					for f, cs := range pins {
						np[f] = cs
					}
					np[call.Call.StaticCallee()] = call
					for _, r := range rets {
						walk(r, np)
					}
					return
				}
			}
			unknown = append(unknown, short(P.Desc(v)))
		case *ssa.Call:
			if bi, isB := x.Call.Value.(*ssa.Builtin); isB && bi.Name() == "append" {
				walk(x.Call.Args[0], pins)
				if len(x.Call.Args) > 1 {
					if sl, ok := x.Call.Args[1].(*ssa.Slice); ok && litElems(sl, x, pins) {
						return
					}
					walk(x.Call.Args[1], pins) // append(list, other...)
				}
				return
			}
			if rets := P.helperReturns(x, 0); rets != nil {
				np := pinMap{}
				for f, cs := range pins {
					np[f] = cs
				}
				np[x.Call.StaticCallee()] = x
				for _, r := range rets {
					walk(r, np)
				}
				return
			}
			unknown = append(unknown, short(P.Desc(v)))
		default:
			unknown = append(unknown, short(P.Desc(v)))
		}
	}
	walk(v, nil)
	return
}

// listAlways: on every way list value v can be built, it contains an element satisfying pred.
func (c *Ctx) listAlways(v ssa.Value, pred func(e ssa.Value) bool, depth int) bool {
	P := c.P
	if depth > 12 {
		return false
	}
	switch x := v.(type) {
	case *ssa.Phi:
		// a loop-carried list: the element is there if it is there on every way into the loop (coinductive)
		if c.listBusy[x] {
			return true
		}
		if c.listBusy == nil {
			c.listBusy = map[*ssa.Phi]bool{}
		}
		c.listBusy[x] = true
		defer delete(c.listBusy, x)
		for _, e := range x.Edges {
			if !c.listAlways(e, pred, depth+1) {
				return false
			}
		}
		return len(x.Edges) > 0
	case *ssa.Slice:
		for _, e := range c.sliceLitElems(x) {
			if pred(e) {
				return true
			}
		}
		return false
	case *ssa.Parameter:
		// the list a helper extends: what its callers (the pinned one, inside a helper expansion) hand in
		args := P.paramArgs(x)
		if len(args) == 0 {
			return false
		}
		for _, a := range args {
			if !c.listAlways(a, pred, depth+1) {
				return false
			}
		}
		return true
	case *ssa.UnOp:
		if x.Op == token.MUL {
			if cell := P.cellOf(x.X); cell != nil {
				if vals, _, escaped := P.CellStores(cell); !escaped && len(vals) > 0 {
					for _, s := range vals {
						if !c.listAlways(s, pred, depth+1) {
							return false
						}
					}
					return true
				}
			}
		}
	case *ssa.Call:
		if bi, isB := x.Call.Value.(*ssa.Builtin); isB && bi.Name() == "append" {
			if c.listAlways(x.Call.Args[0], pred, depth+1) {
				return true
			}
			return len(x.Call.Args) > 1 && c.listAlways(x.Call.Args[1], pred, depth+1)
		}
		if rets := P.helperReturns(x, 0); rets != nil {
			ok := true
			P.PinnedAll(pinMap{x.Call.StaticCallee(): x}, func() {
				for _, r := range rets {
					if !c.listAlways(r, pred, depth+1) {
						ok = false
					}
				}
			})
			return ok
		}
	}
	return false
}

// splitItem judges one list element: (upper-cased) strings.TrimSpace(part) where part ranges over
// strings.Split(<capture group 1>, ","), added only under `item != ""`. Returns "" or what is wrong.
func (c *Ctx) splitItem(e listElem, wantUpper bool) (bad string) {
	P := c.P
	P.PinnedAll(e.Pins, func() {
		v := e.Val
		upper := false
		if u := P.CallTo(firstRoot(P, v), "strings.ToUpper"); u != nil {
			upper = true
			v = u.Call.Args[0]
		}
		ts := P.CallTo(firstRoot(P, v), "strings.TrimSpace")
		if ts == nil {
			bad = "list item is not strings.TrimSpace(<split part>): " + short(P.Desc(e.Val))
			return
		}
		part := ts.Call.Args[0]
		okSplit := P.RootsAll(part, func(r ssa.Value) bool {
			u, ok := r.(*ssa.UnOp)
			if !ok {
				return false
			}
			ia, ok := u.X.(*ssa.IndexAddr)
			if !ok || !(isRangeIndex(ia.Index) || isFullIndexLoopOver(ia.Index, ia.X)) {
				return false
			}
			return P.RootsAll(ia.X, func(s ssa.Value) bool {
				sp := P.CallTo(s, "strings.Split")
				if sp == nil || constString(sp.Call.Args[1]) != "," {
					return false
				}
				d := P.Desc(sp.Call.Args[0])
				return strings.Contains(d, "elem[1](call((*regexp.Regexp).FindStringSubmatch") && !strings.HasPrefix(d, "{")
			})
		})
		if !okSplit {
			bad = "list item is not an element of range strings.Split(<capture group 1>, \",\"): " + short(P.Desc(part))
			return
		}
		dropEmpty := false
		for _, l := range P.BlockGuards(e.At.Block()) {
			if l.Kind == "eq" && !l.Pos {
				for _, pr := range [][2]ssa.Value{{l.X, l.Y}, {l.Y, l.X}} {
					if cs, isC := pr[0].(*ssa.Const); isC && cs.Value != nil && cs.Value.ExactString() == `""` && P.Desc(pr[1]) == P.Desc(ts) {
						dropEmpty = true
					}
				}
			}
			// len(item) > 0 / len(item) != 0
			if (l.Kind == "lt" && l.Pos) || (l.Kind == "eq" && !l.Pos) {
				for _, pr := range [][2]ssa.Value{{l.X, l.Y}, {l.Y, l.X}} {
					if cs, isC := pr[0].(*ssa.Const); isC && cs.Value != nil && cs.Value.ExactString() == "0" {
						if x := lenOf(pr[1]); x != nil && P.Desc(x) == P.Desc(ts) && (l.Kind == "eq" || pr[0] == l.X) {
							dropEmpty = true
						}
					}
				}
			}
		}
		switch {
		case !dropEmpty:
			bad = "empty list items are not dropped (no `item != \"\"` guard on the trimmed item)"
		case wantUpper && !upper:
			bad = "UPPER: @ignore codes are not upper-cased (codes must match case-insensitively)"
		case !wantUpper && upper:
			bad = "list item is upper-cased although names/paths are case-sensitive"
		}
	})
	return
}

// rulePost: argument post-processing of list annotations: every element of a []string field of the result is
// TrimSpace(element of Split(<capture 1>, ",")), empty items are dropped, @ignore codes are upper-cased;
// @packageonly always contains the declaring package's path (SELF-ALLOWED). The list may be built in place or by
// a helper.
func (c *Ctx) rulePost(keywords ...string) {
	P := c.P
	byKw := c.regexKeywords()
	for _, kw := range keywords {
		ps := byKw[kw]
		if ps == nil {
			continue
		}
		fn := ps.Parse
		name := FuncName(fn)
		nItems := 0
		isSelf := func(e ssa.Value) bool { return P.isPassPkgCall(e, "Path") }
		allInstrs(fn, func(b *ssa.BasicBlock, ins ssa.Instruction) {
			st, isS := ins.(*ssa.Store)
			if !isS || typeStr(st.Val.Type()) != "[]string" {
				return
			}
			fa, isF := st.Addr.(*ssa.FieldAddr)
			if !isF || P.moduleStruct(deref(fa.X.Type())) == nil {
				return
			}
			fld := deref(fa.X.Type()).Underlying().(*types.Struct).Field(fa.Field).Name()
			elems, unknown := c.listElems(st.Val)
			c.check(len(unknown) == 0, "POST/LIST-ORIGIN", name+"#"+fld, P.Pos(st.Pos()), "list is built item by item from the split capture group",
				"list field "+fld+" is not built from TrimSpace'd parts of strings.Split(<capture 1>, \",\") (the regex separator \\s*,\\s* allows any white space around commas): "+strings.Join(unknown, "; "))
			for _, e := range elems {
				self := false
				P.PinnedAll(e.Pins, func() { self = isSelf(e.Val) })
				if kw == "@packageonly" && self {
					continue
				}
				nItems++
				cons := fmt.Sprintf("%s#%s/item%d", name, fld, nItems)
				where := P.Pos(e.At.Pos())
				bad := c.splitItem(e, kw == "@ignore")
				switch {
				case bad == "":
					c.ok("POST/ITEM", cons, where, "TrimSpace(part of Split(group1, \",\")), empty dropped"+map[bool]string{true: ", upper-cased", false: ""}[kw == "@ignore"])
				case strings.HasPrefix(bad, "UPPER: "):
					c.fail("POST/UPPER", cons, where, strings.TrimPrefix(bad, "UPPER: "))
				default:
					c.fail("POST/ITEM", cons, where, bad)
				}
			}
			if kw == "@packageonly" {
				c.check(c.listAlways(st.Val, isSelf, 0), "POST/SELF-ALLOWED", name, P.Pos(st.Pos()), "AllowedPackages of every result starts from []string{pass.Pkg.Path()}", "the declaring package's own path is not (always) part of AllowedPackages: a bare @packageonly would forbid the declaring package or allow nothing")
			}
		})
		c.floor("list items appended in "+name, nItems, 1)
	}
}

// sliceLitElems: the values stored into the backing array of a slice literal / varargs slice.
func (c *Ctx) sliceLitElems(v ssa.Value) []ssa.Value {
	var out []ssa.Value
	sl, ok := v.(*ssa.Slice)
	if !ok {
		return nil
	}
	a, ok := sl.X.(*ssa.Alloc)
	if !ok {
		return nil
	}
	if refs := a.Referrers(); refs != nil {
		for _, rr := range *refs {
			ia, ok := rr.(*ssa.IndexAddr)
			if !ok {
				continue
			}
			if irefs := ia.Referrers(); irefs != nil {
				for _, s := range *irefs {
					if st, ok := s.(*ssa.Store); ok {
						out = append(out, st.Val)
					}
				}
			}
		}
	}
	return out
}
