package main

// C10 BOUNDS: every index / slice expression of product code that is not the element access of a range loop
// is discharged by one of a few patterns (or a reviewed entry with a checked precondition); anything else fails.

import (
	"fmt"
	"go/constant"
	"go/token"
	"go/types"
	"strings"

	"ggverif/rx"

	"golang.org/x/tools/go/ssa"
)

func constInt(v ssa.Value) (int64, bool) {
	c, ok := v.(*ssa.Const)
	if !ok || c.Value == nil || c.Value.Kind() != constant.Int {
		return 0, false
	}
	n, ok := constant.Int64Val(c.Value)
	return n, ok
}

// lenGuardAbove: the guards imply len(base) > k.
func (c *Ctx) lenGuardAbove(guards []Lit, base ssa.Value, k int64) bool {
	P := c.P
	bd := P.Desc(base)
	isLen := func(v ssa.Value) bool {
		x := lenOf(v)
		return x != nil && P.Desc(x) == bd
	}
	var check func(l Lit) bool
	check = func(l Lit) bool {
		switch l.Kind {
		case "lt":
			// a < len  (positive)  => len > a
			if l.Pos && isLen(l.Y) {
				if a, ok := constInt(l.X); ok && a >= k {
					return true
				}
			}
			// !(len < a)  => len >= a
			if !l.Pos && isLen(l.X) {
				if a, ok := constInt(l.Y); ok && a > k {
					return true
				}
			}
		case "eq":
			var other ssa.Value
			if isLen(l.X) {
				other = l.Y
			} else if isLen(l.Y) {
				other = l.X
			}
			if other != nil {
				if a, ok := constInt(other); ok {
					if l.Pos && a > k {
						return true
					}
					if !l.Pos && a == 0 && k == 0 {
						return true
					}
				}
			}
		}
		return false
	}
	for _, l := range guards {
		if check(l) {
			return true
		}
		if (l.Kind == "or" && !l.Pos) || (l.Kind == "and" && l.Pos) {
			for _, s := range l.Subs {
				s2 := s
				if l.Kind == "or" {
					s2.Pos = !s.Pos // !(a||b): each disjunct false
				}
				if check(s2) {
					return true
				}
			}
		}
	}
	return false
}

// reviewedBounds: arithmetic bounds that need linear reasoning. Each entry names the guard that must still be
// present at the site (checked) and the reason.
type boundsReview struct {
	need   []string // substrings that must occur among the guard keys of the site
	reason string
}

func (c *Ctx) ruleBounds() {
	P := c.P
	n := 0
	for _, fn := range P.ModFuncs {
		idxN := map[string]int{}
		allInstrs(fn, func(b *ssa.BasicBlock, ins ssa.Instruction) {
			var base, idx ssa.Value
			kind := ""
			switch x := ins.(type) {
			case *ssa.IndexAddr:
				if isRangeIndex(x.Index) || isFullIndexLoopOver(x.Index, x.X) {
					return
				}
				if _, isArr := deref(x.X.Type()).Underlying().(*types.Array); isArr {
					return // arrays: constant indices are checked by the compiler; varargs arrays
				}
				base, idx, kind = x.X, x.Index, "index"
			case *ssa.Index:
				base, idx, kind = x.X, x.Index, "index"
			case *ssa.Slice:
				if _, isArr := deref(x.X.Type()).Underlying().(*types.Array); isArr {
					return
				}
				if x.Low == nil && x.High == nil {
					return
				}
				base, kind = x.X, "slice"
			default:
				return
			}
			n++
			idxN[kind]++
			cons := fmt.Sprintf("%s#%s%d", FuncName(fn), kind, idxN[kind])
			where := P.Pos(ins.Pos())
			guards := P.Expand(P.BlockGuards(b))
			ok, why := c.boundsDischarged(fn, b, ins, kind, base, idx, guards)
			c.check(ok, "BOUNDS", cons, where, why, "index/slice expression is not provably in range: "+why)
		})
	}
	c.count("index/slice expressions outside range loops", n)
	c.floor("index/slice expressions outside range loops", n, 25)
}

func (c *Ctx) boundsDischarged(fn *ssa.Function, b *ssa.BasicBlock, ins ssa.Instruction, kind string, base, idx ssa.Value, guards []Lit) (bool, string) {
	P := c.P
	bd := P.Desc(base)
	fname := FuncName(fn)
	if kind == "slice" {
		return c.sliceReviewed(fn, ins.(*ssa.Slice), guards)
	}
	// ---- constant index
	if k, ok := constInt(idx); ok {
		// regexp submatch
		for _, r := range P.Resolve(base) {
			if call := P.CallTo(r, "(*regexp.Regexp).FindStringSubmatch"); call != nil {
				pat := ""
				for _, q := range P.Resolve(call.Call.Args[0]) {
					if u, ok := q.(*ssa.UnOp); ok {
						if g, ok := u.X.(*ssa.Global); ok {
							pat, _ = c.globalRegexPattern(g)
						}
					}
				}
				ng, err := rx.NumGroups(pat)
				nonNil := hasLit(guards, func(l Lit) bool {
					v := nilCheckedValue(l)
					return v != nil && !l.Pos && P.Desc(v) == bd
				})
				if err == nil && int64(ng) >= k && nonNil {
					return true, fmt.Sprintf("submatch %d of a pattern with %d groups, after the nil check of the match", k, ng)
				}
				return false, fmt.Sprintf("match[%d]: the pattern has %d capture groups / the match is not nil-checked", k, ng)
			}
		}
		if c.lenGuardAbove(guards, base, k) {
			return true, fmt.Sprintf("constant index %d under a guard implying len > %d", k, k)
		}
		// x.List[0] after an index [0] on the same list under the same guards (second access through elem[0])
		return false, fmt.Sprintf("constant index %d without a length guard on %s", k, short(bd))
	}
	id := P.Desc(idx)
	// ---- sort.Search results and its predicate's parameter
	if strings.HasPrefix(id, "call(sort.Search; call(builtin len; "+bd+")") {
		if hasLit(guards, func(l Lit) bool {
			return l.Kind == "lt" && l.Pos && P.Desc(l.X) == id && lenOf(l.Y) != nil && P.Desc(lenOf(l.Y)) == bd
		}) {
			return true, "0 <= sort.Search(len(x), …) and idx < len(x) guard"
		}
		return false, "sort.Search result used as index without `idx < len(x)` guard"
	}
	if strings.HasPrefix(id, "cbparam0(sort.Search; call(builtin len; "+bd+")") {
		return true, "predicate of sort.Search(len(x), …) is called with 0 <= i < len(x) (documented)"
	}
	if strings.HasPrefix(id, "binop(-; call(sort.Search; call(builtin len; "+bd+")") && strings.HasSuffix(id, ", const(1))") {
		sd := strings.TrimSuffix(strings.TrimPrefix(id, "binop(-; "), ", const(1))")
		if hasLit(guards, func(l Lit) bool { return l.Kind == "lt" && l.Pos && P.Desc(l.X) == "const(0)" && P.Desc(l.Y) == sd }) {
			return true, "idx-1 with 0 < idx <= len(x) (sort.Search contract)"
		}
		return false, "idx-1 without `idx > 0` guard"
	}
	// ---- last element: x[len(x)-1] under len(x) > 0
	if id == "binop(-; call(builtin len; "+bd+"), const(1))" {
		if c.lenGuardAbove(guards, base, 0) {
			return true, "last element under len(x) > 0"
		}
		return false, "x[len(x)-1] without a non-empty guard"
	}
	// ---- counting loop over a slice made with the loop bound as length
	if phi := inductionPhi(idx); phi != nil {
		for _, l := range guards {
			if l.Kind == "lt" && l.Pos && l.X == idx {
				for _, r := range P.Resolve(base) {
					if mk, ok := r.(*ssa.MakeSlice); ok && P.Desc(mk.Len) == P.Desc(l.Y) {
						return true, "i < n in a counting loop from 0 over make([]T, n)"
					}
				}
			}
			// i <= E with E clamped below len(x), i starting at a clamped non-negative value
			if l.Kind == "lt" && !l.Pos && l.Y == idx {
				if c.clampedBelowLen(l.X, base) && c.nonNegativeStart(phi) {
					return true, "start <= i <= end with start clamped to >= 0 and end clamped to <= len(x)-1"
				}
				return false, "loop `i <= end` where end is not clamped to len(x)-1 (or the start may be negative)"
			}
		}
	}
	// ---- explicit upper guard on this very index expression (lower bound: counting up from a constant)
	if hasLit(guards, func(l Lit) bool {
		return l.Kind == "lt" && l.Pos && P.Desc(l.X) == id && lenOf(l.Y) != nil && P.Desc(lenOf(l.Y)) == bd
	}) {
		if bo, ok := idx.(*ssa.BinOp); ok && bo.Op == token.SUB {
			if phi := inductionPhi(bo.X); phi != nil {
				if off, ok := constInt(bo.Y); ok && c.startAtLeast(phi, off) {
					return true, "explicit `e < len(x)` guard; e = i - c with i counting up from >= c"
				}
			}
		}
		if phi := inductionPhi(idx); phi != nil && c.startAtLeast(phi, 0) {
			return true, "explicit `i < len(x)` guard in a loop counting up from >= 0"
		}
	}
	// ---- reviewed data-structure invariant
	if fname == "(*util.IgnoreSet).Contains$2" || strings.HasPrefix(fname, "(*util.IgnoreSet).") {
		if strings.Contains(bd, "util.IgnoreSet.Markers)") && strings.Contains(id, "util.IgnoreSet.CodeIndex)") {
			return true, "reviewed invariant: every index stored in CodeIndex is len(Markers) at the moment its marker is appended and Markers only grows (IGNORESET/INDEXED)"
		}
	}
	if fname == "util.matchesPathComponentWithSlash" {
		return c.pathComponentReviewed(guards, id)
	}
	return false, "no discharge pattern matches index " + short(id) + " of " + short(bd)
}

func inductionPhi(v ssa.Value) *ssa.Phi {
	phi, ok := v.(*ssa.Phi)
	if !ok {
		return nil
	}
	for _, e := range phi.Edges {
		if bo, ok := e.(*ssa.BinOp); ok && bo.Op == token.ADD && bo.X == phi {
			if k, ok := constInt(bo.Y); ok && k > 0 {
				return phi
			}
		}
	}
	return nil
}

// startAtLeast: every non-increment edge of the induction phi is a constant >= k.
func (c *Ctx) startAtLeast(phi *ssa.Phi, k int64) bool {
	for _, e := range phi.Edges {
		if bo, ok := e.(*ssa.BinOp); ok && bo.Op == token.ADD && bo.X == phi {
			continue
		}
		n, ok := constInt(e)
		if !ok || n < k {
			return false
		}
	}
	return true
}

// nonNegativeStart: the start value of the induction variable is a constant >= 0 or clamped: every leaf is
// the constant 0 or selected under !(leaf < 0).
func (c *Ctx) nonNegativeStart(phi *ssa.Phi) bool {
	P := c.P
	for _, e := range phi.Edges {
		if bo, ok := e.(*ssa.BinOp); ok && bo.Op == token.ADD && bo.X == phi {
			continue
		}
		for _, lf := range c.phiLeaves(e, nil, 0) {
			if n, ok := constInt(lf.Val); ok {
				if n < 0 {
					return false
				}
				continue
			}
			ld := P.Desc(lf.Val)
			if !hasLit(lf.Guards, func(l Lit) bool { return l.Kind == "lt" && !l.Pos && P.Desc(l.X) == ld && P.Desc(l.Y) == "const(0)" }) {
				return false
			}
		}
	}
	return true
}

// clampedBelowLen: every leaf of e is len(x)-1 or is selected under leaf < len(x)  (i.e. !(leaf >= len(x))).
func (c *Ctx) clampedBelowLen(e ssa.Value, base ssa.Value) bool {
	P := c.P
	bd := P.Desc(base)
	for _, lf := range c.phiLeaves(e, nil, 0) {
		ld := P.Desc(lf.Val)
		if ld == "binop(-; call(builtin len; "+bd+"), const(1))" {
			continue
		}
		if !hasLit(lf.Guards, func(l Lit) bool {
			return l.Kind == "lt" && l.Pos && P.Desc(l.X) == ld && lenOf(l.Y) != nil && P.Desc(lenOf(l.Y)) == bd
		}) {
			return false
		}
	}
	return true
}

// sliceReviewed: the slice expressions of truncateString / matchesPathComponentWithSlash need linear arithmetic;
// the guards the argument rests on are checked to be present.
func (c *Ctx) sliceReviewed(fn *ssa.Function, sl *ssa.Slice, guards []Lit) (bool, string) {
	P := c.P
	fname := FuncName(fn)
	bd := P.Desc(sl.X)
	has := func(pred func(Lit) bool) bool { return hasLit(guards, pred) }
	lenX := "call(builtin len; " + bd + ")"
	switch fname {
	case "reporting.truncateString":
		maxLen := P.Desc(fn.Params[1])
		// all slices happen only when len(s) > maxLen
		longer := has(func(l Lit) bool { return l.Kind == "lt" && l.Pos && P.Desc(l.X) == maxLen && P.Desc(l.Y) == lenX }) ||
			has(func(l Lit) bool {
				return l.Kind == "lt" && !l.Pos && P.Desc(l.X) == maxLen && P.Desc(l.Y) == lenX && false
			})
		if !longer {
			// `if len(s) <= maxLen { return s }`  ==  !(maxLen < len(s)) on the return; site has +lt(maxLen, len(s))
			return false, "slice of the line without the `len(s) > maxLen` guard"
		}
		hi, lo := "", ""
		if sl.High != nil {
			hi = P.Desc(sl.High)
		}
		if sl.Low != nil {
			lo = P.Desc(sl.Low)
		}
		switch {
		case lo == "" && hi == maxLen:
			return true, "reviewed: s[:maxLen] under len(s) > maxLen"
		case lo == "" && hi == "binop(-; "+maxLen+", const(3))":
			if has(func(l Lit) bool {
				return l.Kind == "lt" && !l.Pos && strings.HasPrefix(P.Desc(l.X), maxLen) == false && P.Desc(l.Y) == "const(3)" || l.Kind == "lt" && l.Pos && P.Desc(l.X) == "const(3)" && P.Desc(l.Y) == maxLen
			}) {
				return true, "reviewed: s[:maxLen-3] under 3 < maxLen < len(s)"
			}
			return false, "s[:maxLen-3] without the maxLen > 3 guard"
		case hi == "" && lo == "binop(+; binop(-; "+lenX+", "+maxLen+"), const(3))":
			return true, "reviewed: s[len(s)-maxLen+3:] under len(s) > maxLen (0 < low <= len(s) for maxLen > 3)"
		case lo != "" && hi != "":
			// s[start:end] with start clamped >= 0 and end clamped <= len(s), start <= end since before+after >= 0
			okLo := true
			for _, lf := range c.phiLeaves(sl.Low, nil, 0) {
				if n, ok := constInt(lf.Val); ok && n >= 0 {
					continue
				}
				ld := P.Desc(lf.Val)
				if !hasLit(lf.Guards, func(l Lit) bool { return l.Kind == "lt" && !l.Pos && P.Desc(l.X) == ld && P.Desc(l.Y) == "const(0)" }) {
					okLo = false
				}
			}
			okHi := true
			for _, lf := range c.phiLeaves(sl.High, nil, 0) {
				ld := P.Desc(lf.Val)
				if ld == lenX {
					continue
				}
				if !hasLit(lf.Guards, func(l Lit) bool { return l.Kind == "lt" && !l.Pos && P.Desc(l.X) == lenX && P.Desc(l.Y) == ld }) {
					okHi = false
				}
			}
			if okLo && okHi {
				return true, "reviewed: s[start:end] with start clamped to >= 0 and end clamped to <= len(s) (start <= pos0 <= end)"
			}
			return false, "s[start:end] whose bounds are not clamped to [0, len(s)]"
		}
	case "util.matchesPathComponentWithSlash":
		return c.pathComponentReviewed(guards, "slice")
	}
	return false, "slice expression outside the reviewed functions: " + short(bd)
}

// pathComponentReviewed: fullPath[start:], fullPath[start-1] with start = len(fullPath)-len(shortName) need
// len(fullPath) >= len(shortName)+1, which the function checks first.
func (c *Ctx) pathComponentReviewed(guards []Lit, what string) (bool, string) {
	P := c.P
	ok := hasLit(guards, func(l Lit) bool {
		if l.Kind != "lt" || l.Pos {
			return false
		}
		// !(len(fullPath) < len(shortName)+1)
		return strings.HasPrefix(P.Desc(l.X), "call(builtin len; ") && strings.HasPrefix(P.Desc(l.Y), "binop(+; call(builtin len; ") && strings.HasSuffix(P.Desc(l.Y), ", const(1))")
	})
	if ok {
		return true, "reviewed: under len(fullPath) >= len(shortName)+1, start = len(fullPath)-len(shortName) >= 1 (" + what + ")"
	}
	return false, "suffix comparison without the `len(fullPath) >= len(shortName)+1` guard"
}
