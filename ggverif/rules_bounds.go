package main

// C10 BOUNDS: every index / slice expression of product code that is not the element access of a range loop
// is discharged by one of a few patterns (or a reviewed entry with a checked precondition); anything else fails.

import (
	"fmt"
	"go/constant"
	"go/types"
	"strings"

	"ggverif/rx"

	"golang.org/x/tools/go/ssa"
)

func constInt(v ssa.Value) (int64, bool) {
	c, ok := v.(*ssa.Const)
	if !ok || c.Value == nil || c.Value.Kind() != constant.Int {
		return 0, false
	}
	n, ok := constant.Int64Val(c.Value)
	return n, ok
}

// reviewedBounds: arithmetic bounds that need linear reasoning. Each entry names the guard that must still be
// present at the site (checked) and the reason.
type boundsReview struct {
	need   []string // substrings that must occur among the guard keys of the site
	reason string
}

func (c *Ctx) ruleBounds() {
	P := c.P
	n := 0
	for _, fn := range P.ModFuncs {
		idxN := map[string]int{}
		allInstrs(fn, func(b *ssa.BasicBlock, ins ssa.Instruction) {
			var base, idx ssa.Value
			kind := ""
			switch x := ins.(type) {
			case *ssa.IndexAddr:
				if over := rangeIndexOver(x.Index); over != nil && sameSliceValue(over, x.X) {
					return // the element access of `for i := range x`
				}
				if isFullIndexLoopOver(x.Index, x.X) {
					return
				}
				if _, isArr := deref(x.X.Type()).Underlying().(*types.Array); isArr {
					return // arrays: constant indices are checked by the compiler; varargs arrays
				}
				base, idx, kind = x.X, x.Index, "index"
			case *ssa.Index:
				base, idx, kind = x.X, x.Index, "index"
			case *ssa.Slice:
				if _, isArr := deref(x.X.Type()).Underlying().(*types.Array); isArr {
					return
				}
				if x.Low == nil && x.High == nil {
					return
				}
				base, kind = x.X, "slice"
			default:
				return
			}
			n++
			idxN[kind]++
			cons := fmt.Sprintf("%s#%s%d", FuncName(fn), kind, idxN[kind])
			where := P.Pos(ins.Pos())
			guards := P.Expand(P.BlockGuards(b))
			ok, why := c.boundsDischarged(fn, b, ins, kind, base, idx, guards)
			c.check(ok, "BOUNDS", cons, where, why, "index/slice expression is not provably in range: "+why)
		})
	}
	c.count("index/slice expressions outside range loops", n)
	c.floor("index/slice expressions outside range loops", n, 25)
}

func (c *Ctx) boundsDischarged(fn *ssa.Function, b *ssa.BasicBlock, ins ssa.Instruction, kind string, base, idx ssa.Value, guards []Lit) (bool, string) {
	P := c.P
	bd := P.Desc(base)
	fname := FuncName(fn)
	// ---- linear arithmetic over the computation of the operands and the guards of the access
	if kind == "slice" {
		sl := ins.(*ssa.Slice)
		if sl.Max == nil && c.linInRange(ins, base, sl.Low, sl.High, false) {
			return true, "0 <= low <= high <= len(x) follows from the operands' computation and the guards (linear arithmetic)"
		}
		return false, "slice bounds are not implied by the operands' computation and the guards: " + short(bd)
	}
	if c.linInRange(ins, base, idx, nil, true) {
		return true, "0 <= i < len(x) follows from the index computation and the guards (linear arithmetic)"
	}
	// ---- constant index
	if k, ok := constInt(idx); ok {
		// regexp submatch
		for _, r := range P.Resolve(base) {
			if call := P.CallTo(r, "(*regexp.Regexp).FindStringSubmatch"); call != nil {
				pat := ""
				for _, q := range P.Resolve(call.Call.Args[0]) {
					if u, ok := q.(*ssa.UnOp); ok {
						if g, ok := u.X.(*ssa.Global); ok {
							pat, _ = c.globalRegexPattern(g)
						}
					}
				}
				ng, err := rx.NumGroups(pat)
				nonNil := hasLit(guards, func(l Lit) bool {
					v := nilCheckedValue(l)
					return v != nil && !l.Pos && P.Desc(v) == bd
				})
				if err == nil && int64(ng) >= k && nonNil {
					return true, fmt.Sprintf("submatch %d of a pattern with %d groups, after the nil check of the match", k, ng)
				}
				return false, fmt.Sprintf("match[%d]: the pattern has %d capture groups / the match is not nil-checked", k, ng)
			}
		}
		// x.List[0] after an index [0] on the same list under the same guards (second access through elem[0])
		return false, fmt.Sprintf("constant index %d without a length guard on %s", k, short(bd))
	}
	id := P.Desc(idx)
	// ---- reviewed data-structure invariant
	if fname == "(*util.IgnoreSet).Contains$2" || strings.HasPrefix(fname, "(*util.IgnoreSet).") {
		if strings.Contains(bd, "util.IgnoreSet.Markers)") && strings.Contains(id, "util.IgnoreSet.CodeIndex)") {
			return true, "reviewed invariant: every index stored in CodeIndex is len(Markers) at the moment its marker is appended and Markers only grows (IGNORESET/INDEXED)"
		}
	}
	return false, "0 <= i < len(x) is not implied by the index computation and the guards: index " + short(id) + " of " + short(bd)
}
