package main

// C19, the caret after truncation: truncateString keeps the reported character (EXCERPT/VISIBLE) and
// calculateDisplayColumn names the column that character has in the kept text (EXCERPT/CARET-COLUMN).
// Both are proved with the linear prover from the branch conditions of the two functions, for every pair of
// returns that can be taken together, with the parameters identified as the formatter's call sites identify them.

import (
	"fmt"
	"go/token"
	"go/types"
	"strings"

	"golang.org/x/tools/go/ssa"
)

// keptPart describes a result of truncateString: <prefix> + s[lo:hi] + <suffix>.
type keptPart struct {
	prefix []ssa.Value // the parts before the piece of s
	lo, hi ssa.Value   // nil: 0 resp. len(s)
	whole  bool        // s itself
}

func concatParts(v ssa.Value, out *[]ssa.Value) {
	if b, ok := v.(*ssa.BinOp); ok && b.Op == token.ADD {
		if bt, isB := b.Type().Underlying().(*types.Basic); isB && bt.Info()&types.IsString != 0 {
			concatParts(b.X, out)
			concatParts(b.Y, out)
			return
		}
	}
	*out = append(*out, v)
}

func keptOf(res ssa.Value, s *ssa.Parameter) (keptPart, bool) {
	var parts []ssa.Value
	concatParts(res, &parts)
	var k keptPart
	found := false
	for _, p := range parts {
		if p == s {
			if found {
				return k, false
			}
			found, k.whole = true, true
			continue
		}
		if sl, ok := p.(*ssa.Slice); ok && sl.X == s && sl.Max == nil {
			if found {
				return k, false
			}
			found, k.lo, k.hi = true, sl.Low, sl.High
			continue
		}
		if _, isC := p.(*ssa.Const); !isC {
			return k, false
		}
		if !found {
			k.prefix = append(k.prefix, p)
		}
	}
	return k, found
}

func (c *Ctx) ruleCaretColumn(trunc, disp *ssa.Call) {
	P := c.P
	tf, df := trunc.Call.StaticCallee(), disp.Call.StaticCallee()
	if tf == nil || df == nil || len(tf.Params) != len(trunc.Call.Args) || len(df.Params) != len(disp.Call.Args) {
		c.fail("EXCERPT/VISIBLE", "reporting.truncateString", P.Pos(trunc.Pos()), "call of truncateString / calculateDisplayColumn not resolved")
		return
	}
	// the parameters, as the formatter's calls identify them: the line (a string), the column and the limit
	var tS, dS, tCol, dCol, tLim, dLim *ssa.Parameter
	for i, a := range trunc.Call.Args {
		for j, b := range disp.Call.Args {
			if P.Desc(a) != P.Desc(b) {
				continue
			}
			switch {
			case !isIntType(a.Type()):
				tS, dS = tf.Params[i], df.Params[j]
			case hasSuffix(P.Desc(a), "go/token.Position.Column)"):
				tCol, dCol = tf.Params[i], df.Params[j]
			default:
				tLim, dLim = tf.Params[i], df.Params[j]
			}
		}
	}
	if tS == nil || tCol == nil || tLim == nil {
		c.fail("EXCERPT/VISIBLE", FuncName(tf), P.Pos(trunc.Pos()), "the two calls do not share a line, a column and a limit argument (see EXCERPT/CARET-ARGS)")
		return
	}
	var limitArg ssa.Value
	for i, p := range tf.Params {
		if p == tLim {
			limitArg = trunc.Call.Args[i]
		}
	}
	// one context per question: parameters of both functions stand for the same line, column and limit
	mk := func(blocks ...*ssa.BasicBlock) (*linCtx, linExpr, linExpr) {
		lc := &linCtx{c: c, P: P, vars: map[ssa.Value]linExpr{}, ids: map[ssa.Value]string{}, trust: false}
		col := linVar("column")
		lc.vars[tCol], lc.vars[dCol] = col, col
		lim := linVar("limit")
		if k, ok := constInt(limitArg); ok {
			lim = linConst(k)
		}
		lc.vars[tLim], lc.vars[dLim] = lim, lim
		lc.ids[tS], lc.ids[dS] = "line", "line"
		ls := lc.lenVar(tS)
		// the reported column is a column of this line: 1 <= column <= len(line)
		lc.facts = append(lc.facts, geq(col, linConst(1)), geq(ls, col))
		for _, b := range blocks {
			lc.blockFacts(b)
		}
		return lc, col, ls
	}
	type ret struct {
		r *ssa.Return
		k keptPart
		n int
	}
	var trets []ret
	n := 0
	allInstrs(tf, func(b *ssa.BasicBlock, ins ssa.Instruction) {
		r, ok := ins.(*ssa.Return)
		if !ok || len(r.Results) != 1 {
			return
		}
		n++
		cons := fmt.Sprintf("%s#return%d", FuncName(tf), n)
		where := P.Pos(r.Pos())
		lc, col, ls := mk(b)
		if lc.prove(linConst(-1)) {
			c.ok("EXCERPT/VISIBLE", cons, where, "not taken for the formatter's limit and a column of the line")
			return
		}
		k, ok := keptOf(r.Results[0], tS)
		if !ok {
			c.fail("EXCERPT/VISIBLE", cons, where, "the result is not <markers> + one piece of the line + <markers>: "+short(P.Desc(r.Results[0])))
			return
		}
		trets = append(trets, ret{r, k, n})
		lo, hi := linConst(0), ls
		if k.lo != nil {
			lo = lc.of(k.lo)
		}
		if k.hi != nil {
			hi = lc.of(k.hi)
		}
		idx := col.add(linConst(1), -1) // 0-based index of the reported character
		okV := lc.prove(geq(idx, lo)) && lc.prove(geq(hi.add(linConst(1), -1), idx))
		c.check(okV, "EXCERPT/VISIBLE", cons, where, "the kept piece line[lo:hi] contains the reported character: lo <= column-1 < hi follows from the conditions of this return",
			"the reported character can be cut away: lo <= column-1 < hi is not implied for the piece of the line kept at this return ("+short(P.Desc(r.Results[0]))+"); the caret then stands under an ellipsis marker")
	})
	c.floor("returns of truncateString that show a piece of the line", len(trets), 3)
	// the caret: for every return of calculateDisplayColumn and every return of truncateString that can be taken
	// for the same (line, column, limit), the result is the 1-based column of the character in the shown text
	m, pairs := 0, 0
	allInstrs(df, func(b *ssa.BasicBlock, ins ssa.Instruction) {
		r, ok := ins.(*ssa.Return)
		if !ok || len(r.Results) != 1 {
			return
		}
		m++
		for _, t := range trets {
			cons := fmt.Sprintf("%s#return%d x %s#return%d", FuncName(df), m, FuncName(tf), t.n)
			where := P.Pos(r.Pos())
			lc, col, _ := mk(t.r.Block(), b)
			if lc.prove(linConst(-1)) {
				continue // never together
			}
			pairs++
			want := col // prefix + (column-1 - lo) + 1
			for _, p := range t.k.prefix {
				want = want.add(lc.lenVar(p), 1)
			}
			if t.k.lo != nil {
				want = want.add(lc.of(t.k.lo), -1)
			}
			got := lc.of(r.Results[0])
			okC := lc.prove(geq(got, want)) && lc.prove(geq(want, got))
			// BOUNDED-BY-TEXT (found as D39): whatever the column is - a //line directive can name any - the caret
			// does not stand further right than one past the shown text: the caret line, one padding per step, is
			// as long as the number a comment names otherwise
			{
				lf := &linCtx{c: c, P: P, vars: map[ssa.Value]linExpr{}, ids: map[ssa.Value]string{}, trust: false}
				colF := linVar("column")
				lf.vars[tCol], lf.vars[dCol] = colF, colF
				limF := linVar("limit")
				if k, ok := constInt(limitArg); ok {
					limF = linConst(k)
				}
				lf.vars[tLim], lf.vars[dLim] = limF, limF
				lf.ids[tS], lf.ids[dS] = "line", "line"
				lsF := lf.lenVar(tS)
				lf.blockFacts(t.r.Block())
				lf.blockFacts(b)
				if !lf.prove(linConst(-1)) {
					shown := linConst(0)
					for _, p := range t.k.prefix {
						shown = shown.add(lf.lenVar(p), 1)
					}
					lo, hi := linConst(0), lsF
					if t.k.lo != nil {
						lo = lf.of(t.k.lo)
					}
					if t.k.hi != nil {
						hi = lf.of(t.k.hi)
					}
					shown = shown.add(hi, 1).add(lo, -1) // (markers behind the piece only make the text longer)
					gotF := lf.of(r.Results[0])
					okB := lf.prove(geq(shown.add(linConst(1), 1), gotF))
					c.check(okB, "EXCERPT/CARET-PAD/BOUNDED-BY-TEXT", cons, where, "for any column the display column is at most one past the shown text",
						fmt.Sprintf("for a column beyond the line (a //line directive can name any) the display column returned here is not bounded by the shown text (%s): the caret line gets as many paddings as the directive says", short(P.Desc(t.r.Results[0]))))
				}
			}
			c.check(okC, "EXCERPT/CARET-COLUMN", cons, where, "the display column is len(markers before) + column - lo: the column the reported character has in the shown text",
				fmt.Sprintf("when the line is shown as %s, the caret column returned here is not the column of the reported character in that text (len(markers before) + column - lo)", short(P.Desc(t.r.Results[0]))))
		}
	})
	c.floor("feasible (display column, shown text) pairs", pairs, 3)
}

func hasSuffix(s, suf string) bool { return len(s) >= len(suf) && s[len(s)-len(suf):] == suf }

// ---- the caret line itself: prefix, padding, caret

// writeArg: ins writes text to a strings.Builder / bytes.Buffer: the value written (for fmt.Fprintf the call
// itself, see textWidth) and the builder.
func (c *Ctx) writeArg(ins ssa.Instruction) (ssa.Value, ssa.Value, bool) {
	call, ok := ins.(*ssa.Call)
	if !ok || call.Call.IsInvoke() {
		return nil, nil, false
	}
	switch c.P.calleeName(call.Common()) {
	case "(*strings.Builder).WriteString", "(*strings.Builder).WriteByte", "(*strings.Builder).WriteRune",
		"(*bytes.Buffer).WriteString", "(*bytes.Buffer).WriteByte", "(*bytes.Buffer).WriteRune":
		if len(call.Call.Args) == 2 {
			return call.Call.Args[1], call.Call.Args[0], true
		}
	case "fmt.Fprintf":
		if len(call.Call.Args) >= 2 {
			w := call.Call.Args[0]
			if mi, ok := w.(*ssa.MakeInterface); ok {
				w = mi.X
			}
			return call, w, true
		}
	case "io.WriteString":
		if len(call.Call.Args) == 2 {
			w := call.Call.Args[0]
			if mi, ok := w.(*ssa.MakeInterface); ok {
				w = mi.X
			}
			return call.Call.Args[1], w, true
		}
	}
	return nil, nil, false
}

// oneByteConst: v is a constant text of exactly one byte; its value.
func oneByteConst(v ssa.Value) (byte, bool) {
	if s := constString(v); len(s) == 1 {
		return s[0], true
	}
	if cs, ok := v.(*ssa.Const); ok && cs.Value != nil && !isStringType(cs.Type()) {
		if n, ok := constInt(cs); ok && n > 0 && n < 128 {
			return byte(n), true
		}
	}
	return 0, false
}

func isStringType(t types.Type) bool {
	b, ok := t.Underlying().(*types.Basic)
	return ok && b.Info()&types.IsString != 0
}

// variadicValues: the values boxed into the ...any argument of call.
func variadicValues(call *ssa.Call) []ssa.Value {
	if len(call.Call.Args) == 0 {
		return nil
	}
	sl, ok := call.Call.Args[len(call.Call.Args)-1].(*ssa.Slice)
	if !ok {
		return nil
	}
	arr, ok := sl.X.(*ssa.Alloc)
	if !ok || arr.Referrers() == nil {
		return nil
	}
	vals := map[int64]ssa.Value{}
	for _, r := range *arr.Referrers() {
		ia, ok := r.(*ssa.IndexAddr)
		if !ok || ia.Referrers() == nil {
			continue
		}
		k, isC := constInt(ia.Index)
		if !isC {
			return nil
		}
		for _, r2 := range *ia.Referrers() {
			if st, ok := r2.(*ssa.Store); ok && st.Addr == ia {
				v := st.Val
				if mi, ok := v.(*ssa.MakeInterface); ok {
					v = mi.X
				}
				vals[k] = v
			}
		}
	}
	var out []ssa.Value
	for i := int64(0); i < int64(len(vals)); i++ {
		if vals[i] == nil {
			return nil
		}
		out = append(out, vals[i])
	}
	return out
}

// textWidth: the number of bytes a written value has, as a linear expression: a constant, strings.Repeat of a
// one-byte constant, or a Sprintf whose format consists of text and %*d verbs (the number is assumed not to be
// wider than the width it is given: the width is computed from the largest number shown).
func (c *Ctx) textWidth(lc *linCtx, v ssa.Value) (linExpr, bool) {
	P := c.P
	v = lc.strip(v)
	if cs, ok := v.(*ssa.Const); ok && isStringType(cs.Type()) {
		return linConst(int64(len(constString(cs)))), true
	}
	call, ok := v.(*ssa.Call)
	if !ok {
		return linExpr{}, false
	}
	if P.CallTo(call, "strings.Repeat") != nil && len(call.Call.Args) == 2 {
		if _, one := oneByteConst(call.Call.Args[0]); one {
			return lc.of(call.Call.Args[1]), true
		}
		return linExpr{}, false
	}
	if isS, isF := P.CallTo(call, "fmt.Sprintf") != nil, P.CallTo(call, "fmt.Fprintf") != nil; isS || isF {
		format := constString(call.Call.Args[0])
		if isF {
			format = constString(call.Call.Args[1])
		}
		args := variadicValues(call)
		w := linConst(0)
		ai := 0
		for i := 0; i < len(format); i++ {
			if format[i] != '%' {
				w = w.add(linConst(1), 1)
				continue
			}
			if i+1 < len(format) && format[i+1] == '%' {
				w = w.add(linConst(1), 1)
				i++
				continue
			}
			if i+2 < len(format) && format[i+1] == '*' && format[i+2] == 'd' && ai+1 < len(args) && isIntType(args[ai].Type()) && isIntType(args[ai+1].Type()) {
				w = w.add(lc.of(args[ai]), 1)
				c.starFields = append(c.starFields, [2]ssa.Value{args[ai], args[ai+1]})
				ai += 2
				i += 2
				continue
			}
			return linExpr{}, false
		}
		if format == "" || ai != len(args) {
			return linExpr{}, false
		}
		return w, true
	}
	return linExpr{}, false
}

// padSite: where the padding of the caret line is produced: in the formatter itself or in a helper it calls with the
// display column (bind: the helper's parameters -> the formatter's values).
type padSite struct {
	fn   *ssa.Function
	bind map[*ssa.Parameter]ssa.Value
	call *ssa.Call // the formatter's call of the helper; nil: the formatter itself
}

func (c *Ctx) ruleCaretPad(trunc, disp *ssa.Call) {
	P := c.P
	fn := disp.Parent()
	name := FuncName(fn)
	where := P.Pos(disp.Pos())
	if trunc.Parent() != fn {
		c.fail("EXCERPT/CARET-PAD", name, where, "the line and the caret are written by different functions")
		return
	}
	lc := &linCtx{c: c, P: P, vars: map[ssa.Value]linExpr{}, ids: map[ssa.Value]string{}, trust: true} // (unexported helpers: a parameter with one call site is its argument)
	dc := linVar("displayColumn")
	lc.vars[disp] = dc
	sites := []padSite{{fn: fn}}
	allInstrs(fn, func(b *ssa.BasicBlock, ins ssa.Instruction) {
		call, ok := ins.(*ssa.Call)
		if !ok || call == disp || call == trunc {
			return
		}
		callee := call.Call.StaticCallee()
		if callee == nil || !P.IsProductFunc(callee) || len(callee.Blocks) == 0 || len(callee.Params) != len(call.Call.Args) {
			return
		}
		uses := false
		bind := map[*ssa.Parameter]ssa.Value{}
		for i, a := range call.Call.Args {
			bind[callee.Params[i]] = a
			if lc.strip(a) == ssa.Value(disp) {
				uses = true
			}
		}
		if uses {
			sites = append(sites, padSite{callee, bind, call})
		}
	})
	var site *padSite
	resolve := func(v ssa.Value) ssa.Value {
		v = lc.strip(v)
		if p, ok := v.(*ssa.Parameter); ok && site != nil && site.bind != nil {
			if a, ok := site.bind[p]; ok {
				return lc.strip(a)
			}
		}
		return v
	}
	// ---- the padding loop: counts up to the display column
	var loop *natLoop
	var phi *ssa.Phi
	var iters linExpr
	var initV ssa.Value
	for si := range sites {
		st := &sites[si]
		for p, a := range st.bind {
			switch {
			case lc.strip(a) == ssa.Value(disp):
				lc.vars[p] = dc
			case lc.strip(a) == ssa.Value(trunc):
				lc.ids[p] = lc.id(trunc)
			}
		}
		loops := naturalLoops(st.fn)
		for li := range loops {
			lp := &loops[li]
			if st.call == nil && !dominates(disp.Block(), lp.head) {
				continue
			}
			ifi, ok := lastInstr(lp.head).(*ssa.If)
			if !ok || len(lp.head.Succs) != 2 || !lp.body[lp.head.Succs[0]] || lp.body[lp.head.Succs[1]] {
				continue
			}
			// the loop goes on while f >= 0, f = displayColumn - i + k for the counter i
			if bo, isB := ifi.Cond.(*ssa.BinOp); isB && isIntType(bo.X.Type()) {
				lc.of(bo.X) // (what is known about the operands themselves goes to lc)
				lc.of(bo.Y)
			}
			sub := &linCtx{c: c, P: P, vars: lc.vars, ids: lc.ids}
			sub.condFacts(ifi.Cond, true)
			if len(sub.facts) != 1 || len(sub.disj) != 0 || sub.facts[0].t["displayColumn"] != 1 {
				continue
			}
			f := sub.facts[0]
			var ph *ssa.Phi
			for _, ins := range lp.head.Instrs {
				if x, ok := ins.(*ssa.Phi); ok && isIntType(x.Type()) {
					if e := lc.of(x); len(e.t) == 1 && e.c == 0 {
						for k := range e.t {
							if f.t[k] == -1 {
								ph = x
							}
						}
					}
				}
			}
			if ph == nil {
				continue
			}
			var init ssa.Value
			okStep := true
			for i, e := range ph.Edges {
				if lp.body[lp.head.Preds[i]] {
					b2, isB := e.(*ssa.BinOp)
					var k ssa.Value
					if isB && b2.Op == token.ADD && b2.X == ssa.Value(ph) {
						k = b2.Y
					} else if isB && b2.Op == token.ADD && b2.Y == ssa.Value(ph) {
						k = b2.X
					}
					n, isC := int64(0), false
					if k != nil {
						n, isC = constInt(k)
					}
					if !isC || n != 1 {
						okStep = false
					}
				} else {
					if init != nil && init != e {
						okStep = false
					}
					init = e
				}
			}
			if !okStep || init == nil {
				continue
			}
			loop, phi, initV, site = lp, ph, init, st
			// f with the counter at its first value, plus one: the number of values for which f >= 0
			iters = f.add(lc.of(ph), 1).add(lc.of(init), -1).add(linConst(1), 1)
			break
		}
		if loop != nil {
			break
		}
	}
	if loop == nil {
		c.fail("EXCERPT/CARET-PAD", name, where, "no loop that pads the caret line character by character up to the display column: the padding cannot repeat the tabs of the shown text, so the caret is displaced by every tab before the reported column")
		return
	}
	pname := FuncName(site.fn)
	want := dc.add(linConst(1), -1)
	c.check(lc.prove(geq(iters, want)) && lc.prove(geq(want, iters)), "EXCERPT/CARET-PAD/COUNT", pname, P.Pos(phi.Pos()), "the padding loop runs displayColumn-1 times",
		"the padding loop does not run displayColumn-1 times: the caret is not written in the display column")
	// ---- every iteration writes one byte; a tab where the shown text has a tab at that offset
	offset := lc.of(phi).add(lc.of(initV), -1) // 0-based offset of the byte being padded
	entry := loop.head.Succs[0]
	type wr struct {
		ins ssa.Instruction
		b   byte
	}
	var writes []wr
	okShape := true
	why := ""
	var walk func(b *ssa.BasicBlock, n int, seen map[*ssa.BasicBlock]bool)
	walk = func(b *ssa.BasicBlock, n int, seen map[*ssa.BasicBlock]bool) {
		if b == loop.head {
			if n != 1 {
				okShape, why = false, fmt.Sprintf("an iteration can write %d characters", n)
			}
			return
		}
		if !loop.body[b] {
			okShape, why = false, "the padding loop can be left from inside an iteration"
			return
		}
		if seen[b] {
			okShape, why = false, "nested loop inside the padding loop"
			return
		}
		seen[b] = true
		defer delete(seen, b)
		for _, ins := range b.Instrs {
			if a, _, ok := c.writeArg(ins); ok {
				ch, one := oneByteConst(a)
				if !one {
					okShape, why = false, "an iteration writes something other than one constant character: "+short(P.Desc(a))
					return
				}
				n++
				dup := false
				for _, w := range writes {
					if w.ins == ins {
						dup = true
					}
				}
				if !dup {
					writes = append(writes, wr{ins, ch})
				}
			}
		}
		for _, s := range b.Succs {
			walk(s, n, seen)
		}
	}
	walk(entry, 0, map[*ssa.BasicBlock]bool{})
	c.check(okShape, "EXCERPT/CARET-PAD/ONE-PER-STEP", pname, P.Pos(phi.Pos()), "every iteration of the padding loop writes exactly one constant character", "padding loop: "+why)
	nTab := 0
	for _, w := range writes {
		wwhere := P.Pos(w.ins.Pos())
		switch w.b {
		case ' ':
		case '\t':
			nTab++
			// the conditions, inside the loop, under which this write happens
			sawTab := false
			bad := ""
			b := w.ins.Block()
			for d := b.Idom(); d != nil && d != loop.head && loop.body[d]; d = d.Idom() {
				ifi, ok := lastInstr(d).(*ssa.If)
				if !ok || len(d.Succs) != 2 {
					continue
				}
				var val, found bool
				for k, s := range d.Succs {
					if len(s.Preds) == 1 && dominates(s, b) {
						val, found = k == 0, true
					}
				}
				if !found {
					continue
				}
				bo, ok := ifi.Cond.(*ssa.BinOp)
				if !ok {
					bad = "a condition that is not a comparison"
					continue
				}
				// text[offset] == '\t'
				if bo.Op == token.EQL && val {
					for _, pr := range [][2]ssa.Value{{bo.X, bo.Y}, {bo.Y, bo.X}} {
						ch, one := oneByteConst(pr[1])
						var text, index ssa.Value
						switch lk := pr[0].(type) { // text[i] of a string
						case *ssa.Lookup:
							text, index = lk.X, lk.Index
						case *ssa.Index:
							text, index = lk.X, lk.Index
						}
						if !one || ch != '\t' || text == nil || !isStringType(text.Type()) {
							continue
						}
						if resolve(text) != ssa.Value(trunc) {
							bad = "the tab positions are read from " + short(P.Desc(text)) + ", not from the text that is shown (the result of truncateString): once the line is truncated the tabs are elsewhere"
							continue
						}
						ix := lc.of(index)
						if !(lc.prove(geq(ix, offset)) && lc.prove(geq(offset, ix))) {
							bad = "the character tested is not the one at the offset being padded"
							continue
						}
						sawTab = true
					}
					if sawTab {
						continue
					}
				}
				// offset < len(text) / offset >= 0: the index is in range
				if isIntType(bo.X.Type()) {
					sub := &linCtx{c: c, P: P, vars: lc.vars, ids: lc.ids}
					sub.condFacts(bo, val)
					lt := lc.lenVar(trunc)
					// true whenever the offset is inside the shown text: no restriction
					inRange := &linCtx{c: c, P: P, vars: lc.vars, ids: lc.ids, facts: []linExpr{offset, geq(lt.add(linConst(1), -1), offset), lt}}
					allIn := len(sub.facts) > 0 && len(sub.disj) == 0
					for _, f := range sub.facts {
						if !inRange.prove(f) {
							allIn = false
						}
					}
					if allIn {
						continue
					}
				}
				if bad == "" {
					bad = "an additional condition (" + short(P.Desc(ifi.Cond)) + ")"
				}
			}
			c.check(sawTab && bad == "", "EXCERPT/CARET-PAD/TAB", fmt.Sprintf("%s#tab%d", pname, nTab), wwhere, "a tab is written exactly where the shown text has a tab at the padded offset",
				"the tab of the padding is not written exactly when the shown text has a tab at this offset: "+map[bool]string{true: bad, false: "no test <shown text>[offset] == '\\t' governs it"}[bad != ""])
		default:
			c.fail("EXCERPT/CARET-PAD/TAB", fmt.Sprintf("%s#char%q", pname, w.b), wwhere, fmt.Sprintf("the padding contains the character %q", w.b))
		}
	}
	if nTab == 0 {
		c.fail("EXCERPT/CARET-PAD/TAB", pname+"#tab1", P.Pos(phi.Pos()), "the padding never repeats a tab of the shown text: the caret is displaced by every tab before the reported column")
	}
	// ---- the sink: the padding goes where the shown text went; the caret follows the padding
	var shownSink ssa.Value
	var shownWrite ssa.Instruction
	for _, ins := range trunc.Block().Instrs {
		if a, sink, ok := c.writeArg(ins); ok && lc.strip(a) == ssa.Value(trunc) {
			shownSink, shownWrite = sink, ins
		}
	}
	var padSink ssa.Value
	for _, w := range writes {
		_, sink, _ := c.writeArg(w.ins)
		if padSink != nil && padSink != sink {
			padSink = nil
			break
		}
		padSink = sink
	}
	// what is written next, in straight-line code from instruction k of block b on; returned: the function ends first
	var next func(b *ssa.BasicBlock, k int, depth int) (arg, sink ssa.Value, at ssa.Instruction, returned *ssa.Return)
	next = func(b *ssa.BasicBlock, k int, depth int) (ssa.Value, ssa.Value, ssa.Instruction, *ssa.Return) {
		for ; k < len(b.Instrs); k++ {
			switch x := b.Instrs[k].(type) {
			case *ssa.Return:
				return nil, nil, nil, x
			case *ssa.Jump:
				if depth < 4 {
					return next(b.Succs[0], 0, depth+1)
				}
			default:
				if a, sink, ok := c.writeArg(x); ok {
					return a, sink, x, nil
				}
			}
		}
		return nil, nil, nil, nil
	}
	indexOf := func(ins ssa.Instruction) int {
		for k, x := range ins.Block().Instrs {
			if x == ins {
				return k
			}
		}
		return -1
	}
	var exit *ssa.BasicBlock
	if len(loop.exits) == 1 {
		exit = loop.exits[0][1]
	}
	okCaret, okSink := false, false
	sinkWhy := "the padding and the shown text are not written to the same builder"
	var padInstr ssa.Instruction // in the formatter: where the padding happens (first instruction of the loop / the helper call / the write of the helper's result)
	if exit != nil {
		a, sink, _, ret := next(exit, 0, 0)
		isCaret := func(v ssa.Value) bool { s := constString(v); return len(s) > 0 && s[0] == '^' }
		switch {
		case site.call == nil:
			okCaret = a != nil && isCaret(a)
			okSink = padSink != nil && shownSink != nil && lc.strip(padSink) == lc.strip(shownSink)
			padInstr = loop.head.Instrs[0]
		case ret == nil && a != nil:
			// the helper writes the caret itself, to the builder it was given
			okCaret = isCaret(a) && sink == padSink
			okSink = padSink != nil && shownSink != nil && resolve(padSink) == lc.strip(shownSink)
			padInstr = site.call
		case ret != nil && len(ret.Results) == 0:
			// the helper pads the builder it was given; the formatter writes the caret next
			okSink = padSink != nil && shownSink != nil && resolve(padSink) == lc.strip(shownSink)
			a2, sink2, _, _ := next(site.call.Block(), indexOf(site.call)+1, 0)
			okCaret = a2 != nil && isCaret(a2) && shownSink != nil && lc.strip(sink2) == lc.strip(shownSink)
			padInstr = site.call
		case ret != nil && len(ret.Results) == 1:
			// the helper returns the padding: the text of a builder of its own that received nothing else
			sc, isCall := lc.strip(ret.Results[0]).(*ssa.Call)
			own := isCall && (P.CallTo(sc, "(*strings.Builder).String") != nil || P.CallTo(sc, "(*bytes.Buffer).String") != nil) && padSink != nil && lc.strip(sc.Call.Args[0]) == lc.strip(padSink)
			if own {
				allInstrs(site.fn, func(b *ssa.BasicBlock, ins ssa.Instruction) {
					if _, sink, ok := c.writeArg(ins); ok && lc.strip(sink) == lc.strip(padSink) && !loop.body[b] {
						own = false
						sinkWhy = "the helper's builder receives more than the padding"
					}
				})
			} else {
				sinkWhy = "the helper does not return the text of the builder the padding was written to"
			}
			// in the formatter: the result is written to the builder of the shown text, the caret right after it
			var resWrite ssa.Instruction
			for _, ins := range site.call.Block().Instrs {
				if a3, sink3, ok := c.writeArg(ins); ok && lc.strip(a3) == ssa.Value(site.call) && shownSink != nil && lc.strip(sink3) == lc.strip(shownSink) {
					resWrite = ins
				}
			}
			okSink = own && resWrite != nil
			if resWrite != nil {
				a2, sink2, _, _ := next(resWrite.Block(), indexOf(resWrite)+1, 0)
				okCaret = a2 != nil && isCaret(a2) && lc.strip(sink2) == lc.strip(shownSink)
				padInstr = resWrite
			}
		}
	}
	c.check(okSink, "EXCERPT/CARET-PAD/SINK", pname, P.Pos(phi.Pos()), "the padding is written to the builder that received the shown text", sinkWhy)
	c.check(okCaret, "EXCERPT/CARET-PAD/CARET", pname, P.Pos(phi.Pos()), "the caret is the first thing written after the padding", "the first thing written after the padding is not the caret")
	// ---- the same margin before the shown text and before the caret padding
	if padInstr == nil || shownWrite == nil {
		c.fail("EXCERPT/CARET-PAD/MARGIN", name, where, "the place of the padding in the formatter was not identified")
		return
	}
	var linePrefix, caretPrefix []ssa.Value
	for _, ins := range trunc.Block().Instrs {
		if ins == shownWrite {
			break
		}
		if a, _, ok := c.writeArg(ins); ok {
			linePrefix = append(linePrefix, a)
		}
	}
	var chain []*ssa.BasicBlock
	for b := padInstr.Block(); b != nil && b != trunc.Block(); b = b.Idom() {
		if site.call == nil && b == padInstr.Block() {
			continue // the loop head itself
		}
		chain = append([]*ssa.BasicBlock{b}, chain...)
	}
	for _, b := range chain {
		for _, ins := range b.Instrs {
			if ins == padInstr {
				break
			}
			if a, _, ok := c.writeArg(ins); ok {
				caretPrefix = append(caretPrefix, a)
			}
		}
	}
	if padInstr.Block() == trunc.Block() {
		// `if number != line { continue }` keeps everything in one block only without a branch: not the case here
		caretPrefix = nil
	}
	okSeq := true
	sum := func(vs []ssa.Value) linExpr {
		w := linConst(0)
		for _, v := range vs {
			e, ok := c.textWidth(lc, v)
			if !ok {
				okSeq = false
				why = short(P.Desc(v))
			}
			w = w.add(e, 1)
		}
		return w
	}
	c.starFields = nil
	lw := sum(linePrefix)
	fields := c.starFields
	cw := sum(caretPrefix)
	if !okSeq || len(linePrefix) == 0 || len(caretPrefix) == 0 {
		c.fail("EXCERPT/CARET-PAD/MARGIN", name, where, "the width of the margin before the shown text / before the caret padding is not a sum of constants, strings.Repeat and %*d fields: "+why)
		return
	}
	// a %*d field is as wide as its width argument only if the number has no more digits: the width is the number of
	// digits of a number that is not smaller
	for i, f := range fields {
		cons := fmt.Sprintf("%s#field%d", name, i+1)
		okW, whyW := false, "the width is not the length of the decimal text of a number (len(fmt.Sprintf(\"%d\", n)), len(strconv.Itoa(n)))"
		// (the width may be handed to a helper: a parameter with one call site stands for its argument)
		through := func(v ssa.Value) ssa.Value {
			for i := 0; i < 4; i++ {
				v = lc.strip(v)
				prm, isP := v.(*ssa.Parameter)
				if !isP {
					break
				}
				args := P.paramArgs(prm)
				if len(args) != 1 {
					break
				}
				v = args[0]
			}
			return v
		}
		if wl, isCall := through(f[0]).(*ssa.Call); isCall {
			if bi, isB := wl.Call.Value.(*ssa.Builtin); isB && bi.Name() == "len" {
				var vs []ssa.Value // the number whose decimal text is measured
				if sp, isSp := through(wl.Call.Args[0]).(*ssa.Call); isSp {
					switch {
					case P.CallTo(sp, "fmt.Sprintf") != nil && constString(sp.Call.Args[0]) == "%d":
						vs = variadicValues(sp)
					case P.CallTo(sp, "fmt.Sprint") != nil:
						vs = variadicValues(sp)
					case P.CallTo(sp, "strconv.Itoa") != nil:
						vs = []ssa.Value{sp.Call.Args[0]}
					}
				}
				{
					if len(vs) == 1 && isIntType(vs[0].Type()) {
						whyW = "the number whose digits give the width is not known to be at least the number shown (neither by arithmetic nor as the maximum of the slice the number is taken from)"
						blc := c.newLin(trunc.Block())
						blc.trust = false
						if blc.prove(geq(blc.of(vs[0]), blc.of(f[1]))) {
							okW = true
						} else if sid, isMax := c.maxFoldOver(lc, vs[0]); isMax {
							if ld, isLd := lc.strip(f[1]).(*ssa.UnOp); isLd && ld.Op == token.MUL {
								if ia, isIA := ld.X.(*ssa.IndexAddr); isIA && lc.id(ia.X) == sid {
									okW = true
								}
							}
						}
					}
				}
			}
		}
		c.check(okW, "EXCERPT/CARET-PAD/WIDEST", cons, where, "the width of the number field is the number of digits of a number that is at least the number shown", "the number shown beside a line can be wider than its field: "+whyW+"; the text of that line starts further right than the caret line assumes")
	}
	c.check(lc.prove(geq(lw, cw)) && lc.prove(geq(cw, lw)), "EXCERPT/CARET-PAD/MARGIN", name, where, "the margin before the caret padding is as wide as the margin before the shown text",
		"the margin written before the caret padding is not as wide as the one before the shown text: the caret is displaced")
}

// maxFoldOver: v is the result of folding a whole slice with "keep the larger one" (a range loop that is left only
// at its head; the accumulator becomes an element only where that element is larger): the id of the slice.
// The fold may live in a product helper with a single return, called with the slice.
func (c *Ctx) maxFoldOver(lc *linCtx, v ssa.Value) (string, bool) {
	P := c.P
	v = lc.strip(v)
	if call, ok := v.(*ssa.Call); ok {
		if bi, isB := call.Call.Value.(*ssa.Builtin); isB && bi.Name() == "max" {
			return "", false
		}
		if P.CallTo(call, "slices.Max") != nil && len(call.Call.Args) == 1 {
			return lc.id(call.Call.Args[0]), true
		}
		callee := call.Call.StaticCallee()
		if callee == nil || !P.IsProductFunc(callee) || len(callee.Blocks) == 0 || len(callee.Params) != len(call.Call.Args) {
			return "", false
		}
		var ret *ssa.Return
		n := 0
		allInstrs(callee, func(_ *ssa.BasicBlock, ins ssa.Instruction) {
			if r, ok := ins.(*ssa.Return); ok {
				ret, n = r, n+1
			}
		})
		if n != 1 || len(ret.Results) != 1 {
			return "", false
		}
		for i, p := range callee.Params {
			lc.ids[p] = lc.id(call.Call.Args[i])
		}
		return c.maxFoldOver(lc, ret.Results[0])
	}
	acc, ok := v.(*ssa.Phi)
	if !ok {
		return "", false
	}
	var loop *natLoop
	loops := naturalLoops(acc.Parent())
	for i := range loops {
		if loops[i].head == acc.Block() {
			loop = &loops[i]
		}
	}
	if loop == nil || len(loop.exits) != 1 || loop.exits[0][0] != loop.head {
		return "", false
	}
	// the head tests k < len(S) for a counter k that starts at -1 / 0 and is incremented once per iteration
	ifi, ok := lastInstr(loop.head).(*ssa.If)
	if !ok {
		return "", false
	}
	cond, ok := ifi.Cond.(*ssa.BinOp)
	if !ok || cond.Op != token.LSS {
		return "", false
	}
	ln, ok := cond.Y.(*ssa.Call)
	if !ok {
		return "", false
	}
	if bi, isB := ln.Call.Value.(*ssa.Builtin); !isB || bi.Name() != "len" {
		return "", false
	}
	slice := ln.Call.Args[0]
	sid := lc.id(slice)
	var idx ssa.Value // the index of the element visited in this iteration
	switch k := cond.X.(type) {
	case *ssa.BinOp: // rangeindex: t37 = t36 + 1; t37 < len
		ph, isPhi := k.X.(*ssa.Phi)
		one, isC := constInt(k.Y)
		if k.Op != token.ADD || !isPhi || !isC || one != 1 || ph.Block() != loop.head {
			return "", false
		}
		for i, e := range ph.Edges {
			if loop.body[loop.head.Preds[i]] {
				if e != ssa.Value(k) {
					return "", false
				}
			} else if n, isC := constInt(e); !isC || n != -1 {
				return "", false
			}
		}
		idx = k
	case *ssa.Phi: // for k := 0; k < len(S); k++
		if k.Block() != loop.head {
			return "", false
		}
		for i, e := range k.Edges {
			if loop.body[loop.head.Preds[i]] {
				b, isB := e.(*ssa.BinOp)
				one, isC := ssa.Value(nil), false
				if isB && b.Op == token.ADD && b.X == ssa.Value(k) {
					one = b.Y
				}
				if one != nil {
					n, c1 := constInt(one)
					isC = c1 && n == 1
				}
				if !isC {
					return "", false
				}
			} else if n, isC := constInt(e); !isC || n != 0 {
				return "", false
			}
		}
		idx = k
	default:
		return "", false
	}
	isElem := func(e ssa.Value) bool {
		ld, ok := e.(*ssa.UnOp)
		if !ok || ld.Op != token.MUL {
			return false
		}
		ia, ok := ld.X.(*ssa.IndexAddr)
		return ok && lc.id(ia.X) == sid && ia.Index == idx
	}
	var okEdge func(e ssa.Value, from *ssa.BasicBlock, depth int) bool
	okEdge = func(e ssa.Value, from *ssa.BasicBlock, depth int) bool {
		if e == ssa.Value(acc) {
			return true
		}
		if isElem(e) {
			// only where the element is larger than (or equal to) the accumulator
			for d := from; d != nil && loop.body[d]; d = d.Idom() {
				for _, p := range d.Preds {
					pi, ok := lastInstr(p).(*ssa.If)
					if !ok || len(d.Preds) != 1 || p.Succs[0] != d {
						continue
					}
					bo, ok := pi.Cond.(*ssa.BinOp)
					if !ok {
						continue
					}
					// (the element may be loaded twice: once to compare, once to keep)
					if (bo.Op == token.GTR || bo.Op == token.GEQ) && isElem(bo.X) && bo.Y == ssa.Value(acc) {
						return true
					}
					if (bo.Op == token.LSS || bo.Op == token.LEQ) && isElem(bo.Y) && bo.X == ssa.Value(acc) {
						return true
					}
				}
			}
			return false
		}
		// acc = max(acc, elem)
		if call, ok := e.(*ssa.Call); ok {
			if bi, isB := call.Call.Value.(*ssa.Builtin); isB && bi.Name() == "max" && len(call.Call.Args) == 2 {
				a0, a1 := call.Call.Args[0], call.Call.Args[1]
				if (a0 == ssa.Value(acc) && isElem(a1)) || (a1 == ssa.Value(acc) && isElem(a0)) {
					return true
				}
			}
			return false
		}
		if ph, ok := e.(*ssa.Phi); ok && depth < 3 && loop.body[ph.Block()] {
			for i, e2 := range ph.Edges {
				if !okEdge(e2, ph.Block().Preds[i], depth+1) {
					return false
				}
			}
			return true
		}
		return false
	}
	sawElem := false
	for i, e := range acc.Edges {
		pred := loop.head.Preds[i]
		if !loop.body[pred] {
			if _, isC := constInt(e); !isC {
				return "", false
			}
			continue
		}
		if !okEdge(e, pred, 0) {
			return "", false
		}
		if e != ssa.Value(acc) {
			sawElem = true
		}
	}
	// the element must also be kept when it is larger: the only way past the comparison's true branch is the update
	// (an accumulator that ignores some larger elements has an edge `acc` from a block behind the true branch)
	for i, e := range acc.Edges {
		pred := loop.head.Preds[i]
		if e != ssa.Value(acc) || !loop.body[pred] {
			continue
		}
		for d := pred; d != nil && loop.body[d] && d != loop.head; d = d.Idom() {
			for _, p := range d.Preds {
				pi, ok := lastInstr(p).(*ssa.If)
				if !ok || len(d.Preds) != 1 || p.Succs[0] != d {
					continue
				}
				if bo, ok := pi.Cond.(*ssa.BinOp); ok && (bo.Op == token.GTR && bo.Y == ssa.Value(acc) || bo.Op == token.LSS && bo.X == ssa.Value(acc)) {
					return "", false
				}
			}
		}
	}
	return sid, sawElem
}

// ruleFileLines (EXCERPT/LINES): what "source line i" is. The lines of a file are the tokens of a bufio.Scanner with
// the default split function (ScanLines: "\n" or "\r\n" ends a line, no phantom line after a final newline) over
// the content pass.ReadFile returned, every token kept (one append per successful Scan, loop left only when Scan
// fails), and the scanner's buffer admits any line of that content (Buffer(_, max) with max >= len(content)+1:
// the default limit of 64 KiB makes Scan stop at a longer line and the rest of the file is lost).
func (c *Ctx) ruleFileLines() {
	P := c.P
	n := 0
	for _, fn := range P.ModFuncs {
		if funcPkgPath(fn) != modulePath+"/src/reporting" {
			continue
		}
		allInstrs(fn, func(b *ssa.BasicBlock, ins ssa.Instruction) {
			sc, ok := ins.(*ssa.Call)
			if !ok || P.CallTo(sc, "bufio.NewScanner") == nil {
				return
			}
			n++
			name := fmt.Sprintf("%s#scanner%d", FuncName(fn), n)
			where := P.Pos(sc.Pos())
			// the content the scanner reads
			var content ssa.Value
			for _, r := range P.Resolve(sc.Call.Args[0]) {
				if rd, isCall := r.(*ssa.Call); isCall && len(rd.Call.Args) == 1 && (P.CallTo(rd, "strings.NewReader") != nil || P.CallTo(rd, "bytes.NewReader") != nil || P.CallTo(rd, "bytes.NewBuffer") != nil || P.CallTo(rd, "bytes.NewBufferString") != nil) {
					content = rd.Call.Args[0]
					if cv, isCv := content.(*ssa.Convert); isCv {
						content = cv.X
					}
				}
			}
			fromRead := content != nil && P.RootsAll(content, func(r ssa.Value) bool {
				ex, ok := r.(*ssa.Extract)
				if !ok || ex.Index != 0 {
					return false
				}
				call, ok := ex.Tuple.(*ssa.Call)
				return ok && strings.HasSuffix(P.Desc(call.Call.Value), "analysis.Pass.ReadFile)")
			})
			c.check(fromRead, "EXCERPT/LINES/CONTENT", name, where, "the scanner reads what pass.ReadFile returned", "the line scanner does not read the bytes pass.ReadFile returned for the file")
			// uses of the scanner
			var scans, texts, buffers, splits, others []*ssa.Call
			if sc.Referrers() != nil {
				for _, r := range *sc.Referrers() {
					call, ok := r.(*ssa.Call)
					if !ok {
						if _, isDbg := r.(*ssa.DebugRef); !isDbg {
							others = append(others, nil)
						}
						continue
					}
					switch P.calleeName(call.Common()) {
					case "(*bufio.Scanner).Scan":
						scans = append(scans, call)
					case "(*bufio.Scanner).Text", "(*bufio.Scanner).Bytes":
						texts = append(texts, call)
					case "(*bufio.Scanner).Buffer":
						buffers = append(buffers, call)
					case "(*bufio.Scanner).Split":
						splits = append(splits, call)
					case "(*bufio.Scanner).Err":
					default:
						others = append(others, call)
					}
				}
			}
			okSplit := true
			for _, sp := range splits {
				if f, isF := sp.Call.Args[1].(*ssa.Function); !isF || FuncName(f) != "bufio.ScanLines" {
					okSplit = false
				}
			}
			c.check(okSplit && len(others) == 0, "EXCERPT/LINES/SPLIT", name, where, "lines are split by bufio.ScanLines", "the scanner does not split the content with bufio.ScanLines (or escapes): a line of the excerpt is not a source line")
			// one Scan, controlling a loop in which the token is appended exactly once; the loop is left only by Scan
			okLoop := false
			why := "the tokens are not collected by `for s.Scan() { lines = append(lines, s.Text()) }`"
			if len(scans) == 1 && len(texts) == 1 && P.CallTo(texts[0], "(*bufio.Scanner).Text") != nil {
				scan, text := scans[0], texts[0]
				if ifi, isIf := lastInstr(scan.Block()).(*ssa.If); isIf && ifi.Cond == ssa.Value(scan) {
					for _, lp := range naturalLoops(fn) {
						if lp.head != scan.Block() || !lp.body[text.Block()] || !lp.body[scan.Block().Succs[0]] || lp.body[scan.Block().Succs[1]] {
							continue
						}
						atHead := true
						for _, ex := range lp.exits {
							if ex[0] != lp.head {
								atHead = false
							}
						}
						// the token is appended, unconditionally, in every iteration
						appended := false
						for blk := range lp.body {
							for _, i2 := range blk.Instrs {
								if ap, isCall := i2.(*ssa.Call); isCall {
									if ev, _, okA := oneElemOfAppend(ap); okA && ev == ssa.Value(text) && ap.Block() == text.Block() {
										appended = true
									}
								}
							}
						}
						uncond := true
						for _, t := range fn.Blocks {
							for _, h := range t.Succs {
								if h == lp.head && lp.body[t] && !dominates(text.Block(), t) {
									uncond = false
								}
							}
						}
						switch {
						case !atHead:
							why = "the scan loop can be left before the last line"
						case !appended:
							why = "the scanned line is not appended to the list as it is"
						case !uncond:
							why = "not every scanned line is kept"
						default:
							okLoop = true
						}
					}
				}
			}
			c.check(okLoop, "EXCERPT/LINES/ALL", name, where, "every line the scanner delivers is kept, in order", why)
			// the buffer admits every line
			okBuf := false
			for _, bf := range buffers {
				if len(scans) == 1 && !dominates(bf.Block(), scans[0].Block()) {
					continue
				}
				lc := c.newLin(bf.Block())
				lc.trust = false
				max := lc.of(bf.Call.Args[2])
				if content != nil && lc.prove(geq(max, lc.lenVar(content).add(linConst(1), 1))) {
					okBuf = true
				}
			}
			c.check(okBuf, "EXCERPT/LINES/ANY-LENGTH", name, where, "the scanner's buffer admits any line of the content (Buffer(_, max), max >= len(content)+1)",
				"the scanner keeps its default token limit (64 KiB): Scan stops at a longer line, the error is dropped and the file is cached as the lines before it - every diagnostic at or after that line loses its excerpt although the file is readable (no Buffer(_, max) with max >= len(content)+1 before the loop)")
		})
	}
	c.floor("line scanners in package reporting", n, 1)
}

func oneElemOfAppend(call *ssa.Call) (ssa.Value, ssa.Value, bool) {
	bi, ok := call.Call.Value.(*ssa.Builtin)
	if !ok || bi.Name() != "append" || len(call.Call.Args) != 2 {
		return nil, nil, false
	}
	sl, ok := call.Call.Args[1].(*ssa.Slice)
	if !ok {
		return nil, nil, false
	}
	arr, ok := sl.X.(*ssa.Alloc)
	if !ok || arr.Referrers() == nil {
		return nil, nil, false
	}
	var elem ssa.Value
	n := 0
	for _, r := range *arr.Referrers() {
		ia, ok := r.(*ssa.IndexAddr)
		if !ok || ia.Referrers() == nil {
			continue
		}
		for _, r2 := range *ia.Referrers() {
			if s2, isSt := r2.(*ssa.Store); isSt && s2.Addr == ia {
				elem = s2.Val
				n++
			}
		}
	}
	if n != 1 {
		return nil, nil, false
	}
	return elem, call.Call.Args[0], true
}

// ruleReporterState (EXCERPT/NO-STATE): a message is a function of the violation (file, line, column) and the file's
// content. The only thing the reporter may remember between two messages is the content of a file, under the name of
// that file: a map update in package reporting stores what was read with pass.ReadFile(<key>). A cache of anything
// rendered (keyed by less than file, line and column) makes the second diagnostic of a line repeat the first one's
// excerpt and caret.
func (c *Ctx) ruleReporterState() {
	P := c.P
	n := 0
	for _, fn := range P.ModFuncs {
		if funcPkgPath(fn) != modulePath+"/src/reporting" {
			continue
		}
		allInstrs(fn, func(b *ssa.BasicBlock, ins ssa.Instruction) {
			mu, ok := ins.(*ssa.MapUpdate)
			if !ok {
				return
			}
			n++
			cons := fmt.Sprintf("%s#map%d", FuncName(fn), n)
			okV, found := false, false
			seen := map[ssa.Value]bool{}
			var walk func(v ssa.Value, d int)
			walk = func(v ssa.Value, d int) {
				if v == nil || seen[v] || d > 40 {
					return
				}
				seen[v] = true
				switch x := v.(type) {
				case *ssa.Extract:
					if call, isCall := x.Tuple.(*ssa.Call); isCall && strings.HasSuffix(P.Desc(call.Call.Value), "analysis.Pass.ReadFile)") && len(call.Call.Args) == 1 {
						found = true
						if P.Desc(call.Call.Args[0]) == P.Desc(mu.Key) {
							okV = true
						}
						return
					}
					walk(x.Tuple, d+1)
				case *ssa.Phi:
					for _, e := range x.Edges {
						walk(e, d+1)
					}
				case *ssa.Call:
					if elem, base, isApp := oneElemOfAppend(x); isApp {
						walk(elem, d+1)
						walk(base, d+1)
						return
					}
					if callee := x.Call.StaticCallee(); callee != nil && P.IsProductFunc(callee) && len(callee.Blocks) > 0 {
						// a product helper (splitLines(text)): what it returns, and what it is given
						allInstrs(callee, func(_ *ssa.BasicBlock, i2 ssa.Instruction) {
							if r, isRet := i2.(*ssa.Return); isRet {
								for _, rv := range r.Results {
									walk(rv, d+1)
								}
							}
						})
					}
					for _, a := range x.Call.Args {
						walk(a, d+1)
					}
				case *ssa.Parameter:
					for _, a := range P.paramArgs(x) {
						walk(a, d+1)
					}
				case *ssa.Convert:
					walk(x.X, d+1)
				case *ssa.ChangeType:
					walk(x.X, d+1)
				case *ssa.MakeInterface:
					walk(x.X, d+1)
				case *ssa.Slice:
					walk(x.X, d+1)
				case *ssa.UnOp:
					if x.Op == token.MUL {
						if cell := P.cellOf(x.X); cell != nil {
							vals, _, _ := P.CellStores(cell)
							for _, sv := range vals {
								walk(sv, d+1)
							}
						}
					}
				}
			}
			walk(mu.Value, 0)
			c.check(found && okV, "EXCERPT/NO-STATE", cons, P.Pos(mu.Pos()), "remembers the content of a file under that file's name",
				"the reporter remembers something other than the content of the file named by the key ("+short(P.Desc(mu.Value))+" under "+short(P.Desc(mu.Key))+"): a later message is put together from what an earlier one left behind (same line, other column: the first caret is repeated)")
		})
	}
	c.count("map updates in package reporting", n)
}
