package main

// C11: determinism and schedule independence — structural conditions.

import (
	"fmt"
	"go/token"
	"go/types"
	"strings"

	"golang.org/x/tools/go/ssa"
)

// ruleNoConcurrency: product code starts no goroutines and uses no channels / atomics / wait groups: all
// concurrency is the driver's (one goroutine per package and analyzer).
func (c *Ctx) ruleNoConcurrency() {
	P := c.P
	n := 0
	for _, fn := range P.ModFuncs {
		allInstrs(fn, func(b *ssa.BasicBlock, ins ssa.Instruction) {
			switch x := ins.(type) {
			case *ssa.Go:
				n++
				c.fail("NO-GO", FuncName(fn), P.Pos(x.Pos()), "product code starts a goroutine: results may depend on scheduling")
			case *ssa.Send, *ssa.Select, *ssa.MakeChan:
				n++
				c.fail("NO-GO", FuncName(fn), P.Pos(ins.Pos()), "product code uses channels")
			case ssa.CallInstruction:
				name := P.calleeName(x.Common())
				if strings.HasPrefix(name, "sync/atomic.") || strings.HasPrefix(name, "(*sync.WaitGroup)") || strings.HasPrefix(name, "(*sync/atomic.") {
					n++
					c.fail("NO-GO", FuncName(fn), P.Pos(ins.Pos()), "product code uses "+name)
				}
			}
		})
	}
	if n == 0 {
		c.ok("NO-GO", "product code", "", fmt.Sprintf("%d product functions: no go statement, channel operation, atomic or WaitGroup", len(P.ModFuncs)))
	}
}

// ruleGlobalWrites: package-level variables are written only by package initialisation, except the configuration
// cache, whose only store is inside the function passed to sync.Once.Do and whose loads in that function's parent
// follow the Do call.
func (c *Ctx) ruleGlobalWrites() {
	P := c.P
	nGlobals := 0
	for _, pkg := range P.Product {
		sp := P.SSAPkg[pkg.PkgPath]
		for _, m := range sp.Members {
			if _, ok := m.(*ssa.Global); ok {
				nGlobals++
			}
		}
	}
	c.count("package-level variables", nGlobals)
	nStores := 0
	for _, fn := range P.ModFuncs {
		if fn.Name() == "init" || strings.HasPrefix(fn.Name(), "init#") || (fn.Parent() != nil && fn.Parent().Name() == "init") {
			continue
		}
		allInstrs(fn, func(b *ssa.BasicBlock, ins ssa.Instruction) {
			var addr ssa.Value
			switch x := ins.(type) {
			case *ssa.Store:
				addr = x.Addr
			case *ssa.MapUpdate:
				addr = x.Map
			default:
				return
			}
			g := c.globalBase(addr)
			if g == nil {
				return
			}
			nStores++
			cons := FuncName(fn) + "->" + g.Pkg.Pkg.Name() + "." + g.Name()
			where := P.Pos(ins.Pos())
			switch {
			case g.Pkg.Pkg.Name() == "os" && g.Name() == "Args" && funcPkgPath(fn) == modulePath+"/cmd/gogreement":
				c.ok("GLOBAL-WRITE", cons, where, "main adjusts os.Args before any analysis starts")
			default:
				// inside a closure handed to (*sync.Once).Do ?
				inOnce := false
				if mc := P.closureSite(fn); mc != nil {
					if call, _ := closurePassedTo(mc); call != nil && P.calleeName(call.Common()) == "(*sync.Once).Do" {
						inOnce = true
						// every load of the global in the parent comes after the Do call
						par := fn.Parent()
						doBlock := call.Block()
						allInstrs(par, func(pb *ssa.BasicBlock, pi ssa.Instruction) {
							if u, ok := pi.(*ssa.UnOp); ok && u.Op == token.MUL && u.X == g {
								after := dominates(doBlock, pb) && (pb != doBlock || instrIndex(pb, pi) > instrIndex(pb, call))
								if !after {
									inOnce = false
								}
							}
						})
					}
				}
				c.check(inOnce, "GLOBAL-WRITE", cons, where, "written once under sync.Once; read only after Once.Do returns (happens-before)", "package-level state is written during analysis without synchronisation: concurrent analyzer actions race and results depend on the schedule")
			}
		})
	}
	c.count("stores to package-level variables outside init", nStores)
	// loads of the Once-protected global elsewhere must also be ordered: only the owning function may read it
	for _, fn := range P.ModFuncs {
		allInstrs(fn, func(b *ssa.BasicBlock, ins ssa.Instruction) {
			u, ok := ins.(*ssa.UnOp)
			if !ok || u.Op != token.MUL {
				return
			}
			g, ok := u.X.(*ssa.Global)
			if !ok || g.Name() != "cachedConfig" {
				return
			}
			okFn := FuncName(fn) == "analyzer.runConfig" || fn.Name() == "init"
			c.check(okFn, "GLOBAL-WRITE/READERS", FuncName(fn), P.Pos(u.Pos()), "the cached configuration is read only by its owner after Once.Do", "the Once-protected configuration is read outside its owner (no happens-before edge)")
		})
	}
}

func instrIndex(b *ssa.BasicBlock, ins ssa.Instruction) int {
	for i, x := range b.Instrs {
		if x == ins {
			return i
		}
	}
	return -1
}

// globalBase: the package-level variable an address (or a map/slice value loaded from it) belongs to.
func (c *Ctx) globalBase(v ssa.Value) *ssa.Global {
	for i := 0; i < 10 && v != nil; i++ {
		switch x := v.(type) {
		case *ssa.Global:
			return x
		case *ssa.FieldAddr:
			v = x.X
		case *ssa.IndexAddr:
			v = x.X
		case *ssa.UnOp:
			if x.Op != token.MUL {
				return nil
			}
			v = x.X
		case *ssa.Lookup:
			v = x.X
		default:
			return nil
		}
	}
	return nil
}

// writesThroughParam: does fn (or what it statically calls / the closures it creates) store through memory
// reachable from parameter #idx?
func (c *Ctx) writesThroughParam(fn *ssa.Function, idx int, seen map[string]bool) (bool, string) {
	if len(fn.Blocks) == 0 || idx >= len(fn.Params) {
		return false, ""
	}
	return c.writesThrough(fn, []ssa.Value{fn.Params[idx]}, fmt.Sprintf("p%d", idx), seen)
}

func (c *Ctx) writesThrough(fn *ssa.Function, seeds []ssa.Value, tag string, seen map[string]bool) (bool, string) {
	key := fmt.Sprintf("%p/%s", fn, tag)
	if seen[key] || len(fn.Blocks) == 0 {
		return false, ""
	}
	seen[key] = true
	P := c.P
	derived := map[ssa.Value]bool{}
	for _, s := range seeds {
		derived[s] = true
	}
	holds := map[ssa.Value]bool{} // local cells (or free variables) that hold a derived value
	changed := true
	for changed {
		changed = false
		allInstrs(fn, func(b *ssa.BasicBlock, ins ssa.Instruction) {
			if st, ok := ins.(*ssa.Store); ok && derived[st.Val] && !holds[st.Addr] {
				if _, isAlloc := st.Addr.(*ssa.Alloc); isAlloc {
					holds[st.Addr], changed = true, true
				}
			}
			v, ok := ins.(ssa.Value)
			if !ok || derived[v] {
				return
			}
			switch x := ins.(type) {
			case *ssa.FieldAddr:
				if derived[x.X] {
					derived[v], changed = true, true
				}
			case *ssa.IndexAddr:
				if derived[x.X] {
					derived[v], changed = true, true
				}
			case *ssa.UnOp:
				if x.Op == token.MUL && holds[x.X] {
					derived[v], changed = true, true
				}
				if x.Op == token.MUL && derived[x.X] && (isPointerLike(x.Type()) || isSliceLike(x.Type())) {
					derived[v], changed = true, true
				}
			case *ssa.Slice:
				if derived[x.X] {
					derived[v], changed = true, true
				}
			case *ssa.Phi:
				for _, e := range x.Edges {
					if derived[e] {
						derived[v], changed = true, true
					}
				}
			case *ssa.ChangeType:
				if derived[x.X] {
					derived[v], changed = true, true
				}
			}
		})
	}
	wrote, where := false, ""
	allInstrs(fn, func(b *ssa.BasicBlock, ins ssa.Instruction) {
		switch x := ins.(type) {
		case *ssa.Store:
			if derived[x.Addr] {
				wrote, where = true, P.Pos(x.Pos())
			}
			// a library object that keeps a slice it was handed (bufio.Scanner.Buffer, bytes.NewBuffer, ...) goes on
			// to write into that array: for a shared array that is a write
			if derived[x.Val] && !P.IsProductFunc(fn) && isSliceLike(x.Val.Type()) {
				if _, isLocal := x.Addr.(*ssa.Alloc); !isLocal {
					wrote, where = true, P.Pos(x.Pos())+" (the slice is kept by "+FuncName(fn)+", which writes into it later)"
				}
			}
		case *ssa.MapUpdate:
			if derived[x.Map] {
				wrote, where = true, P.Pos(x.Pos())
			}
		case *ssa.MakeClosure:
			cf := x.Fn.(*ssa.Function)
			var cs []ssa.Value
			for j, bnd := range x.Bindings {
				if (derived[bnd] || holds[bnd]) && j < len(cf.FreeVars) {
					cs = append(cs, cf.FreeVars[j])
				}
			}
			if len(cs) > 0 {
				// in the closure the free variable is a cell holding the derived value (captured by reference)
				if w, wh := c.writesThroughCells(cf, cs, seen); w {
					wrote, where = true, wh
				}
			}
		case ssa.CallInstruction:
			callee := x.Common().StaticCallee()
			if callee == nil {
				return
			}
			for i, a := range x.Common().Args {
				if derived[a] {
					if w, wh := c.writesThroughParam(callee, i, seen); w {
						wrote, where = true, wh
					}
				}
			}
		}
	})
	return wrote, where
}

// writesThroughCells: like writesThrough, for a closure whose free variables `cells` are addresses of cells that
// hold a derived value.
func (c *Ctx) writesThroughCells(fn *ssa.Function, cells []ssa.Value, seen map[string]bool) (bool, string) {
	var seeds []ssa.Value
	allInstrs(fn, func(b *ssa.BasicBlock, ins ssa.Instruction) {
		if u, ok := ins.(*ssa.UnOp); ok && u.Op == token.MUL {
			for _, cl := range cells {
				if u.X == cl {
					seeds = append(seeds, u)
				}
			}
		}
	})
	if len(seeds) == 0 {
		return false, ""
	}
	return c.writesThrough(fn, seeds, "cells", seen)
}

func isSliceLike(t types.Type) bool {
	switch types.Unalias(t).Underlying().(type) {
	case *types.Slice, *types.Map:
		return true
	}
	return false
}

// ruleSharedReadOnly: objects shared between concurrently running analyzer actions are only read:
// package-level matchers/regexps/tables, the AnnotationReader result, the ignore set, the configuration,
// imported facts.
func (c *Ctx) ruleSharedReadOnly() {
	P := c.P
	n := 0
	for _, fn := range P.ModFuncs {
		if fn.Name() == "init" {
			continue
		}
		pkgShort := strings.TrimPrefix(funcPkgPath(fn), modulePath+"/src/")
		allInstrs(fn, func(b *ssa.BasicBlock, ins ssa.Instruction) {
			ci, ok := ins.(ssa.CallInstruction)
			if !ok {
				return
			}
			com := ci.Common()
			callee := com.StaticCallee()
			if callee == nil {
				return
			}
			for i, a := range com.Args {
				shared := ""
				if g := c.globalBase(firstRoot(P, a)); g != nil && g.Pkg != nil && strings.HasPrefix(g.Pkg.Pkg.Path(), modulePath) {
					shared = "package-level " + g.Pkg.Pkg.Name() + "." + g.Name()
				} else {
					ts := typeStr(a.Type())
					switch {
					case ts == "*util.IgnoreSet" && pkgShort != "ignore" && pkgShort != "util":
						shared = "the pass's ignore set (shared by the checkers of a package)"
					case ts == "*annotations.PackageAnnotations" && pkgShort != "annotations":
						shared = "annotations of a package (analyzer result / imported fact)"
					case ts == "*config.Config" && pkgShort != "config":
						shared = "the process-wide configuration"
					}
				}
				if shared == "" {
					continue
				}
				n++
				name := FuncName(callee)
				cons := FuncName(fn) + "->" + name
				if strings.HasPrefix(name, "(*regexp.Regexp).") {
					c.ok("SHARED-RO", cons, P.Pos(ci.Pos()), "regexp.Regexp methods are documented safe for concurrent use")
					continue
				}
				if name == "(*sync.Once).Do" {
					c.ok("SHARED-RO", cons, P.Pos(ci.Pos()), "sync.Once")
					continue
				}
				if len(callee.Blocks) == 0 {
					c.undecided("SHARED-RO", cons, P.Pos(ci.Pos()), "shared object "+shared+" is passed to "+name+" whose body is not available")
					continue
				}
				w, where := c.writesThroughParam(callee, i, map[string]bool{})
				c.check(!w, "SHARED-RO", cons, P.Pos(ci.Pos()), shared+" is only read by "+name, shared+" is written through by "+name+" (store at "+where+"): concurrent analyzer actions race")
			}
		})
	}
	c.floor("calls receiving a shared object", n, 20)
	// annotation values are shared even when the struct was copied: a slice field of a copied annotation still
	// points into the backing array owned by the analyzer result / imported fact
	for _, fn := range P.ModFuncs {
		if strings.HasSuffix(funcPkgPath(fn), "/src/annotations") {
			continue
		}
		allInstrs(fn, func(b *ssa.BasicBlock, ins ssa.Instruction) {
			st, ok := ins.(*ssa.Store)
			if !ok {
				return
			}
			ia, ok := st.Addr.(*ssa.IndexAddr)
			if !ok {
				return
			}
			owner := ""
			isAnnotField := func(r ssa.Value) bool {
				var base types.Type
				switch x := r.(type) {
				case *ssa.UnOp:
					if fa, ok := x.X.(*ssa.FieldAddr); ok {
						base = deref(fa.X.Type())
					}
				case *ssa.Field:
					base = x.X.Type()
				}
				if nmd, ok := base.(*types.Named); ok && nmd.Obj().Pkg() != nil && strings.HasSuffix(nmd.Obj().Pkg().Path(), "/src/annotations") {
					owner = typeStr(nmd)
					return true
				}
				return false
			}
			if isAnnotField(ia.X) || isAnnotField(P.throughParams(ia.X)) || P.RootsAny(ia.X, isAnnotField) {
				c.fail("SHARED-RO", FuncName(fn)+"#element-of-"+owner, P.Pos(st.Pos()), "an element of a slice that belongs to an annotation ("+owner+") is overwritten: the backing array is shared with the analyzer result / the imported fact of the declaring package, every other importer analysed in the same process sees the change, and concurrent analyses race on it")
			}
		})
	}
	// direct stores through shared parameters in checker packages
	for _, fn := range P.ModFuncs {
		pkgShort := strings.TrimPrefix(funcPkgPath(fn), modulePath+"/src/")
		for i, p := range fn.Params {
			ts := typeStr(p.Type())
			shared := (ts == "*util.IgnoreSet" && pkgShort != "ignore" && pkgShort != "util") || (ts == "*annotations.PackageAnnotations" && pkgShort != "annotations") || (ts == "*config.Config" && pkgShort != "config")
			if !shared || len(fn.Blocks) == 0 {
				continue
			}
			w, where := c.writesThroughParam(fn, i, map[string]bool{})
			c.check(!w, "SHARED-RESULT-RO", fmt.Sprintf("%s#%s", FuncName(fn), p.Name()), P.Pos(fn.Pos()), "shared "+ts+" is only read", "a shared "+ts+" is modified (store at "+where+") by code that runs concurrently with other analyzers of the package")
		}
	}
}

// ruleMapOrder: the iteration order of a map never reaches an output: the body of every range over a map only
// performs order-independent accumulation (writes to another map, counting).
func (c *Ctx) ruleMapOrder() {
	P := c.P
	n := 0
	for _, fn := range P.ModFuncs {
		allInstrs(fn, func(b *ssa.BasicBlock, ins ssa.Instruction) {
			rg, ok := ins.(*ssa.Range)
			if !ok {
				return
			}
			if _, isMap := types.Unalias(rg.X.Type()).Underlying().(*types.Map); !isMap {
				return
			}
			n++
			cons := fmt.Sprintf("%s#range-map%d", FuncName(fn), n)
			// loop blocks: the loop whose header holds the Next of this range
			var header *ssa.BasicBlock
			if refs := rg.Referrers(); refs != nil {
				for _, r := range *refs {
					if nx, ok := r.(*ssa.Next); ok {
						header = nx.Block()
					}
				}
			}
			if header == nil {
				c.undecided("MAP-ORDER", cons, P.Pos(rg.Pos()), "cannot find the loop of a range over a map")
				return
			}
			body := loopOf(header)
			bad := ""
			for lb := range body {
				for _, i2 := range lb.Instrs {
					switch x := i2.(type) {
					case *ssa.Next, *ssa.Extract, *ssa.Lookup, *ssa.MapUpdate, *ssa.Phi, *ssa.If, *ssa.Jump, *ssa.UnOp, *ssa.FieldAddr, *ssa.Field, *ssa.IndexAddr, *ssa.Index, *ssa.Slice, *ssa.Alloc, *ssa.MakeSlice, *ssa.MakeMap, *ssa.DebugRef, *ssa.ChangeType, *ssa.Convert, *ssa.Range:
					case *ssa.BinOp:
						if x.Op != token.ADD && x.Op != token.EQL && x.Op != token.NEQ && x.Op != token.LSS && x.Op != token.GTR && x.Op != token.LEQ && x.Op != token.GEQ {
							bad = "operation " + x.Op.String()
						}
						if x.Op == token.ADD && typeStr(x.Type()) == "string" {
							bad = "string concatenation in map iteration order"
						}
					case *ssa.Store:
						// only into freshly allocated locals (building a value)
						if !P.RootsAll(baseAddr(x.Addr), func(r ssa.Value) bool { a, ok := r.(*ssa.Alloc); return ok && body[a.Block()] }) {
							bad = "store to memory that outlives the iteration"
						}
					case *ssa.Call:
						if bi, ok := x.Call.Value.(*ssa.Builtin); ok && bi.Name() == "len" {
							continue
						}
						bad = "call of " + P.calleeName(x.Common()) + " (append / output in map iteration order)"
					case *ssa.Return:
						bad = "return from inside the loop (first-match in map iteration order)"
					default:
						bad = fmt.Sprintf("%T", i2)
					}
				}
			}
			c.check(bad == "", "MAP-ORDER", cons, P.Pos(rg.Pos()), "body only writes other maps / counts", "the iteration order of a map can reach an output: "+bad)
		})
	}
	c.count("range loops over maps", n)
	c.floor("range loops over maps", n, 3)
}

func baseAddr(v ssa.Value) ssa.Value {
	for {
		switch x := v.(type) {
		case *ssa.IndexAddr:
			v = x.X
		case *ssa.FieldAddr:
			v = x.X
		default:
			return v
		}
	}
}

// ruleNoNondet: no clock, randomness, pointer formatting or environment reads in the analysis (environment is
// read by package config only, once).
func (c *Ctx) ruleNoNondet() {
	P := c.P
	n := 0
	for _, fn := range P.ModFuncs {
		pkgShort := strings.TrimPrefix(funcPkgPath(fn), modulePath+"/src/")
		allInstrs(fn, func(b *ssa.BasicBlock, ins ssa.Instruction) {
			ci, ok := ins.(ssa.CallInstruction)
			if !ok {
				return
			}
			name := P.calleeName(ci.Common())
			switch {
			case strings.HasPrefix(name, "time.Now"), strings.HasPrefix(name, "time.Since"), strings.HasPrefix(name, "math/rand"), strings.HasPrefix(name, "crypto/rand"), name == "os.Getpid", name == "os.Hostname":
				n++
				c.fail("NO-NONDET", FuncName(fn), P.Pos(ci.Pos()), "analysis depends on "+name)
			case name == "(*go/token.FileSet).Base" || name == "(*go/token.FileSet).Iterate":
				// the file set is shared by all packages of a run and grows in the order the driver happens to parse
				// files: its next base, and the order of its files, differ between schedules
				n++
				c.fail("NO-NONDET", FuncName(fn), P.Pos(ci.Pos()), "analysis depends on "+name+": the shared file set grows in parse order, which differs between runs and schedules")
			case name == "os.Getenv" || name == "os.LookupEnv" || name == "os.Environ":
				if pkgShort != "config" {
					n++
					c.fail("NO-NONDET", FuncName(fn), P.Pos(ci.Pos()), "environment is read outside package config ("+name+")")
				}
			case strings.HasPrefix(name, "fmt.Sprintf") || strings.HasPrefix(name, "fmt.Fprintf") || strings.HasPrefix(name, "fmt.Errorf"):
				if f := constString(ci.Common().Args[0]); strings.Contains(f, "%p") {
					n++
					c.fail("NO-NONDET", FuncName(fn), P.Pos(ci.Pos()), "message formats a pointer (%p)")
				}
			}
		})
	}
	if n == 0 {
		c.ok("NO-NONDET", "product code", "", "no clock, randomness, pointer formatting; environment read by package config only")
	}
}

// ruleMapIterators (C11, tenth round): maps.Keys / maps.Values / maps.All hand out the entries in the map's iteration
// order, which differs from run to run; their result may be consumed only by something that does not keep the
// order - slices.Sorted / SortedFunc / SortedStableFunc, or a `range` whose body is judged like a range over the
// map itself would be (not modelled: reported).
func (c *Ctx) ruleMapIterators() {
	P := c.P
	n := 0
	for _, fn := range P.ModFuncs {
		allInstrs(fn, func(b *ssa.BasicBlock, ins ssa.Instruction) {
			call, ok := ins.(*ssa.Call)
			if !ok || call.Call.StaticCallee() == nil {
				return
			}
			name := FuncName(call.Call.StaticCallee())
			if i := strings.Index(name, "["); i >= 0 {
				name = name[:i]
			}
			if name != "maps.Keys" && name != "maps.Values" && name != "maps.All" {
				return
			}
			n++
			cons := fmt.Sprintf("%s#%s%d", FuncName(fn), name, n)
			bad := ""
			if refs := call.Referrers(); refs != nil {
				for _, r := range *refs {
					switch u := r.(type) {
					case *ssa.DebugRef:
					case *ssa.Call:
						un := ""
						if u.Call.StaticCallee() != nil {
							un = FuncName(u.Call.StaticCallee())
							if i := strings.Index(un, "["); i >= 0 {
								un = un[:i]
							}
						}
						switch un {
						case "slices.Sorted", "slices.SortedFunc", "slices.SortedStableFunc":
						default:
							bad = "handed to " + un
						}
					default:
						bad = fmt.Sprintf("used by %T", r)
					}
				}
			}
			c.check(bad == "", "MAP-ORDER", cons, P.Pos(call.Pos()), "the entries of the map are sorted before anything depends on their order",
				"the entries of a map are taken in iteration order ("+bad+"): a list or a text built from them differs between runs")
		})
	}
	c.count("maps.Keys / Values / All calls", n)
}

// ruleSyntaxReadOnly (C11, tenth round): the syntax trees of a pass are shared by the analyzers that run
// concurrently on the package (the annotation reader, the @ignore reader, the checkers): no product code assigns to
// a field or an element of a go/ast node that it did not allocate itself.
func (c *Ctx) ruleSyntaxReadOnly() {
	P := c.P
	n := 0
	for _, fn := range P.ModFuncs {
		allInstrs(fn, func(b *ssa.BasicBlock, ins ssa.Instruction) {
			st, ok := ins.(*ssa.Store)
			if !ok {
				return
			}
			var base ssa.Value
			switch a := st.Addr.(type) {
			case *ssa.FieldAddr:
				base = a.X
			case *ssa.IndexAddr:
				base = a.X
			default:
				return
			}
			// the node (or, for an element, the list read from a node)
			isAst := func(t types.Type) bool {
				nm, ok := deref(t).(*types.Named)
				return ok && nm.Obj().Pkg() != nil && nm.Obj().Pkg().Path() == "go/ast"
			}
			node := base
			if !isAst(node.Type()) {
				// x.List[i] = ...: the list is a field of a node
				ld, ok := base.(*ssa.UnOp)
				if !ok {
					return
				}
				fa, ok := ld.X.(*ssa.FieldAddr)
				if !ok || !isAst(fa.X.Type()) {
					return
				}
				node = fa.X
			}
			n++
			own := P.RootsAllDeep(node, func(r ssa.Value) bool {
				al, ok := r.(*ssa.Alloc)
				return ok && P.IsProductFunc(al.Parent())
			})
			c.check(own, "SHARED-RO", fmt.Sprintf("%s#syntax-write%d", FuncName(fn), n), P.Pos(st.Pos()), "the node written to was allocated here",
				"a field of a syntax node of the pass is assigned ("+short(P.Desc(st.Addr))+"): the tree is shared with the analyzers running concurrently on the package - a data race, and what they see depends on the schedule")
		})
	}
	c.count("writes to go/ast nodes", n)
}

// ruleSharedSliceMutation (C11, twelfth round): a slice handed out by go/types, go/ast or the pass (Package.Imports(),
// File.Decls, pass.Files, ...) is the object's own storage, shared by every analyzer working on the package and by
// the packages that import it: sorting / reversing / copying into it in place is a data race, and the order others
// see depends on the schedule. An in-place mutator of the library may only be applied to a slice that does not
// originate from such an object.
func (c *Ctx) ruleSharedSliceMutation() {
	P := c.P
	mutators := map[string]int{
		"sort.Slice": 0, "sort.SliceStable": 0, "sort.Sort": 0, "sort.Stable": 0, "sort.Strings": 0, "sort.Ints": 0, "sort.Float64s": 0,
		"slices.Sort": 0, "slices.SortFunc": 0, "slices.SortStableFunc": 0, "slices.Reverse": 0,
	}
	sharedPkg := func(path string) bool {
		return path == "go/types" || path == "go/ast" || path == "go/token" || path == "golang.org/x/tools/go/analysis"
	}
	sharedOrigin := func(r ssa.Value) string {
		switch x := r.(type) {
		case *ssa.Call:
			if callee := x.Call.StaticCallee(); callee != nil && callee.Pkg != nil && sharedPkg(callee.Pkg.Pkg.Path()) {
				return FuncName(callee)
			}
			if x.Call.IsInvoke() && x.Call.Method.Pkg() != nil && sharedPkg(x.Call.Method.Pkg().Path()) {
				return x.Call.Method.FullName()
			}
		case *ssa.UnOp:
			if fa, ok := x.X.(*ssa.FieldAddr); ok {
				if nm, ok := deref(fa.X.Type()).(*types.Named); ok && nm.Obj().Pkg() != nil && sharedPkg(nm.Obj().Pkg().Path()) {
					return typeStr(nm) + "." + fieldName(deref(fa.X.Type()), fa.Field)
				}
			}
		}
		return ""
	}
	n := 0
	for _, fn := range P.ModFuncs {
		allInstrs(fn, func(b *ssa.BasicBlock, ins ssa.Instruction) {
			ci, ok := ins.(ssa.CallInstruction)
			if !ok {
				return
			}
			var target ssa.Value
			name := P.calleeName(ci.Common())
			if i := strings.Index(name, "["); i > 0 {
				name = name[:i] // instantiation of a generic
			}
			if argi, isMut := mutators[name]; isMut && len(ci.Common().Args) > argi {
				target = ci.Common().Args[argi]
			} else if bi, isB := ci.Common().Value.(*ssa.Builtin); isB && bi.Name() == "copy" {
				target = ci.Common().Args[0]
			}
			if target == nil {
				return
			}
			n++
			// through conversions to an interface / named slice type (sort.Sort(byPath(xs)))
			from := ""
			P.RootsAllDeep(target, func(r ssa.Value) bool {
				for depth := 0; depth < 4; depth++ {
					switch x := r.(type) {
					case *ssa.MakeInterface:
						r = x.X
						continue
					case *ssa.ChangeType:
						r = x.X
						continue
					case *ssa.Slice:
						r = x.X
						continue
					}
					break
				}
				for _, q := range P.ResolveDeep(r) {
					if o := sharedOrigin(q); o != "" {
						from = o
					}
				}
				return true
			})
			c.check(from == "", "SHARED-RO", fmt.Sprintf("%s#inplace%d", FuncName(fn), n), P.Pos(ci.Pos()), name+" is applied to a slice of this function's own",
				name+" rearranges, in place, the slice handed out by "+from+": that storage is shared with the analyzers running concurrently (and with the packages importing this one) - a data race, and the order they see depends on the schedule")
		})
	}
	c.count("in-place slice mutators (sort, reverse, copy)", n)
}
