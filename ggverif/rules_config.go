package main

// C18 (configuration precedence), C08 (exclude-checks flow), C14 (file filter).

import (
	"fmt"
	"go/constant"
	"go/token"
	"go/types"
	"os"
	"path/filepath"
	"regexp"
	"sort"
	"strings"

	"golang.org/x/tools/go/ssa"
)

func constArg(v ssa.Value) string { return constString(v) }

// docConfigTable parses the options table of 01_01_getting_started.md:
// | **Name** | `ENV` | `--config.flag` | default | ...
type docOption struct{ env, flag, def string }

func (c *Ctx) docConfigTable() []docOption {
	b, err := os.ReadFile(filepath.Join(c.P.Root, "book/gogreement-docs/src/01_01_getting_started.md"))
	if err != nil {
		return nil
	}
	re := regexp.MustCompile("(?m)^\\|[^|]*\\|\\s*`(GOGREEMENT_[A-Z_]+)`\\s*\\|\\s*`--config\\.([a-z-]+)`\\s*\\|\\s*([^|]*?)\\s*\\|")
	var out []docOption
	for _, m := range re.FindAllStringSubmatch(string(b), -1) {
		out = append(out, docOption{m[1], m[2], strings.Trim(m[3], "`_ ")})
	}
	return out
}

func (c *Ctx) ruleFlagTable() {
	P := c.P
	create := P.LookupFunc("config", "CreateFlagSet")
	parse := P.LookupFunc("config", "ParseFlagsFromFlagSet")
	fromEnv := P.LookupFunc("config", "FromEnv")
	newFn := P.LookupFunc("config", "New")
	if create == nil || parse == nil || fromEnv == nil || newFn == nil {
		c.fail("FLAG-TABLE", "config", "", "one of CreateFlagSet / ParseFlagsFromFlagSet / FromEnv / New not found")
		return
	}
	// New(scanTests, excludePaths, excludeChecks) stores each parameter in its field
	fieldOfParam := map[int]string{}
	allInstrs(newFn, func(b *ssa.BasicBlock, ins ssa.Instruction) {
		if st, ok := ins.(*ssa.Store); ok {
			if fa, ok := st.Addr.(*ssa.FieldAddr); ok && typeStr(deref(fa.X.Type())) == "config.Config" {
				for i, p := range newFn.Params {
					if st.Val == p {
						fieldOfParam[i] = deref(fa.X.Type()).Underlying().(*types.Struct).Field(fa.Field).Name()
					}
				}
			}
		}
	})
	okNew := fieldOfParam[0] == "ScanTests" && fieldOfParam[1] == "ExcludePaths" && fieldOfParam[2] == "ExcludeChecks"
	c.check(okNew, "CONFIG/NEW", "config.New", P.Pos(newFn.Pos()), "New(scanTests, excludePaths, excludeChecks) fills the fields of the same name", fmt.Sprintf("config.New stores its parameters in the wrong fields: %v", fieldOfParam))

	// ---- flags defined
	type def struct {
		kind string
		def  ssa.Value
		call *ssa.Call
	}
	defined := map[string]def{}
	allInstrs(create, func(b *ssa.BasicBlock, ins ssa.Instruction) {
		call, ok := ins.(*ssa.Call)
		if !ok {
			return
		}
		for _, k := range []string{"Bool", "String"} {
			if P.CallTo(call, "(*flag.FlagSet)."+k) != nil {
				defined[constArg(call.Call.Args[1])] = def{k, call.Call.Args[2], call}
			}
		}
	})
	// env-as-default: each default derives from the corresponding field of FromEnv()
	wantDefault := map[string]string{"scan-tests": "ScanTests", "exclude-paths": "ExcludePaths", "exclude-checks": "ExcludeChecks"}
	for flagName, field := range wantDefault {
		d, ok := defined[flagName]
		if !ok {
			c.fail("FLAG-TABLE/DEFINED", flagName, P.Pos(create.Pos()), "flag is not defined in CreateFlagSet")
			continue
		}
		dd := P.Desc(d.def)
		okDef := strings.Contains(dd, "field(call(config.FromEnv; ).config.Config."+field+")")
		if field != "ScanTests" {
			okDef = okDef && strings.HasPrefix(dd, "call(strings.Join; field(call(config.FromEnv; ).config.Config."+field+"), const(\",\"))")
		} else {
			okDef = dd == "field(call(config.FromEnv; ).config.Config.ScanTests)"
		}
		c.check(okDef, "ENV-DEFAULT", flagName, P.Pos(d.call.Pos()), "flag default = value from the environment (FromEnv()."+field+")", "the flag's default is not the environment-derived value: flag > env > default precedence is broken ("+short(dd)+")")
	}
	// ---- flags looked up
	looked := map[string]*ssa.Call{}
	for _, f := range P.StaticClosure(parse) {
		if f != parse && P.isAnchor(f) {
			continue
		}
		allInstrs(f, func(b *ssa.BasicBlock, ins ssa.Instruction) {
			if call, ok := ins.(*ssa.Call); ok && P.CallTo(call, "(*flag.FlagSet).Lookup") != nil {
				// the name may be a parameter of an accessor helper: every name it is called with
				for _, r := range P.Resolve(call.Call.Args[1]) {
					looked[constArg(r)] = call
				}
			}
		})
	}
	var dn, ln []string
	for k := range defined {
		dn = append(dn, k)
	}
	for k := range looked {
		ln = append(ln, k)
	}
	sort.Strings(dn)
	sort.Strings(ln)
	c.check(strings.Join(dn, ",") == strings.Join(ln, ",") && len(dn) == 3, "FLAG-TABLE", "config", P.Pos(parse.Pos()), "defined = looked-up flags: "+strings.Join(dn, ","), fmt.Sprintf("flags defined %v differ from flags read %v", dn, ln))
	// docs
	docs := c.docConfigTable()
	var docFlags, docEnvs []string
	docDefault := map[string]string{}
	envOfFlag := map[string]string{}
	for _, o := range docs {
		docFlags = append(docFlags, o.flag)
		docEnvs = append(docEnvs, o.env)
		docDefault[o.flag] = o.def
		envOfFlag[o.flag] = o.env
	}
	sort.Strings(docFlags)
	c.check(strings.Join(docFlags, ",") == strings.Join(dn, ","), "FLAG-TABLE/DOCS", "config", "book/gogreement-docs/src/01_01_getting_started.md", "documented --config.* flags = defined flags", fmt.Sprintf("documented flags %v differ from defined flags %v", docFlags, dn))

	// ---- the value each field gets from the flags: the returned New(...) in ParseFlagsFromFlagSet
	nOther := 0
	var flagReturns func(in *ssa.Function, pins pinMap, depth int)
	var flagReturn func(b *ssa.BasicBlock, ins ssa.Instruction, pins pinMap, depth int)
	flagReturns = func(in *ssa.Function, pins pinMap, depth int) {
		allInstrs(in, func(b *ssa.BasicBlock, ins ssa.Instruction) {
			P.PinnedAll(pins, func() { flagReturn(b, ins, pins, depth) })
		})
	}
	flagReturn = func(b *ssa.BasicBlock, ins ssa.Instruction, pins pinMap, depth int) {
		r, ok := ins.(*ssa.Return)
		if !ok || len(r.Results) != 1 {
			return
		}
		call, ok := r.Results[0].(*ssa.Call)
		// the configuration built in a helper (`return fromFlagValues(fs)`): its returns, in the context of this call
		if ok && depth < 3 {
			if callee := call.Call.StaticCallee(); callee != nil && callee != newFn && callee != fromEnv && P.IsProductFunc(callee) && !P.isAnchor(callee) && len(callee.Blocks) > 0 && pins[callee] == nil {
				np := pinMap{callee: call}
				for k, v := range pins {
					np[k] = v
				}
				flagReturns(callee, np, depth+1)
				return
			}
		}
		if !ok || call.Call.StaticCallee() != newFn {
			// a result that is not built from the flag values: right for a nil flag set only ("the flag if given")
			nilSet := false
			env := ""
			for _, l := range P.BlockGuards(b) {
				if v := nilCheckedValue(l); v != nil && l.Pos && v == ssa.Value(parse.Params[0]) {
					nilSet = true
				}
				// "under <env>": the path taken when the variable is set (`Getenv(X) != ""`, `_, ok := LookupEnv(X); ok`) -
				// the path of the other answer is not that construct
				isSetTest := false
				switch {
				case l.Kind == "eq" && !l.Pos && l.X != nil && l.Y != nil:
					isSetTest = constArg(l.X) == "" && isStringConst(l.X) || constArg(l.Y) == "" && isStringConst(l.Y)
				case l.Kind == "cond" && l.Pos:
					isSetTest = true
				}
				for _, x := range []ssa.Value{l.X, l.Y, l.Val} {
					if x == nil || !isSetTest {
						continue
					}
					for _, rr := range P.Resolve(x) {
						if ec, isCall := rr.(*ssa.Call); isCall && (P.CallTo(ec, "os.Getenv") != nil || P.CallTo(ec, "os.LookupEnv") != nil) {
							env = constArg(ec.Call.Args[0])
						}
						if ex, isEx := rr.(*ssa.Extract); isEx {
							if ec, isCall := ex.Tuple.(*ssa.Call); isCall && P.CallTo(ec, "os.LookupEnv") != nil {
								env = constArg(ec.Call.Args[0])
							}
						}
					}
				}
			}
			nOther++
			cons := fmt.Sprintf("config.ParseFlagsFromFlagSet#other%d", nOther)
			if env != "" {
				cons = "config.ParseFlagsFromFlagSet#under-" + env
			}
			if nilSet {
				cons = "config.ParseFlagsFromFlagSet#nil-flagset"
			}
			c.check(nilSet, "FLAG-VALUE/ALL-PATHS", cons, P.Pos(r.Pos()), "without a flag set there are no flags: the empty configuration",
				"a configuration that is not built from the flag values is returned although a flag set is given ("+short(P.Desc(r.Results[0]))+"): command-line flags are ignored on this path")
			return
		}
		a := call.Call.Args
		where := P.Pos(call.Pos())
		valueOf := func(flagName string) string {
			return "field(call((*flag.FlagSet).Lookup; " + P.Desc(parse.Params[0]) + ", const(\"" + flagName + "\")).flag.Flag.Value)"
		}
		d0 := P.Desc(a[0])
		// every value it can take: the flag's Get() (asserted to bool), or false when the flag is not registered -
		// also when the read lives in an accessor helper
		sawGet := false
		var boolRoots func(v ssa.Value, depth int) bool
		boolRoots = func(v ssa.Value, depth int) bool {
			return P.RootsAllDeep(v, func(x ssa.Value) bool {
				if cv, isC := constBool(x); isC {
					return !cv
				}
				if strings.Contains(P.Desc(x), "call(invoke flag.Getter.Get; typeassert("+valueOf("scan-tests")+"; flag.Getter))") {
					sawGet = true
					return true
				}
				// an accessor helper (bool results are not inlined by the descriptor engine): its returns, in the
				// context of this call
				if call, ok := x.(*ssa.Call); ok && depth < 3 {
					callee := call.Call.StaticCallee()
					if callee != nil && P.IsProductFunc(callee) && len(callee.Blocks) > 0 && !P.isAnchor(callee) {
						all, n := true, 0
						allInstrs(callee, func(_ *ssa.BasicBlock, ins ssa.Instruction) {
							if r, ok := ins.(*ssa.Return); ok && len(r.Results) == 1 {
								n++
								P.PinnedAll(pinMap{callee: call}, func() {
									if !boolRoots(r.Results[0], depth+1) {
										all = false
									}
								})
							}
						})
						return all && n > 0
					}
				}
				return false
			})
		}
		ok0 := boolRoots(a[0], 0) && sawGet
		c.check(ok0, "FLAG-VALUE", "scan-tests", where, "ScanTests = value of flag scan-tests", "ScanTests is not read from the scan-tests flag: "+short(d0))
		for i, fl := range []string{"exclude-paths", "exclude-checks"} {
			okL := P.RootsAll(a[i+1], func(x ssa.Value) bool {
				pc, ok := x.(*ssa.Call)
				if !ok || pc.Call.StaticCallee() == nil || FuncName(pc.Call.StaticCallee()) != "config.parseStringList" {
					return false
				}
				up, isC := constBool(pc.Call.Args[1])
				if !isC || up != (fl == "exclude-checks") {
					return false
				}
				return strings.Contains(P.Desc(pc.Call.Args[0]), "call(invoke flag.Value.String; "+valueOf(fl)+")")
			})
			what := "split/trimmed"
			if fl == "exclude-checks" {
				what += " and upper-cased"
			}
			c.check(okL, "FLAG-VALUE", fl, where, "list = parseStringList(value of flag "+fl+"), "+what,
				"the "+fl+" list is not parseStringList(<flag value>, toUpper="+fmt.Sprint(fl == "exclude-checks")+"): "+short(P.Desc(a[i+1])))
		}
	}
	flagReturns(parse, pinMap{}, 0)

	// ---- environment
	envRead := map[string]string{} // env name -> how
	for _, f := range P.StaticClosure(fromEnv) {
		if f != fromEnv && P.isAnchor(f) {
			continue
		}
		allInstrs(f, func(b *ssa.BasicBlock, ins ssa.Instruction) {
			call, ok := ins.(*ssa.Call)
			if !ok {
				return
			}
			for _, how := range []string{"os.Getenv", "os.LookupEnv"} {
				if P.CallTo(call, how) != nil {
					for _, r := range P.Resolve(call.Call.Args[0]) {
						envRead[constArg(r)] = how
					}
				}
			}
		})
	}
	var en []string
	for k := range envRead {
		en = append(en, k)
	}
	sort.Strings(en)
	sort.Strings(docEnvs)
	c.check(strings.Join(en, ",") == strings.Join(docEnvs, ",") && len(en) == 3, "ENV-TABLE", "config.FromEnv", P.Pos(fromEnv.Pos()), "reads exactly the documented variables "+strings.Join(en, ","), fmt.Sprintf("environment variables read %v differ from the documented ones %v", en, docEnvs))
	// the returned New(...) of FromEnv
	lookupEnvOK := true
	allInstrs(fromEnv, func(b *ssa.BasicBlock, ins ssa.Instruction) {
		r, ok := ins.(*ssa.Return)
		if !ok || len(r.Results) != 1 {
			return
		}
		call, ok := r.Results[0].(*ssa.Call)
		if !ok || call.Call.StaticCallee() != newFn {
			c.fail("ENV-TABLE/RESULT", "config.FromEnv", P.Pos(r.Pos()), "FromEnv does not return config.New(...)")
			return
		}
		a := call.Call.Args
		where := P.Pos(call.Pos())
		// bool: false | parseBool(Getenv(SCAN_TESTS)) under Getenv != ""
		// (parseBool("") is false - CONFIG/BOOL -, so parseBool(Getenv(X)) without the non-empty test is the same value)
		// a helper that computes the value (`parseEnvBool(name, false)`) is read in the context of this call
		type pinnedLeaf struct {
			val  ssa.Value
			pins pinMap
		}
		var pls []pinnedLeaf
		var expand func(v ssa.Value, pins pinMap, depth int)
		expand = func(v ssa.Value, pins pinMap, depth int) {
			for _, lf := range c.phiLeaves(v, nil, 0) {
				lv := lf.Val
				if _, isParam := lv.(*ssa.Parameter); isParam && len(pins) > 0 {
					var rs []ssa.Value
					P.PinnedAll(pins, func() { rs = P.Resolve(lv) })
					if len(rs) == 1 {
						lv = rs[0]
					}
				}
				if hc, isCall := lv.(*ssa.Call); isCall && depth < 3 {
					callee := hc.Call.StaticCallee()
					if callee != nil && FuncName(callee) != "config.parseBool" && P.IsProductFunc(callee) && !P.isAnchor(callee) && len(callee.Blocks) > 0 && callee.Signature.Results().Len() == 1 && pins[callee] == nil {
						np := pinMap{callee: hc}
						for k, v2 := range pins {
							np[k] = v2
						}
						allInstrs(callee, func(_ *ssa.BasicBlock, i2 ssa.Instruction) {
							if r2, isRet := i2.(*ssa.Return); isRet && len(r2.Results) == 1 {
								expand(r2.Results[0], np, depth+1)
							}
						})
						continue
					}
				}
				pls = append(pls, pinnedLeaf{lv, pins})
			}
		}
		expand(a[0], pinMap{}, 0)
		okB := len(pls) == 2 || (len(pls) == 1 && func() bool { _, isC := constBool(pls[0].val); return !isC }())
		for _, lf := range pls {
			if cv, isC := constBool(lf.val); isC {
				if cv {
					okB = false
				}
				continue
			}
			pc, isCall := lf.val.(*ssa.Call)
			if !isCall || pc.Call.StaticCallee() == nil || FuncName(pc.Call.StaticCallee()) != "config.parseBool" {
				okB = false
				continue
			}
			var d string
			P.PinnedAll(lf.pins, func() { d = P.Desc(pc.Call.Args[0]) })
			if d != "call(os.Getenv; const(\""+envOfFlag["scan-tests"]+"\"))" {
				okB = false
			}
		}
		c.check(okB, "ENV-TABLE/BOOL", "scan-tests", where, "default false; parseBool(value) when the variable is non-empty", "ScanTests from the environment is not `false` or parseBool(os.Getenv(\""+envOfFlag["scan-tests"]+"\")): "+short(P.Desc(a[0])))
		for i, fl := range []string{"exclude-paths", "exclude-checks"} {
			wantDef := `lit[const("testdata")]`
			if fl == "exclude-checks" {
				wantDef = "slice(new([0]string))"
			}
			// every way the list is computed: the documented default when the variable is unset, the parsed value when
			// it is set (os.LookupEnv: set-but-empty is honoured)
			env := envOfFlag[fl]
			setKey := `extract1(call(os.LookupEnv; const("` + env + `")))`
			parsed := `call(config.parseStringList; extract0(call(os.LookupEnv; const("` + env + `"))), const(` + fmt.Sprint(fl == "exclude-checks") + `))`
			nDef, nParsed, nOther := 0, 0, 0
			for _, vc := range P.ValueCases(a[i+1], 0) {
				set := hasLit(vc.Guards, func(l Lit) bool { return l.Pos && l.Kind == "cond" && l.Key == setKey })
				unset := hasLit(vc.Guards, func(l Lit) bool { return !l.Pos && l.Kind == "cond" && l.Key == setKey })
				isDef := vc.Desc == wantDef || (fl == "exclude-checks" && (strings.HasPrefix(vc.Desc, "slice(") || strings.HasPrefix(vc.Desc, "make(") || vc.Desc == "nil"))
				switch {
				case unset && isDef:
					nDef++
				case set && vc.Desc == parsed:
					nParsed++
				default:
					nOther++
				}
			}
			okL := nDef >= 1 && nParsed >= 1 && nOther == 0
			lookupEnvOK = lookupEnvOK && okL
			c.check(okL, "ENV-TABLE/LIST", fl, where, "os.LookupEnv(\""+env+"\"): set -> parseStringList(value, upper="+fmt.Sprint(fl == "exclude-checks")+"), unset -> documented default",
				"the "+fl+" list from the environment is not {unset: <documented default>, set: parseStringList(os.LookupEnv(\""+env+"\"), toUpper)}: "+short(P.Desc(a[i+1])))
			// docs default
			if fl == "exclude-paths" {
				c.check(docDefault[fl] == "testdata", "ENV-TABLE/DOC-DEFAULT", fl, "book/gogreement-docs/src/01_01_getting_started.md", "documented default testdata", "documented default of exclude-paths is "+docDefault[fl])
			}
		}
	})
	// LookupEnv (set-but-empty honoured): established per list above
	c.check(lookupEnvOK, "ENV-TABLE/LOOKUPENV", "config.FromEnv", P.Pos(fromEnv.Pos()), "set (even to \"\") -> parseStringList(value, toUpper); unset -> default", "the list options do not distinguish set-but-empty from unset with os.LookupEnv, or do not parse the value with the given upper-casing")
}

// ruleParseHelpers: parseStringList and parseBool.
func (c *Ctx) ruleParseHelpers() {
	P := c.P
	if fn := P.LookupFunc("config", "parseStringList"); fn != nil {
		nApp := 0
		okAll := true
		why := ""
		allInstrs(fn, func(b *ssa.BasicBlock, ins ssa.Instruction) {
			call, ok := ins.(*ssa.Call)
			if !ok {
				return
			}
			bi, ok := call.Call.Value.(*ssa.Builtin)
			if !ok || bi.Name() != "append" {
				return
			}
			for _, e := range c.sliceLitElems(call.Call.Args[1]) {
				nApp++
				// e = phi[trimmed, ToUpper(trimmed)] selected by toUpper
				leaves := c.phiLeaves(e, nil, 0)
				// the choice made in a helper (`normalizeCase(trimmed, toUpper)`): its returns, read through its parameters
				if hc, isCall := e.(*ssa.Call); isCall && len(leaves) == 1 {
					if callee := hc.Call.StaticCallee(); callee != nil && P.IsProductFunc(callee) && !P.isAnchor(callee) && len(callee.Blocks) > 0 && callee.Signature.Results().Len() == 1 {
						leaves = nil
						allInstrs(callee, func(b2 *ssa.BasicBlock, i2 ssa.Instruction) {
							if r2, isRet := i2.(*ssa.Return); isRet && len(r2.Results) == 1 {
								for _, lf := range c.phiLeaves(r2.Results[0], nil, 0) {
									if _, isPhi := r2.Results[0].(*ssa.Phi); !isPhi {
										lf.Guards = P.BlockGuards(b2)
									}
									leaves = append(leaves, lf)
								}
							}
						})
					}
				}
				isToUpper := func(v ssa.Value) bool {
					if v == fn.Params[1] {
						return true
					}
					if hc, isCall := e.(*ssa.Call); isCall && hc.Call.StaticCallee() != nil {
						for i, prm := range hc.Call.StaticCallee().Params {
							if v == ssa.Value(prm) && i < len(hc.Call.Args) && hc.Call.Args[i] == ssa.Value(fn.Params[1]) {
								return true
							}
						}
					}
					return false
				}
				var trimmed ssa.Value
				for _, lf := range leaves {
					v := lf.Val
					isUp := false
					if u := P.CallTo(v, "strings.ToUpper"); u != nil {
						isUp = true
						v = u.Call.Args[0]
					}
					if _, isParam := v.(*ssa.Parameter); isParam {
						if rs := P.Resolve(v); len(rs) == 1 {
							v = rs[0]
						}
					}
					ts := P.CallTo(v, "strings.TrimSpace")
					if ts == nil {
						okAll, why = false, "item is not TrimSpace(part): "+short(P.Desc(lf.Val))
						continue
					}
					trimmed = ts
					if !strings.HasPrefix(P.Desc(ts.Call.Args[0]), "elem(call(strings.Split; ") || !strings.HasSuffix(P.Desc(ts.Call.Args[0]), ", const(\",\")))") {
						okAll, why = false, "item is not a part of strings.Split(input, \",\")"
					}
					upGuard := hasLit(lf.Guards, func(l Lit) bool { return l.Kind == "cond" && l.Val != nil && isToUpper(l.Val) && l.Pos })
					noUpGuard := hasLit(lf.Guards, func(l Lit) bool { return l.Kind == "cond" && l.Val != nil && isToUpper(l.Val) && !l.Pos })
					if isUp && !upGuard {
						okAll, why = false, "upper-casing is not controlled by the toUpper parameter"
					}
					if !isUp && len(leaves) > 1 && !noUpGuard {
						okAll, why = false, "non-upper-cased item is used although toUpper may be set"
					}
				}
				if len(leaves) != 2 {
					okAll, why = false, "item is not selected between trimmed and ToUpper(trimmed) by the toUpper parameter"
				}
				// empty dropped
				if trimmed != nil {
					drop := hasLit(P.BlockGuards(b), func(l Lit) bool {
						return l.Kind == "eq" && !l.Pos && ((P.Desc(l.X) == `const("")` && P.Desc(l.Y) == P.Desc(trimmed)) || (P.Desc(l.Y) == `const("")` && P.Desc(l.X) == P.Desc(trimmed)))
					})
					if !drop {
						okAll, why = false, "empty items are not dropped"
					}
					// ... and nothing else is: "empty items dropped" is the only filter of the statement
					for _, l := range P.BlockGuards(b) {
						switch {
						case l.Kind == "rangeloop" || l.Kind == "rangefunc":
						case l.Kind == "lt" && l.Pos: // counting loop over the parts
						case l.Kind == "cond" && l.Val == ssa.Value(fn.Params[1]):
						case l.Kind == "eq" && (P.Desc(l.X) == `const("")` || P.Desc(l.Y) == `const("")`):
						default:
							okAll, why = false, "an item is also dropped under "+short(l.String())+" (only empty items may be dropped: the effective list is the list that was written)"
						}
					}
				}
			}
		})
		// every returned list is that item-wise built list (or the empty list for the empty string)
		allInstrs(fn, func(b *ssa.BasicBlock, ins ssa.Instruction) {
			r, ok := ins.(*ssa.Return)
			if !ok || len(r.Results) != 1 {
				return
			}
			seen := map[ssa.Value]bool{}
			var walk func(v ssa.Value)
			walk = func(v ssa.Value) {
				if seen[v] {
					return
				}
				seen[v] = true
				switch x := v.(type) {
				case *ssa.Phi:
					for _, e := range x.Edges {
						walk(e)
					}
				case *ssa.MakeSlice:
				case *ssa.Call:
					if bi, isB := x.Call.Value.(*ssa.Builtin); isB && bi.Name() == "append" {
						walk(x.Call.Args[0])
						return
					}
					okAll, why = false, "returns a list that is not built item by item: "+short(P.Desc(v))
				case *ssa.Slice:
					// literal: only the empty one, for the empty input
					if len(c.sliceLitElems(x)) != 0 || !hasLit(P.BlockGuards(b), func(l Lit) bool {
						return l.Kind == "eq" && l.Pos && (P.Desc(l.X) == `const("")` || P.Desc(l.Y) == `const("")`)
					}) {
						okAll, why = false, "returns a literal list that bypasses trimming / dropping of empty items: "+short(P.Desc(v))
					}
				default:
					okAll, why = false, "returns "+short(P.Desc(v))
				}
			}
			walk(r.Results[0])
		})
		c.check(okAll && nApp == 1, "CONFIG/LIST", "config.parseStringList", P.Pos(fn.Pos()), "split on commas, trim, drop empty, upper-case iff requested", "parseStringList: "+why)
	} else {
		c.fail("CONFIG/LIST", "config.parseStringList", "", "function not found")
	}
	if fn := P.LookupFunc("config", "parseBool"); fn != nil {
		norm := "call(strings.ToLower; call(strings.TrimSpace; " + P.Desc(fn.Params[0]) + "))"
		okAll := true
		why := ""
		n := 0
		allInstrs(fn, func(b *ssa.BasicBlock, ins ssa.Instruction) {
			r, ok := ins.(*ssa.Return)
			if !ok || len(r.Results) != 1 {
				return
			}
			n++
			d := P.Desc(r.Results[0])
			g := P.BlockGuards(b)
			errNil := func(l Lit) bool {
				v := nilCheckedValue(l)
				return v != nil && strings.HasPrefix(P.Desc(v), "extract1(call(strconv.ParseBool; "+norm)
			}
			switch {
			case strings.HasPrefix(d, "extract0(call(strconv.ParseBool; "+norm):
				if !hasLit(g, func(l Lit) bool { return l.Pos && errNil(l) }) {
					okAll, why = false, "ParseBool result is used although it reported an error"
				}
			default:
				// (s == "yes" || s == "on") under err != nil
				f := P.condFormula(r.Results[0], 0)
				key := formulaKey(f)
				want1 := `or(eq(` + norm + `, const("yes")), eq(` + norm + `, const("on")))`
				want2 := `or(eq(const("yes"), ` + norm + `), eq(const("on"), ` + norm + `))`
				k2 := strings.ReplaceAll(key, " ", "")
				okYes := strings.Contains(k2, `const("yes")`) && strings.Contains(k2, `const("on")`) && strings.HasPrefix(key, "or(") && strings.Count(key, "eq(") == 2 && strings.Count(key, norm) == 2
				_ = want1
				_ = want2
				if !okYes {
					okAll, why = false, "fallback is not exactly `s == \"yes\" || s == \"on\"` on the trimmed, lower-cased value: "+short(key)
				}
				if !hasLit(g, func(l Lit) bool { return !l.Pos && errNil(l) }) {
					okAll, why = false, "yes/on fallback is not restricted to values strconv.ParseBool rejects"
				}
			}
		})
		c.check(okAll && n == 2, "CONFIG/BOOL", "config.parseBool", P.Pos(fn.Pos()), "ParseBool(lower(trim(s))) else s in {yes,on}", "parseBool: "+why)
	} else {
		c.fail("CONFIG/BOOL", "config.parseBool", "", "function not found")
	}
}

// ruleConfigWiring: the analyzer that owns the flags is named "config", its Flags are CreateFlagSet(), its Run
// parses &pass.Analyzer.Flags exactly once (sync.Once) and returns the cached value.
func (c *Ctx) ruleConfigWiring() {
	P := c.P
	var cfgA *AnalyzerInfo
	for _, a := range c.M.Analyzers {
		if a.Flags != nil {
			cfgA = a
		}
	}
	if cfgA == nil {
		c.fail("CONFIG/WIRING", "analyzer with Flags", "", "no analyzer declares Flags")
		return
	}
	c.check(cfgA.Name == "config", "CONFIG/WIRING", cfgA.VarName+"#name", P.Pos(cfgA.Pos), "analyzer is named \"config\" (flags are --config.<name>)", "the analyzer owning the flags is named "+cfgA.Name+": the documented --config.* flags do not exist")
	c.check(types.ExprString(cfgA.Flags) == "*config.CreateFlagSet()", "CONFIG/WIRING", cfgA.VarName+"#flags", P.Pos(cfgA.Pos), "Flags: *config.CreateFlagSet()", "Flags is "+types.ExprString(cfgA.Flags))
	// Run: the returned value's origins: global cachedConfig, stored only in the Once closure with ParseFlagsFromFlagSet(&pass.Analyzer.Flags)
	if cfgA.RunSSA == nil {
		return
	}
	var stores []string
	okStore := true
	for _, fn := range P.ModFuncs {
		allInstrs(fn, func(b *ssa.BasicBlock, ins ssa.Instruction) {
			st, ok := ins.(*ssa.Store)
			if !ok {
				return
			}
			g, ok := st.Addr.(*ssa.Global)
			if !ok || g.Name() != "cachedConfig" {
				return
			}
			if fn.Name() == "init" {
				return
			}
			d := P.Desc(st.Val)
			stores = append(stores, d)
			if !(strings.HasPrefix(d, "call(config.ParseFlagsFromFlagSet; &field(field(") && strings.Contains(d, "analysis.Pass.Analyzer") && strings.HasSuffix(d, "analysis.Analyzer.Flags))")) {
				okStore = false
			}
			// inside a closure passed to (*sync.Once).Do
			mc := P.closureSite(fn)
			inOnce := false
			if mc != nil {
				if call, _ := closurePassedTo(mc); call != nil && P.calleeName(call.Common()) == "(*sync.Once).Do" {
					inOnce = true
				}
			}
			if !inOnce {
				okStore = false
			}
		})
	}
	c.check(okStore && len(stores) == 1, "CONFIG/WIRING", cfgA.VarName+"#run", P.Pos(cfgA.RunSSA.Pos()), "config = ParseFlagsFromFlagSet(&pass.Analyzer.Flags), computed once", fmt.Sprintf("the effective configuration is not ParseFlagsFromFlagSet(&pass.Analyzer.Flags) computed under sync.Once: %v", stores))
}

// ruleExcludeFlow: C08 FLOW — exclude-checks of the real configuration reaches the ignore set that is returned.
func (c *Ctx) ruleExcludeFlow() {
	P := c.P
	fn := P.LookupFunc("ignore", "ReadIgnoreAnnotations")
	if fn == nil {
		c.fail("EXCLUDE-FLOW", "ignore.ReadIgnoreAnnotations", "", "function not found")
		return
	}
	var add *ssa.Call
	allInstrs(fn, func(b *ssa.BasicBlock, ins ssa.Instruction) {
		if call, ok := ins.(*ssa.Call); ok && call.Call.StaticCallee() != nil && FuncName(call.Call.StaticCallee()) == "(*util.IgnoreSet).AddModuleIgnore" {
			add = call
		}
	})
	if add == nil {
		c.fail("EXCLUDE-FLOW", FuncName(fn), P.Pos(fn.Pos()), "exclude-checks is never added to the ignore set (no AddModuleIgnore call)")
		return
	}
	where := P.Pos(add.Pos())
	d := P.Desc(add.Call.Args[1])
	okSrc := strings.HasPrefix(d, "field(typeassert(lookup(field(") && strings.Contains(d, "global(analyzer.ConfigReader)); *config.Config).config.Config.ExcludeChecks)")
	c.check(okSrc, "EXCLUDE-FLOW/SOURCE", FuncName(fn), where, "tokens = ExcludeChecks of ResultOf[ConfigReader]", "the global tokens are not the ExcludeChecks of the effective configuration: "+short(d))
	// same set as returned
	sameSet := false
	allInstrs(fn, func(b *ssa.BasicBlock, ins ssa.Instruction) {
		if r, ok := ins.(*ssa.Return); ok && len(r.Results) == 1 {
			if P.Desc(r.Results[0]) == P.Desc(add.Call.Args[0]) {
				sameSet = true
			}
		}
	})
	c.check(sameSet, "EXCLUDE-FLOW/SET", FuncName(fn), where, "added to the set that is returned", "exclude-checks is added to a different set than the one returned to the analyzers")
	var extra []string
	for _, l := range P.BlockGuards(add.Block()) {
		if lenCheck(l) && strings.Contains(P.Desc(l.X)+P.Desc(l.Y), "config.Config.ExcludeChecks") {
			continue
		}
		if nilCheck(l) {
			continue
		}
		extra = append(extra, short(l.String()))
	}
	c.check(len(extra) == 0, "EXCLUDE-FLOW/UNCONDITIONAL", FuncName(fn), where, "added whenever the list is non-empty", "exclude-checks is applied only under "+strings.Join(extra, "; "))
	// before the file loop (so that a package without files/comments is covered as well)
	// every analyzer obtains its ignore set from this function
	n := 0
	for _, a := range c.M.Analyzers {
		if a.RunSSA == nil {
			continue
		}
		for _, u := range c.resultOfUses(a.RunSSA) {
			if u.Var != nil && u.Var.Name() == "IgnoreReader" {
				n++
			}
		}
	}
	c.floor("checker analyzers reading ResultOf[IgnoreReader]", n, 5)
}

// ruleCfgSrc: C14 CFG-SRC — every use of the file filter / exclude list in an analyzer is on ResultOf[ConfigReader].
func (c *Ctx) ruleCfgSrc() {
	P := c.P
	n := 0
	for _, fn := range P.ModFuncs {
		if strings.HasPrefix(FuncName(fn), "(*config.Config)") || strings.HasPrefix(FuncName(fn), "config.") {
			continue
		}
		allInstrs(fn, func(b *ssa.BasicBlock, ins ssa.Instruction) {
			call, ok := ins.(*ssa.Call)
			if !ok || call.Call.StaticCallee() == nil {
				return
			}
			cn := FuncName(call.Call.StaticCallee())
			if cn != "(*config.Config).FilterFiles" && cn != "(*config.Config).ShouldSkipFile" {
				return
			}
			n++
			d := P.Desc(call.Call.Args[0])
			okC := strings.HasPrefix(d, "typeassert(lookup(field(") && strings.Contains(d, "analysis.Pass.ResultOf); global(analyzer.ConfigReader)); *config.Config)")
			c.check(okC, "CFG-SRC", FuncName(fn), P.Pos(call.Pos()), "files are filtered with the effective configuration", "files are filtered with a configuration that is not pass.ResultOf[ConfigReader]: "+short(d))
			// the pass handed to the filter is the analyzer's own pass
			pd := P.Desc(call.Call.Args[1])
			c.check(strings.HasPrefix(pd, "param(analyzer.run"), "CFG-SRC/PASS", FuncName(fn), P.Pos(call.Pos()), "filter is applied to the files of the current pass", "filter is applied to another pass: "+short(pd))
		})
	}
	c.floor("FilterFiles use sites", n, 6)
}

// ruleOneFilter: C14 ONE-FILTER — pass.Files is read in exactly one place, the filter; the filter yields a file
// iff ShouldSkipFile is false and visits every file.
func (c *Ctx) ruleOneFilter() {
	P := c.P
	n := 0
	for _, fn := range P.ModFuncs {
		allInstrs(fn, func(b *ssa.BasicBlock, ins ssa.Instruction) {
			fa, ok := ins.(*ssa.FieldAddr)
			if !ok || typeStr(deref(fa.X.Type())) != "golang.org/x/tools/go/analysis.Pass" {
				return
			}
			if deref(fa.X.Type()).Underlying().(*types.Struct).Field(fa.Field).Name() != "Files" {
				return
			}
			n++
			c.check(strings.HasPrefix(FuncName(fn), "(*config.Config).FilterFiles"), "ONE-FILTER", FuncName(fn), P.Pos(fa.Pos()), "pass.Files is read by the filter only",
				"pass.Files is read outside Config.FilterFiles: annotations, @ignore comments or violations of excluded files (tests, exclude-paths) become visible")
		})
	}
	c.floor("reads of pass.Files", n, 1)
	ff := P.LookupFunc("config", "Config.FilterFiles")
	if ff == nil || len(ff.AnonFuncs) != 1 {
		c.fail("ONE-FILTER/SHAPE", "config.Config.FilterFiles", "", "filter (with one iterator literal) not found")
		return
	}
	it := ff.AnonFuncs[0]
	// the filter hands out that iterator and nothing else (no unfiltered view of pass.Files on some path)
	nret := 0
	allInstrs(ff, func(b *ssa.BasicBlock, ins ssa.Instruction) {
		r, ok := ins.(*ssa.Return)
		if !ok || len(r.Results) != 1 {
			return
		}
		nret++
		okRet := P.RootsAll(r.Results[0], func(v ssa.Value) bool {
			for {
				if ct, isCT := v.(*ssa.ChangeType); isCT {
					v = ct.X
					continue
				}
				break
			}
			mc, isMC := v.(*ssa.MakeClosure)
			return isMC && mc.Fn == ssa.Value(it)
		})
		c.check(okRet, "ONE-FILTER/RETURNS", fmt.Sprintf("%s#return%d", FuncName(ff), nret), P.Pos(r.Pos()), "the filter returns its filtering iterator",
			"the filter returns something other than its filtering iterator on this path ("+short(P.Desc(r.Results[0]))+"): files that ShouldSkipFile excludes (tests, exclude-paths) are handed to the readers and checkers")
	})
	yield := it.Params[0]
	ny := 0
	allInstrs(it, func(b *ssa.BasicBlock, ins ssa.Instruction) {
		call, ok := ins.(*ssa.Call)
		if !ok || call.Call.Value != yield {
			return
		}
		ny++
		fd := P.Desc(call.Call.Args[0])
		okElem := strings.HasPrefix(fd, "elem(field(") && strings.HasSuffix(fd, "analysis.Pass.Files))")
		var skipOK bool
		var extra []string
		for _, l := range P.BlockGuards(b) {
			if l.Kind == "rangeloop" {
				continue
			}
			if sc := litCall(l); sc != nil && !l.Pos && sc.Call.StaticCallee() != nil && FuncName(sc.Call.StaticCallee()) == "(*config.Config).ShouldSkipFile" {
				// asked about the yielded file itself (the *ast.File argument; a file name computed by the
				// caller has to be a name of that file)
				for _, a := range sc.Call.Args[1:] {
					if typeStr(a.Type()) == "*go/ast.File" && P.Desc(a) == fd {
						skipOK = true
					}
					if d := P.Desc(a); typeStr(a.Type()) == "string" && strings.Contains(d, "call((*go/ast.File).Pos; "+fd+")") && strings.HasSuffix(d, "go/token.Position.Filename)") {
						skipOK = true // the file's name, computed here (which of its names: SKIP-SHAPE/OWN-NAME)
					}
				}
				if skipOK {
					continue
				}
			}
			extra = append(extra, short(l.String()))
		}
		c.check(okElem && skipOK && len(extra) == 0, "ONE-FILTER/SHAPE", FuncName(ff), P.Pos(call.Pos()), "yields each element of pass.Files iff !c.ShouldSkipFile(pass, file)",
			fmt.Sprintf("the filter does not yield exactly the files for which ShouldSkipFile is false [elem:%v skip:%v extra:%v]", okElem, skipOK, extra))
		// loop left only when the consumer stops
		loop := loopOf(b)
		okExit := loop != nil
		if loop != nil {
			g := P.guardsOf(it)
			for lb := range loop {
				for _, s := range lb.Succs {
					if loop[s] || lb.Comment == "rangeindex.loop" {
						continue
					}
					// for i := 0; i < len(files); i++: the head of a full counting loop over the files
					if ifi, isIf := lastInstr(lb).(*ssa.If); isIf {
						if bo, isB := ifi.Cond.(*ssa.BinOp); isB && bo.Op == token.LSS && fullIndexLoopBound(bo.X) != nil && lb.Succs[1] == s {
							continue
						}
					}
					just := false
					for _, l := range g.edgeLits[edge{lb, s}] {
						if sc := litCall(l); sc != nil && sc.Call.Value == yield && !l.Pos {
							just = true
						}
					}
					if !just {
						okExit = false
					}
				}
			}
		}
		c.check(okExit, "ONE-FILTER/ALL-FILES", FuncName(ff), P.Pos(call.Pos()), "every file of the pass is considered", "the filter loop can stop before the last file for a reason other than the consumer stopping")
	})
	c.check(ny == 1, "ONE-FILTER/SHAPE", FuncName(ff)+"#yields", P.Pos(ff.Pos()), "one yield site", fmt.Sprintf("%d yield sites in the filter", ny))
}

func (P *Program) resolveOne(ins ssa.Instruction, top *ssa.Function) ssa.Value { return nil }

// ruleSkipShape: C14 SKIP-SHAPE — ShouldSkipFile is true iff the file name contains an exclude-paths entry, or
// scan-tests is off and the name ends in _test.go; the name is that of the file itself.
func (c *Ctx) ruleSkipShape() {
	P := c.P
	fn := P.LookupFunc("config", "Config.ShouldSkipFile")
	if fn == nil {
		c.fail("SKIP-SHAPE", "config.Config.ShouldSkipFile", "", "method not found")
		return
	}
	name := FuncName(fn)
	// the file asked about: the *ast.File parameter; when the caller hands in a name instead, the name is followed to
	// the callers (a parameter is described by its arguments) and has to be the name of some file there
	fileD := ""
	for _, prm := range fn.Params[1:] {
		if typeStr(prm.Type()) == "*go/ast.File" {
			fileD = P.Desc(prm) + ")"
		}
	}
	adjusted := ""
	isFilename := func(v ssa.Value) bool {
		d := P.Desc(v)
		okShape := strings.HasPrefix(d, "field(call((*go/token.FileSet).Position") && strings.Contains(d, "call((*go/ast.File).Pos; "+fileD) && strings.HasSuffix(d, "go/token.Position.Filename)")
		if !okShape && strings.HasPrefix(d, "{") && strings.HasSuffix(d, "}") {
			// the name itself chosen between two positions of the same file
			okShape = true
			for _, alt := range splitTopLevel(d[1:len(d)-1], '|') {
				if !(strings.HasPrefix(alt, "field(call((*go/token.FileSet).Position") && strings.Contains(alt, "call((*go/ast.File).Pos; "+fileD) && strings.HasSuffix(alt, "go/token.Position.Filename)")) {
					okShape = false
				}
			}
		}
		if !okShape && strings.HasPrefix(d, "field({") && strings.HasSuffix(d, "}.go/token.Position.Filename)") {
			// one of several positions of the same file (the own name; the adjusted one for a cgo copy)
			okShape = true
			for _, alt := range splitTopLevel(strings.TrimSuffix(strings.TrimPrefix(d, "field({"), "}.go/token.Position.Filename)"), '|') {
				if !(strings.HasPrefix(alt, "call((*go/token.FileSet).Position") && strings.Contains(alt, "call((*go/ast.File).Pos; "+fileD)) {
					okShape = false
				}
			}
		}
		if !okShape {
			return false
		}
		if !c.unadjustedPosition(v) {
			adjusted = P.Pos(v.Pos())
		}
		return true
	}
	defer func() {
		if c.Prop == "C18" {
			return // C18 is about where the values come from, not about which name they are applied to
		}
		// (found as D40) the go command analyses the copy cmd/cgo makes of a file that imports "C": that copy lives
		// in the build cache and names its source in a //line directive - for it, and only for it, the adjusted name
		// is the file's name
		c.check(c.cgoNameSeen, "SKIP-SHAPE/CGO-NAME", name, P.Pos(fn.Pos()), "for a cgo copy the name tested is the one its //line directive gives",
			"a file that imports \"C\" is judged by the name of cmd/cgo's copy in the build cache: it is never excluded by its path (and its annotations and diagnostics stay although the file is excluded)")
		c.check(adjusted == "", "SKIP-SHAPE/OWN-NAME", name, adjusted, "the name tested is the file's own (PositionFor(file.Pos(), false).Filename)",
			"the exclusion is decided on FileSet.Position(file.Pos()).Filename, which a //line directive before the package clause replaces: a file can rename itself into (or out of) an excluded path or a _test.go name")
	}()
	isExcl := func(l Lit) bool {
		call := P.litCallTo(l, "strings.Contains")
		if call == nil {
			return false
		}
		ed := P.Desc(call.Call.Args[1])
		return isFilename(call.Call.Args[0]) && strings.HasPrefix(ed, "elem(field(") && strings.HasSuffix(ed, "config.Config.ExcludePaths))")
	}
	isScan := func(l Lit) bool {
		return l.Kind == "cond" && l.Val != nil && P.RootsAll(l.Val, func(r ssa.Value) bool { return fieldLoad(r, "config.Config", "ScanTests") != nil })
	}
	isTestSuffix := func(l Lit) bool {
		call := P.litCallTo(l, "strings.HasSuffix")
		return call != nil && isFilename(call.Call.Args[0]) && constArg(call.Call.Args[1]) == "_test.go"
	}
	var nExcl, nTest, nFalse int
	// "every exclude path was tried": the point after the loop over ExcludePaths - in ShouldSkipFile or in the
	// helper that holds the loop
	var loopDones []*ssa.BasicBlock
	for _, f := range P.StaticClosure(fn) {
		if f != fn && (P.isAnchor(f) || f.Parent() != nil) {
			continue
		}
		for _, b := range f.Blocks {
			if b.Comment == "rangeindex.done" || b.Comment == "for.done" {
				loopDones = append(loopDones, b)
			}
		}
	}
	afterLoop := func(o outcome) bool {
		for _, ld := range loopDones {
			if ld.Parent() == o.At.Parent() && dominates(ld, o.At.Block()) {
				return true
			}
			for _, v := range o.Via {
				if ld.Parent() == v.Parent() && dominates(ld, v.Block()) {
					return true
				}
			}
		}
		return false
	}
	for i, o := range c.outcomes(fn) {
		cons := fmt.Sprintf("%s#outcome%d", name, i)
		where := P.Pos(o.At.Pos())
		cv, isC := constBool(o.Val)
		if !isC {
			c.fail("SKIP-SHAPE", cons, where, "ShouldSkipFile returns a computed value "+short(P.Desc(o.Val))+" that is not one of the two documented reasons")
			continue
		}
		g := o.Guards
		if cv {
			byPath := hasLit(g, func(l Lit) bool { return l.Pos && isExcl(l) })
			byTest := hasLit(g, func(l Lit) bool { return !l.Pos && isScan(l) }) && hasLit(g, func(l Lit) bool { return l.Pos && isTestSuffix(l) })
			var extra []string
			for _, l := range g {
				if l.Kind == "rangeloop" || nilCheck(l) || isExcl(l) || isScan(l) || isTestSuffix(l) {
					continue
				}
				if (l.Kind == "and" || l.Kind == "or") && allSubs(l, func(s Lit) bool { return isScan(s) || isTestSuffix(s) || isExcl(s) }) {
					continue
				}
				extra = append(extra, short(l.String()))
			}
			switch {
			case byPath && len(extra) == 0:
				nExcl++
				c.ok("SKIP-SHAPE/EXCLUDE-PATH", cons, where, "skipped: file name contains an element of ExcludePaths")
			case byTest && len(extra) == 0 && afterLoop(o):
				nTest++
				c.ok("SKIP-SHAPE/TEST-FILE", cons, where, "skipped: scan-tests off and name ends in _test.go")
			default:
				c.fail("SKIP-SHAPE", cons, where, fmt.Sprintf("a file is skipped for another reason than an exclude-paths match or (!ScanTests && *_test.go) [byPath:%v byTest:%v extra:%v]", byPath, byTest, extra))
			}
			continue
		}
		// false: only after every exclude path was tried, and only if ScanTests || !suffix
		after := afterLoop(o)
		keepPred := func(l Lit) bool {
			return litImplies(l, func(l Lit) bool { return (l.Pos && isScan(l)) || (!l.Pos && isTestSuffix(l)) })
		}
		cut := P.BlockCutBy(o.At.Block(), keepPred) || hasLit(g, keepPred)
		nFalse++
		c.check(after && cut, "SKIP-SHAPE/KEEP", cons, where, "kept only after all exclude paths were tried and (ScanTests || not a test file)",
			"a file is kept (not skipped) without trying every exclude-paths entry or although it is a test file with scan-tests off")
	}
	c.check(nExcl == 1 && nTest == 1 && nFalse >= 1, "SKIP-SHAPE/COMPLETE", name, P.Pos(fn.Pos()), "exclude-path skip, test-file skip, keep", fmt.Sprintf("ShouldSkipFile does not have exactly the outcomes {exclude-path skip, test-file skip, keep}: %d/%d/%d", nExcl, nTest, nFalse))
	// the exclude loop runs over all entries (no early exit except the match)
	c.ruleIterOne(fn)
}

func isStringConst(v ssa.Value) bool {
	cs, ok := v.(*ssa.Const)
	return ok && cs.Value != nil && cs.Value.Kind() == constant.String
}

func allSubs(l Lit, pred func(Lit) bool) bool {
	if len(l.Subs) == 0 {
		return false
	}
	for _, s := range l.Subs {
		if !pred(s) {
			return false
		}
	}
	return true
}

func (c *Ctx) ruleIterOne(fn *ssa.Function) {}

// unadjustedPosition: every origin of v (a field of a token.Position) is read from
// FileSet.PositionFor(p, false): the position is not subject to //line directives.
func (c *Ctx) unadjustedPosition(v ssa.Value) bool {
	P := c.P
	isFor := func(q ssa.Value) bool {
		pc := P.CallTo(q, "(*go/token.FileSet).PositionFor")
		if pc == nil {
			return false
		}
		cv, isC := constBool(pc.Call.Args[2])
		if !isC {
			// `PositionFor(pos, isCgoCopy(file))`: adjusted exactly for the copies cmd/cgo makes
			if P.RootsAll(pc.Call.Args[2], func(a ssa.Value) bool {
				if hp := P.CallTo(a, "strings.HasPrefix"); hp != nil {
					return strings.HasPrefix(constArg(hp.Call.Args[1]), "// Code generated by cmd/cgo") && strings.Contains(P.Desc(hp.Call.Args[0]), "go/ast.Comment.Text)")
				}
				ac, isCall := a.(*ssa.Call)
				return isCall && ac.Call.StaticCallee() != nil && c.isCgoCopyPredicate(ac.Call.StaticCallee())
			}) {
				c.cgoNameSeen = true
				return true
			}
			return false
		}
		return !cv
	}
	// the adjusted position, for the copy cmd/cgo makes of a file only (it lives in the build cache; its //line
	// directive names the file it was made from): computed, or assigned, under the test for such a copy
	cgoGuarded := func(b *ssa.BasicBlock) bool {
		return hasLit(P.BlockGuards(b), func(l Lit) bool {
			call := litCall(l)
			if call == nil || !l.Pos {
				return false
			}
			// the test itself (a helper's answer is expanded into the conditions it stands for) ...
			if hp := P.litCallTo(l, "strings.HasPrefix"); hp != nil {
				isHeader := P.RootsAll(hp.Call.Args[1], func(a ssa.Value) bool { return strings.HasPrefix(constArg(a), "// Code generated by cmd/cgo") })
				return isHeader && strings.Contains(P.Desc(hp.Call.Args[0]), "go/ast.Comment.Text)")
			}
			// ... or a predicate that is not looked into
			return c.isCgoCopyPredicate(call.Call.StaticCallee())
		})
	}
	isAdjustedForCgo := func(q ssa.Value, at *ssa.BasicBlock) bool {
		var pc *ssa.Call
		if x := P.CallTo(q, "(*go/token.FileSet).PositionFor"); x != nil {
			if cv, isC := constBool(x.Call.Args[2]); isC && cv {
				pc = x
			}
		} else if x := P.CallTo(q, "(*go/token.FileSet).Position"); x != nil {
			pc = x
		}
		if pc == nil {
			return false
		}
		if cgoGuarded(pc.Block()) || (at != nil && cgoGuarded(at)) {
			c.cgoNameSeen = true
			return true
		}
		return false
	}
	return P.RootsAll(v, func(r ssa.Value) bool {
		var bb ssa.Value
		for _, f := range []string{"Filename", "Line", "Column", "Offset"} {
			if b := fieldLoad(r, "go/token.Position", f); b != nil {
				bb = b
			}
		}
		if bb == nil {
			return false
		}
		if a, ok := bb.(*ssa.Alloc); ok {
			// position := fset.PositionFor(...): a local struct cell
			vals, stores, escaped := P.CellStores(a)
			if escaped || len(vals) == 0 {
				return false
			}
			for i, v := range vals {
				var at *ssa.BasicBlock
				if i < len(stores) {
					at = stores[i].Block()
				}
				if !P.RootsAll(v, func(q ssa.Value) bool { return isFor(q) || isAdjustedForCgo(q, at) }) {
					return false
				}
			}
			return true
		}
		return P.RootsAll(bb, func(q ssa.Value) bool { return isFor(q) || isAdjustedForCgo(q, nil) })
	})
}

// isCgoCopyPredicate: fn answers true only for a file whose first comment starts with cmd/cgo's "Code generated"
// header: every `true` it returns is the value of strings.HasPrefix(<comment text>, "// Code generated by cmd/cgo...").
func (c *Ctx) isCgoCopyPredicate(fn *ssa.Function) bool {
	P := c.P
	if fn == nil || !P.IsProductFunc(fn) || len(fn.Blocks) == 0 {
		return false
	}
	ok, saw := true, false
	allInstrs(fn, func(_ *ssa.BasicBlock, ins ssa.Instruction) {
		r, isR := ins.(*ssa.Return)
		if !isR || len(r.Results) != 1 {
			return
		}
		if cv, isC := constBool(r.Results[0]); isC {
			if cv {
				ok = false
			}
			return
		}
		good := false
		for _, l := range literals(P.condFormula(r.Results[0], 0), true) {
			if call := P.litCallTo(l, "strings.HasPrefix"); call != nil && l.Pos {
				// the prefix: a literal, or a parameter that every caller fills with it
				isHeader := P.RootsAll(call.Call.Args[1], func(a ssa.Value) bool { return strings.HasPrefix(constArg(a), "// Code generated by cmd/cgo") })
				if isHeader && strings.Contains(P.Desc(call.Call.Args[0]), "go/ast.Comment.Text)") {
					good = true
				}
			}
		}
		if good {
			saw = true
		} else {
			ok = false
		}
	})
	return ok && saw
}

// ruleExcludeConsumers (C08, eighth wave): exclude-checks has one consumer - the global tokens of the ignore set,
// asked at the report gate with the violation's own code.
//
//	EXCLUDE-FLOW/ONLY-GATE: the list Config.ExcludeChecks is read only to be copied (config.New / With*), rendered
//	as a flag default (strings.Join), measured (len) and handed to IgnoreSet.AddModuleIgnore; an element that is
//	compared, or the list handed to anything else, is a second consumer: S then changes more than the gate does
//	(annotations not read, walks skipped), so the result is no longer "the unrestricted run minus the matching codes".
//	EXCLUDE-FLOW/PROBE: a question IgnoreSet.Contains(K, <no position>) - "is K excluded for the whole project" -
//	may guard work only when K covers every code that work can report: K is ALL or the one category of all report
//	sites reachable from the function that asks.
func (c *Ctx) ruleExcludeConsumers() {
	P := c.P
	n := 0
	var confined func(v ssa.Value, depth int) string
	confined = func(v ssa.Value, depth int) string {
		if depth > 8 || v.Referrers() == nil {
			return ""
		}
		for _, r := range *v.Referrers() {
			switch u := r.(type) {
			case *ssa.DebugRef:
			case *ssa.Phi:
				if s := confined(u, depth+1); s != "" {
					return s
				}
			case *ssa.ChangeType:
				if s := confined(u, depth+1); s != "" {
					return s
				}
			case *ssa.Slice:
				if u.Low != nil || u.High != nil {
					return "sliced at " + P.Pos(u.Pos())
				}
				if s := confined(u, depth+1); s != "" {
					return s
				}
			case *ssa.Store:
				// into a field of a Config under construction / a local that is then handed on
				if fa, ok := u.Addr.(*ssa.FieldAddr); ok && typeStr(deref(fa.X.Type())) == "config.Config" {
					continue
				}
				return "stored at " + P.Pos(u.Pos())
			case *ssa.BinOp:
				// nil comparison of the list
				if isNilConst(u.X) || isNilConst(u.Y) {
					continue
				}
				return "compared at " + P.Pos(u.Pos())
			case *ssa.Call:
				if bi, ok := u.Call.Value.(*ssa.Builtin); ok {
					switch bi.Name() {
					case "len", "cap":
						continue
					case "append", "copy":
						// a copy of the list: what is done with the copy counts
						if s := confined(u, depth+1); s != "" {
							return s
						}
						continue
					}
				}
				cal := u.Call.StaticCallee()
				if cal == nil {
					return "handed to a dynamic call at " + P.Pos(u.Pos())
				}
				switch FuncName(cal) {
				case "(*util.IgnoreSet).AddModuleIgnore", "config.New", "strings.Join":
					continue
				}
				if strings.HasPrefix(FuncName(cal), "slices.Clone") {
					if s := confined(u, depth+1); s != "" {
						return s
					}
					continue
				}
				return "handed to " + FuncName(cal) + " at " + P.Pos(u.Pos())
			default:
				return fmt.Sprintf("used by %T at %s", r, P.Pos(r.Pos()))
			}
		}
		return ""
	}
	for _, fn := range P.ModFuncs {
		allInstrs(fn, func(b *ssa.BasicBlock, ins ssa.Instruction) {
			var val ssa.Value
			switch x := ins.(type) {
			case *ssa.UnOp:
				fa, ok := x.X.(*ssa.FieldAddr)
				if !ok || x.Op != token.MUL || typeStr(deref(fa.X.Type())) != "config.Config" || fieldName(deref(fa.X.Type()), fa.Field) != "ExcludeChecks" {
					return
				}
				val = x
			case *ssa.Field:
				if typeStr(x.X.Type()) != "config.Config" || fieldName(x.X.Type(), x.Field) != "ExcludeChecks" {
					return
				}
				val = x
			default:
				return
			}
			n++
			cons := fmt.Sprintf("%s#read%d", FuncName(fn), n)
			why := confined(val, 0)
			c.check(why == "", "EXCLUDE-FLOW/ONLY-GATE", cons, P.Pos(ins.Pos()), "the list is only copied, measured, rendered as a flag default or handed to the ignore set",
				"exclude-checks has a second consumer beside the report gate: the list read here is "+why+" - the excluded codes then decide more than which diagnostics are dropped")
		})
	}
	c.floor("reads of Config.ExcludeChecks", n, 3)
	// probes
	covers := func(k, code string) bool {
		if k == "ALL" || k == code {
			return true
		}
		cat := strings.TrimRight(code, "0123456789")
		return k == cat
	}
	for _, fn := range P.ModFuncs {
		if strings.HasPrefix(funcPkgPath(fn), modulePath+"/src/util") {
			continue
		}
		allInstrs(fn, func(b *ssa.BasicBlock, ins ssa.Instruction) {
			call, ok := ins.(*ssa.Call)
			if !ok || call.Call.StaticCallee() == nil || FuncName(call.Call.StaticCallee()) != "(*util.IgnoreSet).Contains" || len(call.Call.Args) < 3 {
				return
			}
			noPos := P.RootsAll(call.Call.Args[2], func(r ssa.Value) bool {
				cs, isC := r.(*ssa.Const)
				return isC && (cs.Value == nil || cs.Value.ExactString() == "0")
			})
			if !noPos {
				return // a gate with a position: IGNORE-GATE / REPORT-GATE
			}
			var ks []string
			okK := true
			for _, r := range P.Resolve(call.Call.Args[1]) {
				if s := constString(r); s != "" {
					ks = append(ks, s)
				} else {
					okK = false
				}
			}
			top := fn
			for top.Parent() != nil {
				top = top.Parent()
			}
			inClosure := map[*ssa.Function]bool{}
			for _, f := range P.StaticClosure(top) {
				inClosure[f] = true
			}
			var uncovered []string
			seen := map[string]bool{}
			for _, s := range c.M.Sites {
				if s.Fn == nil || !inClosure[s.Fn] || s.Code == "" || seen[s.Code] {
					continue
				}
				for _, k := range ks {
					if !covers(k, s.Code) {
						seen[s.Code] = true
						uncovered = append(uncovered, s.Code)
						break
					}
				}
			}
			sort.Strings(uncovered)
			cons := fmt.Sprintf("%s#Contains(%s, NoPos)", FuncName(fn), strings.Join(ks, "|"))
			c.check(okK && len(uncovered) == 0, "EXCLUDE-FLOW/PROBE", cons, P.Pos(call.Pos()), "the token asked about covers every code the guarded work can report",
				fmt.Sprintf("the checker asks whether %v is excluded for the whole project and decides about work that reports %v as well: excluding the one removes the others (a code acts like its category, or one category like another)", ks, uncovered))
		})
	}
}

// splitTopLevel splits a descriptor at sep where sep is not nested in brackets of any kind.
func splitTopLevel(s string, sep byte) []string {
	var out []string
	depth, start := 0, 0
	for i := 0; i < len(s); i++ {
		switch s[i] {
		case '(', '{', '[':
			depth++
		case ')', '}', ']':
			depth--
		default:
			if s[i] == sep && depth == 0 {
				out = append(out, s[start:i])
				start = i + 1
			}
		}
	}
	return append(out, s[start:])
}
