package main

// C19 (partial): the structural and linear clauses of "excerpt and caret".
//
// Decided here: which source line a rendered excerpt line shows and under which number (NUMBERING, SOURCE), that the
// window is a contiguous run of lines that contains the reported line whenever that line exists (CONTIGUOUS,
// CONTAINS-LINE), that an empty excerpt is returned only for an unreadable file or a missing line (DEGRADE), that
// the caret line is written under the excerpt line whose number is the diagnostic's line and is computed from that
// same line and the diagnostic's column (CARET-LINE), and that a displayed line is never longer than the display
// limit plus two ellipsis markers (BOUNDED, linear arithmetic over the dominating conditions of each return).
// NOT decided: that the caret column computed by calculateDisplayColumn points at the reported character after
// truncation - a relation between the arithmetic of two functions over all lengths and columns.

import (
	"fmt"
	"go/token"
	"go/types"
	"os"
	"strings"

	"golang.org/x/tools/go/ssa"
)

// oneElemAppend: st is `x.f = append(x.f, e)` with exactly one appended element; returns e.
func oneElemAppend(st *ssa.Store) (elem ssa.Value, fa *ssa.FieldAddr, ok bool) {
	fa, isFA := st.Addr.(*ssa.FieldAddr)
	if !isFA {
		return nil, nil, false
	}
	call, isCall := st.Val.(*ssa.Call)
	if !isCall {
		return nil, nil, false
	}
	if b, isB := call.Call.Value.(*ssa.Builtin); !isB || b.Name() != "append" || len(call.Call.Args) != 2 {
		return nil, nil, false
	}
	ld, isLd := call.Call.Args[0].(*ssa.UnOp)
	if !isLd || ld.Op != token.MUL {
		return nil, nil, false
	}
	fa0, isFA0 := ld.X.(*ssa.FieldAddr)
	if !isFA0 || fa0.X != fa.X || fa0.Field != fa.Field {
		return nil, nil, false
	}
	sl, isSl := call.Call.Args[1].(*ssa.Slice)
	if !isSl {
		return nil, nil, false
	}
	arr, isA := sl.X.(*ssa.Alloc)
	if !isA || arr.Referrers() == nil {
		return nil, nil, false
	}
	if at, isArr := deref(arr.Type()).Underlying().(*types.Array); !isArr || at.Len() != 1 {
		return nil, nil, false
	}
	for _, r := range *arr.Referrers() {
		ia, isIA := r.(*ssa.IndexAddr)
		if !isIA || ia.Referrers() == nil {
			continue
		}
		for _, r2 := range *ia.Referrers() {
			if s2, isSt := r2.(*ssa.Store); isSt && s2.Addr == ia {
				return s2.Val, fa, true
			}
		}
	}
	return nil, nil, false
}

func (c *Ctx) newLin(b *ssa.BasicBlock) *linCtx {
	top := b.Parent()
	for top.Parent() != nil {
		top = top.Parent()
	}
	trust := top.Object() == nil || !top.Object().Exported()
	lc := &linCtx{c: c, P: c.P, vars: map[ssa.Value]linExpr{}, trust: trust}
	lc.blockFacts(b)
	return lc
}

func (c *Ctx) ruleExcerpt() {
	P := c.P
	fmtFn := P.LookupFunc("reporting", "Reporter.formatPrettyError")
	if fmtFn == nil {
		c.fail("EXCERPT", "reporting.Reporter.formatPrettyError", "", "function not found")
		return
	}
	c.ruleExcerptSamePosition()
	// ---- the window: appends to sourceLines.content / .lineNumbers
	type site struct {
		b        *ssa.BasicBlock
		base     ssa.Value
		line     ssa.Value // appended to content
		num      ssa.Value // appended to lineNumbers
		st       *ssa.Store
		fn       *ssa.Function
		contentF int
	}
	var sites []site
	for _, fn := range P.ModFuncs {
		allInstrs(fn, func(b *ssa.BasicBlock, ins ssa.Instruction) {
			st, ok := ins.(*ssa.Store)
			if !ok {
				return
			}
			ev, fa, ok := oneElemAppend(st)
			if !ok || typeStr(deref(fa.X.Type())) != "reporting.sourceLines" || fieldName(deref(fa.X.Type()), fa.Field) != "content" {
				return
			}
			s := site{b: b, base: fa.X, line: ev, st: st, fn: fn, contentF: fa.Field}
			for _, i2 := range b.Instrs {
				if st2, ok := i2.(*ssa.Store); ok {
					if ev2, fa2, ok := oneElemAppend(st2); ok && fa2.X == fa.X && fieldName(deref(fa2.X.Type()), fa2.Field) == "lineNumbers" {
						s.num = ev2
					}
				}
			}
			sites = append(sites, s)
		})
	}
	nSlice := c.ruleExcerptSliceWindow()
	c.floor("appends to the excerpt window (sourceLines.content)", len(sites)+nSlice, 1)
	for i, s := range sites {
		cons := fmt.Sprintf("%s#append%d", FuncName(s.fn), i+1)
		where := P.Pos(s.st.Pos())
		wf := s.fn
		// SOURCE + NUMBERING
		ld, ok := s.line.(*ssa.UnOp)
		var ia *ssa.IndexAddr
		if ok && ld.Op == token.MUL {
			ia, _ = ld.X.(*ssa.IndexAddr)
		}
		if ia == nil || s.num == nil {
			c.fail("EXCERPT/NUMBERING", cons, where, "an excerpt line is not `lines[i]` appended together with its number")
			continue
		}
		// the lines may be visited through a sub-slice (for k, text := range lines[first:last+1]): the element is
		// lines[first+k]
		srcBase := ia.X
		var subLo ssa.Value
		subbed := false
		if sl, isSl := ia.X.(*ssa.Slice); isSl && sl.Max == nil {
			if _, isArr := deref(sl.X.Type()).Underlying().(*types.Array); !isArr {
				srcBase, subLo, subbed = sl.X, sl.Low, true
			}
		}
		srcIndex := func(lc *linCtx, e linExpr) linExpr { // index into srcBase of the element with index e of ia.X
			if subbed && subLo != nil {
				return e.add(lc.of(subLo), 1)
			}
			return e
		}
		lc := c.newLin(s.b)
		diff := lc.of(s.num).add(srcIndex(lc, lc.of(ia.Index)), -1)
		c.check(diff.isConst() && diff.c == 1, "EXCERPT/NUMBERING", cons, where, "content gets lines[i] and lineNumbers gets i+1, for the same i",
			"the number stored beside an excerpt line is not (0-based index of that line) + 1: the excerpt line numbered like the diagnostic does not show that source line ["+diff.key()+"]")
		// the lines are those of the diagnostic's file: getFileLines(<file name parameter>) = split of pass.ReadFile(filename)
		okSrc := P.RootsAll(srcBase, func(r ssa.Value) bool {
			call, ok := r.(*ssa.Call)
			if !ok || call.Call.StaticCallee() == nil || !strings.HasSuffix(FuncName(call.Call.StaticCallee()), "Reporter).getFileLines") {
				return false
			}
			if len(call.Call.Args) < 2 {
				return false
			}
			_, isParam := call.Call.Args[1].(*ssa.Parameter)
			return isParam
		})
		c.check(okSrc, "EXCERPT/SOURCE", cons, where, "the lines are getFileLines(<file name of the diagnostic>)", "excerpt lines are not taken from the cached lines of the file named by the diagnostic's position: "+short(P.Desc(srcBase)))
		// CONTIGUOUS: one append per iteration of a +1 counting loop that is left at its head only
		var lp *natLoop
		for _, l := range naturalLoops(wf) {
			l := l
			if l.body[s.b] && (lp == nil || len(l.body) < len(lp.body)) {
				lp = &l
			}
		}
		var phi *ssa.Phi
		var idxOff int64
		if lp != nil {
			// index = phi + k
			iv := ia.Index
			for {
				bo, ok := iv.(*ssa.BinOp)
				if !ok || (bo.Op != token.ADD && bo.Op != token.SUB) {
					break
				}
				k, isC := constInt(bo.Y)
				if !isC {
					break
				}
				if bo.Op == token.SUB {
					k = -k
				}
				idxOff += k
				iv = bo.X
			}
			phi, _ = iv.(*ssa.Phi)
		}
		contig := false
		var initV, bound ssa.Value
		var strict bool
		var condOff int64
		if lp != nil && phi != nil && phi.Block() == lp.head && len(phi.Edges) == 2 {
			stepOK := false
			for ei, e := range phi.Edges {
				if lp.body[phi.Block().Preds[ei]] {
					if bo, ok := e.(*ssa.BinOp); ok && bo.Op == token.ADD && bo.X == ssa.Value(phi) {
						if k, isC := constInt(bo.Y); isC && k == 1 {
							stepOK = true
						}
					}
				} else {
					initV = e
				}
			}
			exitsAtHead := true
			for _, ex := range lp.exits {
				if ex[0] != lp.head {
					exitsAtHead = false
				}
			}
			everyIter := true
			for _, t := range wf.Blocks {
				for _, h := range t.Succs {
					if h == lp.head && lp.body[t] && !dominates(s.b, t) {
						everyIter = false
					}
				}
			}
			if ifi, ok := lastInstr(lp.head).(*ssa.If); ok {
				if bo, ok := ifi.Cond.(*ssa.BinOp); ok && lp.body[lp.head.Succs[0]] {
					// phi + k OP bound (a range loop tests the incremented counter)
					cv := bo.X
					for {
						b2, ok := cv.(*ssa.BinOp)
						if !ok || (b2.Op != token.ADD && b2.Op != token.SUB) {
							break
						}
						k, isC := constInt(b2.Y)
						if !isC {
							break
						}
						if b2.Op == token.SUB {
							k = -k
						}
						condOff += k
						cv = b2.X
					}
					if cv == ssa.Value(phi) {
						switch bo.Op {
						case token.LEQ:
							bound = bo.Y
						case token.LSS:
							bound, strict = bo.Y, true
						}
					}
				}
			}
			contig = stepOK && exitsAtHead && everyIter && initV != nil && bound != nil
		}
		c.check(contig, "EXCERPT/CONTIGUOUS", cons, where, "one line per iteration of a +1 counting loop left only at its head: the context lines are neighbouring source lines",
			"excerpt lines are not appended once per iteration of a +1 counting loop that runs to its bound: context lines are not the neighbouring source lines")
		if !contig {
			continue
		}
		// the parameter that receives the diagnostic's line
		lineParam := c.lineOfWindowFunc(wf)
		if lineParam == nil {
			c.fail("EXCERPT/CONTAINS-LINE", cons, where, "the window function does not receive the diagnostic's line (token.Position.Line) from formatPrettyError")
			continue
		}
		// CONTAINS-LINE: if the reported line exists (1 <= line <= len(lines)) it lies in [first, last]
		var pre *ssa.BasicBlock
		for ei := range phi.Edges {
			if !lp.body[phi.Block().Preds[ei]] {
				pre = phi.Block().Preds[ei]
			}
		}
		lc2 := c.newLin(pre) // context sizes (before, after) are what the formatter passes; the line is any integer
		ln := lc2.of(lineParam)
		nLines := lc2.lenVar(srcBase)
		lc2.facts = append(lc2.facts, ln.add(linConst(1), -1), geq(nLines, ln)) // 1 <= line <= len(lines)
		first := srcIndex(lc2, lc2.of(initV).add(linConst(idxOff), 1))
		last := srcIndex(lc2, lc2.of(bound).add(linConst(idxOff-condOff), 1))
		if strict {
			last = last.add(linConst(1), -1)
		}
		want := ln.add(linConst(1), -1) // 0-based index of the reported line
		okIn := lc2.prove(geq(want, first)) && lc2.prove(geq(last, want))
		c.check(okIn, "EXCERPT/CONTAINS-LINE", cons, where, "an existing reported line lies inside the window [first, last]",
			"the excerpt window does not always contain the reported line although the file has it (window bounds: "+first.key()+" .. "+last.key()+")")
		// DEGRADE/NO-PARTIAL: no context lines without the line they are the context of: a line is put into the window
		// only when the file (as read) has the reported line
		lcA := c.newLin(s.b)
		lA := lcA.of(lineParam)
		nA := lcA.lenVar(srcBase)
		okP := lcA.prove(geq(lA, linConst(1))) && lcA.prove(geq(nA, lA))
		c.check(okP, "EXCERPT/DEGRADE/NO-PARTIAL", cons, where, "lines are shown only when the file has the reported line (1 <= line <= len(lines) dominates the append)",
			"context lines are shown although the file as read does not have the reported line: 1 <= line <= len(lines) does not follow from the conditions under which a line is put into the excerpt (a file that is one or two lines shorter than expected gets a border and its last lines, without the diagnostic's line and without a caret, instead of no excerpt)")
		// DEGRADE: an empty excerpt only for an unreadable file or a missing line
		allInstrs(wf, func(b *ssa.BasicBlock, ins ssa.Instruction) {
			r, ok := ins.(*ssa.Return)
			if !ok || lp.body[b] || dominates(lp.head, b) {
				return
			}
			rcons := fmt.Sprintf("%s#empty@%s", FuncName(wf), P.Pos(r.Pos()))
			// unreadable: the lines are nil
			nilCut := P.BlockCutBy(b, func(l Lit) bool {
				v := nilCheckedValue(l)
				return v != nil && l.Pos && P.Desc(v) == P.Desc(srcBase)
			})
			if nilCut {
				c.ok("EXCERPT/DEGRADE", rcons, P.Pos(r.Pos()), "no excerpt when the file cannot be read")
				return
			}
			// one return statement for the filled and the empty window (`return excerpt` at the join behind the loop):
			// the ways into it that do not come out of the loop are the "empty" returns, each decided at its own edge
			if len(b.Preds) >= 2 {
				fromLoop, okEdges, nEdges := false, true, 0
				for _, p := range b.Preds {
					if dominates(lp.head, p) {
						fromLoop = true
						continue
					}
					nEdges++
					lcE := c.newLin(p)
					if ifi, isIf := lastInstr(p).(*ssa.If); isIf && len(p.Succs) == 2 && p.Succs[0] != p.Succs[1] {
						lcE.condFacts(ifi.Cond, p.Succs[0] == b)
					}
					lE := lcE.of(lineParam)
					nE := lcE.lenVar(srcBase)
					lcE.facts = append(lcE.facts, lE.add(linConst(1), -1), geq(nE, lE))
					if !lcE.prove(linConst(-1)) {
						okEdges = false
					}
				}
				if fromLoop && nEdges > 0 {
					c.check(okEdges, "EXCERPT/DEGRADE", rcons, P.Pos(r.Pos()), "no excerpt only when the file does not have the reported line (every way into the common return that does not come out of the loop)",
						"an empty excerpt is returned although the file is readable and has the reported line (1 <= line <= len(lines) is consistent with the conditions of a way into this return that does not pass the loop)")
					return
				}
			}
			lc3 := c.newLin(b)
			l3 := lc3.of(lineParam)
			n3 := lc3.lenVar(srcBase)
			lc3.facts = append(lc3.facts, l3.add(linConst(1), -1), geq(n3, l3))
			if os.Getenv("GGV_LIN_DEBUG") == "excerpt" {
				for _, f := range lc3.facts {
					fmt.Printf("  FACT %s >= 0\n", f.key())
				}
				for i, d := range lc3.disj {
					for j, a := range d {
						for _, e := range a {
							fmt.Printf("  DISJ %d alt %d: %s >= 0\n", i, j, e.key())
						}
					}
				}
			}
			c.check(lc3.prove(linConst(-1)), "EXCERPT/DEGRADE", rcons, P.Pos(r.Pos()), "no excerpt only when the file does not have the reported line",
				"an empty excerpt is returned although the file is readable and has the reported line (1 <= line <= len(lines) is consistent with the conditions of this return)")
		})
	}
	// ---- the caret line
	c.ruleCaretLine(fmtFn)
	// ---- what a source line is
	c.ruleFileLines()
	// ---- nothing rendered is remembered
	c.ruleReporterState()
	// ---- bounded display lines
	c.ruleTruncateBound()
}

// ruleCaretLine: in the formatter, the text shown for an excerpt line is truncateString(<line i>, limit, column), the
// number printed beside it is <number i>, and the caret line is written exactly under the line whose number equals
// the diagnostic's line, with calculateDisplayColumn(<the same line i>, column, <the same limit>).
func (c *Ctx) ruleCaretLine(fmtFn *ssa.Function) {
	P := c.P
	var trunc, disp *ssa.Call
	for _, f := range P.StaticClosure(fmtFn) {
		if f != fmtFn && P.isAnchor(f) {
			continue
		}
		allInstrs(f, func(b *ssa.BasicBlock, ins ssa.Instruction) {
			call, ok := ins.(*ssa.Call)
			if !ok || call.Call.StaticCallee() == nil {
				return
			}
			switch FuncName(call.Call.StaticCallee()) {
			case "reporting.truncateString":
				trunc = call
			case "reporting.calculateDisplayColumn":
				disp = call
			}
		})
	}
	name := FuncName(fmtFn)
	if trunc == nil || disp == nil || len(trunc.Call.Args) < 3 || len(disp.Call.Args) < 3 {
		c.fail("EXCERPT/CARET-LINE", name, P.Pos(fmtFn.Pos()), "formatter does not call truncateString / calculateDisplayColumn")
		return
	}
	where := P.Pos(disp.Pos())
	isColumn := func(v ssa.Value) bool { return strings.HasSuffix(P.Desc(v), "go/token.Position.Column)") }
	sameLine := P.Desc(trunc.Call.Args[0]) == P.Desc(disp.Call.Args[0])
	sameLimit := P.Desc(trunc.Call.Args[1]) == P.Desc(disp.Call.Args[2])
	cols := isColumn(trunc.Call.Args[2]) && isColumn(disp.Call.Args[1])
	c.check(sameLine && sameLimit && cols, "EXCERPT/CARET-ARGS", name, where, "caret column and displayed text are computed from the same source line, the same limit and the diagnostic's column",
		fmt.Sprintf("truncateString and calculateDisplayColumn are not given the same source line / limit / the diagnostic's column [line:%v limit:%v column:%v]", sameLine, sameLimit, cols))
	c.ruleCaretColumn(trunc, disp)
	// the element of content and the element of lineNumbers with the same index
	lineIdx := elemIndexOf(P, trunc.Call.Args[0], "content")
	var numIdx ssa.Value
	var numDesc string
	guarded := false
	for _, l := range P.BlockGuards(disp.Block()) {
		if l.Kind != "eq" || !l.Pos {
			continue
		}
		for _, pr := range [][2]ssa.Value{{l.X, l.Y}, {l.Y, l.X}} {
			if strings.HasSuffix(P.Desc(pr[1]), "go/token.Position.Line)") {
				if ix := elemIndexOf(P, pr[0], "lineNumbers"); ix != nil {
					numIdx, numDesc, guarded = ix, P.Desc(pr[0]), true
				}
			}
		}
	}
	okIdx := guarded && lineIdx != nil && numIdx != nil && (lineIdx == numIdx || P.Desc(lineIdx) == P.Desc(numIdx) && sameLoopIndex(lineIdx, numIdx))
	c.check(okIdx, "EXCERPT/CARET-LINE", name, where, "the caret is written under the excerpt line whose number equals the diagnostic's line (content[i] and lineNumbers[i], same i)",
		"the caret line is not written exactly when lineNumbers[i] == position.Line for the i of the line just shown")
	// the number printed beside the text is that same number; margin, padding and caret of the caret line
	if !guarded {
		numDesc = ""
	}
	c.ruleCaretLineText(trunc, disp, numDesc)
}

// elemIndexOf: v is (a copy of) x.<field>[i]: returns i.
func elemIndexOf(P *Program, v ssa.Value, field string) ssa.Value {
	var out ssa.Value
	for _, r := range P.Resolve(v) {
		u, ok := r.(*ssa.UnOp)
		if !ok || u.Op != token.MUL {
			return nil
		}
		ia, ok := u.X.(*ssa.IndexAddr)
		if !ok {
			return nil
		}
		okF := false
		for _, q := range P.Resolve(ia.X) {
			if fieldLoad(q, "reporting.sourceLines", field) != nil {
				okF = true
			}
		}
		if !okF {
			return nil
		}
		out = ia.Index
	}
	return out
}

func sameLoopIndex(a, b ssa.Value) bool {
	ai, ok1 := a.(ssa.Instruction)
	bi, ok2 := b.(ssa.Instruction)
	return ok1 && ok2 && ai.Block() == bi.Block()
}

// ruleTruncateBound: every result of truncateString is at most limit + 6 bytes long (the display limit plus two
// ellipsis markers), however long the source line is.
func (c *Ctx) ruleTruncateBound() {
	P := c.P
	fn := P.LookupFunc("reporting", "truncateString")
	if fn == nil || len(fn.Params) < 2 {
		c.fail("EXCERPT/BOUNDED", "reporting.truncateString", "", "function not found")
		return
	}
	n := 0
	for _, f := range P.StaticClosure(fn) {
		if f != fn {
			continue
		}
		allInstrs(f, func(b *ssa.BasicBlock, ins ssa.Instruction) {
			r, ok := ins.(*ssa.Return)
			if !ok || len(r.Results) != 1 {
				return
			}
			n++
			lc := c.newLin(b)
			lc.trust = false // any limit, any column
			lc.facts, lc.disj, lc.vars = nil, nil, map[ssa.Value]linExpr{}
			lc.blockFacts(b)
			limit := lc.of(fn.Params[1])
			res := lc.lenVar(r.Results[0])
			// for a non-negative limit; a negative one panics in s[:maxLen] before anything is shown (C10's business)
			lc.facts = append(lc.facts, limit)
			okB := lc.prove(geq(limit.add(linConst(6), 1), res))
			c.check(okB, "EXCERPT/BOUNDED", fmt.Sprintf("%s#return%d", FuncName(fn), n), P.Pos(r.Pos()), "len(result) <= limit + 6 follows from the conditions of this return",
				"a displayed line can be longer than the display limit plus its ellipsis markers: len(result) <= maxLen + 6 is not implied at this return ("+short(P.Desc(r.Results[0]))+")")
		})
	}
	c.floor("returns of truncateString", n, 3)
}

// ruleExcerptSliceWindow: the second shape of the window: content is a sub-slice of the file's lines
// (content: lines[lo:hi]) and the numbers are filled in separately - appended once per iteration of a loop that
// counts from lo to hi, or stored into a made slice of length hi-lo at index k with value lo+k+1. The same clauses
// as for the append-built window, stated on lo and hi. Returns the number of such windows.
func (c *Ctx) ruleExcerptSliceWindow() int {
	P := c.P
	n := 0
	for _, fn := range P.ModFuncs {
		if funcPkgPath(fn) != modulePath+"/src/reporting" {
			continue
		}
		allInstrs(fn, func(b *ssa.BasicBlock, ins ssa.Instruction) {
			st, ok := ins.(*ssa.Store)
			if !ok {
				return
			}
			fa, ok := st.Addr.(*ssa.FieldAddr)
			if !ok || typeStr(deref(fa.X.Type())) != "reporting.sourceLines" || fieldName(deref(fa.X.Type()), fa.Field) != "content" {
				return
			}
			sl, ok := st.Val.(*ssa.Slice)
			if !ok {
				return
			}
			if _, isArr := deref(sl.X.Type()).Underlying().(*types.Array); isArr {
				return // the one-element array of an append
			}
			n++
			cons := fmt.Sprintf("%s#slice%d", FuncName(fn), n)
			where := P.Pos(st.Pos())
			src := sl.X
			lc := c.newLin(b)
			lo, hi := linConst(0), lc.lenVar(src)
			if sl.Low != nil {
				lo = lc.of(sl.Low)
			}
			if sl.High != nil {
				hi = lc.of(sl.High)
			}
			// SOURCE
			okSrc := P.RootsAll(src, func(r ssa.Value) bool {
				call, ok := r.(*ssa.Call)
				if ok && call.Call.StaticCallee() != nil && strings.HasSuffix(FuncName(call.Call.StaticCallee()), "Reporter).getFileLines") && len(call.Call.Args) >= 2 {
					_, isParam := call.Call.Args[1].(*ssa.Parameter)
					return isParam
				}
				// the lines read in place: a list of scanner tokens / a cache entry
				_, isPhi := r.(*ssa.Phi)
				_, isEx := r.(*ssa.Extract)
				return isPhi || isEx
			})
			c.check(okSrc, "EXCERPT/SOURCE", cons, where, "the window is a part of the lines of the diagnostic's file", "the window is not a part of the cached lines of the file named by the diagnostic's position: "+short(P.Desc(src)))
			c.ok("EXCERPT/CONTIGUOUS", cons, where, "a sub-slice: neighbouring lines by construction")
			// NUMBERING: the numbers of the same struct value
			okNum, whyNum := false, "the numbers are neither appended once per iteration of a loop counting from lo to hi nor stored as lo+k+1 at index k of a slice of length hi-lo"
			allInstrs(fn, func(b2 *ssa.BasicBlock, i2 ssa.Instruction) {
				st2, ok := i2.(*ssa.Store)
				if !ok {
					return
				}
				// (a) numbers = append(numbers, i+1) in `for i := lo; i < hi; i++`
				if ev, fa2, okA := oneElemAppend(st2); okA && sameStructCell(fa2.X, fa.X) && fieldName(deref(fa2.X.Type()), fa2.Field) == "lineNumbers" {
					for _, l := range naturalLoops(fn) {
						if !l.body[b2] {
							continue
						}
						ifi, isIf := lastInstr(l.head).(*ssa.If)
						if !isIf {
							continue
						}
						bo, isB := ifi.Cond.(*ssa.BinOp)
						ph, isPhi := bo.X.(*ssa.Phi)
						if !isB || !isPhi || bo.Op != token.LSS || ph.Block() != l.head {
							continue
						}
						l2 := c.newLin(b2)
						var init ssa.Value
						for ei, e := range ph.Edges {
							if !l.body[l.head.Preds[ei]] {
								init = e
							}
						}
						atHead := true
						for _, ex := range l.exits {
							if ex[0] != l.head {
								atHead = false
							}
						}
						if init == nil || !atHead {
							continue
						}
						// one number per iteration, and the window leaves the function only after the loop
						whole := true
						for _, tb := range fn.Blocks {
							for _, h := range tb.Succs {
								if h == l.head && l.body[tb] && !dominates(b2, tb) {
									whole = false
								}
							}
							if _, isRet := lastInstr(tb).(*ssa.Return); isRet && dominates(b, tb) && (tb == l.head || !dominates(l.head, tb) || l.body[tb]) {
								whole = false
							}
						}
						if !whole {
							whyNum = "the numbers are not appended in every iteration, or the window is returned before the loop that numbers it has finished"
							continue
						}
						d1 := l2.of(ev).add(l2.of(ph), -1)
						sameLo := l2.of(init).add(lo, -1)
						sameHi := l2.of(bo.Y).add(hi, -1)
						if d1.isConst() && d1.c == 1 && sameLo.isConst() && sameLo.c == 0 && sameHi.isConst() && sameHi.c == 0 {
							okNum = true
						} else {
							whyNum = fmt.Sprintf("numbers appended in a loop are not i+1 for i from lo to hi [number-i: %s, init-lo: %s, bound-hi: %s]", d1.key(), sameLo.key(), sameHi.key())
						}
					}
				}
				// (b) numbers[k] = lo + k + 1 for every k of a slice made with length hi-lo
				if ia, isIA := st2.Addr.(*ssa.IndexAddr); isIA {
					if ld, isLd := ia.X.(*ssa.UnOp); isLd && ld.Op == token.MUL {
						if fa2, isFA := ld.X.(*ssa.FieldAddr); isFA && sameStructCell(fa2.X, fa.X) && fieldName(deref(fa2.X.Type()), fa2.Field) == "lineNumbers" && (isRangeIndex(ia.Index) || isFullIndexLoopOver(ia.Index, ia.X)) {
							l2 := c.newLin(b2)
							d := l2.of(st2.Val).add(l2.of(ia.Index), -1).add(lo, -1)
							if d.isConst() && d.c == 1 {
								okNum = true
							} else {
								whyNum = "numbers[k] is not lo + k + 1: " + d.key()
							}
						}
					}
				}
			})
			c.check(okNum, "EXCERPT/NUMBERING", cons, where, "content is lines[lo:hi] and the number beside content[k] is lo+k+1", whyNum)
			// the parameter that receives the diagnostic's line
			lineParam := c.lineOfWindowFunc(fn)
			if lineParam == nil {
				c.fail("EXCERPT/CONTAINS-LINE", cons, where, "the window function does not receive the diagnostic's line (token.Position.Line)")
				return
			}
			lcA := c.newLin(b)
			lA, nA := lcA.of(lineParam), lcA.lenVar(src)
			okP := lcA.prove(geq(lA, linConst(1))) && lcA.prove(geq(nA, lA))
			c.check(okP, "EXCERPT/DEGRADE/NO-PARTIAL", cons, where, "lines are shown only when the file has the reported line (1 <= line <= len(lines) dominates the window)",
				"context lines are shown although the file as read does not have the reported line: 1 <= line <= len(lines) does not follow from the conditions under which the window is taken")
			lc2 := c.newLin(b)
			ln := lc2.of(lineParam)
			lc2.facts = append(lc2.facts, ln.add(linConst(1), -1), geq(lc2.lenVar(src), ln))
			lo2, hi2 := linConst(0), lc2.lenVar(src)
			if sl.Low != nil {
				lo2 = lc2.of(sl.Low)
			}
			if sl.High != nil {
				hi2 = lc2.of(sl.High)
			}
			want := ln.add(linConst(1), -1)
			okIn := lc2.prove(geq(want, lo2)) && lc2.prove(geq(hi2.add(linConst(1), -1), want))
			c.check(okIn, "EXCERPT/CONTAINS-LINE", cons, where, "an existing reported line lies inside the window [lo, hi)", "the excerpt window does not always contain the reported line although the file has it (window: "+lo2.key()+" .. "+hi2.key()+")")
			// DEGRADE: an empty window only for an unreadable file or a missing line
			allInstrs(fn, func(b3 *ssa.BasicBlock, i3 ssa.Instruction) {
				r, ok := i3.(*ssa.Return)
				if !ok || dominates(b, b3) {
					return
				}
				rcons := fmt.Sprintf("%s#empty@%s", FuncName(fn), P.Pos(r.Pos()))
				nilCut := P.BlockCutBy(b3, func(l Lit) bool {
					v := nilCheckedValue(l)
					return v != nil && l.Pos && P.Desc(v) == P.Desc(src)
				})
				if nilCut {
					c.ok("EXCERPT/DEGRADE", rcons, P.Pos(r.Pos()), "no excerpt when the file cannot be read")
					return
				}
				lc3 := c.newLin(b3)
				l3 := lc3.of(lineParam)
				lc3.facts = append(lc3.facts, l3.add(linConst(1), -1), geq(lc3.lenVar(src), l3))
				c.check(lc3.prove(linConst(-1)), "EXCERPT/DEGRADE", rcons, P.Pos(r.Pos()), "no excerpt only when the file does not have the reported line",
					"an empty excerpt is returned although the file is readable and has the reported line (1 <= line <= len(lines) is consistent with the conditions of this return)")
			})
		})
	}
	return n
}

// sameStructCell: a and b are the same struct variable, or one is the temporary of a composite literal that is
// copied into the other as a whole (result := T{...}).
func sameStructCell(a, b ssa.Value) bool {
	if a == b {
		return true
	}
	copied := func(dst, src ssa.Value) bool {
		refs := dst.Referrers()
		if refs == nil {
			return false
		}
		for _, r := range *refs {
			if st, ok := r.(*ssa.Store); ok && st.Addr == dst {
				if ld, ok := st.Val.(*ssa.UnOp); ok && ld.Op == token.MUL && ld.X == src {
					return true
				}
			}
		}
		return false
	}
	return copied(a, b) || copied(b, a)
}

// ruleExcerptSamePosition (eleventh round): the file the excerpt is read from and the line that is looked up in it
// are the Filename and the Line of one and the same token.Position - the one the message is about. A //line
// directive gives a position another file name *and* another line: the physical file with the adjusted line (or the
// other way round) shows a line that has nothing to do with the diagnostic, and shows one where none should be.
func (c *Ctx) ruleExcerptSamePosition() {
	P := c.P
	n := 0
	for _, fn := range P.ModFuncs {
		if funcPkgPath(fn) != modulePath+"/src/reporting" {
			continue
		}
		allInstrs(fn, func(b *ssa.BasicBlock, ins ssa.Instruction) {
			call, ok := ins.(*ssa.Call)
			if !ok || call.Call.StaticCallee() == nil || !P.IsProductFunc(call.Call.StaticCallee()) {
				return
			}
			lineD := ""
			for _, a := range call.Call.Args {
				if d := P.Desc(a); isIntType(a.Type()) && strings.HasSuffix(d, "go/token.Position.Line)") {
					lineD = d
				}
			}
			if lineD == "" {
				return
			}
			wantFile := strings.TrimSuffix(lineD, "go/token.Position.Line)") + "go/token.Position.Filename)"
			for _, a := range call.Call.Args {
				bt, isB := a.Type().Underlying().(*types.Basic)
				if !isB || bt.Info()&types.IsString == 0 {
					continue
				}
				n++
				d := P.Desc(a)
				c.check(d == wantFile, "EXCERPT/SOURCE/SAME-POSITION", FuncName(fn)+"->"+FuncName(call.Call.StaticCallee()), P.Pos(call.Pos()),
					"the file read and the line looked up in it are Filename and Line of the same position",
					"the excerpt is read from a file that is not the Filename of the position whose Line is looked up ("+short(d)+"): for a //line-remapped position the message shows an unrelated line of another file")
			}
		})
	}
	c.floor("calls that take a file name with the line of a position", n, 1)
}

// lineOfWindowFunc: the value that stands for the diagnostic's line inside the window function - the parameter
// that receives token.Position.Line, or the field Line of a parameter that receives the token.Position itself.
func (c *Ctx) lineOfWindowFunc(wf *ssa.Function) ssa.Value {
	P := c.P
	var out ssa.Value
	for _, cs := range P.Callers(wf) {
		for ai, a := range cs.Common().Args {
			if ai >= len(wf.Params) {
				continue
			}
			if strings.HasSuffix(P.Desc(a), "go/token.Position.Line)") {
				out = wf.Params[ai]
				continue
			}
			if typeStr(a.Type()) == "go/token.Position" {
				prm := wf.Params[ai]
				// the parameter itself (t.Line), or the local cell it is spilled to because its fields are selected
				var cell ssa.Value
				allInstrs(wf, func(_ *ssa.BasicBlock, ins ssa.Instruction) {
					if st, ok := ins.(*ssa.Store); ok && st.Val == ssa.Value(prm) {
						cell = st.Addr
					}
				})
				allInstrs(wf, func(_ *ssa.BasicBlock, ins ssa.Instruction) {
					if out != nil {
						return
					}
					if f, ok := ins.(*ssa.Field); ok && f.X == ssa.Value(prm) && fieldName(f.X.Type(), f.Field) == "Line" {
						out = f
					}
					if u, ok := ins.(*ssa.UnOp); ok && u.Op == token.MUL && cell != nil {
						if fa, ok := u.X.(*ssa.FieldAddr); ok && fa.X == cell && fieldName(deref(fa.X.Type()), fa.Field) == "Line" {
							out = u
						}
					}
				})
			}
		}
	}
	return out
}
