package main

// C06: fact discipline of the analyzers.

import (
	"fmt"
	"go/ast"
	"go/token"
	"go/types"
	"sort"
	"strings"

	"golang.org/x/tools/go/ssa"
)

// resultOfLookups: pass.ResultOf[X] lookups in fn: returns (lookup instruction, analyzer variable X).
type resultOfUse struct {
	Lookup *ssa.Lookup
	Var    *types.Var
	Assert *ssa.TypeAssert
}

func (c *Ctx) resultOfUses(fn *ssa.Function) []resultOfUse {
	P := c.P
	var out []resultOfUse
	// the Run function and everything it calls statically (accessor helpers such as configOf(pass) included)
	for _, f := range P.StaticClosure(fn) {
		allInstrs(f, func(b *ssa.BasicBlock, ins ssa.Instruction) {
			lk, ok := ins.(*ssa.Lookup)
			if !ok {
				return
			}
			if !P.isPassField(lk.X, "ResultOf") {
				return
			}
			u := resultOfUse{Lookup: lk}
			for _, r := range P.Resolve(lk.Index) {
				if lo, ok := r.(*ssa.UnOp); ok {
					if g, ok := lo.X.(*ssa.Global); ok {
						u.Var, _ = g.Object().(*types.Var)
					}
				}
			}
			if refs := lk.Referrers(); refs != nil {
				for _, r := range *refs {
					if ta, ok := r.(*ssa.TypeAssert); ok {
						u.Assert = ta
					}
				}
			}
			out = append(out, u)
		})
	}
	return out
}

// resultTypeOf: the type named by ResultType: reflect.TypeOf(<expr>).
func (c *Ctx) resultTypeOf(a *AnalyzerInfo) types.Type {
	call, ok := a.ResultType.(*ast.CallExpr)
	if !ok || len(call.Args) != 1 {
		return nil
	}
	pkg := c.P.ByPath[modulePath+"/src/analyzer"]
	if pkg == nil {
		return nil
	}
	return pkg.TypesInfo.TypeOf(call.Args[0])
}

func (c *Ctx) ruleReqResult() {
	P := c.P
	n := 0
	for _, a := range c.M.Analyzers {
		if a.RunSSA == nil {
			c.fail("REQ-RESULT", a.VarName, P.Pos(a.Pos), "analyzer has no resolvable Run function")
			continue
		}
		// own result type: every non-nil returned result has the dynamic type of ResultType
		if a.ResultType != nil {
			rt := c.resultTypeOf(a)
			allInstrs(a.RunSSA, func(b *ssa.BasicBlock, ins ssa.Instruction) {
				r, ok := ins.(*ssa.Return)
				if !ok || len(r.Results) != 2 || isNilConst(r.Results[0]) {
					return
				}
				okT := rt != nil && P.RootsAll(r.Results[0], func(x ssa.Value) bool { return types.Identical(x.Type(), rt) })
				var got []string
				for _, x := range P.Resolve(r.Results[0]) {
					got = append(got, typeStr(x.Type()))
				}
				c.check(okT, "REQ-RESULT/OWN-TYPE", a.VarName, P.Pos(r.Pos()), "Run returns a "+typeStr(rt), fmt.Sprintf("Run returns %v but ResultType declares %v (the driver rejects the action: internal error)", got, rt))
			})
		}
		for _, u := range c.resultOfUses(a.RunSSA) {
			n++
			cons := a.VarName + "<-"
			if u.Var == nil {
				c.undecided("REQ-RESULT", cons+"?", P.Pos(u.Lookup.Pos()), "pass.ResultOf is indexed by something that is not an analyzer variable")
				continue
			}
			cons += u.Var.Name()
			dep := c.M.AnalyzerByVar(u.Var)
			inReq := false
			for _, r := range a.Requires {
				if r == u.Var {
					inReq = true
				}
			}
			if !inReq || dep == nil {
				c.fail("REQ-RESULT/REQUIRES", cons, P.Pos(u.Lookup.Pos()), "Run reads pass.ResultOf["+u.Var.Name()+"] but the analyzer does not list it in Requires (the result is absent: nil map entry)")
				continue
			}
			if u.Assert != nil {
				rt := c.resultTypeOf(dep)
				okT := rt != nil && types.Identical(u.Assert.AssertedType, rt)
				c.check(okT, "REQ-RESULT/TYPE", cons, P.Pos(u.Assert.Pos()), "asserted type equals "+dep.VarName+".ResultType", fmt.Sprintf("result is asserted to %s but %s.ResultType is %v", typeStr(u.Assert.AssertedType), dep.VarName, rt))
			} else {
				c.ok("REQ-RESULT/REQUIRES", cons, P.Pos(u.Lookup.Pos()), "in Requires")
			}
		}
	}
	c.floor("pass.ResultOf uses", n, 8)
}

// ruleFactExport: every analyzer with FactTypes exports, on every path that is not a dead guard, a fact of its
// own type whose value is the whole PackageAnnotations of the AnnotationReader.
func (c *Ctx) ruleFactExport() {
	P := c.P
	n := 0
	for _, a := range c.M.Analyzers {
		if len(a.FactTypes) == 0 || a.RunSSA == nil {
			continue
		}
		n++
		runBody := a.RunSSA
		var pins pinMap
		findExports := func(f *ssa.Function) []ssa.CallInstruction {
			var out []ssa.CallInstruction
			allInstrs(f, func(b *ssa.BasicBlock, ins ssa.Instruction) {
				if ci, ok := ins.(ssa.CallInstruction); ok && c.passFieldCall(ci) == "ExportPackageFact" {
					out = append(out, ci)
				}
			})
			return out
		}
		exports := findExports(runBody)
		if len(exports) == 0 {
			// Run hands its whole body to a shared helper (`return runChecker(pass, ...)`): judge the helper in the
			// context of this call
			var deleg []*ssa.Call
			allInstrs(a.RunSSA, func(b *ssa.BasicBlock, ins ssa.Instruction) {
				if call, ok := ins.(*ssa.Call); ok {
					if h := call.Call.StaticCallee(); h != nil && P.IsProductFunc(h) && !P.isAnchor(h) && len(h.Blocks) > 0 && len(findExports(h)) > 0 {
						deleg = append(deleg, call)
					}
				}
			})
			if len(deleg) == 1 && len(a.RunSSA.Blocks) == 1 {
				runBody = deleg[0].Call.StaticCallee()
				pins = pinMap{runBody: deleg[0]}
				exports = findExports(runBody)
			}
		}
		if len(exports) == 0 {
			c.fail("FACT-EXPORT", a.VarName, P.Pos(a.Pos), "analyzer declares FactTypes but Run never calls pass.ExportPackageFact: importers see no annotations of this package")
			continue
		}
		P.PinnedAll(pins, func() {
			for _, ex := range exports {
				where := P.Pos(ex.Pos())
				arg := ex.Common().Args[0]
				// type
				okType := false
				for _, ft := range a.FactTypes {
					if P.RootsAll(arg, func(r ssa.Value) bool { return types.Identical(r.Type(), ft) }) {
						okType = true
					}
				}
				c.check(okType, "FACT-EXPORT/TYPE", a.VarName, where, "exported fact type is in FactTypes", "exported fact has a type that is not in this analyzer's FactTypes (the driver panics / the fact is never imported): "+typeStr(arg.Type()))
				// value: conversion of the AnnotationReader result (or the reader's own ReadAllAnnotations result)
				okVal := P.RootsAll(arg, func(r ssa.Value) bool {
					al, ok := r.(*ssa.Alloc)
					if !ok {
						return false
					}
					vals, _, _ := P.CellStores(al)
					if len(vals) == 0 {
						return false
					}
					good := func(d string) bool {
						fromReader := strings.HasPrefix(d, "typeassert(lookup(field(") && strings.Contains(d, "global(analyzer.AnnotationReader)); annotations.PackageAnnotations)")
						fromRead := strings.HasPrefix(d, "call(annotations.ReadAllAnnotations;")
						return fromReader || fromRead
					}
					for _, v := range vals {
						if good(P.Desc(v)) {
							continue
						}
						// the value half of a (value, ok) accessor whose ok half guards the export: the alternatives
						// that come with a possibly-true ok
						for {
							if x, ok := v.(*ssa.ChangeType); ok {
								v = x.X
								continue
							}
							if x, ok := v.(*ssa.Convert); ok {
								v = x.X
								continue
							}
							if w := P.throughParams(v); w != v {
								v = w
								continue
							}
							if u, ok := v.(*ssa.UnOp); ok && u.Op == token.MUL {
								if a, ok := u.X.(*ssa.Alloc); ok {
									if cv, _, _ := P.CellStores(a); len(cv) == 1 {
										v = cv[0]
										continue
									}
								}
							}
							break
						}
						vex, ok := v.(*ssa.Extract)
						if !ok || vex.Tuple.Referrers() == nil {
							return false
						}
						var okEx *ssa.Extract
						for _, rr := range *vex.Tuple.Referrers() {
							if e2, ok := rr.(*ssa.Extract); ok && e2 != vex {
								if b, isB := e2.Type().Underlying().(*types.Basic); isB && b.Kind() == types.Bool {
									okEx = e2
								}
							}
						}
						if okEx == nil || !flagDominates(okEx, ex.Block()) {
							return false
						}
						n := 0
						for _, pc := range c.pairCases(vex, okEx, nil, nil, 0) {
							if cv, isC := constBool(pc.E); isC && !cv {
								continue
							}
							n++
							var d string
							P.PinnedAll(pc.Pins, func() { d = P.Desc(pc.S) })
							if !good(d) {
								return false
							}
						}
						if n == 0 {
							return false
						}
					}
					return true
				})
				c.check(okVal, "FACT-EXPORT/VALUE", a.VarName, where, "fact = the complete PackageAnnotations of this package", "exported fact is not the complete annotation set read for this package: "+short(P.Desc(arg)))
				// guards: no restrictive condition before the export
				var extra []string
				for _, l := range P.BlockGuards(ex.Block()) {
					if nilCheck(l) {
						continue
					}
					if _, t, _ := typeAssertOK(l); t != nil && l.Pos {
						continue
					}
					extra = append(extra, short(l.String()))
				}
				c.check(len(extra) == 0, "FACT-EXPORT/UNCONDITIONAL", a.VarName, where, "export is not conditional on the package's content", "fact export depends on "+strings.Join(extra, "; ")+": packages for which it is skipped hide their annotations from importers")
				// every return is after the export, or is a dead guard (result nil / wrong type)
				allInstrs(runBody, func(b *ssa.BasicBlock, ins ssa.Instruction) {
					r, ok := ins.(*ssa.Return)
					if !ok {
						return
					}
					if dominates(ex.Block(), b) {
						return
					}
					// every path to this return passes the export or takes a dead branch
					dead := P.BlockCutByOrVia(b, func(l Lit) bool {
						// also as the negation of a (value, ok) helper's "present and well-typed" conjunction
						return litImplies(l, func(l Lit) bool {
							if nilCheck(l) && l.Pos {
								return true
							}
							if _, t, _ := typeAssertOK(l); t != nil && !l.Pos {
								return true
							}
							return false
						})
					}, ex.Block())
					c.check(dead, "FACT-EXPORT/BEFORE-RETURN", a.VarName, P.Pos(r.Pos()), "early return only for an absent/ill-typed reader result (excluded by REQ-RESULT)", "Run can return before the fact is exported")
				})
			}
		})
	}
	c.floor("analyzers with FactTypes", n, 6)
}

// ruleFactSchema: everything reachable from a fact type is gob-encodable and carries all its information in
// exported fields (an unexported or func/chan/interface field is silently lost or fails in the vet driver).
func (c *Ctx) ruleFactSchema() {
	n := 0
	seenT := map[string]bool{}
	var walk func(t types.Type, path string, root string)
	walk = func(t types.Type, path string, root string) {
		t = types.Unalias(t)
		key := root + "|" + typeStr(t)
		if seenT[key] {
			return
		}
		seenT[key] = true
		switch x := t.(type) {
		case *types.Named:
			// custom encoders change the schema
			for _, m := range []string{"GobEncode", "GobDecode", "MarshalBinary", "UnmarshalBinary"} {
				obj, _, _ := types.LookupFieldOrMethod(types.NewPointer(x), true, x.Obj().Pkg(), m)
				if obj != nil && typeStr(x) != "go/token.Pos" {
					c.fail("FACT-SCHEMA", root+path, "", "type "+typeStr(x)+" has a custom "+m+": fact encoding is no longer field-by-field")
				}
			}
			walk(x.Underlying(), path, root)
		case *types.Struct:
			exported := 0
			for i := 0; i < x.NumFields(); i++ {
				f := x.Field(i)
				n++
				fp := path + "." + f.Name()
				if !f.Exported() {
					c.fail("FACT-SCHEMA", root+fp, c.P.Pos(f.Pos()), "unexported field in a fact: gob drops it, so importers analysed in another process (go vet -vettool) see different annotations than in-process importers")
					continue
				}
				exported++
				c.ok("FACT-SCHEMA", root+fp, c.P.Pos(f.Pos()), "exported "+typeStr(f.Type()))
				walk(f.Type(), fp, root)
			}
			if exported == 0 && x.NumFields() > 0 {
				c.fail("FACT-SCHEMA", root+path, "", "struct without exported fields cannot be gob-encoded")
			}
		case *types.Slice:
			walk(x.Elem(), path+"[]", root)
		case *types.Array:
			walk(x.Elem(), path+"[]", root)
		case *types.Map:
			walk(x.Key(), path+"[key]", root)
			walk(x.Elem(), path+"[val]", root)
		case *types.Pointer:
			walk(x.Elem(), path+"*", root)
		case *types.Basic:
			if x.Kind() == types.UnsafePointer || x.Kind() == types.Uintptr {
				c.fail("FACT-SCHEMA", root+path, "", "field of kind "+x.Name()+" is not gob-encodable")
			}
		case *types.Signature, *types.Chan:
			c.fail("FACT-SCHEMA", root+path, "", "func/chan typed field is not gob-encodable: the vet driver fails or drops it")
		case *types.Interface:
			c.fail("FACT-SCHEMA", root+path, "", "interface typed field in a fact needs gob.Register of every dynamic type; none is registered")
		}
	}
	var roots []string
	for _, a := range c.M.Analyzers {
		for _, ft := range a.FactTypes {
			name := typeStr(deref(ft))
			roots = append(roots, name)
			walk(deref(ft), "", name)
			// the fact type must be convertible from PackageAnnotations (same underlying struct)
			if pa := c.P.Pkg("annotations"); pa != nil {
				if tn, ok := pa.Types.Scope().Lookup("PackageAnnotations").(*types.TypeName); ok {
					c.check(types.Identical(deref(ft).Underlying(), tn.Type().Underlying()), "FACT-SCHEMA/SAME-SHAPE", name, "", "fact type has the field set of PackageAnnotations", "fact type does not have the same fields as PackageAnnotations: some annotation kind does not cross package boundaries")
				}
			}
		}
	}
	sort.Strings(roots)
	c.floor("fields of fact types", n, 20)
}

// ruleFactType: every index builder reachable from an analyzer's Run is instantiated with a fact type of that
// analyzer (otherwise it imports another analyzer's facts, which the driver does not make available).
func (c *Ctx) ruleFactType() {
	P := c.P
	n := 0
	for _, a := range c.M.Analyzers {
		if a.RunSSA == nil {
			continue
		}
		for _, fn := range P.StaticClosure(a.RunSSA) {
			bn := baseName(fn)
			if _, ok := builderSpecs[bn]; !ok || !strings.Contains(FuncName(fn), "[") || fn.Parent() != nil || hasTypeParamArg(fn) {
				continue
			}
			n++
			targs := fn.TypeArgs()
			okT := false
			for _, ft := range a.FactTypes {
				if len(targs) == 1 && types.Identical(targs[0], ft) {
					okT = true
				}
			}
			c.check(okT, "FACT-TYPE", a.VarName+"#"+bn, P.Pos(a.Pos), "builder instantiated with the analyzer's own fact type "+FuncName(fn),
				fmt.Sprintf("%s (reachable from %s.Run) imports facts of a type that is not in %s.FactTypes: imported annotations are silently missing", FuncName(fn), a.VarName, a.VarName))
		}
	}
	c.floor("builder instantiations reachable from Run functions", n, 8)
}

// ruleImportScope: facts are imported only in iterOverPackages; no object facts, no AllPackageFacts.
func (c *Ctx) ruleImportScope() {
	P := c.P
	n := 0
	for _, fn := range P.ModFuncs {
		allInstrs(fn, func(b *ssa.BasicBlock, ins ssa.Instruction) {
			ci, ok := ins.(ssa.CallInstruction)
			if !ok {
				return
			}
			switch f := c.passFieldCall(ci); f {
			case "ImportPackageFact":
				n++
				// only inside the package iterator(s) of package indexing (each of which ITER-PACKAGES holds to the
				// "own package, then every direct import" shape)
				top := fn
				for top.Parent() != nil {
					top = top.Parent()
				}
				inIter := false
				for _, n := range c.pkgIterators() {
					if baseName(top) == n {
						inIter = true
					}
				}
				// ... or in a helper of theirs: a function of the same package that only the iterators call
				if !inIter && top == fn {
					callers := P.Callers(fn)
					all := len(callers) > 0
					for _, cs := range callers {
						ct := cs.Parent()
						for ct != nil && ct.Parent() != nil {
							ct = ct.Parent()
						}
						isIt := false
						for _, n := range c.pkgIterators() {
							if ct != nil && baseName(ct) == n && ct.Pkg == fn.Pkg {
								isIt = true
							}
						}
						if !isIt {
							all = false
						}
					}
					inIter = all
				}
				c.check(inIter, "IMPORT-SCOPE", FuncName(fn), P.Pos(ci.Pos()), "facts are imported in the package iterator only", "pass.ImportPackageFact is called outside the package iterator of package indexing: a second, differently scoped channel for annotations")
			case "ExportObjectFact", "ImportObjectFact", "AllPackageFacts", "AllObjectFacts":
				c.fail("IMPORT-SCOPE", FuncName(fn), P.Pos(ci.Pos()), "pass."+f+" is used: annotations of packages other than direct imports (or per-object channels) can influence diagnostics")
			}
		})
	}
	c.floor("ImportPackageFact call sites", n, 1)
}

// flagDominates: blk is reached only when the bool value flag is true (it is dominated by the true branch of a
// test of flag, or by the false branch of a test of !flag).
func flagDominates(flag ssa.Value, blk *ssa.BasicBlock) bool {
	var test func(v ssa.Value, want int) bool
	test = func(v ssa.Value, want int) bool {
		refs := v.Referrers()
		if refs == nil {
			return false
		}
		for _, r := range *refs {
			switch x := r.(type) {
			case *ssa.If:
				b := x.Block()
				if b.Succs[0] != b.Succs[1] && len(b.Succs[want].Preds) == 1 && dominates(b.Succs[want], blk) {
					return true
				}
			case *ssa.UnOp:
				if x.Op == token.NOT && test(x, 1-want) {
					return true
				}
			}
		}
		return false
	}
	return test(flag, 0)
}
