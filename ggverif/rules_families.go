package main

// Per checker family: the guard signature every report site must have (tables transcribed from the
// property statements C01..C05; one line of justification per atom).

import (
	"fmt"
	"go/token"
	"go/types"
	"sort"
	"strings"

	"golang.org/x/tools/go/ssa"
)

func (c *Ctx) sitesOf(pkg string) []*ReportSite {
	var out []*ReportSite
	for _, s := range c.M.Sites {
		if s.VT.Pkg == pkg {
			out = append(out, s)
		}
	}
	return out
}

// checkFlow: the violation value reaches reporter.ReportViolation from every call site.
func (c *Ctx) checkFlow(si *siteInfo, rule string) {
	where := c.P.Pos(si.S.Alloc.Pos())
	if si.Flow.Reached {
		c.ok(rule+"/REACHES-REPORTER", si.Name, where, fmt.Sprintf("value flows to %s through %d terminal call(s)", fnReportViol, len(si.Flow.Terminals)))
	} else {
		d := "violation value does not reach " + fnReportViol
		if len(si.Flow.Dropped) > 0 {
			d += ": " + strings.Join(si.Flow.Dropped, "; ")
		}
		c.fail(rule+"/REACHES-REPORTER", si.Name, where, d)
	}
}

// dispatch checks the AST-kind atoms and marks them used.
func (c *Ctx) dispatch(si *siteInfo, rule string, want []string) {
	got := c.astKinds(si)
	si.take("dispatch", func(l Lit) bool {
		x, t, _ := typeAssertOK(l)
		return x != nil && l.Pos && strings.HasPrefix(typeStr(t), "*go/ast.")
	})
	sort.Strings(want)
	where := c.P.Pos(si.S.Alloc.Pos())
	if strings.Join(got, " ") == strings.Join(want, " ") {
		c.ok(rule+"/DISPATCH", si.Name, where, strings.Join(got, " "))
	} else {
		c.fail(rule+"/DISPATCH", si.Name, where, fmt.Sprintf("AST dispatch of this site is [%s], the property requires [%s]", strings.Join(got, " "), strings.Join(want, " ")))
	}
}

// tokAtom: literal eq(const(tok), <AssignStmt|GenDecl>.Tok)
func tokAtom(l Lit, structType string, tok token.Token) bool {
	if l.Kind != "eq" {
		return false
	}
	for _, pair := range [][2]ssa.Value{{l.X, l.Y}, {l.Y, l.X}} {
		cst, ok := pair[0].(*ssa.Const)
		if !ok || cst.Value == nil || cst.Value.ExactString() != fmt.Sprint(int(tok)) {
			continue
		}
		if fieldLoad(pair[1], structType, "Tok") != nil {
			return true
		}
	}
	return false
}

// ================================================================================================
// C01 — immutable

func (c *Ctx) ruleSitesIMM() {
	P := c.P
	rule := "GUARD-SIG(IMM)"
	sites := c.sitesOf("immutable")
	perCode := map[string]int{}
	forms := map[string]bool{}
	formPos := map[string]string{}
	for _, s := range sites {
		c.inSiteContext(s, func() {
			si := c.buildSiteInfo(s)
			if si.Dead != "" {
				c.ok(rule+"/DEAD-CONTEXT", si.Name, P.Pos(s.Alloc.Pos()), "no violation can be produced through this call path: its conditions contain "+si.Dead)
				return
			}
			perCode[s.Code]++
			c.checkFlow(si, rule)
			receiverForm := false
			for _, k := range c.astKinds(si) {
				if strings.HasPrefix(k, "StarExpr<") {
					receiverForm = true
				}
			}
			if receiverForm {
				forms["receiver "+s.Code] = true
			} else {
				forms["field "+s.Code] = true
				formPos[s.Code] = P.Pos(s.Alloc.Pos())
			}
			var detail string
			// ---- exemption: not inside a declared constructor of the type, in the type's own package
			exempt := si.take("exemption", func(l Lit) bool { return c.isExemption(l, &detail) })
			if detail == "" {
				detail = "no guard of the form !(pkg(T)==pass.Pkg.Path() && constructors.Match(pkg(T), enclosingFunc, name(T)))"
			}
			c.require(si, rule, "CTOR-EXEMPTION(-)", exempt, detail)

			if !receiverForm {
				detail = ""
				nm := si.take("named", c.namedAssertPred(true, &detail))
				if detail == "" {
					detail = "no comma-ok assertion to *types.Named on the resolved type"
				}
				c.require(si, rule, "TYPE-RESOLVE(+)", nm, detail)
				c.require(si, rule, "PACKAGE-LEVEL(+)", si.take("package-level", c.pkgLevelPred()), pkgLevelDetail)

				detail = "no positive immutableTypes.Contains(pkg(T), name(T)) on an index built by BuildImmutableTypesIndex"
				imm := si.take("immutable-index", c.indexCallPred(fnContains, "indexing.BuildImmutableTypesIndex", true, func(call *ssa.Call) (bool, string) {
					return c.typeKeyArgs(call.Call.Args[1], call.Call.Args[2])
				}, &detail))
				c.require(si, rule, "IMMUTABLE-INDEX(+)", imm, detail)

				detail = "no negative mutableFields.Match(pkg(T), selector.Sel.Name, name(T)) on an index built by BuildMutableFieldsIndex"
				mut := si.take("mutable-index", c.indexCallPred(fnMatch, "indexing.BuildMutableFieldsIndex", false, func(call *ssa.Call) (bool, string) {
					if ok, why := c.typeKeyArgs(call.Call.Args[1], call.Call.Args[3]); !ok {
						return false, why
					}
					// field name: <SelectorExpr>.Sel.Name
					okf := c.rootsAre(call.Call.Args[2], func(r ssa.Value) bool {
						id := fieldLoad(r, "go/ast.Ident", "Name")
						if id == nil {
							return false
						}
						return P.RootsAllDeep(id, func(b ssa.Value) bool { return fieldLoad(b, "go/ast.SelectorExpr", "Sel") != nil })
					})
					if !okf {
						return false, "field-name argument of mutableFields.Match is not selector.Sel.Name: " + short(P.DescDeep(call.Call.Args[2]))
					}
					return true, ""
				}, &detail))
				c.require(si, rule, "MUTABLE-FIELD(-)", mut, detail)
			} else {
				// receiver forms: *r = v / *r++ inside a method of an immutable type
				detail = "no positive immutableTypes.Contains(receiver pkg, receiver type)"
				imm := si.take("immutable-index", c.indexCallPred(fnContains, "indexing.BuildImmutableTypesIndex", true, func(call *ssa.Call) (bool, string) {
					return c.typeKeyArgs(call.Call.Args[1], call.Call.Args[2])
				}, &detail))
				c.require(si, rule, "IMMUTABLE-INDEX(+)", imm, detail)
				// identity of the receiver by object (NAMEID)
				ident := si.take("receiver-object", func(l Lit) bool {
					if l.Kind != "eq" || !l.Pos {
						return false
					}
					isUses := func(v ssa.Value) bool {
						return P.RootsAllDeep(v, func(r ssa.Value) bool {
							lk, ok := r.(*ssa.Lookup)
							return ok && P.RootsAllDeep(lk.X, func(m ssa.Value) bool { return fieldLoad(m, "go/types.Info", "Uses") != nil })
						})
					}
					isDefs := func(v ssa.Value) bool {
						return P.RootsAllDeep(v, func(r ssa.Value) bool {
							if cs, ok := r.(*ssa.Const); ok && cs.Value == nil {
								return true // receiverInfo literal elsewhere without obj: zero
							}
							lk, ok := r.(*ssa.Lookup)
							return ok && P.RootsAllDeep(lk.X, func(m ssa.Value) bool { return fieldLoad(m, "go/types.Info", "Defs") != nil })
						})
					}
					return (isUses(l.X) && isDefs(l.Y)) || (isUses(l.Y) && isDefs(l.X))
				})
				c.require(si, rule, "RECEIVER-BY-OBJECT(+)", ident, "the `*x` operand is not compared with the receiver *object* (TypesInfo.Uses[ident] == TypesInfo.Defs[recv]); a shadowing local with the receiver's name would be reported")
				// same-name comparison is implied by object identity
				si.take("receiver-name", func(l Lit) bool {
					if l.Kind != "eq" || !l.Pos {
						return false
					}
					return fieldLoad(firstRoot(P, l.X), "go/ast.Ident", "Name") != nil || fieldLoad(firstRoot(P, l.Y), "go/ast.Ident", "Name") != nil
				})
			}
			// ---- dispatch
			switch {
			case receiverForm && s.Code == "IMM01":
				c.dispatch(si, rule, []string{"AssignStmt<node>", "StarExpr<unparen(AssignStmt.Lhs[])>", "Ident<unparen(StarExpr.X)>"})
				c.require(si, rule, "TOK(=)", si.take("tok", func(l Lit) bool { return l.Pos && tokAtom(l, "go/ast.AssignStmt", token.ASSIGN) }), "IMM01 must be reported for plain assignment (Tok == ASSIGN) only")
			case receiverForm && s.Code == "IMM02":
				c.dispatch(si, rule, []string{"AssignStmt<node>", "StarExpr<unparen(AssignStmt.Lhs[])>", "Ident<unparen(StarExpr.X)>"})
				c.require(si, rule, "TOK(op=)", si.take("tok", func(l Lit) bool { return !l.Pos && tokAtom(l, "go/ast.AssignStmt", token.ASSIGN) }), "IMM02 must be reported for compound assignment (Tok != ASSIGN) only")
			case receiverForm && s.Code == "IMM03":
				c.dispatch(si, rule, []string{"IncDecStmt<node>", "StarExpr<unparen(IncDecStmt.X)>", "Ident<unparen(StarExpr.X)>"})
			case s.Code == "IMM01":
				c.dispatch(si, rule, []string{"AssignStmt<node>", "SelectorExpr<unparen(AssignStmt.Lhs[])>"})
				c.require(si, rule, "TOK(=)", si.take("tok", func(l Lit) bool { return l.Pos && tokAtom(l, "go/ast.AssignStmt", token.ASSIGN) }), "IMM01 must be reported for plain assignment (Tok == ASSIGN) only")
			case s.Code == "IMM04":
				c.dispatch(si, rule, []string{"AssignStmt<node>", "IndexExpr<unparen(AssignStmt.Lhs[])>", "SelectorExpr<unparen(IndexExpr.X)>"})
				c.require(si, rule, "TOK(=)", si.take("tok", func(l Lit) bool { return l.Pos && tokAtom(l, "go/ast.AssignStmt", token.ASSIGN) }), "IMM04 must be reported for plain assignment (Tok == ASSIGN) only")
			case s.Code == "IMM02":
				c.dispatch(si, rule, []string{"AssignStmt<node>", "SelectorExpr<unparen(AssignStmt.Lhs[])>"})
				c.require(si, rule, "TOK(op=)", si.take("tok", func(l Lit) bool { return !l.Pos && tokAtom(l, "go/ast.AssignStmt", token.ASSIGN) }), "IMM02 must be reported for compound assignment (Tok != ASSIGN) only")
			case s.Code == "IMM03":
				c.dispatch(si, rule, []string{"IncDecStmt<node>", "SelectorExpr<unparen(IncDecStmt.X)>"})
			default:
				c.fail(rule+"/SITE-CODE", si.Name, P.Pos(s.Alloc.Pos()), "immutable report site with unexpected code "+s.Code)
			}
			c.checkSitePos(si, rule)
			c.finishSite(si, rule)
		})
	}
	for _, code := range []string{"IMM01", "IMM02", "IMM03", "IMM04"} {
		c.floor("report sites with code "+code, perCode[code], 1)
	}
	// every statement form of the property has a report site: the three statement kinds that write through
	// a selector (=, op=, ++/--), the element form, and the same three kinds applied to *receiver
	for _, f := range []struct{ form, what string }{
		{"field IMM01", "x.f = v"}, {"field IMM02", "x.f op= v"}, {"field IMM03", "x.f++ / x.f--"}, {"field IMM04", "x.f[i] = v"},
		{"receiver IMM01", "*r = v"}, {"receiver IMM02", "*r op= v (in-place update of the pointer receiver)"}, {"receiver IMM03", "*r++ / *r--"},
	} {
		key := "immutable#" + f.form
		if forms[f.form] {
			c.ok(rule+"/FORM-COVERED", key, "", "a report site exists for "+f.what)
		} else {
			c.fail(rule+"/FORM-COVERED", key, formPos[f.form[len(f.form)-5:]], "no report site handles "+f.what+": the statement writes the immutable value and is reported by no code")
		}
	}
	c.count("report sites", len(sites))
}

func firstRoot(P *Program, v ssa.Value) ssa.Value {
	rs := P.ResolveDeep(v)
	if len(rs) == 1 {
		return rs[0]
	}
	return v
}

// isExemption recognises the constructor exemption literal:
//
//	-and(eq(pkg(T), pass.Pkg.Path()), Match(ctorIndex, pkg(T), enclosingFunc, name(T)))   (inline form), or
//	-H(...) for a product helper H whose every possibly-true return implies both conjuncts and whose
//	every possibly-false return is justified by the negation of a conjunct or a nil check.
func (c *Ctx) isExemption(l Lit, detail *string) bool {
	P := c.P
	if l.Pos && l.Kind == "or" {
		// reported if !A || !B  ==  not (A && B)
		dm := Lit{Key: l.Key, Kind: "and", Pos: false, Fn: l.Fn, Via: l.Via, Ctx: l.Ctx}
		for _, s := range l.Subs {
			s.Pos = !s.Pos
			dm.Subs = append(dm.Subs, s)
		}
		l = dm
	}
	if l.Pos {
		return false
	}
	isMatch := func(x Lit) bool {
		call := P.litCallTo(x, fnMatch)
		if call == nil {
			return false
		}
		if !P.originatesOnlyFrom(call.Call.Args[0], "indexing.BuildConstructorIndex") {
			return false
		}
		if ok, why := c.typeKeyArgs(call.Call.Args[1], call.Call.Args[3]); !ok {
			*detail = "constructors.Match: " + why
			return false
		}
		if ok, why := c.isEnclosingFuncName(call.Call.Args[2]); !ok {
			*detail = "constructors.Match: " + why
			return false
		}
		return true
	}
	if l.Kind == "and" {
		var sawEq, sawMatch bool
		for _, s := range l.Subs {
			if s.Pos && c.isOwnPkgEq(s) {
				sawEq = true
			} else if s.Pos && isMatch(s) {
				sawMatch = true
			} else if nilCheck(s) {
			} else {
				*detail = "exemption has an extra conjunct: " + short(s.String())
				return false
			}
		}
		if sawMatch && !sawEq {
			*detail = "constructor exemption is not limited to the type's own package (pkg(T) == pass.Pkg.Path() missing): a same-named function of an importing package is exempt"
		}
		return sawEq && sawMatch
	}
	if isMatch(l) {
		*detail = "constructor exemption is not limited to the type's own package (pkg(T) == pass.Pkg.Path() missing): a same-named function of an importing package is exempt"
		return false
	}
	call := litCall(l)
	if call == nil {
		return false
	}
	h := call.Call.StaticCallee()
	if h == nil || !P.IsProductFunc(h) {
		return false
	}
	sum := P.BoolSummary(h)
	if !sum.ok {
		return false
	}
	sawMatchAnywhere := false
	for _, r := range sum.returns {
		if !r.mayTrue {
			continue
		}
		lits := newLitSet(r.guards)
		if _, isC := constBool(r.val); !isC {
			lits = lits.union(newLitSet(literals(P.condFormula(r.val, 0), true)))
		}
		for _, x := range lits {
			if x.Pos && isMatch(x) {
				sawMatchAnywhere = true
			}
		}
	}
	if !sawMatchAnywhere {
		return false // not an exemption helper
	}
	for _, r := range sum.returns {
		lits := newLitSet(r.guards)
		if _, isC := constBool(r.val); !isC && r.mayTrue {
			lits = lits.union(newLitSet(literals(P.condFormula(r.val, 0), true)))
		}
		if r.mayTrue {
			var eq, m bool
			for _, x := range lits {
				if x.Pos && c.isOwnPkgEq(x) {
					eq = true
				}
				if x.Pos && isMatch(x) {
					m = true
				}
			}
			if !m {
				*detail = fmt.Sprintf("helper %s can return true without constructors.Match(pkg(T), enclosingFunc, name(T))", FuncName(h))
				return false
			}
			if !eq {
				*detail = fmt.Sprintf("helper %s can return true without pkg(T) == pass.Pkg.Path(): the exemption is not limited to the type's own package", FuncName(h))
				return false
			}
			for _, x := range lits {
				if (x.Pos && (c.isOwnPkgEq(x) || isMatch(x))) || nilCheck(x) {
					continue
				}
				*detail = fmt.Sprintf("helper %s: true result depends on an extra condition: %s", FuncName(h), short(x.String()))
				return false
			}
		}
		if r.mayFalse {
			if _, isC := constBool(r.val); isC {
				// every path to this `return false` must take an edge that justifies it:
				// a nil check, or the negation of one of the two conjuncts
				just := P.BlockCutBy(r.ret.Block(), func(x Lit) bool {
					return (nilCheck(x) && x.Pos) || (!x.Pos && (c.isOwnPkgEq(x) || isMatch(x)))
				})
				if !just {
					*detail = fmt.Sprintf("helper %s returns false on a path not justified by a nil check or the negation of a conjunct", FuncName(h))
					return false
				}
			}
		}
	}
	return sawMatchAnywhere
}

// checkSitePos: the diagnostic position is the Pos() of an AST node that is the visited node or one of its
// descendants (so it lies inside the statement and inside a filtered file).
func (c *Ctx) checkSitePos(si *siteInfo, rule string) {
	P := c.P
	where := P.Pos(si.S.Alloc.Pos())
	pv := si.S.PosVal
	if pv == nil {
		c.fail(rule+"/POS-ORIGIN", si.Name, where, "violation literal has no Pos field value")
		return
	}
	ok := P.RootsAllDeep(pv, func(r ssa.Value) bool {
		call, isCall := r.(*ssa.Call)
		if !isCall {
			return false
		}
		n := P.calleeName(call.Common())
		if !(strings.HasPrefix(n, "(*go/ast.") && strings.HasSuffix(n, ").Pos")) && n != "invoke go/ast.Node.Pos" {
			return false
		}
		return true
	})
	d := short(P.DescDeep(pv))
	if ok && strings.Contains(P.DescDeep(pv), "(*config.Config).FilterFiles") {
		c.ok(rule+"/POS-ORIGIN", si.Name, where, d)
	} else if ok {
		c.fail(rule+"/POS-ORIGIN", si.Name, where, "position does not derive from a file yielded by Config.FilterFiles: "+d)
	} else {
		c.fail(rule+"/POS-ORIGIN", si.Name, where, "position is not <ast node>.Pos() of the visited node or a descendant: "+d)
	}
}

// ================================================================================================
// C02 — constructor

func (c *Ctx) ruleSitesCTOR() {
	P := c.P
	rule := "GUARD-SIG(CTOR)"
	sites := c.sitesOf("constructor")
	perCode := map[string]int{}
	for _, s := range sites {
		c.inSiteContext(s, func() {
			si := c.buildSiteInfo(s)
			if si.Dead != "" {
				c.ok(rule+"/DEAD-CONTEXT", si.Name, P.Pos(s.Alloc.Pos()), "no violation can be produced through this call path: its conditions contain "+si.Dead)
				return
			}
			perCode[s.Code]++
			c.checkFlow(si, rule)
			var detail string
			exempt := si.take("exemption", func(l Lit) bool { return c.isExemption(l, &detail) })
			if detail == "" {
				detail = "no guard of the form !(pkg(T)==pass.Pkg.Path() && constructors.Match(pkg(T), enclosingFunc, name(T)))"
			}
			c.require(si, rule, "CTOR-EXEMPTION(-)", exempt, detail)

			detail = ""
			nm := si.take("named", c.namedAssertPred(s.Code == "CTOR01", &detail))
			if detail == "" {
				detail = "no comma-ok assertion to *types.Named on the resolved type"
			}
			c.require(si, rule, "TYPE-RESOLVE(+)", nm, detail)
			c.require(si, rule, "PACKAGE-LEVEL(+)", si.take("package-level", c.pkgLevelPred()), pkgLevelDetail)

			detail = "no positive constructors.HasType(pkg(T), name(T)) on an index built by BuildConstructorIndex"
			ht := si.take("ctor-index", c.indexCallPred(fnHasType, "indexing.BuildConstructorIndex", true, func(call *ssa.Call) (bool, string) {
				return c.typeKeyArgs(call.Call.Args[1], call.Call.Args[2])
			}, &detail))
			c.require(si, rule, "CONSTRUCTOR-INDEX(+)", ht, detail)
			if s.Code == "CTOR01" {
				c.literalTypeRule(si, rule)
			}

			switch s.Code {
			case "CTOR01":
				c.dispatch(si, rule, []string{"CompositeLit<node>"})
			case "CTOR02":
				c.dispatch(si, rule, []string{"CallExpr<node>", "Ident<unparen(CallExpr.Fun)>"})
				nw := si.take("new", func(l Lit) bool {
					if l.Kind != "eq" || !l.Pos {
						return false
					}
					for _, pr := range [][2]ssa.Value{{l.X, l.Y}, {l.Y, l.X}} {
						if cs, ok := pr[0].(*ssa.Const); ok && cs.Value != nil && cs.Value.ExactString() == `"new"` && fieldLoad(firstRoot(P, pr[1]), "go/ast.Ident", "Name") != nil {
							return true
						}
					}
					return false
				})
				c.require(si, rule, "CALLEE-IS-NEW(+)", nw, "the called identifier is not compared with \"new\"")
				// ... and it resolves to the builtin: a user function or variable named new is not an instantiation
				bi := si.take("builtin", func(l Lit) bool {
					x, t, _ := typeAssertOK(l)
					if x == nil || !l.Pos || typeStr(t) != "*go/types.Builtin" {
						return false
					}
					return P.RootsAllDeep(x, func(r ssa.Value) bool {
						lk, ok := r.(*ssa.Lookup)
						if ok {
							return strings.HasSuffix(P.Desc(lk.X), "go/types.Info.Uses)")
						}
						if call := P.CallTo(r, "(*go/types.Info).ObjectOf"); call != nil {
							return true
						}
						return false
					})
				})
				c.require(si, rule, "CALLEE-IS-BUILTIN(+)", bi, "the callee is matched by the spelling \"new\" only (no TypesInfo.Uses[ident].(*types.Builtin)): a call of a function or variable named new is reported as an instantiation")
				one := si.take("one-arg", func(l Lit) bool {
					if l.Kind != "eq" || !l.Pos {
						return false
					}
					for _, pr := range [][2]ssa.Value{{l.X, l.Y}, {l.Y, l.X}} {
						if cs, ok := pr[0].(*ssa.Const); ok && cs.Value != nil && cs.Value.ExactString() == "1" && lenOf(pr[1]) != nil {
							return true
						}
					}
					return false
				})
				c.require(si, rule, "ONE-ARG(+)", one, "len(call.Args) == 1 guard missing before call.Args[0]")
				// new(*T) (also through type P = *T) allocates a pointer, not a T: the operand type is judged as written
				stripped := false
				for _, l := range nm {
					if x, _, _ := typeAssertOK(l); x != nil {
						for _, r := range P.ResolveDeep(x) {
							if call := P.CallTo(r, "go/types.Unalias"); call != nil && P.RootsAny(call.Call.Args[0], func(a ssa.Value) bool { return P.CallTo(a, "(*go/types.Pointer).Elem") != nil }) {
								stripped = true
							}
						}
					}
				}
				// ... or pointer operands are turned away before (a shared helper may strip)
				isPtrAssert := func(l Lit) bool {
					x, t, _ := typeAssertOK(l)
					if x == nil || typeStr(t) != "*go/types.Pointer" {
						return false
					}
					return P.RootsAllDeep(x, func(r ssa.Value) bool { return P.CallTo(r, "go/types.Unalias") != nil })
				}
				skipPtr := si.take("not-pointer", func(l Lit) bool {
					if l.Pos {
						return false
					}
					if isPtrAssert(l) {
						return true
					}
					// !(t != nil && isPointer(t)): the answer of a small predicate helper
					if l.Kind == "and" {
						saw := false
						for _, sl := range l.Subs {
							switch {
							case sl.Pos && isPtrAssert(sl):
								saw = true
							case nilCheck(sl):
							default:
								return false
							}
						}
						return saw
					}
					return false
				})
				if len(skipPtr) > 0 {
					stripped = false
				}
				if len(nm) > 0 {
					c.check(!stripped, rule+"/NOT-POINTER(-)", si.Name, P.Pos(s.Alloc.Pos()), "the operand type of new is judged as written (no pointer stripped, or pointer operands skipped)",
						"the operand type of new has a pointer stripped before it is looked up: new(*T) - which allocates a nil *T and no T - is reported as an instantiation of T")
				}
			case "CTOR03":
				c.dispatch(si, rule, []string{"GenDecl<node>", "ValueSpec<GenDecl.Specs[]>"})
				// "reported at that expression": every declared name is its own instantiation and is reported at its
				// own position (`var lo, hi T`: the framework drops diagnostics that share position and message)
				if pv := s.PosVal; pv != nil {
					d := P.DescDeep(pv)
					c.check(strings.Contains(d, "go/ast.ValueSpec.Names)") && strings.Contains(d, "elem"), rule+"/POS-PER-NAME", si.Name, P.Pos(s.Alloc.Pos()),
						"the position is that of the declared name", "a `var` declaration of several names is reported at one position for all of them ("+short(d)+"): the reports collapse into one")
				}
				c.require(si, rule, "TOK(var)", si.take("tok", func(l Lit) bool { return l.Pos && tokAtom(l, "go/ast.GenDecl", token.VAR) }), "CTOR03 must be reported for var declarations (GenDecl.Tok == VAR) only")
				noInit := si.take("no-initialiser", func(l Lit) bool {
					// len(valueSpec.Values) > 0 is false:  -lt(const 0, len(Values))  or +eq(len(Values), 0)
					isValuesLen := func(v ssa.Value) bool {
						x := lenOf(v)
						return x != nil && fieldLoad(firstRoot(P, x), "go/ast.ValueSpec", "Values") != nil
					}
					isZero := func(v ssa.Value) bool {
						cs, ok := v.(*ssa.Const)
						return ok && cs.Value != nil && cs.Value.ExactString() == "0"
					}
					if l.Kind == "lt" && !l.Pos && isZero(l.X) && isValuesLen(l.Y) {
						return true
					}
					if l.Kind == "eq" && l.Pos && ((isZero(l.X) && isValuesLen(l.Y)) || (isZero(l.Y) && isValuesLen(l.X))) {
						return true
					}
					return false
				})
				c.require(si, rule, "NO-INITIALISER(+)", noInit, "only `var x T` without initialiser is CTOR03; the len(valueSpec.Values) > 0 skip is missing or altered")
				blank := si.take("not-blank", func(l Lit) bool {
					if l.Kind != "eq" || l.Pos {
						return false
					}
					for _, pr := range [][2]ssa.Value{{l.X, l.Y}, {l.Y, l.X}} {
						if cs, ok := pr[0].(*ssa.Const); ok && cs.Value != nil && cs.Value.ExactString() == `"_"` && fieldLoad(firstRoot(P, pr[1]), "go/ast.Ident", "Name") != nil {
							return true
						}
					}
					return false
				})
				c.require(si, rule, "NOT-BLANK(-)", blank, "blank identifiers must not be reported (name.Name == \"_\" skip missing)")
				ptr := si.take("not-pointer", func(l Lit) bool {
					x, t, _ := typeAssertOK(l)
					if x == nil || l.Pos || typeStr(t) != "*go/types.Pointer" {
						return false
					}
					return P.RootsAllDeep(x, func(r ssa.Value) bool { return P.CallTo(r, "go/types.Unalias") != nil })
				})
				if len(ptr) == 0 {
					// equivalent: the *types.Named assertion is made on the un-aliased declared type WITHOUT stripping a
					// pointer, so pointer-typed variables fail the assertion and are skipped
					noStrip := si.take("not-pointer-implicit", func(l Lit) bool {
						x, t, _ := typeAssertOK(l)
						if x == nil || !l.Pos || typeStr(t) != "*go/types.Named" {
							return false
						}
						return P.RootsAllDeep(x, func(r ssa.Value) bool {
							call := P.CallTo(r, "go/types.Unalias")
							return call != nil && !P.RootsAny(call.Call.Args[0], func(a ssa.Value) bool { return P.CallTo(a, "(*go/types.Pointer).Elem") != nil })
						})
					})
					ptr = noStrip
				}
				c.require(si, rule, "NOT-POINTER(-)", ptr, "pointer-typed variables must not be reported (neither a skip on un-aliased *types.Pointer nor a Named assertion on the unstripped type)")
				// the variable's type is taken from the declared name
			default:
				c.fail(rule+"/SITE-CODE", si.Name, P.Pos(s.Alloc.Pos()), "constructor report site with unexpected code "+s.Code)
			}
			c.checkSitePos(si, rule)
			c.finishSite(si, rule)
		})
	}
	for _, code := range []string{"CTOR01", "CTOR02", "CTOR03"} {
		c.floor("report sites with code "+code, perCode[code], 1)
	}
	c.count("report sites", len(sites))
}

// ================================================================================================
// C03 — testonly

// descHas reports whether the deep descriptor of v contains all the substrings.
func (c *Ctx) descHas(v ssa.Value, subs ...string) bool {
	d := c.P.DescDeep(v)
	for _, s := range subs {
		if !strings.Contains(d, s) {
			return false
		}
	}
	return true
}

// isIgnoreGate: -IgnoreSet.Contains(code, pos) on the ignore set of the IgnoreReader result.
// codeOK / posOK judge the code and position arguments.
func (c *Ctx) ignoreGatePred(codeOK, posOK func(v ssa.Value) bool, detail *string) func(l Lit) bool {
	P := c.P
	return func(l Lit) bool {
		call := P.litCallTo(l, fnIgnoreContain)
		if call == nil || l.Pos {
			return false
		}
		if !c.isPassIgnoreSet(call.Call.Args[0]) {
			*detail = "ignore gate consults a set that is not ResultOf[IgnoreReader].IgnoreSet: " + short(P.DescDeep(call.Call.Args[0]))
			return false
		}
		if !codeOK(call.Call.Args[1]) {
			*detail = "ignore gate looks up a code that is not the code this site reports: " + short(P.DescDeep(call.Call.Args[1]))
			return false
		}
		if !posOK(call.Call.Args[2]) {
			*detail = "ignore gate looks up a position that is not the position this site reports: " + short(P.DescDeep(call.Call.Args[2]))
			return false
		}
		return true
	}
}

// inSiteContext evaluates the rules of one report site in the calling context of the function that creates the
// violation: helpers that function shares with its siblings are pinned to the call made from it.
func (c *Ctx) inSiteContext(s *ReportSite, f func()) {
	top := s.Fn
	for top.Parent() != nil {
		top = top.Parent()
	}
	root := top
	if s.Via != nil {
		// the violation is built by a helper on behalf of its caller: the context is the caller's
		root = s.Via.Parent()
		for root.Parent() != nil {
			root = root.Parent()
		}
	}
	pins, _ := c.P.ContextPins(root)
	if s.Via != nil && s.Fn.Parent() == nil {
		pins[s.Fn] = s.Via
	} else {
		// a helper that merely CREATES the violation for several callers (the site is analysed once per caller,
		// Via) must not be pinned to one of them by accident
		delete(pins, top)
	}
	c.P.PinnedAll(pins, f)
}

// notTestFileLit: !strings.HasSuffix(<name of the walked file>, "_test.go").
func (c *Ctx) notTestFileLit(l Lit) bool {
	call := c.P.litCallTo(l, "strings.HasSuffix")
	if call == nil || l.Pos {
		return false
	}
	if cs, ok := call.Call.Args[1].(*ssa.Const); !ok || cs.Value == nil || cs.Value.ExactString() != `"_test.go"` {
		return false
	}
	return c.descHas(call.Call.Args[0], "go/token.Position.Filename", "(*go/token.FileSet).Position", "(*go/ast.File).Pos; iterelem0(call((*config.Config).FilterFiles")
}

func (c *Ctx) ruleSitesTONL() {
	P := c.P
	rule := "GUARD-SIG(TONL)"
	sites := c.sitesOf("testonly")
	perCode := map[string]int{}
	for _, s := range sites {
		c.inSiteContext(s, func() {
			si := c.buildSiteInfo(s)
			if si.Dead != "" {
				c.ok(rule+"/DEAD-CONTEXT", si.Name, P.Pos(s.Alloc.Pos()), "no violation can be produced through this call path: its conditions contain "+si.Dead)
				return
			}
			perCode[s.Code]++
			c.checkFlow(si, rule)
			var detail string

			// ---- not in a _test.go file, whatever the configuration (C03, C14)
			tf := si.take("test-file", c.notTestFileLit)
			si.take("test-file", func(l Lit) bool {
				call := litCall(l)
				return call != nil && !l.Pos && call.Call.StaticCallee() != nil && FuncName(call.Call.StaticCallee()) == "testonly.isTestFile"
			})
			c.require(si, rule, "NOT-TEST-FILE(-)", tf, "no guard !strings.HasSuffix(<name of the walked file>, \"_test.go\") on the path to this report: uses in test files would be reported")
			for _, l := range tf {
				if call := P.litCallTo(l, "strings.HasSuffix"); call != nil {
					c.check(c.unadjustedPosition(call.Call.Args[0]), rule+"/NOT-TEST-FILE/OWN-NAME", si.Name, P.Pos(call.Pos()), "the name tested is the file's own (PositionFor(file.Pos(), false).Filename)",
						"test-file status is decided on FileSet.Position(file.Pos()).Filename, which a //line directive before the package clause replaces: product code can declare itself a _test.go file and use @testonly items unreported")
				}
			}

			// ---- ignore gate at detection time, on this very violation
			detail = "no guard !ignoreSet.Contains(v.Code, v.Pos) between the detection and the report (the reporter of this package is created without an ignore set)"
			vt := "testonly.TestOnlyViolation"
			gate := si.take("ignore-gate", c.ignoreGatePred(
				func(v ssa.Value) bool {
					return P.RootsAll(v, func(r ssa.Value) bool { return fieldLoad(r, vt, "Code") != nil })
				},
				func(v ssa.Value) bool {
					return P.RootsAll(v, func(r ssa.Value) bool { return fieldLoad(r, vt, "Pos") != nil })
				}, &detail))
			c.require(si, rule, "IGNORE-GATE(-)", gate, detail)

			// ---- membership
			kinds := c.astKinds(si)
			_ = kinds
			detail = ""
			switch s.Code {
			case "TONL02":
				detail = "no positive testOnlyFuncs.Match(pkg, name, name) on an index built by BuildTestOnlyFuncsIndex"
				var viaPkgName, direct bool
				mem := si.take("funcs-index", c.indexCallPred(fnMatch, "indexing.BuildTestOnlyFuncsIndex", true, func(call *ssa.Call) (bool, string) {
					a := call.Call.Args
					if P.Desc(a[2]) != P.Desc(a[3]) {
						return false, "function index is keyed (name, name) but queried with two different names"
					}
					if !c.rootsAre(a[2], func(r ssa.Value) bool { return fieldLoad(r, "go/ast.Ident", "Name") != nil }) {
						return false, "queried function name is not the called identifier's name"
					}
					// (pass.Pkg.Path() alone is not enough: a function made visible by a dot import is declared elsewhere)
					if c.declPkgOfCalledIdent(si, a[1]) {
						direct = true
						return true, ""
					}
					flagged := c.okFlagGuards(si, a[1])
					if c.rootsAre(a[1], func(r ssa.Value) bool {
						if cs, ok := r.(*ssa.Const); ok && cs.Value != nil && cs.Value.ExactString() == `""` && flagged {
							return true // the "not a package" answer of a (value, ok) helper; ok guards this use
						}
						pc := P.CallTo(r, "(*go/types.Package).Path")
						return pc != nil && P.RootsAllDeep(pc.Call.Args[0], func(q ssa.Value) bool { return P.CallTo(q, "(*go/types.PkgName).Imported") != nil })
					}) {
						viaPkgName = true
						return true, ""
					}
					return false, "package argument is none of pass.Pkg.Path(), <PkgName>.Imported().Path(), Uses[<called identifier>].(*types.Func).Pkg().Path(): " + short(P.DescDeep(a[1]))
				}, &detail))
				c.require(si, rule, "FUNCS-INDEX(+)", mem, detail)
				if direct {
					c.dispatch(si, rule, []string{"CallExpr<node>", "Ident<unparen(CallExpr.Fun)>"})
					// NAMEID: the identifier resolves to a package-level function of this package
					nid := si.take("callee-object", func(l Lit) bool { return l.Pos && c.isPkgLevelFuncTest(l) })
					c.require(si, rule, "CALLEE-BY-OBJECT(+)", nid, "direct call is matched by the spelling of the identifier only (no TypesInfo.Uses[ident].(*types.Func) at package scope): a local variable or parameter sharing the name is reported - or \"at package scope\" is asked of another package's scope than the function's own (fn.Parent() == fn.Pkg().Scope()): a dot-imported function is never found")
				} else if viaPkgName {
					c.dispatch(si, rule, []string{"CallExpr<node>", "SelectorExpr<unparen(CallExpr.Fun)>", "Ident<SelectorExpr.X>"})
					pn := si.take("pkgname", func(l Lit) bool {
						x, t, _ := typeAssertOK(l)
						return x != nil && l.Pos && typeStr(t) == "*go/types.PkgName"
					})
					c.require(si, rule, "QUALIFIER-IS-PACKAGE(+)", pn, "qualified call: the qualifier must resolve to a *types.PkgName")
				}
			case "TONL03":
				detail = "no positive testOnlyMethods.Match(pkg(T), method, name(T)) on an index built by BuildTestOnlyMethodsIndex"
				ownerWhy := ""
				mem := si.take("methods-index", c.indexCallPred(fnMatch, "indexing.BuildTestOnlyMethodsIndex", true, func(call *ssa.Call) (bool, string) {
					a := call.Call.Args
					if ok, why := c.typeKeyArgs(a[1], a[3]); !ok {
						return false, why
					}
					// the key names the type that DECLARES the method: the receiver of the method object the
					// selector resolves to. The static type of the operand is a different type when the method is
					// promoted through an embedded field.
					for _, k := range []ssa.Value{a[1], a[3]} {
						if !c.descHas(k, "(*go/types.Signature).Recv") {
							ownerWhy = "the method is looked up under the static type of the operand (TypeOf(sel.X)), not under the receiver type of the method object (Selections[sel].Obj() / Uses[sel.Sel] -> Signature.Recv()): a @testonly method called through a type that embeds its receiver type is not reported"
						}
					}
					if !c.rootsAre(a[2], func(r ssa.Value) bool {
						id := fieldLoad(r, "go/ast.Ident", "Name")
						return id != nil && P.RootsAllDeep(id, func(b ssa.Value) bool { return fieldLoad(b, "go/ast.SelectorExpr", "Sel") != nil })
					}) {
						return false, "method name is not selector.Sel.Name"
					}
					return true, ""
				}, &detail))
				c.require(si, rule, "METHODS-INDEX(+)", mem, detail)
				if len(mem) > 0 {
					c.check(ownerWhy == "", rule+"/METHOD-OWNER(+)", si.Name, P.Pos(s.Alloc.Pos()), "the method index is queried with the receiver type of the called method object", ownerWhy)
				}
				c.dispatch(si, rule, []string{"CallExpr<node>", "SelectorExpr<unparen(CallExpr.Fun)>"})
			case "TONL01":
				c.tonl01Dispatch(si, rule)
				detail = "no positive testOnlyTypes.Contains(pkg(T), name(T)) on an index built by BuildTestOnlyTypesIndex"
				mem := si.take("types-index", c.indexCallPred(fnContains, "indexing.BuildTestOnlyTypesIndex", true, func(call *ssa.Call) (bool, string) {
					return c.typeKeyArgs(call.Call.Args[1], call.Call.Args[2])
				}, &detail))
				c.require(si, rule, "TYPES-INDEX(+)", mem, detail)
				c.literalTypeRule(si, rule)
				// once per file and type: dedup keyed by package path AND type name
				dd := si.take("dedup", func(l Lit) bool {
					if l.Kind != "cond" || l.Pos || l.Val == nil {
						return false
					}
					lk, ok := l.Val.(*ssa.Lookup)
					if !ok {
						return false
					}
					_, callees := P.derives(lk.Index, func(ssa.Value) bool { return false }, 14)
					if !hasCallee(callees, "(*go/types.Package).Path") || !hasCallee(callees, ").Name") {
						detail = "TONL01 dedup key does not contain both the package path and the type name: a same-named @testonly type of another package is never reported"
						return false
					}
					return true
				})
				if len(dd) == 0 && !strings.HasPrefix(detail, "TONL01 dedup") {
					detail = "no once-per-file dedup guard (!reportedTypes[key]) on every TONL01 path"
				}
				c.require(si, rule, "DEDUP(-)", dd, detail)
			}
			// the method path excludes package qualifiers; other negative pkg-name tests are benign
			si.take("not-pkgname", func(l Lit) bool {
				isPN := func(q Lit) bool {
					x, t, _ := typeAssertOK(q)
					return x != nil && typeStr(t) == "*go/types.PkgName"
				}
				if isPN(l) {
					return true
				}
				if l.Kind == "and" && !l.Pos {
					for _, sl := range l.Subs {
						x, t, _ := typeAssertOK(sl)
						isAst := x != nil && strings.HasPrefix(typeStr(t), "*go/ast.")
						if !isPN(sl) && !nilCheck(sl) && !isAst {
							return false
						}
					}
					return true
				}
				return false
			})
			c.checkSitePosTONL(si, rule)
			c.finishSite(si, rule)
		})
	}
	for _, code := range []string{"TONL01", "TONL02", "TONL03"} {
		c.floor("report sites with code "+code, perCode[code], 1)
	}
	var ks []string
	for k := range c.tonl01Kinds {
		ks = append(ks, k)
	}
	sort.Strings(ks)
	c.check(strings.Join(ks, ",") == "CompositeLit,Field,ValueSpec", rule+"/DISPATCH-COVER", "TONL01", "", "TONL01 is produced for composite literals, typed variable declarations and fields/parameters/results",
		"TONL01 is not produced for all of composite literals, ValueSpec and Field nodes: "+strings.Join(ks, ","))
	c.count("report sites", len(sites))
}

// isPkgLevelFuncTest: literal (direct or a helper call) that implies TypesInfo.Uses[ident] is a *types.Func
// declared at the package scope of pass.Pkg.
// declPkgOfCalledIdent: v is the import path of the package that declares the function the called identifier
// resolves to - Uses[ident].(*types.Func).Pkg().Path() (own package or a dot-imported one); pass.Pkg.Path() is
// accepted as an alternative (hand-built passes without type information), the empty string only as the value of a
// helper's "not a package-level function" answer whose ok result guards the use.
// okFlagGuards: v is one result of a (value, ok) helper call and the bool result of the same call is a positive
// guard of the site: the helper's zero-value answer cannot reach this use.
func (c *Ctx) okFlagGuards(si *siteInfo, v ssa.Value) bool {
	// (the value may have been handed on as an argument: in the site's calling context a parameter is its argument)
	for i := 0; i < 3; i++ {
		prm, isP := v.(*ssa.Parameter)
		if !isP {
			break
		}
		args := c.P.paramArgs(prm)
		if len(args) != 1 {
			break
		}
		v = args[0]
	}
	ex, ok := v.(*ssa.Extract)
	if !ok {
		return false
	}
	for _, l := range si.All {
		if l.Kind == "cond" && l.Pos && l.Val != nil {
			if e2, ok := l.Val.(*ssa.Extract); ok && e2.Tuple == ex.Tuple && e2.Index != ex.Index {
				return true
			}
		}
	}
	// the flag of a loop-free (value, ok) helper is read as the path condition of its one `ok` return: the site is
	// guarded by the flag when it is guarded by all of those literals
	call, isCall := ex.Tuple.(*ssa.Call)
	if !isCall || call.Referrers() == nil {
		return false
	}
	for _, rr := range *call.Referrers() {
		e2, ok := rr.(*ssa.Extract)
		if !ok || e2.Index == ex.Index {
			continue
		}
		if b, isB := e2.Type().Underlying().(*types.Basic); !isB || b.Kind() != types.Bool {
			continue
		}
		f := c.P.inlineBoolHelper(call, e2.Index, 0)
		if f == nil {
			continue
		}
		lits := literals(f, true)
		all := len(lits) > 0
		for _, want := range lits {
			if !hasLit(si.All, func(l Lit) bool { return l.Key == want.Key && l.Pos == want.Pos }) {
				all = false
			}
		}
		if all {
			return true
		}
	}
	return false
}

func (c *Ctx) declPkgOfCalledIdent(si *siteInfo, v ssa.Value) bool {
	P := c.P
	sawObj := false
	okFlagGuards := c.okFlagGuards(si, v)
	all := P.RootsAllDeep(v, func(r ssa.Value) bool {
		if cs, ok := r.(*ssa.Const); ok && cs.Value != nil && cs.Value.ExactString() == `""` {
			return okFlagGuards
		}
		if P.isPassPkgCall(r, "Path") {
			return true
		}
		pc := P.CallTo(r, "(*go/types.Package).Path")
		if pc == nil {
			return false
		}
		okPkg := P.RootsAllDeep(pc.Call.Args[0], func(q ssa.Value) bool {
			fp := P.CallTo(q, "(*go/types.Func).Pkg")
			if fp == nil {
				return false
			}
			return P.RootsAllDeep(fp.Call.Args[0], func(o ssa.Value) bool {
				// Uses[ident].(*types.Func) with ident = CallExpr.Fun of the visited call
				var ta *ssa.TypeAssert
				switch x := o.(type) {
				case *ssa.Extract:
					ta, _ = x.Tuple.(*ssa.TypeAssert)
				case *ssa.TypeAssert:
					ta = x
				}
				if ta == nil || typeStr(ta.AssertedType) != "*go/types.Func" {
					return false
				}
				return P.RootsAllDeep(ta.X, func(m ssa.Value) bool {
					lk, ok := m.(*ssa.Lookup)
					if !ok || !P.RootsAllDeep(lk.X, func(u ssa.Value) bool { return fieldLoad(u, "go/types.Info", "Uses") != nil }) {
						return false
					}
					return strings.Contains(P.DescDeep(lk.Index), "go/ast.CallExpr.Fun")
				})
			})
		})
		if okPkg {
			sawObj = true
		}
		return okPkg
	})
	return all && sawObj
}

func (c *Ctx) isPkgLevelFuncTest(l Lit) bool {
	P := c.P
	usesFunc := func(x Lit) bool {
		v, t, _ := typeAssertOK(x)
		if v == nil || !x.Pos || typeStr(t) != "*go/types.Func" {
			return false
		}
		return P.RootsAllDeep(v, func(r ssa.Value) bool {
			lk, ok := r.(*ssa.Lookup)
			return ok && P.RootsAllDeep(lk.X, func(m ssa.Value) bool { return fieldLoad(m, "go/types.Info", "Uses") != nil })
		})
	}
	if usesFunc(l) {
		return true
	}
	call, k := P.litHelperCall(l)
	if call == nil || call.Call.StaticCallee() == nil || !P.IsProductFunc(call.Call.StaticCallee()) {
		return false
	}
	sum := P.BoolSummaryK(call.Call.StaticCallee(), k, false)
	if !sum.ok {
		return false
	}
	saw := false
	for _, r := range sum.returns {
		if !r.mayTrue {
			continue
		}
		lits := newLitSet(r.guards)
		if _, isC := constBool(r.val); !isC {
			lits = lits.union(newLitSet(literals(P.condFormula(r.val, 0), true)))
		}
		okR := false
		degenerate := false
		for _, x := range lits {
			if c.foreignScopeCmp(x) {
				return false // "declared at package level" asked of another package's scope than the function's own
			}
			if usesFunc(x) {
				okR = true
			}
			if nilCheck(x) && x.Pos {
				degenerate = true // e.g. TypesInfo == nil (hand-built passes in unit tests)
			}
		}
		if okR {
			saw = true
		} else if !degenerate {
			return false
		}
	}
	return saw
}

// checkSitePosTONL: positions of TONL sites: call.Pos(), node.Pos() of the visited node (also through the
// `pos` parameter of findTypeUsageViolation).
func (c *Ctx) checkSitePosTONL(si *siteInfo, rule string) { c.checkSitePos(si, rule) }

// ================================================================================================
// C04 — packageonly

func (c *Ctx) ruleSitesPKGO() {
	P := c.P
	rule := "GUARD-SIG(PKGO)"
	sites := c.sitesOf("packageonly")
	perCode := map[string]int{}
	type fam struct {
		hasAny, hasPkg string
		nArgs          int
	}
	fams := map[string]fam{
		"PKGO01": {"(*util.AttachmentsMap).HasAnyTypeAttachments", "(*util.AttachmentsMap).HasPkgTypeAttachment", 2},
		"PKGO02": {"(*util.AttachmentsMap).HasAnyFunctionAttachments", "(*util.AttachmentsMap).HasPkgFunctionAttachment", 2},
		"PKGO03": {"(*util.AttachmentsMap).HasAnyMethodAttachments", "(*util.AttachmentsMap).HasPkgTypeMethodAttachment", 3},
	}
	var atomSets []string
	for _, s := range sites {
		c.inSiteContext(s, func() {
			si := c.buildSiteInfo(s)
			if si.Dead != "" {
				c.ok(rule+"/DEAD-CONTEXT", si.Name, P.Pos(s.Alloc.Pos()), "no violation can be produced through this call path: its conditions contain "+si.Dead)
				return
			}
			perCode[s.Code]++
			c.checkFlow(si, rule)
			// the unqualified-identifier path applies to identifiers that are not the Sel of a selector (those are
			// handled, once, by the selector path)
			si.take("unqualified-ident", func(l Lit) bool {
				if l.Kind != "cond" || l.Pos || l.Val == nil {
					return false
				}
				lk, isLk := l.Val.(*ssa.Lookup)
				return isLk && c.isSelectorIdentSet(lk.X)
			})
			f, ok := fams[s.Code]
			if !ok {
				c.fail(rule+"/SITE-CODE", si.Name, P.Pos(s.Alloc.Pos()), "packageonly report site with unexpected code "+s.Code)
				return
			}
			var detail string
			var keyArgs []string
			var keyVals []ssa.Value
			detail = "no positive " + f.hasAny + " on an index built by BuildPackageOnlyIndex"
			mem := si.take("has-any", c.indexCallPred(f.hasAny, "indexing.BuildPackageOnlyIndex", true, func(call *ssa.Call) (bool, string) {
				keyArgs, keyVals = nil, nil
				for _, a := range call.Call.Args[1:] {
					keyArgs = append(keyArgs, P.Desc(a))
					keyVals = append(keyVals, a)
				}
				return true, ""
			}, &detail))
			c.require(si, rule, "ANNOTATED(+)", mem, detail)

			// declaring package itself is always allowed
			same := si.take("other-package", func(l Lit) bool {
				if l.Kind != "eq" || l.Pos {
					return false
				}
				return (P.isPassPkgCall(l.X, "Path") && !P.isPassPkgCall(l.Y, "Path")) || (P.isPassPkgCall(l.Y, "Path") && !P.isPassPkgCall(l.X, "Path")) ||
					(P.isPassPkgCall(l.X, "Path") && P.isPassPkgCall(l.Y, "Path") && strings.Contains(P.Desc(l.X)+P.Desc(l.Y), "|"))
			})
			// the identifier path first restricts itself to objects of the current package (and then can never report):
			// a positive comparison of an object's package path with pass.Pkg.Path() is part of the same-package test
			si.take("local-object", func(l Lit) bool {
				if l.Kind != "eq" {
					return false
				}
				// (pkg(obj) == current) == <local flag>: the merged form of the two same-package tests
				for _, pr := range [][2]ssa.Value{{l.X, l.Y}, {l.Y, l.X}} {
					if bo, ok := pr[0].(*ssa.BinOp); ok && (bo.Op == token.EQL || bo.Op == token.NEQ) {
						isCmp := (P.isPassPkgCall(bo.X, "Path") && c.rootsAre(bo.Y, c.isPathCall)) || (P.isPassPkgCall(bo.Y, "Path") && c.rootsAre(bo.X, c.isPathCall))
						if isCmp && P.RootsAll(pr[1], func(r ssa.Value) bool { _, isC := constBool(r); return isC }) {
							return true
						}
					}
				}
				if !l.Pos {
					return false
				}
				return (P.isPassPkgCall(l.X, "Path") && c.rootsAre(l.Y, c.isPathCall)) || (P.isPassPkgCall(l.Y, "Path") && c.rootsAre(l.X, c.isPathCall))
			})
			c.require(si, rule, "OTHER-PACKAGE(-eq)", same, "no guard pkg(D) != pass.Pkg.Path(): references from the declaring package itself would be reported")

			// allowed iff path or name attached: both queries must be false, on the same item key
			for _, q := range []struct{ what, method string }{{"ALLOWED-BY-PATH(-)", "Path"}, {"ALLOWED-BY-NAME(-)", "Name"}} {
				detail = fmt.Sprintf("no negative %s(item, pass.Pkg.%s()) on the path to the report", f.hasPkg, q.method)
				lits := si.take("allowed-"+q.method, c.indexCallPred(f.hasPkg, "indexing.BuildPackageOnlyIndex", false, func(call *ssa.Call) (bool, string) {
					a := call.Call.Args
					last := a[len(a)-1]
					if !P.isPassPkgCall(last, q.method) {
						return false, fmt.Sprintf("%s: no query whose last argument is pass.Pkg.%s() (found %s)", f.hasPkg, q.method, short(P.DescDeep(last)))
					}
					for i, x := range a[1 : len(a)-1] {
						if i < len(keyArgs) && P.Desc(x) != keyArgs[i] {
							return false, "allow-list query uses a different item key than the membership test"
						}
					}
					return true, ""
				}, &detail))
				c.require(si, rule, q.what, lits, detail)
			}

			// ignore gate at detection time: own code constant, own position
			detail = "no guard !ignoreSet.Contains(<code of this site>, <pos of this site>) before the report (the reporter of this package is created without an ignore set)"
			gate := si.take("ignore-gate", c.ignoreGatePred(
				func(v ssa.Value) bool { return constString(firstRoot(P, v)) == s.Code },
				func(v ssa.Value) bool { return s.PosVal != nil && P.Desc(v) == P.Desc(s.PosVal) }, &detail))
			c.require(si, rule, "IGNORE-GATE(-)", gate, detail)

			if s.Code == "PKGO01" {
				detail = ""
				dd := si.take("dedup", func(l Lit) bool {
					if l.Kind != "cond" || l.Pos || l.Val == nil {
						return false
					}
					lk, ok := l.Val.(*ssa.Lookup)
					if !ok {
						return false
					}
					for _, kv := range keyVals {
						want := P.Desc(kv)
						found, _ := P.derives(lk.Index, func(v ssa.Value) bool { return v == kv || P.Desc(v) == want }, 8)
						if !found {
							detail = "PKGO01 dedup key does not contain both the package path and the type name"
							return false
						}
					}
					return len(keyVals) == 2
				})
				if detail == "" {
					detail = "no once-per-file dedup guard on the PKGO01 path"
				}
				c.require(si, rule, "DEDUP(-)", dd, detail)
			}
			// per-path dispatch: object kind and reference kind
			c.pkgoDispatch(si, rule)
			c.checkSitePos(si, rule)
			c.finishSite(si, rule)
			var used []string
			for _, r := range si.used {
				used = append(used, r)
			}
			sort.Strings(used)
			atomSets = append(atomSets, strings.Join(dedupStrings(used), ","))
		})
	}
	for _, code := range []string{"PKGO01", "PKGO02", "PKGO03"} {
		c.floor("report sites with code "+code, perCode[code], 1)
		k := c.pkgoKinds[code]
		c.check(k["SelectorExpr"] && k["Ident"], rule+"/DISPATCH-COVER", code, "", "reported for pkg.Item selectors and for plain identifiers",
			code+" is not reached for both reference kinds (pkg.Item selector and plain identifier)")
	}
	c.count("report sites", len(sites))
}

func dedupStrings(in []string) []string {
	var out []string
	for i, s := range in {
		if i == 0 || s != in[i-1] {
			out = append(out, s)
		}
	}
	return out
}

// pkgoDispatch: on every call path the site is reached for (a) a SelectorExpr or an Ident node, resolved with
// TypesInfo.ObjectOf, (b) an object of the kind the code names: TypeName (PKGO01), Func without receiver
// (PKGO02), Func with receiver (PKGO03). Both reference kinds must be present.
// throughAsserts: some origin of v - looking through type assertions (x.(T) has the origin of x) - satisfies pred.
func (c *Ctx) throughAsserts(v ssa.Value, depth int, pred func(ssa.Value) bool) bool {
	if depth > 6 {
		return false
	}
	for _, r := range c.P.ResolveDeep(v) {
		if pred(r) {
			return true
		}
		var ta *ssa.TypeAssert
		switch x := r.(type) {
		case *ssa.Extract:
			ta, _ = x.Tuple.(*ssa.TypeAssert)
		case *ssa.TypeAssert:
			ta = x
		}
		if ta != nil && c.throughAsserts(ta.X, depth+1, pred) {
			return true
		}
	}
	return false
}

func (c *Ctx) pkgoDispatch(si *siteInfo, rule string) {
	P := c.P
	where := P.Pos(si.S.Alloc.Pos())
	paths := P.GuardPathsVia(si.S.Alloc, si.S.Via)
	seenKinds := map[string]bool{}
	okAll := true
	for _, path := range paths {
		var nodeKind, objKind string
		aliasResolved := false
		aliasPtrStep := false // ... and an alias of a pointer type (type A = *T) is resolved to T as well
		unresolvedPkgTest := false
		recvNonNil, recvNilOrCompound := false, false
		byUse := false
		for _, l := range path {
			if x, t, _ := typeAssertOK(l); x != nil && l.Pos {
				ts := typeStr(t)
				if strings.HasPrefix(ts, "*go/ast.") && c.roleOf(firstRoot(P, x), 0) == "node" {
					nodeKind = strings.TrimPrefix(ts, "*go/ast.")
				}
				if ts == "*go/types.TypeName" || ts == "*go/types.Func" {
					// the object the identifier resolves to (ObjectOf / Uses), or - for a type alias - the defined
					// type it names (Named.Obj() of the un-aliased type)
					sawAliasRes := false
					if P.RootsAllDeep(x, func(r ssa.Value) bool {
						if P.CallTo(r, "(*go/types.Info).ObjectOf") != nil {
							return true
						}
						if lk, ok := r.(*ssa.Lookup); ok && P.RootsAllDeep(lk.X, func(m ssa.Value) bool { return fieldLoad(m, "go/types.Info", "Uses") != nil }) {
							byUse = true
							return true
						}
						if ex, ok := r.(*ssa.Extract); ok {
							if lk, ok := ex.Tuple.(*ssa.Lookup); ok && P.RootsAllDeep(lk.X, func(m ssa.Value) bool { return fieldLoad(m, "go/types.Info", "Uses") != nil }) {
								byUse = true
								return true
							}
						}
						if oc := P.CallTo(r, "(*go/types.Named).Obj"); oc != nil {
							// (a scan of all origins first: the pointer step is one of them)
							c.throughAsserts(oc.Call.Args[0], 0, func(q ssa.Value) bool {
								uc := P.CallTo(q, "go/types.Unalias")
								if uc != nil && P.RootsAny(uc.Call.Args[0], func(a ssa.Value) bool { return P.elemOfUnaliasedPointer(a) }) {
									aliasPtrStep = true
								}
								return false
							})
							if c.throughAsserts(oc.Call.Args[0], 0, func(q ssa.Value) bool { return P.CallTo(q, "go/types.Unalias") != nil }) {
								sawAliasRes = true
								return true
							}
						}
						return false
					}) {
						objKind = strings.TrimPrefix(ts, "*go/types.")
						if ts == "*go/types.TypeName" && sawAliasRes {
							aliasResolved = true
						}
					}
				}
			}
			// "declared in another package" is asked of the alias-resolved object: a test on the identifier's own
			// object treats a local alias of a restricted type as a local type
			if si.S.Code == "PKGO01" && l.Kind == "eq" && !l.Pos {
				for _, side := range []ssa.Value{l.X, l.Y} {
					for _, r := range P.ResolveDeep(side) {
						// <obj>.Pkg().Path() compared with a path, or <obj>.Pkg() compared with a package
						cands := []ssa.Value{r}
						if pc := P.CallTo(r, "(*go/types.Package).Path"); pc != nil {
							cands = P.ResolveDeep(pc.Call.Args[0])
						}
						for _, q := range cands {
							oc, ok := q.(*ssa.Call)
							if !ok || !oc.Call.IsInvoke() || oc.Call.Method.Name() != "Pkg" {
								continue
							}
							resolved := P.RootsAnyDeep(oc.Call.Value, func(o ssa.Value) bool {
								nc := P.CallTo(o, "(*go/types.Named).Obj")
								return nc != nil && c.throughAsserts(nc.Call.Args[0], 0, func(u ssa.Value) bool { return P.CallTo(u, "go/types.Unalias") != nil })
							})
							if !resolved {
								unresolvedPkgTest = true
							}
						}
					}
				}
			}
			if v := nilCheckedValue(l); v != nil && P.RootsAny(v, func(r ssa.Value) bool { return P.CallTo(r, "(*go/types.Signature).Recv") != nil }) {
				if !l.Pos {
					recvNonNil = true
				} else {
					recvNilOrCompound = true
				}
			}
			if l.Kind == "and" && !l.Pos {
				for _, sl := range l.Subs {
					if v := nilCheckedValue(sl); v != nil && P.RootsAny(v, func(r ssa.Value) bool { return P.CallTo(r, "(*go/types.Signature).Recv") != nil }) {
						recvNilOrCompound = true
					}
				}
			}
			// if fn.Type() == nil || sig.Recv() == nil { function }
			if l.Kind == "or" && l.Pos {
				for _, sl := range l.Subs {
					if v := nilCheckedValue(sl); v != nil && sl.Pos && P.RootsAny(v, func(r ssa.Value) bool { return P.CallTo(r, "(*go/types.Signature).Recv") != nil }) {
						recvNilOrCompound = true
					}
				}
			}
		}
		want := map[string]string{"PKGO01": "TypeName", "PKGO02": "Func", "PKGO03": "Func"}[si.S.Code]
		ok := (nodeKind == "SelectorExpr" || nodeKind == "Ident") && objKind == want
		if si.S.Code == "PKGO03" && !recvNonNil {
			ok = false
		}
		if si.S.Code == "PKGO01" && ok && unresolvedPkgTest {
			okAll = false
			c.fail(rule+"/ALIAS-RESOLVED", si.Name, where, "the own-package test is made on the object of the identifier as written, before aliases are resolved: a restricted type used through a local alias (`type A = restricted.T`) is taken for a type of the using package (C13)")
		}
		if si.S.Code == "PKGO01" && ok && !aliasResolved {
			okAll = false
			c.fail(rule+"/ALIAS-RESOLVED", si.Name, where, "the type is looked up under the (package, name) of the identifier written at the use site: a restricted type used through `type A = T` is judged as A (C13)")
		}
		if si.S.Code == "PKGO01" && ok && aliasResolved && !aliasPtrStep {
			okAll = false
			c.fail(rule+"/ALIAS-RESOLVED", si.Name+"#pointer", where, "an alias of a pointer type is not resolved to the type pointed to (Unalias, then the pointer's element, un-aliased again): a restricted type used through `type A = *T` is judged as A (C13)")
		}
		if si.S.Code == "PKGO02" && !recvNilOrCompound {
			ok = false
		}
		if ok && !byUse && si.S.Code == "PKGO01" { // only a type can be written where an identifier also defines something
			okAll = false
			c.fail(rule+"/OBJECT-BY-USE", si.Name, where, "the referenced object is taken from TypesInfo.ObjectOf only, which answers with the object an identifier *defines* when there is one: the type of an embedded field (struct{ pkg.T }) defines the field and is not seen as a reference to T; TypesInfo.Uses must be consulted")
		}
		if !ok {
			okAll = false
			c.fail(rule+"/DISPATCH", si.Name, where, fmt.Sprintf("a call path reaches this site for node kind %q / object kind %q (method=%v): %s requires a SelectorExpr or Ident resolving to a %s", nodeKind, objKind, recvNonNil, si.S.Code, want))
		}
		seenKinds[nodeKind] = true
	}
	if okAll {
		c.ok(rule+"/DISPATCH", si.Name, where, fmt.Sprintf("%d call path(s): reference and object kind as the code requires", len(paths)))
	}
	if c.pkgoKinds == nil {
		c.pkgoKinds = map[string]map[string]bool{}
	}
	if c.pkgoKinds[si.S.Code] == nil {
		c.pkgoKinds[si.S.Code] = map[string]bool{}
	}
	for k := range seenKinds {
		c.pkgoKinds[si.S.Code][k] = true
	}
	si.take("dispatch", func(l Lit) bool {
		x, t, _ := typeAssertOK(l)
		return x != nil && (strings.HasPrefix(typeStr(t), "*go/ast.") || strings.HasPrefix(typeStr(t), "*go/types."))
	})
}

// tonl01Dispatch: per call path the TONL01 sites are reached for exactly the node kinds the statement lists:
// composite literal; typed variable declaration (ValueSpec) and struct field / parameter / result (Field).
func (c *Ctx) tonl01Dispatch(si *siteInfo, rule string) {
	P := c.P
	where := P.Pos(si.S.Alloc.Pos())
	kinds := map[string]bool{}
	for _, path := range P.GuardPathsVia(si.S.Alloc, si.S.Via) {
		k := "?"
		for _, l := range path {
			if x, t, _ := typeAssertOK(l); x != nil && l.Pos && strings.HasPrefix(typeStr(t), "*go/ast.") && c.roleOf(firstRoot(P, x), 0) == "node" {
				k = strings.TrimPrefix(typeStr(t), "*go/ast.")
			}
		}
		kinds[k] = true
	}
	var ks []string
	for k := range kinds {
		ks = append(ks, k)
		if c.tonl01Kinds == nil {
			c.tonl01Kinds = map[string]bool{}
		}
		c.tonl01Kinds[k] = true
	}
	sort.Strings(ks)
	got := strings.Join(ks, ",")
	si.take("dispatch", func(l Lit) bool {
		x, t, _ := typeAssertOK(l)
		return x != nil && strings.HasPrefix(typeStr(t), "*go/ast.")
	})
	if got == "CompositeLit" || got == "Field,ValueSpec" || got == "CompositeLit,Field,ValueSpec" || got == "Field" || got == "ValueSpec" {
		c.ok(rule+"/DISPATCH", si.Name, where, "reached for node kinds "+got)
	} else {
		c.fail(rule+"/DISPATCH", si.Name, where, "TONL01 site is reached for node kinds ["+got+"]; the property lists composite literals, typed variable declarations (ValueSpec) and fields/parameters/results (Field)")
	}
}

const pkgLevelDetail = "the type is identified by (package path, name) without requiring that it is declared at package level (obj.Parent() == pkg.Scope()): a function-local type that shares the name of an annotated type is reported"

// pkgLevelPred: the literal says that the named type's object is declared in its package's scope -
// obj.Parent() == pkg.Scope(), possibly as a disjunction with obj.Parent() == nil (objects that were not entered
// into any scope: hand-built test fixtures).
// scopeCmp: l compares <o>.Parent() of a go/types object with a (*types.Package).Scope(); sameObj tells whether that
// is the scope of o's own package (<o>.Pkg().Scope()).
func (c *Ctx) scopeCmp(l Lit) (isCmp, sameObj bool) {
	P := c.P
	if l.Kind != "eq" || l.X == nil || l.Y == nil {
		return false, false
	}
	isParent := func(v ssa.Value) bool {
		return P.RootsAllDeep(v, func(r ssa.Value) bool {
			call, ok := r.(*ssa.Call)
			return ok && strings.HasSuffix(P.calleeName(call.Common()), ").Parent") && strings.Contains(P.calleeName(call.Common()), "go/types.")
		})
	}
	isScope := func(v ssa.Value) bool {
		return P.RootsAllDeep(v, func(r ssa.Value) bool { return P.CallTo(r, "(*go/types.Package).Scope") != nil })
	}
	recvOf := func(call *ssa.Call) ssa.Value {
		if call.Call.IsInvoke() {
			return call.Call.Value
		}
		if len(call.Call.Args) > 0 {
			// a method promoted from the embedded go/types.object: the receiver is the object that embeds it
			v := call.Call.Args[0]
			if fa, ok := v.(*ssa.FieldAddr); ok && fieldName(deref(fa.X.Type()), fa.Field) == "object" {
				v = fa.X
			}
			return v
		}
		return nil
	}
	// the scope compared with is the scope of the object's OWN package: <o>.Parent() == <o>.Pkg().Scope() for one
	// and the same o - the scope of the package under analysis is another scope for every imported object
	sameObject := func(parent, scope ssa.Value) bool {
		var objs []string
		for _, r := range P.ResolveDeep(parent) {
			if call, ok := r.(*ssa.Call); ok && recvOf(call) != nil {
				objs = append(objs, P.Desc(recvOf(call)))
			}
		}
		if len(objs) == 0 {
			return false
		}
		return P.RootsAllDeep(scope, func(r ssa.Value) bool {
			sc := P.CallTo(r, "(*go/types.Package).Scope")
			if sc == nil || recvOf(sc) == nil {
				return false
			}
			return P.RootsAllDeep(recvOf(sc), func(pr ssa.Value) bool {
				pc, ok := pr.(*ssa.Call)
				if !ok || !strings.HasSuffix(P.calleeName(pc.Common()), ").Pkg") || !strings.Contains(P.calleeName(pc.Common()), "go/types.") || recvOf(pc) == nil {
					return false
				}
				d := P.Desc(recvOf(pc))
				for _, o := range objs {
					if o == d {
						return true
					}
				}
				return false
			})
		})
	}
	switch {
	case isParent(l.X) && isScope(l.Y):
		return true, sameObject(l.X, l.Y)
	case isParent(l.Y) && isScope(l.X):
		return true, sameObject(l.Y, l.X)
	}
	return false, false
}

// foreignScopeCmp: l, or a part of it, compares an object's Parent() with the scope of another package than its own.
func (c *Ctx) foreignScopeCmp(l Lit) bool {
	if is, same := c.scopeCmp(l); is && !same {
		return true
	}
	for _, sl := range l.Subs {
		if c.foreignScopeCmp(sl) {
			return true
		}
	}
	return false
}

func (c *Ctx) pkgLevelPred() func(l Lit) bool {
	P := c.P
	isParent := func(v ssa.Value) bool {
		return P.RootsAllDeep(v, func(r ssa.Value) bool {
			call, ok := r.(*ssa.Call)
			return ok && strings.HasSuffix(P.calleeName(call.Common()), ").Parent") && strings.Contains(P.calleeName(call.Common()), "go/types.")
		})
	}
	atom := func(l Lit) string {
		if l.Kind != "eq" || !l.Pos {
			return ""
		}
		if is, same := c.scopeCmp(l); is {
			if same {
				return "scope"
			}
			return ""
		}
		switch {
		case isParent(l.X) && isNilConst(l.Y), isParent(l.Y) && isNilConst(l.X):
			return "nil"
		}
		return ""
	}
	return func(l Lit) bool {
		if atom(l) == "scope" {
			return true
		}
		var subs []Lit
		switch {
		case l.Kind == "or" && l.Pos:
			subs = l.Subs
		case l.Kind == "and" && !l.Pos:
			for _, sl := range l.Subs {
				sl.Pos = !sl.Pos
				subs = append(subs, sl)
			}
		default:
			return false
		}
		sawScope := false
		for _, sl := range subs {
			switch atom(sl) {
			case "scope":
				sawScope = true
			case "nil":
			default:
				return false
			}
		}
		return sawScope
	}
}

// literalTypeRule: where a site is reached for a composite literal, the type looked up is the type of the literal
// (TypesInfo.TypeOf(lit), defined for element literals with elided type as well), not of its type expression
// (lit.Type is nil for `[]T{{...}}`). Judged on the TypeOf calls of the function that creates the violation, in the
// calling context of the site (a parameter stands for the argument of that call path).
func (c *Ctx) literalTypeRule(si *siteInfo, rule string) {
	P := c.P
	fn := si.S.Fn
	if fn == nil {
		return
	}
	var ofLit, ofExpr *ssa.Call
	allInstrs(fn, func(_ *ssa.BasicBlock, ins ssa.Instruction) {
		call, ok := ins.(*ssa.Call)
		if !ok || P.CallTo(call, "(*go/types.Info).TypeOf") == nil || len(call.Call.Args) < 2 {
			return
		}
		for _, r := range P.Resolve(call.Call.Args[1]) {
			if fieldLoad(r, "go/ast.CompositeLit", "Type") != nil {
				ofExpr = call
			}
			x, t, _ := typeAssertOKValue(r)
			if x != nil && typeStr(t) == "*go/ast.CompositeLit" {
				ofLit = call
			}
		}
	})
	if ofLit == nil && ofExpr == nil {
		return // not the literal path
	}
	where := P.Pos(si.S.Alloc.Pos())
	if ofExpr != nil {
		where = P.Pos(ofExpr.Pos())
	}
	c.check(ofExpr == nil, rule+"/TYPE-OF-LITERAL(+)", si.Name, where,
		"the type of a composite literal is TypesInfo.TypeOf(<the literal>)",
		"the type of a composite literal is read from its type expression (lit.Type): element literals with elided type ([]T{{...}}, map[K]T{k: {...}}) have none and are not reported")
}

// typeAssertOKValue: v is x.(T) (plain or the value of the comma-ok form): x and T.
func typeAssertOKValue(v ssa.Value) (ssa.Value, types.Type, bool) {
	switch x := v.(type) {
	case *ssa.TypeAssert:
		return x.X, x.AssertedType, x.CommaOk
	case *ssa.Extract:
		if ta, ok := x.Tuple.(*ssa.TypeAssert); ok && x.Index == 0 {
			return ta.X, ta.AssertedType, true
		}
	}
	return nil, nil, false
}
