package main

// C16 / C08 / C07: the suppression decision (util.IgnoreSet), the hierarchy (codes.GetCodesForCheck),
// the report-time gate (reporting.Reporter) and the scope computation (package ignore).

import (
	"fmt"
	"go/constant"
	"go/token"
	"go/types"
	"os"
	"sort"
	"strings"

	"golang.org/x/tools/go/ssa"
)

// outcome: one way a bool function produces its result.
type outcome struct {
	Val    ssa.Value
	At     ssa.Instruction
	Guards []Lit
	Via    []ssa.Instruction // outcomes of helpers this outcome was combined with (where their result is produced)
}

// outcomes lists the results of a bool function, looking through the result cell that go/ssa introduces for
// functions containing range-over-func loops (stores from the loop-body closures included).
func (c *Ctx) outcomes(fn *ssa.Function) []outcome {
	P := c.P
	var out []outcome
	cells := map[*ssa.Alloc]bool{}
	allInstrs(fn, func(b *ssa.BasicBlock, ins ssa.Instruction) {
		r, ok := ins.(*ssa.Return)
		if !ok || len(r.Results) != 1 {
			return
		}
		if u, ok := r.Results[0].(*ssa.UnOp); ok && u.Op == token.MUL {
			if cell := P.cellOf(u.X); cell != nil {
				cells[cell] = true
				return
			}
		}
		out = append(out, outcome{Val: r.Results[0], At: r, Guards: P.BlockGuards(b)})
	})
	for cell := range cells {
		_, stores, _ := P.CellStores(cell)
		for _, st := range stores {
			out = append(out, outcome{Val: st.Val, At: st, Guards: P.GuardsWithin(st, fn)})
		}
	}
	// a result that is itself the result of a product bool function is replaced by that function's outcomes
	for depth := 0; depth < 3; depth++ {
		var next []outcome
		changed := false
		for _, o := range out {
			call, ok := o.Val.(*ssa.Call)
			var callee *ssa.Function
			if ok {
				callee = call.Call.StaticCallee()
			}
			if callee == nil || callee == fn || !P.IsProductFunc(callee) || len(callee.Blocks) == 0 || !P.BoolSummary(callee).ok {
				next = append(next, o)
				continue
			}
			changed = true
			for _, o2 := range c.outcomes(callee) {
				next = append(next, outcome{Val: o2.Val, At: o2.At, Guards: dedupLits(append(append([]Lit{}, o.Guards...), o2.Guards...))})
			}
		}
		out = next
		if !changed {
			break
		}
	}
	// a computed result (`return a && !b`) is the two outcomes true / false under what the expression implies
	{
		var next []outcome
		for _, o := range out {
			if _, isC := constBool(o.Val); isC || !isBoolValue(o.Val) {
				next = append(next, o)
				continue
			}
			f := P.condFormula(o.Val, 0)
			if f.op == "leaf" && f.lit.Kind == "cond" {
				if _, k := P.litHelperCall(f.lit); k != 0 || litCall(f.lit) == nil {
					next = append(next, o) // an opaque value: left to the rule
					continue
				}
			}
			for _, val := range []bool{true, false} {
				// `a() || b()`: true because of a, or because of b after a said no - one outcome per way
				alts := formulaDNF(f, val, 0)
				if len(alts) == 0 || len(alts) > 8 {
					alts = [][]Lit{literals(f, val)}
				}
				for _, alt := range alts {
					next = append(next, outcome{Val: ssa.NewConst(constant.MakeBool(val), types.Typ[types.Bool]), At: o.At,
						Guards: dedupLits(append(append([]Lit{}, o.Guards...), alt...)), Via: o.Via})
				}
			}
		}
		out = next
	}
	// a guard that is the bool result of a product helper with several outcomes (`if s.matchesGlobally(code) {
	// return true }`) is replaced by the conditions of each way the helper produces that result: one outcome per way
	for depth := 0; depth < 3; depth++ {
		var next []outcome
		changed := false
		for _, o := range out {
			idx := -1
			var sub []outcome
			for i, l := range o.Guards {
				call, k := P.litHelperCall(l)
				if call == nil || k != 0 {
					continue
				}
				callee := call.Call.StaticCallee()
				if callee == nil || callee == fn || P.isAnchor(callee) || c.outcomeBusy[callee] {
					continue
				}
				if c.outcomeBusy == nil {
					c.outcomeBusy = map[*ssa.Function]bool{}
				}
				c.outcomeBusy[callee] = true
				var hs []outcome
				P.PinnedAll(pinMap{callee: call}, func() { hs = c.outcomes(callee) })
				delete(c.outcomeBusy, callee)
				okAll := len(hs) > 0
				for _, h := range hs {
					if _, isC := constBool(h.Val); !isC {
						okAll = false
					}
				}
				if !okAll {
					continue
				}
				for _, h := range hs {
					if cv, _ := constBool(h.Val); cv == l.Pos {
						sub = append(sub, h)
					}
				}
				idx = i
				break
			}
			if idx < 0 {
				next = append(next, o)
				continue
			}
			changed = true
			rest := append(append([]Lit{}, o.Guards[:idx]...), o.Guards[idx+1:]...)
			for _, h := range sub {
				via := append(append(append([]ssa.Instruction{}, o.Via...), h.At), h.Via...)
				next = append(next, outcome{Val: o.Val, At: o.At, Guards: dedupLits(append(append([]Lit{}, rest...), h.Guards...)), Via: via})
			}
		}
		out = next
		if !changed {
			break
		}
	}
	for i := range out {
		out[i].Guards = P.Expand(out[i].Guards)
	}
	sort.SliceStable(out, func(i, j int) bool { return out[i].At.Pos() < out[j].At.Pos() })
	return out
}

// fieldOf: v is a load of field `name` of a util.IgnoreSet / IgnoreMarker.
func isFieldOf(P *Program, v ssa.Value, typ, name string) bool {
	for _, r := range P.Resolve(v) {
		if fieldLoad(r, typ, name) == nil {
			return false
		}
	}
	return len(P.Resolve(v)) > 0
}

func isBoolValue(v ssa.Value) bool {
	b, ok := v.Type().Underlying().(*types.Basic)
	return ok && b.Kind() == types.Bool
}

func isZeroPos(v ssa.Value) bool {
	cs, ok := v.(*ssa.Const)
	return ok && cs.Value != nil && cs.Value.ExactString() == "0"
}

// ruleIgnoreSetContains: C16 — the decision procedure of IgnoreSet.Contains.
func (c *Ctx) ruleIgnoreSetContains() {
	P := c.P
	fn := P.LookupFunc("util", "IgnoreSet.Contains")
	if fn == nil {
		c.fail("IGNORESET", "util.IgnoreSet.Contains", "", "method not found")
		return
	}
	name := FuncName(fn)
	IS := "util.IgnoreSet"
	// hierarchy element: the loop variable of `range codes.GetCodesForCheck(code)`
	isHierElem := func(v ssa.Value) bool {
		d := P.Desc(v)
		return strings.HasPrefix(d, "iterelem0(call(codes.GetCodesForCheck; ") && isParamDesc(P, d, fn, 1)
	}
	var nReject, nNil, nFinal int
	globalAt, scopedAt := map[ssa.Instruction]bool{}, map[ssa.Instruction]bool{}
	// locate the global phase: the instruction of Contains through which moduleIgnores is consulted - the iterator call
	// whose body reads it, or the call of a helper that does
	var globalIterCall *ssa.Call
	readsModule := func(f *ssa.Function) bool {
		uses := false
		for _, g := range P.StaticClosure(f) {
			if g != f && P.isAnchor(g) {
				continue
			}
			allInstrs(g, func(_ *ssa.BasicBlock, i2 ssa.Instruction) {
				if fa, ok := i2.(*ssa.FieldAddr); ok && typeStr(deref(fa.X.Type())) == IS {
					if deref(fa.X.Type()).Underlying().(*types.Struct).Field(fa.Field).Name() == "moduleIgnores" {
						uses = true
					}
				}
			})
		}
		return uses
	}
	allInstrs(fn, func(b *ssa.BasicBlock, ins ssa.Instruction) {
		call, ok := ins.(*ssa.Call)
		if !ok || globalIterCall != nil {
			return
		}
		if len(call.Call.Args) == 1 {
			if mc, ok := call.Call.Args[0].(*ssa.MakeClosure); ok && readsModule(mc.Fn.(*ssa.Function)) {
				globalIterCall = call
				return
			}
		}
		if callee := call.Call.StaticCallee(); callee != nil && callee != fn && P.IsProductFunc(callee) && !P.isAnchor(callee) && readsModule(callee) {
			globalIterCall = call
		}
	})
	for i, o := range c.outcomes(fn) {
		cons := fmt.Sprintf("%s#outcome%d", name, i)
		where := P.Pos(o.At.Pos())
		cv, isC := constBool(o.Val)
		if !isC {
			c.fail("IGNORESET/OUTCOME", cons, where, "Contains produces a non-constant result "+short(P.Desc(o.Val))+": not one of the reviewed outcome shapes")
			continue
		}
		blk := o.At.Block()
		if cv {
			// ---- true outcomes
			var isGlobal, isScoped bool
			var whyNot string
			for _, l := range o.Guards {
				if call := litCall(l); call != nil && l.Pos && strings.HasPrefix(P.calleeName(call.Common()), "slices.Contains[") {
					if isFieldOf(P, call.Call.Args[0], IS, "moduleIgnores") && isHierElem(call.Call.Args[1]) {
						isGlobal = true
					} else {
						whyNot = "global match is not slices.Contains(s.moduleIgnores, <element of GetCodesForCheck(code)>): " + short(l.String())
					}
				}
			}
			if !isGlobal {
				// scoped: pos >= marker.StartPos && pos <= marker.EndPos for marker = s.Markers[idx], idx ∈ range s.CodeIndex[hier elem]
				var geStart, leEnd bool
				var marker string
				for _, l := range o.Guards {
					if l.Kind != "lt" || l.Pos {
						continue
					}
					// !(pos < marker.StartPos)
					if isPosParam(P, l.X, fn) && isFieldOf(P, l.Y, "util.IgnoreMarker", "StartPos") {
						geStart = true
						marker = P.Desc(l.Y)
					}
					// !(marker.EndPos < pos)
					if isPosParam(P, l.Y, fn) && isFieldOf(P, l.X, "util.IgnoreMarker", "EndPos") {
						leEnd = true
					}
				}
				okMarker := strings.Contains(marker, "elem[?](field(") && strings.Contains(marker, "util.IgnoreSet.Markers") ||
					strings.Contains(marker, "util.IgnoreSet.Markers")
				// the marker index ranges over s.CodeIndex[hier elem]
				okIdx := false
				for _, l := range o.Guards {
					if lk := lookupOK(l); lk != nil && l.Pos && isFieldOf(P, lk.X, IS, "CodeIndex") && isHierElem(lk.Index) {
						okIdx = true
					}
				}
				if strings.Contains(marker, "lookup(field(") && strings.Contains(marker, "util.IgnoreSet.CodeIndex") {
					if !strings.Contains(marker, "elem(lookup(") && !strings.Contains(marker, "elem(extract0(") && !strings.Contains(marker, "elem(lookup") {
						// index is not the range element of the index list
					}
				}
				viaRange, keyedByHier := c.markerIndexIsRangeElem(o, fn)
				rangeOverAll := strings.Contains(marker, "[elem(") || strings.Contains(marker, "elem(lookup") || viaRange
				if keyedByHier {
					okIdx = true // `for _, i := range s.CodeIndex[<hierarchy element>]`: a missing key ranges over nothing
				}
				if geStart && leEnd && okMarker && okIdx && rangeOverAll {
					isScoped = true
				} else if whyNot == "" {
					whyNot = fmt.Sprintf("scoped match is not `pos >= m.StartPos && pos <= m.EndPos` for every m in s.Markers[s.CodeIndex[<hierarchy element>]...] [>=start:%v <=end:%v marker:%v index:%v every-index:%v]", geStart, leEnd, okMarker, okIdx, rangeOverAll)
				}
			}
			switch {
			case isGlobal:
				globalAt[o.At] = true
				c.ok("IGNORESET/GLOBAL-MATCH", cons, where, "true iff some element of GetCodesForCheck(code) equals a global token (exact string equality)")
			case isScoped:
				scopedAt[o.At] = true
				c.ok("IGNORESET/CLOSED-INTERVAL", cons, where, "true iff StartPos <= pos <= EndPos for a marker indexed under an element of GetCodesForCheck(code)")
			default:
				c.fail("IGNORESET/OUTCOME", cons, where, "unrecognised `return true`: "+whyNot)
			}
			// no further restrictive guard on a true outcome
			for _, l := range o.Guards {
				if c.ignoreSetBenign(l, fn) {
					continue
				}
				if isGlobal {
					if call := litCall(l); call != nil && strings.HasPrefix(P.calleeName(call.Common()), "slices.Contains[") {
						continue
					}
				}
				if isScoped {
					if l.Kind == "lt" && !l.Pos {
						continue
					}
					if lk := lookupOK(l); lk != nil && l.Pos {
						continue
					}
				}
				if call := litCall(l); call != nil && call.Call.StaticCallee() != nil && P.IsProductFunc(call.Call.StaticCallee()) && P.BoolSummary(call.Call.StaticCallee()).ok {
					continue // its implications are in the expanded literals
				}
				c.fail("IGNORESET/EXTRA-GUARD", cons, where, "a match additionally depends on "+short(l.String()))
			}
			continue
		}
		// ---- false outcomes
		nilCut := P.BlockCutBy(blk, func(l Lit) bool {
			if nilCheck(l) && l.Pos {
				return true
			}
			return l.Kind == "cond" && !l.Pos && isFieldOf(P, l.Val, IS, "Initialized")
		})
		if nilCut && blk.Parent() == fn {
			nNil++
			c.ok("IGNORESET/NIL-EMPTY", cons, where, "false for a nil or uninitialised set")
			continue
		}
		rejectCut := blk.Parent() == fn && P.BlockCutBy(blk, func(l Lit) bool {
			return litImplies(l, func(l Lit) bool {
				switch {
				case l.Kind == "eq" && l.Pos && ((isFieldOf(P, l.X, IS, "MinPos") && isZeroPos(l.Y)) || (isFieldOf(P, l.Y, IS, "MinPos") && isZeroPos(l.X))):
					return true // no marker at all
				case l.Kind == "lt" && l.Pos && isPosParam(P, l.X, fn) && isFieldOf(P, l.Y, IS, "MinPos"):
					return true // pos < MinPos (strict)
				case l.Kind == "lt" && l.Pos && isFieldOf(P, l.X, IS, "MaxPos") && isPosParam(P, l.Y, fn):
					return true // pos > MaxPos (strict)
				}
				return false
			})
		})
		if rejectCut {
			nReject++
			c.ok("IGNORESET/REJECT-OUTSIDE", cons, where, "fast reject only for pos strictly outside [MinPos, MaxPos] or without markers")
			// GLOBAL-FIRST
			if globalIterCall == nil {
				c.fail("IGNORESET/GLOBAL-FIRST", cons, where, "global (module-wide) tokens are never consulted")
			} else {
				c.check(dominates(globalIterCall.Block(), blk) || blockAfterOptional(globalIterCall.Block(), blk), "IGNORESET/GLOBAL-FIRST", cons, where,
					"range fast-reject comes after the global-token phase", "the range fast-reject can return false before the global tokens were consulted: a global exclusion is lost outside [MinPos, MaxPos]")
			}
			continue
		}
		// final false: after the scoped phase completed without match (closure continues) — or loop-continue stores
		if bp := blk.Parent(); bp.Parent() != nil || bp.Synthetic == "range-over-func yield" {
			c.fail("IGNORESET/OUTCOME", cons, where, "loop body stores `false` as the result: the search stops at the first non-matching token/marker")
			continue
		}
		nFinal++
		c.ok("IGNORESET/NO-MATCH", cons, where, "false after both phases found no match")
	}
	nTrueGlobal, nTrueScoped := len(globalAt), len(scopedAt)
	c.check(nTrueGlobal == 1, "IGNORESET/SHAPE", name+"#global", P.Pos(fn.Pos()), "one global match outcome", fmt.Sprintf("%d global match outcomes (expected 1)", nTrueGlobal))
	c.check(nTrueScoped == 1, "IGNORESET/SHAPE", name+"#scoped", P.Pos(fn.Pos()), "one scoped match outcome", fmt.Sprintf("%d scoped match outcomes (expected 1)", nTrueScoped))
	c.check(nNil >= 1, "IGNORESET/SHAPE", name+"#nil", P.Pos(fn.Pos()), "nil/uninitialised outcome present", "no `false` outcome for nil / uninitialised sets")
	c.check(nFinal >= 1, "IGNORESET/SHAPE", name+"#final", P.Pos(fn.Pos()), "final no-match outcome present", "no final `false` outcome")
	_ = nReject
	// both phases iterate the whole hierarchy without leaving early except on a match
	c.hierLoops(fn)
	c.orderOnly()
}

// markerIndexIsRangeElem: the marker of a scoped match is s.Markers[idx] with idx the element of a range loop
// over the index list (every indexed marker is examined, in any order of insertion).
func (c *Ctx) markerIndexIsRangeElem(o outcome, fn *ssa.Function) (ok bool, keyedByHier bool) {
	P := c.P
	for _, l := range o.Guards {
		if l.Kind != "lt" {
			continue
		}
		for _, side := range []ssa.Value{l.X, l.Y} {
			for _, r := range P.Resolve(side) {
				base := fieldLoad(r, "util.IgnoreMarker", "StartPos")
				if base == nil {
					base = fieldLoad(r, "util.IgnoreMarker", "EndPos")
				}
				if base == nil {
					continue
				}
				// base: local marker cell <- load of IndexAddr(s.Markers, idx)
				d := P.descBase(base, false)
				if strings.HasPrefix(d, "elem[?](field(") && strings.Contains(d, "util.IgnoreSet.Markers)") {
					// idx must be elem of range over the lookup result
					var idxOK bool
					var ias []*ssa.IndexAddr
					for _, rr := range c.markerLoads(base) {
						if ia, isIA := rr.X.(*ssa.IndexAddr); isIA {
							ias = append(ias, ia)
						}
					}
					// s.Markers[idx].StartPos read in place (no local copy of the marker)
					if ia, isIA := base.(*ssa.IndexAddr); isIA {
						ias = append(ias, ia)
					}
					for _, ia := range ias {
						idd := P.Desc(ia.Index)
						if strings.HasPrefix(idd, "elem(lookup(field(") && strings.Contains(idd, "util.IgnoreSet.CodeIndex)") {
							idxOK = true
							if strings.Contains(idd, "util.IgnoreSet.CodeIndex); iterelem0(call(codes.GetCodesForCheck; "+P.Desc(fn.Params[1])+"))") {
								keyedByHier = true
							}
						}
					}
					if idxOK {
						ok = true
					}
				}
			}
		}
	}
	return ok, keyedByHier
}

// markerLoads: the loads stored into the local marker cell.
func (c *Ctx) markerLoads(base ssa.Value) []*ssa.UnOp {
	var out []*ssa.UnOp
	if cell := c.P.cellOf(base); cell != nil {
		vals, _, _ := c.P.CellStores(cell)
		for _, v := range vals {
			// the marker may have been handed to a helper by value
			if u, ok := c.P.throughParams(v).(*ssa.UnOp); ok {
				out = append(out, u)
			}
		}
	}
	return out
}

// litImplies: the literal guarantees pred - directly, or as a compound: a conjunction guarantees it if one
// conjunct does, a disjunction if every disjunct does (not(and) / not(or) by De Morgan).
func litImplies(l Lit, pred func(Lit) bool) bool {
	if l.Kind != "and" && l.Kind != "or" {
		return pred(l)
	}
	conj := (l.Kind == "and") == l.Pos
	for _, s := range l.Subs {
		if !l.Pos {
			s.Pos = !s.Pos
		}
		ok := litImplies(s, pred)
		if conj && ok {
			return true
		}
		if !conj && !ok {
			return false
		}
	}
	return !conj && len(l.Subs) > 0
}

func isParamDesc(P *Program, d string, fn *ssa.Function, idx int) bool {
	return strings.Contains(d, P.Desc(fn.Params[idx]))
}

func isPosParam(P *Program, v ssa.Value, fn *ssa.Function) bool {
	want := P.Desc(fn.Params[2])
	return P.Desc(v) == want
}

// blockAfterOptional: b is reached only after block a or after skipping a's enclosing `if` whose condition is
// "there are no global tokens" (len(s.moduleIgnores) != 0 guard around the global phase).
func blockAfterOptional(a, b *ssa.BasicBlock) bool {
	// a's immediate dominator chain: find the If that guards a; b must be dominated by that If block
	for d := a.Idom(); d != nil; d = d.Idom() {
		if _, ok := lastInstr(d).(*ssa.If); ok {
			return dominates(d, b)
		}
	}
	return false
}

func (c *Ctx) ignoreSetBenign(l Lit, fn *ssa.Function) bool {
	P := c.P
	if l.Kind == "rangeloop" || l.Kind == "rangefunc" || nilCheck(l) {
		return true
	}
	if l.Kind == "cond" && isFieldOf(P, l.Val, "util.IgnoreSet", "Initialized") {
		return true
	}
	if lenCheck(l) {
		for _, side := range []ssa.Value{l.X, l.Y} {
			if x := lenOf(side); x != nil && isFieldOf(P, x, "util.IgnoreSet", "moduleIgnores") {
				return true
			}
		}
	}
	// the fast reject being false
	if l.Kind == "eq" && !l.Pos && (isFieldOf(P, l.X, "util.IgnoreSet", "MinPos") || isFieldOf(P, l.Y, "util.IgnoreSet", "MinPos")) {
		return true
	}
	if l.Kind == "lt" && !l.Pos && (isFieldOf(P, l.X, "util.IgnoreSet", "MaxPos") || isFieldOf(P, l.Y, "util.IgnoreSet", "MinPos")) {
		return true
	}
	if (l.Kind == "or" || l.Kind == "and") && len(l.Subs) > 0 {
		for _, s := range l.Subs {
			if !c.ignoreSetBenign(s, fn) {
				return false
			}
		}
		return true
	}
	return false
}

// hierLoops: every range-over-func loop in Contains iterates codes.GetCodesForCheck(code) and its body stops the
// iteration (returns false to the iterator) only together with a `true` result.
func (c *Ctx) hierLoops(fn *ssa.Function) {
	P := c.P
	n := 0
	// loops of Contains itself and of the helpers it delegates a phase to
	var bodies []*ssa.Function
	for _, f := range P.StaticClosure(fn) {
		if f.Parent() == nil && (f == fn || !P.isAnchor(f)) {
			bodies = append(bodies, f.AnonFuncs...)
		}
	}
	for _, af := range bodies {
		if af.Synthetic != "range-over-func yield" {
			continue
		}
		n++
		mc := P.closureSite(af)
		call, _ := closurePassedTo(mc)
		okIter := false
		if call != nil {
			d := P.Desc(call.Common().Value)
			okIter = strings.HasPrefix(d, "call(codes.GetCodesForCheck; ") && strings.Contains(d, P.Desc(fn.Params[1]))
		}
		c.check(okIter, "IGNORESET/HIER", FuncName(af), P.Pos(af.Pos()), "iterates codes.GetCodesForCheck(code)", "a phase of Contains does not iterate the ALL > category > code hierarchy of the queried code")
		// early stop only with a true result
		allInstrs(af, func(b *ssa.BasicBlock, ins ssa.Instruction) {
			r, ok := ins.(*ssa.Return)
			if !ok || len(r.Results) != 1 || !isConstFalse(r.Results[0]) {
				return
			}
			// the block must store true into the result cell
			storesTrue := false
			for _, i2 := range b.Instrs {
				if st, ok := i2.(*ssa.Store); ok {
					if cv, isC := constBool(st.Val); isC && cv {
						storesTrue = true
					}
				}
			}
			c.check(storesTrue, "IGNORESET/HIER-COMPLETE", FuncName(af), P.Pos(r.Pos()), "the hierarchy loop stops early only on a match", "the hierarchy loop is left before all of ALL, category and code were tried")
		})
	}
	// every loop of the decision (hierarchy, index list, token list) is left before exhaustion only on a match:
	// an early `break` on a non-matching element makes the answer depend on the order in which markers were added
	nLoops := 0
	var fam []*ssa.Function
	for _, f := range P.StaticClosure(fn) {
		if f == fn || !P.isAnchor(f) {
			fam = append(fam, f)
			if f.Parent() == nil {
				fam = append(fam, f.AnonFuncs...)
			}
		}
	}
	seenF := map[*ssa.Function]bool{}
	for _, f := range fam {
		if seenF[f] || !P.IsProductFunc(f) {
			continue
		}
		seenF[f] = true
		for _, lp := range naturalLoops(f) {
			nLoops++
			for _, ex := range lp.exits {
				if ex[0] == lp.head {
					continue // exhaustion
				}
				matched := false
				for _, i2 := range ex[1].Instrs {
					switch x := i2.(type) {
					case *ssa.Store:
						if cv, isC := constBool(x.Val); isC && cv {
							matched = true
						}
					case *ssa.Return:
						if len(x.Results) == 1 {
							if cv, isC := constBool(x.Results[0]); isC && cv && f.Synthetic != "range-over-func yield" {
								matched = true
							}
						}
					}
				}
				where := ""
				if len(ex[0].Instrs) > 0 {
					where = P.Pos(ex[0].Instrs[len(ex[0].Instrs)-1].Pos())
				}
				c.check(matched, "IGNORESET/LOOP-COMPLETE", fmt.Sprintf("%s#loop@%s->%d", FuncName(f), lp.head.Comment, ex[1].Index), where,
					"a loop of the decision is left early only with a match", "a loop of Contains is left before all candidates were examined and without a match: a marker or token that comes later in insertion order is never tried")
			}
		}
	}
	c.floor("loops in the decision of IgnoreSet.Contains", nLoops, 1)
	c.check(n == 2, "IGNORESET/HIER", FuncName(fn)+"#phases", P.Pos(fn.Pos()), "two hierarchy phases (global, scoped)", fmt.Sprintf("%d hierarchy loops in Contains (expected: global phase and scoped phase)", n))
}

// orderOnly: token.Pos values in util/ignoreset.go are only copied and compared.
func (c *Ctx) orderOnly() {
	P := c.P
	n := 0
	for _, fn := range P.ModFuncs {
		if !strings.Contains(FuncName(fn), "util.IgnoreSet)") {
			continue
		}
		allInstrs(fn, func(b *ssa.BasicBlock, ins ssa.Instruction) {
			switch x := ins.(type) {
			case *ssa.BinOp:
				if typeStr(x.X.Type()) == "go/token.Pos" || typeStr(x.Y.Type()) == "go/token.Pos" {
					n++
					switch x.Op {
					case token.EQL, token.NEQ, token.LSS, token.LEQ, token.GTR, token.GEQ:
						c.ok("IGNORESET/ORDER-ONLY", fmt.Sprintf("%s#cmp%d", FuncName(fn), n), P.Pos(x.Pos()), "comparison "+x.Op.String())
					default:
						c.fail("IGNORESET/ORDER-ONLY", fmt.Sprintf("%s#op%d", FuncName(fn), n), P.Pos(x.Pos()), "arithmetic on a position ("+x.Op.String()+"): the decision no longer depends on the order of positions only")
					}
				}
			case *ssa.Convert:
				if typeStr(x.X.Type()) == "go/token.Pos" {
					c.fail("IGNORESET/ORDER-ONLY", FuncName(fn)+"#convert", P.Pos(x.Pos()), "a position is converted to another type")
				}
			}
		})
	}
	c.floor("position comparisons in util.IgnoreSet", n, 6)
}

// ruleIgnoreSetAdd: C16 MINMAX / INDEXED / module ignores.
func (c *Ctx) ruleIgnoreSetAdd() {
	P := c.P
	IS := "util.IgnoreSet"
	add := P.LookupFunc("util", "IgnoreSet.Add")
	if add == nil {
		c.fail("IGNORESET/ADD", "util.IgnoreSet.Add", "", "method not found")
		return
	}
	name := FuncName(add)
	var sawMin, sawMax, sawMarkers, sawIndex bool
	var minStores, maxStores, minLowers, maxRaises int
	onlyWhileUnset := func(b *ssa.BasicBlock, field string) bool {
		for _, l := range P.BlockGuards(b) {
			if l.Kind == "eq" && l.Pos && (isFieldOf(P, l.X, IS, field) || isFieldOf(P, l.Y, IS, field)) && (isZeroPos(l.X) || isZeroPos(l.Y)) {
				return true
			}
		}
		return false
	}
	// Add and the helpers it hands part of the bookkeeping to, read in Add's calling context
	pins, family := P.ContextPins(add)
	var fams []*ssa.Function
	for f := range family {
		if f == add || (!P.isAnchor(f) && f.Parent() == nil) {
			fams = append(fams, f)
		}
	}
	sort.Slice(fams, func(i, j int) bool { return FuncName(fams[i]) < FuncName(fams[j]) })
	P.PinnedAll(pins, func() {
		for _, famFn := range fams {
			allInstrs(famFn, func(b *ssa.BasicBlock, ins ssa.Instruction) {
				switch x := ins.(type) {
				case *ssa.Store:
					fa, ok := x.Addr.(*ssa.FieldAddr)
					if !ok || typeStr(deref(fa.X.Type())) != IS {
						return
					}
					f := deref(fa.X.Type()).Underlying().(*types.Struct).Field(fa.Field).Name()
					where := P.Pos(x.Pos())
					// the one-time initialisation of the set (under `!s.Initialized`, in Add itself, in a helper, or
					// at the helper's call) is not part of the per-marker bookkeeping
					if hasLit(P.GuardsWithin(x, add), func(l Lit) bool {
						return l.Kind == "cond" && !l.Pos && l.Val != nil && isFieldOf(P, l.Val, IS, "Initialized")
					}) {
						return
					}
					switch f {
					case "MinPos":
						okV := isFieldOf(P, x.Val, "util.IgnoreMarker", "StartPos") || strings.Contains(P.Desc(x.Val), "GetStartPos")
						cut := P.BlockCutBy(b, func(l Lit) bool {
							if l.Kind == "eq" && l.Pos && (isFieldOf(P, l.X, IS, "MinPos") || isFieldOf(P, l.Y, IS, "MinPos")) && (isZeroPos(l.X) || isZeroPos(l.Y)) {
								return true
							}
							// StartPos < MinPos (or <=)
							if l.Kind == "lt" && l.Pos && isFieldOf(P, l.Y, IS, "MinPos") && P.Desc(l.X) == P.Desc(x.Val) {
								return true
							}
							if l.Kind == "lt" && !l.Pos && isFieldOf(P, l.X, IS, "MinPos") && P.Desc(l.Y) == P.Desc(x.Val) {
								return true // !(MinPos < StartPos)  ==  StartPos <= MinPos
							}
							return false
						})
						// s.MinPos = min(s.MinPos, marker.StartPos) where MinPos is set already (NoPos is the smallest
						// position: taken into a minimum it would stay)
						if mc := builtinMinMax(x.Val, "min"); mc != nil && !okV {
							a0, a1 := mc.Call.Args[0], mc.Call.Args[1]
							isStart := func(v ssa.Value) bool {
								return isFieldOf(P, v, "util.IgnoreMarker", "StartPos") || strings.Contains(P.Desc(v), "GetStartPos")
							}
							okV = (isFieldOf(P, a0, IS, "MinPos") && isStart(a1)) || (isFieldOf(P, a1, IS, "MinPos") && isStart(a0))
							cut = P.BlockCutBy(b, func(l Lit) bool {
								return l.Kind == "eq" && !l.Pos && (isFieldOf(P, l.X, IS, "MinPos") || isFieldOf(P, l.Y, IS, "MinPos")) && (isZeroPos(l.X) || isZeroPos(l.Y))
							})
						}
						for _, l := range P.BlockGuards(b) {
							if ls := l.String(); strings.Contains(ls, "lt(") && (strings.Contains(ls, "util.IgnoreSet.MaxPos") || strings.Contains(ls, "util.IgnoreMarker.EndPos")) {
								c.fail("IGNORESET/MINMAX", name+"#MinPos#extra-guard", where, "the update of MinPos additionally depends on "+short(ls)+": a marker for which that comparison goes the other way does not lower MinPos")
							}
						}
						minStores++
						if !onlyWhileUnset(b, "MinPos") {
							minLowers++
						}
						sawMin = okV && cut
						c.check(okV && cut, "IGNORESET/MINMAX", name+"#MinPos", where, "MinPos = marker.StartPos iff unset or StartPos < MinPos", "MinPos is not maintained as the minimum of the markers' start positions: "+short(P.Desc(x.Val)))
					case "MaxPos":
						okV := isFieldOf(P, x.Val, "util.IgnoreMarker", "EndPos") || strings.Contains(P.Desc(x.Val), "GetEndPos")
						cut := P.BlockCutBy(b, func(l Lit) bool {
							if l.Kind == "eq" && l.Pos && (isFieldOf(P, l.X, IS, "MaxPos") || isFieldOf(P, l.Y, IS, "MaxPos")) && (isZeroPos(l.X) || isZeroPos(l.Y)) {
								return true
							}
							if l.Kind == "lt" && l.Pos && isFieldOf(P, l.X, IS, "MaxPos") && P.Desc(l.Y) == P.Desc(x.Val) {
								return true // MaxPos < EndPos
							}
							if l.Kind == "lt" && !l.Pos && isFieldOf(P, l.Y, IS, "MaxPos") && P.Desc(l.X) == P.Desc(x.Val) {
								return true
							}
							return false
						})
						// s.MaxPos = max(s.MaxPos, marker.EndPos): right also while MaxPos is unset (NoPos is the smallest)
						if mc := builtinMinMax(x.Val, "max"); mc != nil && !okV {
							a0, a1 := mc.Call.Args[0], mc.Call.Args[1]
							isEnd := func(v ssa.Value) bool {
								return isFieldOf(P, v, "util.IgnoreMarker", "EndPos") || strings.Contains(P.Desc(v), "GetEndPos")
							}
							okV = (isFieldOf(P, a0, IS, "MaxPos") && isEnd(a1)) || (isFieldOf(P, a1, IS, "MaxPos") && isEnd(a0))
							cut = okV
						}
						// the update of one bound must not depend on the comparison made for the other bound (`if start <
						// MinPos {..} else if end > MaxPos {..}`: a marker that widens the span on both sides leaves MaxPos stale)
						for _, l := range P.BlockGuards(b) {
							if ls := l.String(); strings.Contains(ls, "lt(") && (strings.Contains(ls, "util.IgnoreSet.MinPos") || strings.Contains(ls, "util.IgnoreMarker.StartPos")) {
								c.fail("IGNORESET/MINMAX", name+"#MaxPos#extra-guard", where, "the update of MaxPos additionally depends on "+short(ls)+": a marker for which that comparison goes the other way does not raise MaxPos")
							}
						}
						maxStores++
						if !onlyWhileUnset(b, "MaxPos") {
							maxRaises++
						}
						sawMax = okV && cut
						c.check(okV && cut, "IGNORESET/MINMAX", name+"#MaxPos", where, "MaxPos = marker.EndPos iff unset or EndPos > MaxPos", "MaxPos is not maintained as the maximum of the markers' end positions: "+short(P.Desc(x.Val)))
					case "Markers":
						d := P.Desc(x.Val)
						sawMarkers = strings.HasPrefix(d, "call(builtin append; field(") && strings.Contains(d, "util.IgnoreSet.Markers)")
						var extra []string
						for _, l := range P.BlockGuards(b) {
							if !nilCheck(l) {
								extra = append(extra, short(l.String()))
							}
						}
						c.check(sawMarkers && len(extra) == 0, "IGNORESET/INDEXED", name+"#Markers", where, "every marker is appended", "markers are not unconditionally appended to s.Markers: "+strings.Join(extra, "; "))
					}
				case *ssa.MapUpdate:
					if !isFieldOf(P, x.Map, IS, "CodeIndex") {
						return
					}
					where := P.Pos(x.Pos())
					kd := P.Desc(x.Key)
					okKey := strings.HasPrefix(kd, "elem(") && (strings.Contains(kd, "util.IgnoreMarker.Codes") || strings.Contains(kd, "GetCodes"))
					vd := P.Desc(x.Value)
					okVal := strings.HasPrefix(vd, "call(builtin append; lookup(field(") && strings.Contains(vd, "lit[call(builtin len; field(") && strings.Contains(vd, "util.IgnoreSet.Markers))]")
					onlyLoop := true
					for _, l := range P.BlockGuards(b) {
						if l.Kind != "rangeloop" && !nilCheck(l) {
							onlyLoop = false
						}
					}
					sawIndex = okKey && okVal && onlyLoop
					c.check(sawIndex, "IGNORESET/INDEXED", name+"#CodeIndex", where, "for every code of the marker: CodeIndex[code] = append(CodeIndex[code], index of the marker)",
						fmt.Sprintf("the per-code index is not maintained for every code of every marker [key:%v value:%v unconditional:%v]", okKey, okVal, onlyLoop))
				}
			})
		}
	})
	// a bound that is stored only while it is unset is the first marker's, not the minimum / maximum
	if minStores > 0 && minLowers == 0 {
		c.fail("IGNORESET/MINMAX", name+"#MinPos#never-lowered", P.Pos(add.Pos()), "every store to MinPos stands under `MinPos == NoPos`: a later marker that starts earlier does not lower it")
	}
	if maxStores > 0 && maxRaises == 0 {
		c.fail("IGNORESET/MINMAX", name+"#MaxPos#never-raised", P.Pos(add.Pos()), "every store to MaxPos stands under `MaxPos == NoPos`: a later marker that ends later does not raise it")
	}
	c.check(sawMin && sawMax && sawMarkers && sawIndex, "IGNORESET/ADD-SHAPE", name, P.Pos(add.Pos()), "Add maintains Markers, CodeIndex, MinPos, MaxPos", "Add does not maintain all of Markers, CodeIndex, MinPos, MaxPos")
	// marker copy of the annotation
	mfn := P.LookupFunc("util", "IgnoreSet.AddModuleIgnore")
	if mfn == nil {
		c.fail("IGNORESET/MODULE", "util.IgnoreSet.AddModuleIgnore", "", "method not found")
		return
	}
	okMod, okInit := false, false
	allInstrs(mfn, func(b *ssa.BasicBlock, ins ssa.Instruction) {
		if st, ok := ins.(*ssa.Store); ok {
			if fa, ok := st.Addr.(*ssa.FieldAddr); ok && typeStr(deref(fa.X.Type())) == IS && deref(fa.X.Type()).Underlying().(*types.Struct).Field(fa.Field).Name() == "moduleIgnores" {
				d := P.Desc(st.Val)
				okMod = strings.HasPrefix(d, "call(builtin append; field(") && strings.Contains(d, "util.IgnoreSet.moduleIgnores)") && len(P.BlockGuards(b)) == 0
			}
		}
		if call, ok := ins.(*ssa.Call); ok && call.Call.StaticCallee() != nil && FuncName(call.Call.StaticCallee()) == "(*util.IgnoreSet).ensureInitialized" {
			okInit = true
		}
	})
	if !okInit {
		// any other way of getting there: Initialized = true is stored by the method or a helper it calls, under no
		// condition but `!s.Initialized` itself
		for _, f := range P.StaticClosure(mfn) {
			allInstrs(f, func(b *ssa.BasicBlock, ins ssa.Instruction) {
				st, ok := ins.(*ssa.Store)
				if !ok {
					return
				}
				fa, ok := st.Addr.(*ssa.FieldAddr)
				if !ok || typeStr(deref(fa.X.Type())) != IS || deref(fa.X.Type()).Underlying().(*types.Struct).Field(fa.Field).Name() != "Initialized" {
					return
				}
				if cv, isC := constBool(st.Val); !isC || !cv {
					return
				}
				only := true
				for _, l := range P.GuardsWithin(st, mfn) {
					if l.Kind == "cond" && !l.Pos && l.Val != nil && isFieldOf(P, l.Val, IS, "Initialized") {
						continue
					}
					if nilCheck(l) {
						continue
					}
					only = false
				}
				if only {
					okInit = true
				}
			})
		}
	}
	c.check(okMod && okInit, "IGNORESET/MODULE", FuncName(mfn), P.Pos(mfn.Pos()), "appends all given tokens and initialises the set", "AddModuleIgnore does not unconditionally append every token and mark the set initialised (Contains returns false for uninitialised sets)")
}

// hierListShape: the single yield hands out every element of a list that is codeToCheckList[code] when the code is
// known and the literal ["ALL", code] when it is not.
func (c *Ctx) hierListShape(fn *ssa.Function, yc *ssa.Call) (bool, string) {
	P := c.P
	code := P.Desc(fn.Params[0])
	u, ok := yc.Call.Args[0].(*ssa.UnOp)
	if !ok {
		return false, "the yielded value is not an element of a list"
	}
	ia, ok := u.X.(*ssa.IndexAddr)
	if !ok || !(isRangeIndex(ia.Index) || isFullIndexLoopOver(ia.Index, ia.X)) {
		return false, "the yielded value is not the element of a loop over a whole list"
	}
	isKnown := func(l Lit) bool {
		lk := lookupOK(l)
		return lk != nil && strings.Contains(P.Desc(lk.X), "global(codes.codeToCheckList)") && P.Desc(lk.Index) == code
	}
	nKnown, nUnknown := 0, 0
	for _, vc := range P.ValueCases(ia.X, 0) {
		known := hasLit(vc.Guards, func(l Lit) bool { return l.Pos && isKnown(l) })
		unknown := hasLit(vc.Guards, func(l Lit) bool { return !l.Pos && isKnown(l) })
		switch {
		case known && strings.HasPrefix(vc.Desc, "lookup(global(codes.codeToCheckList); "+code):
			nKnown++
		case unknown:
			el := c.sliceLitDescs(vc.Val)
			if len(el) != 2 || el[0] != `const("ALL")` || el[1] != code {
				return false, "unknown codes do not yield [\"ALL\", code]: " + short(vc.Desc)
			}
			nUnknown++
		default:
			return false, "the list of codes to check is neither codeToCheckList[code] (known code) nor [\"ALL\", code] (unknown code): " + short(vc.Desc)
		}
	}
	if nKnown == 0 || nUnknown == 0 {
		return false, "known and unknown codes are not both provided for"
	}
	return true, ""
}

// ruleHierarchy: codes.GetCodesForCheck yields ALL, category, code (ALL, code for unknown codes), and the
// reverse table is built from CodesByCategory for every category and every code.
func (c *Ctx) ruleHierarchy() {
	P := c.P
	fn := P.LookupFunc("codes", "GetCodesForCheck")
	if fn == nil || len(fn.AnonFuncs) != 1 {
		c.fail("HIER", "codes.GetCodesForCheck", "", "function (with one iterator literal) not found")
		return
	}
	it := fn.AnonFuncs[0]
	name := FuncName(fn)
	yield := it.Params[0]
	type y struct {
		arg    string
		guards []Lit
		pos    token.Pos
	}
	var ys []y
	var ysRaw []*ssa.Call
	// the yields of the iterator literal, and those of a helper the literal hands its yield function to
	// (`yieldUnknownCode(code, yield)`): read in the context of that call, under its conditions
	var collect func(f *ssa.Function, yv ssa.Value, base []Lit, pins pinMap, at token.Pos, depth int)
	collect = func(f *ssa.Function, yv ssa.Value, base []Lit, pins pinMap, at token.Pos, depth int) {
		allInstrs(f, func(b *ssa.BasicBlock, ins ssa.Instruction) {
			call, ok := ins.(*ssa.Call)
			if !ok {
				return
			}
			if call.Call.Value == yv {
				var d string
				P.PinnedAll(pins, func() { d = P.Desc(call.Call.Args[0]) })
				pos := call.Pos()
				if at != token.NoPos {
					pos = at
				}
				ys = append(ys, y{d, dedupLits(append(append([]Lit{}, base...), P.BlockGuards(b)...)), pos})
				ysRaw = append(ysRaw, call)
				return
			}
			// `slices.Values(list)(yield)`: every element of list is yielded, in order, until yield says stop
			if inner, isCall := call.Call.Value.(*ssa.Call); isCall && len(call.Call.Args) == 1 && call.Call.Args[0] == yv && len(inner.Call.Args) == 1 {
				if P.CallTo(inner, "slices.Values") != nil {
					var d string
					P.PinnedAll(pins, func() { d = "elem(" + P.Desc(inner.Call.Args[0]) + ")" })
					pos := call.Pos()
					if at != token.NoPos {
						pos = at
					}
					ys = append(ys, y{d, dedupLits(append(append([]Lit{}, base...), P.BlockGuards(b)...)), pos})
					ysRaw = append(ysRaw, call)
					return
				}
			}
			callee := call.Call.StaticCallee()
			if callee == nil || depth > 1 || !P.IsProductFunc(callee) || P.isAnchor(callee) || len(callee.Blocks) == 0 {
				return
			}
			for ai, a := range call.Call.Args {
				if a == yv && ai < len(callee.Params) {
					np := pinMap{callee: call}
					for k, v := range pins {
						np[k] = v
					}
					collect(callee, callee.Params[ai], dedupLits(append(append([]Lit{}, base...), P.BlockGuards(b)...)), np, call.Pos(), depth+1)
				}
			}
		})
	}
	collect(it, yield, nil, pinMap{}, token.NoPos, 0)
	sort.SliceStable(ys, func(i, j int) bool { return ys[i].pos < ys[j].pos })
	if len(ys) == 3 {
		// the two cases may be written in either order: put the yields into the order ALL, code, list element
		codeD := P.Desc(fn.Params[0])
		rank := func(a string) int {
			switch {
			case a == `const("ALL")`:
				return 0
			case a == codeD:
				return 1
			}
			return 2
		}
		sort.SliceStable(ys, func(i, j int) bool { return rank(ys[i].arg) < rank(ys[j].arg) })
	}
	okShape := len(ys) == 3
	var why string
	if okShape {
		code := P.Desc(fn.Params[0])
		// unknown code: "ALL" then code, under !exists
		unknown := func(ls []Lit) bool {
			for _, l := range ls {
				if lk := lookupOK(l); lk != nil && !l.Pos && strings.Contains(P.Desc(lk.X), "global(codes.codeToCheckList)") && P.Desc(lk.Index) == code {
					return true
				}
			}
			return false
		}
		known := func(ls []Lit) bool {
			for _, l := range ls {
				if lk := lookupOK(l); lk != nil && l.Pos && strings.Contains(P.Desc(lk.X), "global(codes.codeToCheckList)") && P.Desc(lk.Index) == code {
					return true
				}
			}
			return false
		}
		if !(ys[0].arg == `const("ALL")` && unknown(ys[0].guards)) {
			okShape, why = false, "unknown codes do not first yield \"ALL\""
		}
		if okShape && !(ys[1].arg == code && unknown(ys[1].guards)) {
			okShape, why = false, "unknown codes do not yield the code itself after \"ALL\""
		}
		if okShape && !((strings.HasPrefix(ys[2].arg, "elem(lookup(global(codes.codeToCheckList); ") || strings.HasPrefix(ys[2].arg, "elem(extract0(lookup(global(codes.codeToCheckList); ")) && known(ys[2].guards)) {
			okShape, why = false, "known codes do not yield every element of codeToCheckList[code]: "+short(ys[2].arg)
		}
	} else if len(ysRaw) == 1 {
		// one loop over a list chosen beforehand: the pre-built list for known codes, ["ALL", code] otherwise
		okShape, why = c.hierListShape(fn, ysRaw[0])
	} else {
		why = fmt.Sprintf("%d yield sites (expected 3: ALL, code for unknown codes; list elements for known ones - or one loop over the list chosen that way)", len(ys))
	}
	c.check(okShape, "HIER/YIELD", name, P.Pos(fn.Pos()), "yields ALL+code for unknown codes, the whole pre-built list for known ones", why)
	// the table: init closure of codeToCheckList
	initFn := P.SSAPkg[modulePath+"/src/codes"].Func("init")
	var builder *ssa.Function
	allInstrs(initFn, func(b *ssa.BasicBlock, ins ssa.Instruction) {
		if st, ok := ins.(*ssa.Store); ok {
			if g, ok := st.Addr.(*ssa.Global); ok && g.Name() == "codeToCheckList" {
				if call, ok := st.Val.(*ssa.Call); ok {
					if f, ok := call.Call.Value.(*ssa.Function); ok {
						builder = f
					}
					if mc, ok := call.Call.Value.(*ssa.MakeClosure); ok {
						builder = mc.Fn.(*ssa.Function)
					}
				}
			}
		}
	})
	if builder == nil {
		c.fail("HIER/TABLE", "codes.codeToCheckList", "", "initialiser of codeToCheckList not found")
		return
	}
	var catOK, codeOK bool
	// the category table: the package-level CodesByCategory, or a parameter of the builder that init passes it as
	tableBases := []string{"global(codes.CodesByCategory)"}
	allInstrs(initFn, func(b *ssa.BasicBlock, ins ssa.Instruction) {
		if call, ok := ins.(*ssa.Call); ok && call.Call.StaticCallee() == builder {
			for i, a := range call.Call.Args {
				if strings.Contains(P.Desc(a), "global(codes.CodesByCategory)") && i < len(builder.Params) {
					tableBases = append(tableBases, P.Desc(builder.Params[i]))
				}
			}
		}
	})
	isCatKey := func(d string) bool {
		for _, tb := range tableBases {
			if strings.HasPrefix(d, "rangekey("+tb) {
				return true
			}
		}
		return false
	}
	// (the entries may be written by helpers the builder hands its map to)
	var builderFns []*ssa.Function
	for _, f := range P.StaticClosure(builder) {
		if f == builder || (P.IsProductFunc(f) && !P.isAnchor(f) && funcPkgPath(f) == modulePath+"/src/codes") {
			builderFns = append(builderFns, f)
		}
	}
	for _, bf := range builderFns {
		allInstrs(bf, func(b *ssa.BasicBlock, ins ssa.Instruction) {
			mu, ok := ins.(*ssa.MapUpdate)
			if !ok || typeStr(mu.Map.Type()) != "map[string][]string" {
				return
			}
			elems := c.sliceLitDescs(mu.Value)
			kd := P.Desc(mu.Key)
			if os.Getenv("GGV_DEBUG_HIER") != "" {
				fmt.Println("HIER kd=", kd, "elems=", elems)
			}
			switch len(elems) {
			case 2:
				// result[category] = {"ALL", category}
				if elems[0] == `const("ALL")` && elems[1] == kd && isCatKey(kd) {
					catOK = true
				}
			case 3:
				// result[code.ID] = {"ALL", category, code.ID}
				if elems[0] == `const("ALL")` && isCatKey(elems[1]) && elems[2] == kd && strings.Contains(kd, "codes.Code.ID") {
					codeOK = true
				}
			}
		})
	}
	c.check(catOK, "HIER/TABLE", "codes.codeToCheckList#category", P.Pos(builder.Pos()), "category -> [ALL, category] for every key of CodesByCategory", "the reverse table does not map every category to [\"ALL\", category]")
	c.check(codeOK, "HIER/TABLE", "codes.codeToCheckList#code", P.Pos(builder.Pos()), "code -> [ALL, category, code] for every code of every category", "the reverse table does not map every code to [\"ALL\", its category, code]")
}

func (c *Ctx) sliceLitDescs(v ssa.Value) []string {
	P := c.P
	sl, ok := v.(*ssa.Slice)
	if !ok {
		return nil
	}
	a, ok := sl.X.(*ssa.Alloc)
	if !ok {
		return nil
	}
	type ent struct {
		idx int
		d   string
	}
	var es []ent
	if refs := a.Referrers(); refs != nil {
		for _, rr := range *refs {
			ia, ok := rr.(*ssa.IndexAddr)
			if !ok {
				continue
			}
			k := 0
			if cs, ok := ia.Index.(*ssa.Const); ok && cs.Value != nil {
				fmt.Sscanf(cs.Value.ExactString(), "%d", &k)
			}
			if irefs := ia.Referrers(); irefs != nil {
				for _, s := range *irefs {
					if st, ok := s.(*ssa.Store); ok {
						es = append(es, ent{k, P.Desc(st.Val)})
					}
				}
			}
		}
	}
	sort.Slice(es, func(i, j int) bool { return es[i].idx < es[j].idx })
	var out []string
	for _, e := range es {
		out = append(out, e.d)
	}
	return out
}

type natLoop struct {
	head  *ssa.BasicBlock
	body  map[*ssa.BasicBlock]bool
	exits [][2]*ssa.BasicBlock // (from inside, to outside)
}

// naturalLoops: the natural loops of f (one per header), with their exit edges.
func naturalLoops(f *ssa.Function) []natLoop {
	byHead := map[*ssa.BasicBlock]map[*ssa.BasicBlock]bool{}
	var heads []*ssa.BasicBlock
	for _, b := range f.Blocks {
		for _, h := range b.Succs {
			if !dominates(h, b) {
				continue
			}
			body := byHead[h]
			if body == nil {
				body = map[*ssa.BasicBlock]bool{h: true}
				byHead[h] = body
				heads = append(heads, h)
			}
			stack := []*ssa.BasicBlock{b}
			for len(stack) > 0 {
				x := stack[len(stack)-1]
				stack = stack[:len(stack)-1]
				if body[x] {
					continue
				}
				body[x] = true
				stack = append(stack, x.Preds...)
			}
		}
	}
	var out []natLoop
	for _, h := range heads {
		lp := natLoop{head: h, body: byHead[h]}
		for _, b := range f.Blocks {
			if !lp.body[b] {
				continue
			}
			for _, s := range b.Succs {
				if !lp.body[s] {
					lp.exits = append(lp.exits, [2]*ssa.BasicBlock{b, s})
				}
			}
		}
		out = append(out, lp)
	}
	return out
}

// formulaDNF: the ways formula f takes the value val, as conjunctions of literals; the alternatives of an `||`
// (resp. of a false `&&`) are made exclusive in evaluation order: the i-th one includes the negation of the
// earlier ones.
func formulaDNF(f *formula, val bool, depth int) [][]Lit {
	if depth > 4 {
		return [][]Lit{literals(f, val)}
	}
	switch f.op {
	case "not":
		return formulaDNF(f.sub[0], !val, depth+1)
	case "or", "and":
		splits := (f.op == "or") == val
		if !splits {
			// conjunction of the parts: the product of their ways
			out := [][]Lit{nil}
			for _, s := range f.sub {
				var next [][]Lit
				for _, pre := range out {
					for _, w := range formulaDNF(s, val, depth+1) {
						next = append(next, append(append([]Lit{}, pre...), w...))
					}
				}
				out = next
				if len(out) > 16 {
					return [][]Lit{literals(f, val)}
				}
			}
			return out
		}
		var out [][]Lit
		var earlier []Lit // the earlier parts took the other value
		for _, s := range f.sub {
			for _, w := range formulaDNF(s, val, depth+1) {
				out = append(out, append(append([]Lit{}, earlier...), w...))
			}
			earlier = append(earlier, literals(s, !val)...)
		}
		return out
	}
	return [][]Lit{literals(f, val)}
}

// builtinMinMax: v is a call of the builtin min / max with two arguments.
func builtinMinMax(v ssa.Value, name string) *ssa.Call {
	call, ok := v.(*ssa.Call)
	if !ok {
		return nil
	}
	bi, ok := call.Call.Value.(*ssa.Builtin)
	if !ok || bi.Name() != name || len(call.Call.Args) != 2 {
		return nil
	}
	return call
}
