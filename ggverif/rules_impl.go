package main

// C05: @implements. Cascade IMPL01 -> IMPL02 -> IMPL03, qualifier resolution, and the (known deficient)
// structural matcher: TYPE-IDENT / METHOD-SET are recorded as known findings; the shape of the existing matcher
// is still checked so that a *different* regression is reported.

import (
	"fmt"
	"go/token"
	"go/types"
	"os"
	"sort"
	"strings"

	"golang.org/x/tools/go/ssa"
)

func (c *Ctx) ruleSitesIMPL() {
	P := c.P
	rule := "GUARD-SIG(IMPL)"
	ann := "annotations.ImplementsAnnotation"
	isNotFound := func(l Lit) bool {
		return l.Kind == "cond" && l.Val != nil && strings.HasSuffix(P.Desc(l.Val), "."+ann+".PackageNotFound)")
	}
	perCode := map[string]int{}
	for _, s := range c.sitesOf("implements") {
		si := c.buildSiteInfo(s)
		perCode[s.Code]++
		c.checkFlow(si, rule)
		switch s.Code {
		case "IMPL01":
			c.require(si, rule, "PACKAGE-NOT-FOUND(+)", si.take("notfound", func(l Lit) bool { return l.Pos && isNotFound(l) }), "IMPL01 must be reported exactly for annotations whose qualifier was not resolved (ann.PackageNotFound)")
		case "IMPL02":
			c.require(si, rule, "PACKAGE-FOUND(-)", si.take("found", func(l Lit) bool { return !l.Pos && isNotFound(l) }), "IMPL02 only when the package was found")
			var detail string
			lk := si.take("iface-missing", func(l Lit) bool {
				if l.Kind != "cond" || l.Pos || l.Val == nil {
					return false
				}
				// `!found[key]` on a set, or `_, ok := index[key]; !ok` on an index of the loaded interfaces
				x := lookupOK(l)
				if x == nil {
					return false
				}
				kd := P.Desc(x.Index)
				okKey := strings.Contains(kd, "."+ann+".PackageFullPath)") && strings.Contains(kd, "."+ann+".InterfaceName)") && strings.Contains(kd, `const(".")`)
				if !okKey {
					detail = "interface lookup key is not PackageFullPath + \".\" + InterfaceName of the annotation: " + short(kd)
					return false
				}
				// the set is filled from iface.Package + "." + iface.Name for every loaded interface
				okFill := false
				for _, r := range P.Resolve(x.X) {
					mm, isMk := r.(*ssa.MakeMap)
					if !isMk {
						continue
					}
					if refs := mm.Referrers(); refs != nil {
						for _, rr := range *refs {
							if mu, isMU := rr.(*ssa.MapUpdate); isMU {
								d := P.Desc(mu.Key)
								if strings.Contains(d, "implements.InterfaceModel.Package)") && strings.Contains(d, "implements.InterfaceModel.Name)") && strings.Contains(d, `const(".")`) {
									okFill = len(nonLoopGuards(P.BlockGuards(mu.Block()))) == 0
								}
							}
						}
					}
				}
				if !okFill {
					detail = "the set of found interfaces is not filled with Package + \".\" + Name of every loaded interface"
				}
				return okFill
			})
			if detail == "" {
				detail = "no `!foundInterfaces[key]` guard"
			}
			c.require(si, rule, "INTERFACE-NOT-FOUND(-lookup)", lk, detail)
		case "IMPL03":
			c.require(si, rule, "PACKAGE-FOUND(-)", si.take("found", func(l Lit) bool { return !l.Pos && isNotFound(l) }), "IMPL03 only when the package was found")
			ifOK := si.take("iface-found", func(l Lit) bool {
				x := lookupOK(l)
				if x == nil || !l.Pos {
					return false
				}
				kd := P.Desc(x.Index)
				return strings.Contains(kd, "."+ann+".PackageFullPath)") && strings.Contains(kd, "."+ann+".InterfaceName)")
			})
			c.require(si, rule, "INTERFACE-FOUND(+)", ifOK, "IMPL03 only when the interface was found (lookup by PackageFullPath.InterfaceName)")
			tyOK := si.take("type-found", func(l Lit) bool {
				x := lookupOK(l)
				return x != nil && l.Pos && strings.HasSuffix(P.Desc(x.Index), "."+ann+".OnType)")
			})
			c.require(si, rule, "TYPE-FOUND(+)", tyOK, "IMPL03 only when the annotated type was loaded (lookup by ann.OnType)")
			miss := si.take("missing-nonempty", func(l Lit) bool {
				// 0 < len(missing)  or  len(missing) != 0
				var x ssa.Value
				switch {
				case l.Kind == "lt" && l.Pos && isZeroPos(l.X):
					x = lenOf(l.Y)
				case l.Kind == "eq" && !l.Pos && isZeroPos(l.X):
					x = lenOf(l.Y)
				case l.Kind == "eq" && !l.Pos && isZeroPos(l.Y):
					x = lenOf(l.X)
				}
				if x == nil {
					return false
				}
				call, ok := firstRoot(P, x).(*ssa.Call)
				if !ok || call.Call.StaticCallee() == nil || FuncName(call.Call.StaticCallee()) != "implements.checkImplementation" {
					return false
				}
				a := call.Call.Args
				return strings.HasPrefix(P.Desc(a[0]), "lookup(") && strings.HasPrefix(P.Desc(a[1]), "lookup(") && strings.HasSuffix(P.Desc(a[2]), "."+ann+".IsPointer)")
			})
			c.require(si, rule, "MISSING-METHODS(+)", miss, "IMPL03 iff checkImplementation(type model, interface model, ann.IsPointer) returns a non-empty list")
			// the reported methods are exactly that list
			if mv := s.Fields["Methods"]; mv != nil {
				c.check(strings.HasPrefix(P.Desc(mv), "call(implements.checkImplementation;"), rule+"/METHODS-LIST", si.Name, P.Pos(s.Alloc.Pos()), "listed methods = result of checkImplementation", "the methods listed by IMPL03 are not the result of checkImplementation")
			}
		}
		// every annotation is examined: loop literals only; the rest must be benign
		si.take("lookup-benign", func(l Lit) bool { return lookupOK(l) != nil })
		c.finishSite(si, rule)
	}
	for _, code := range []string{"IMPL01", "IMPL02", "IMPL03"} {
		c.floor("report sites with code "+code, perCode[code], 1)
	}
}

func nonLoopGuards(ls []Lit) []Lit {
	var out []Lit
	for _, l := range ls {
		if l.Kind != "rangeloop" && l.Kind != "rangefunc" {
			out = append(out, l)
		}
	}
	return out
}

// ruleImportResolution: IMPORT-PKG + RESOLVE-ORDER + how the annotation is resolved.
// resolveOrderTable: the single `return candidate` of Find in block blk is guarded by a call of a predicate taken, in
// an outer loop, from a package-level slice of function literals, with the candidate taken from the entries in an
// inner loop. Returns the kinds of the predicates in list order.
func (c *Ctx) resolveOrderTable(find *ssa.Function, blk *ssa.BasicBlock) ([]string, bool) {
	P := c.P
	// (A) `if matches(candidate, shortName) { return candidate }` with matches ranging over the predicate list
	// (outer loop) and candidate over the entries (inner loop)
	var dyn *ssa.Call
	var viaHelper *ssa.Call
	for _, l := range P.BlockGuards(blk) {
		if call := litCall(l); call != nil && l.Pos && call.Call.StaticCallee() == nil && !call.Call.IsInvoke() {
			dyn = call
		}
		// (B) `if found := entries.first(matches); found != nil { return found }`
		if v := nilCheckedValue(l); v != nil && !l.Pos {
			if call, ok := v.(*ssa.Call); ok && call.Call.StaticCallee() != nil && P.IsProductFunc(call.Call.StaticCallee()) {
				viaHelper = call
			}
		}
	}
	var listElem ssa.Value // the predicate value tried in one round
	var inLoop *ssa.BasicBlock
	switch {
	case dyn != nil && len(dyn.Call.Args) == 2:
		listElem, inLoop = dyn.Call.Value, dyn.Block()
	case viaHelper != nil:
		h := viaHelper.Call.StaticCallee()
		pi := -1
		for i, a := range viaHelper.Call.Args {
			if _, isF := a.Type().Underlying().(*types.Signature); isF {
				if pi >= 0 {
					return nil, false
				}
				pi = i
			}
		}
		if pi < 0 || !c.firstMatchHelper(h, pi) {
			return nil, false
		}
		// what is returned is the helper's answer
		ret, _ := lastInstr(blk).(*ssa.Return)
		if ret == nil || len(ret.Results) != 1 || ret.Results[0] != ssa.Value(viaHelper) {
			return nil, false
		}
		listElem, inLoop = viaHelper.Call.Args[pi], viaHelper.Block()
	default:
		return nil, false
	}
	return c.resolveOrderTableFrom(find, blk, listElem, inLoop, dyn != nil && viaHelper == nil, dyn)
}

// resolveOrderTableFrom: listElem - the predicate tried in one round - is the element of a loop over a whole list
// of function literals; inLoop is the block in which the entries are searched with it, blk the block that returns
// the match. Gives the kinds of the listed predicates in list order.
func (c *Ctx) resolveOrderTableFrom(find *ssa.Function, blk *ssa.BasicBlock, listElem ssa.Value, inLoop *ssa.BasicBlock, nested bool, dyn *ssa.Call) ([]string, bool) {
	P := c.P
	short0 := P.Desc(find.Params[1])
	// the predicate: element of a loop over the whole list, in index order
	var listIdx, listBase ssa.Value
	switch le := listElem.(type) {
	case *ssa.UnOp:
		ia, ok := le.X.(*ssa.IndexAddr)
		if !ok || !(isRangeIndex(ia.Index) || isFullIndexLoopOver(ia.Index, ia.X)) {
			return nil, false
		}
		listIdx, listBase = ia.Index, ia.X
	case *ssa.Index:
		// element of an array value: `for _, p := range [...]func(..) bool{...}`
		if !isRangeIndex(le.Index) {
			return nil, false
		}
		listIdx, listBase = le.Index, le.X
	default:
		return nil, false
	}
	oi, ok := listIdx.(ssa.Instruction)
	if !ok {
		return nil, false
	}
	outer := loopOf(oi.Block())
	if outer == nil || !outer[inLoop] {
		return nil, false
	}
	if nested && dyn != nil {
		// the candidate loop is nested inside the predicate loop (priority first, then entries)
		inner := loopOf(dyn.Block())
		if inner == nil || len(inner) >= len(outer) {
			return nil, false
		}
	}
	// the predicate loop is left early only with the match
	for _, lp := range naturalLoops(find) {
		if !lp.body[oi.Block()] || len(lp.body) < len(outer) {
			continue
		}
		for _, ex := range lp.exits {
			if ex[0] == lp.head {
				continue
			}
			if ex[1] != blk {
				return nil, false
			}
		}
	}
	// the list: function literals stored at constant indices of its backing array - a package-level variable
	// initialised in init, or a slice literal of the function itself
	var arr *ssa.Alloc
	switch x := listBase.(type) {
	case *ssa.UnOp:
		if a, isLocal := x.X.(*ssa.Alloc); isLocal && a.Parent() == find {
			// a local array variable holding the composite literal, read once for the loop
			if vals, _, escaped := P.CellStores(a); !escaped && len(vals) <= 1 {
				arr = a
				if len(vals) == 1 {
					if ld, ok := vals[0].(*ssa.UnOp); ok {
						if src, ok := ld.X.(*ssa.Alloc); ok {
							arr = src
						}
					}
				}
			}
			break
		}
		g, ok := x.X.(*ssa.Global)
		if !ok {
			return nil, false
		}
		allInstrs(g.Pkg.Func("init"), func(b *ssa.BasicBlock, ins ssa.Instruction) {
			if st, ok := ins.(*ssa.Store); ok && st.Addr == g {
				if sl, ok := st.Val.(*ssa.Slice); ok {
					arr, _ = sl.X.(*ssa.Alloc)
				}
				// an array variable: initialised with the value of the literal's temporary
				if ld, ok := st.Val.(*ssa.UnOp); ok && ld.Op == token.MUL {
					arr, _ = ld.X.(*ssa.Alloc)
				}
			}
		})
		// no other store to the variable
		nSt := 0
		for _, fn := range P.ModFuncs {
			allInstrs(fn, func(b *ssa.BasicBlock, ins ssa.Instruction) {
				if st, ok := ins.(*ssa.Store); ok && st.Addr == g {
					nSt++
				}
			})
		}
		if nSt != 1 {
			return nil, false
		}
	case *ssa.Slice:
		if x.Low != nil || x.High != nil {
			return nil, false
		}
		arr, _ = x.X.(*ssa.Alloc)
	}
	if arr == nil || arr.Referrers() == nil {
		return nil, false
	}
	at, ok := deref(arr.Type()).Underlying().(*types.Array)
	if !ok {
		return nil, false
	}
	type ent struct {
		idx int64
		fn  *ssa.Function
	}
	var ents []ent
	for _, rr := range *arr.Referrers() {
		ia2, ok := rr.(*ssa.IndexAddr)
		if !ok {
			continue
		}
		k, isC := constInt(ia2.Index)
		if !isC || ia2.Referrers() == nil {
			return nil, false
		}
		for _, s2 := range *ia2.Referrers() {
			if st2, ok := s2.(*ssa.Store); ok && st2.Addr == ia2 {
				fv := st2.Val
				if ct, isCT := fv.(*ssa.ChangeType); isCT {
					fv = ct.X // a named function type
				}
				f := P.closureValue(fv, 0)
				if f == nil {
					return nil, false
				}
				ents = append(ents, ent{k, f})
			}
		}
	}
	if len(ents) == 0 || int64(len(ents)) != at.Len() {
		return nil, false
	}
	sort.Slice(ents, func(i, j int) bool { return ents[i].idx < ents[j].idx })
	var kinds []string
	for _, e := range ents {
		kinds = append(kinds, c.classifyImportPred(e.fn, short0))
	}
	return kinds, true
}

// classifyImportPred: which priority a predicate on an import entry stands for - judged on the conditions of its
// `true` answers: equality of the short name with Alias / PackageName / FullPath, the path-suffix helper; "name-own"
// when it also demands an empty alias. A branch on a bool that is a constant in the calling context (a parameter
// like withoutAliasOnly) is taken as that constant.
func (c *Ctx) classifyImportPred(pf *ssa.Function, short0 string) string {
	P := c.P
	{
		e := struct{ fn *ssa.Function }{pf}
		kind := "?"
		names := []string{short0}
		for _, prm := range e.fn.Params {
			if b, isB := prm.Type().Underlying().(*types.Basic); isB && b.Kind() == types.String {
				names = append(names, P.Desc(prm))
			}
		}
		for _, fv := range e.fn.FreeVars {
			names = append(names, P.Desc(fv))
		}
		isName := func(d string) bool {
			for _, n := range names {
				if d == n {
					return true
				}
			}
			return false
		}
		allInstrs(e.fn, func(b *ssa.BasicBlock, ins ssa.Instruction) {
			r, ok := ins.(*ssa.Return)
			if !ok || len(r.Results) != 1 {
				return
			}
			if isF, isC := constBool(r.Results[0]); isC && !isF {
				return // a `no`
			}
			lits := append(append([]Lit{}, P.BlockGuards(b)...), literals(P.condFormula(r.Results[0], 0), true)...)
			lits = c.constFolded(lits)
			for _, l := range lits {
				if l.Kind == "eq" && l.Pos {
					other := ""
					if isName(P.Desc(l.X)) {
						other = P.Desc(l.Y)
					} else if isName(P.Desc(l.Y)) {
						other = P.Desc(l.X)
					}
					switch {
					case strings.HasSuffix(other, "util.Import.Alias)"):
						kind = "alias"
					case strings.HasSuffix(other, "util.Import.PackageName)"):
						kind = "name"
					case strings.HasSuffix(other, "util.Import.FullPath)"):
						kind = "path"
					}
				}
				if call := litCall(l); call != nil && l.Pos && call.Call.StaticCallee() != nil && FuncName(call.Call.StaticCallee()) == "util.matchesPathComponentWithSlash" {
					kind = "suffix"
				}
			}
			if (kind == "path" || kind == "suffix") && !c.nameUnknownGuard(lits) {
				c.pathFallbackOpen = true
			}
			kind = c.nameOwn(kind, lits)
		})
		return kind
	}
}

// firstMatchHelper: h(entries, accept) returns the first entry (in index order, over the whole list) that accept
// says yes to, nil if there is none: every non-nil result is the element accept was just called with, under a
// positive answer; its loop is left early only with that result.
func (c *Ctx) firstMatchHelper(h *ssa.Function, pi int) bool {
	P := c.P
	if len(h.Blocks) == 0 || pi >= len(h.Params) {
		return false
	}
	acc := h.Params[pi]
	okAll, nHit, nNil := true, 0, 0
	hitBlocks := map[*ssa.BasicBlock]bool{}
	allInstrs(h, func(b *ssa.BasicBlock, ins ssa.Instruction) {
		r, ok := ins.(*ssa.Return)
		if !ok || len(r.Results) != 1 {
			return
		}
		if isNilConst(r.Results[0]) {
			nNil++
			return
		}
		good := false
		for _, l := range P.BlockGuards(b) {
			call := litCall(l)
			if call == nil || !l.Pos || call.Call.Value != ssa.Value(acc) || len(call.Call.Args) != 1 {
				continue
			}
			el, ok := call.Call.Args[0].(*ssa.IndexAddr)
			if !ok || !(isRangeIndex(el.Index) || isFullIndexLoopOver(el.Index, el.X)) {
				continue
			}
			if rel, ok := r.Results[0].(*ssa.IndexAddr); ok && (rel == el || (rel.X == el.X && rel.Index == el.Index)) {
				good = true
			}
		}
		if !good {
			okAll = false
		}
		nHit++
		hitBlocks[b] = true
	})
	for _, lp := range naturalLoops(h) {
		for _, ex := range lp.exits {
			if ex[0] != lp.head && !hitBlocks[ex[1]] {
				okAll = false
			}
		}
	}
	return okAll && nHit >= 1 && nNil >= 1
}

func (c *Ctx) ruleImportResolution() {
	P := c.P
	// IMPORT-PKG: every ImportMap.Add gets the package the spec imports (or nil)
	n := 0
	for _, fn := range P.ModFuncs {
		allInstrs(fn, func(b *ssa.BasicBlock, ins ssa.Instruction) {
			call, ok := ins.(*ssa.Call)
			if !ok || call.Call.StaticCallee() == nil || FuncName(call.Call.StaticCallee()) != "(*util.ImportMap).Add" {
				return
			}
			n++
			spec := P.Desc(call.Call.Args[1])
			okPkg := true
			roots := P.ResolveThroughCalls(call.Call.Args[2], 3)
			sawImported := false
			for _, r := range roots {
				if isNilConst(r) {
					continue
				}
				ic := P.CallTo(r, "(*go/types.PkgName).Imported")
				if ic == nil {
					okPkg = false
					continue
				}
				sawImported = true
				if !P.RootsAllDeep(ic.Call.Args[0], func(q ssa.Value) bool {
					pc := P.CallTo(q, "(*go/types.Info).PkgNameOf")
					return pc != nil && P.Desc(pc.Call.Args[1]) == spec
				}) {
					okPkg = false
				}
			}
			okPkg = okPkg && sawImported
			c.check(okPkg, "IMPORT-PKG", FuncName(fn), P.Pos(call.Pos()), "package handed to ImportMap.Add is TypesInfo.PkgNameOf(spec).Imported() (or nil)",
				"the 'actual package name' recorded for an import is not taken from the imported package of that spec: "+short(P.DescDeep(call.Call.Args[2])))
		})
	}
	c.floor("ImportMap.Add call sites", n, 1)
	// Add stores Alias = spec.Name.Name, FullPath = unquoted path, PackageName = pkg.Name()
	if add := P.LookupFunc("util", "ImportMap.Add"); add != nil {
		okAlias, okPath, okName := false, false, false
		allInstrs(add, func(b *ssa.BasicBlock, ins ssa.Instruction) {
			st, ok := ins.(*ssa.Store)
			if !ok {
				return
			}
			fa, ok := st.Addr.(*ssa.FieldAddr)
			if !ok || typeStr(deref(fa.X.Type())) != "util.Import" {
				return
			}
			d := P.Desc(st.Val)
			switch fa.Field {
			case 0:
				okAlias = strings.Contains(d, "go/ast.ImportSpec.Name).go/ast.Ident.Name)")
			case 1:
				// the import path is a string literal, interpreted or raw: it has to be unquoted, not stripped of `"`
				okPath = strings.Contains(d, "call(strconv.Unquote; field(field(") && strings.Contains(d, "go/ast.ImportSpec.Path).go/ast.BasicLit.Value)")
			case 2:
				okName = strings.Contains(d, "call((*go/types.Package).Name; ")
			}
		})
		c.check(okAlias && okPath && okName, "IMPORT-PKG/FIELDS", "util.ImportMap.Add", P.Pos(add.Pos()), "Alias = spec.Name.Name, FullPath = strconv.Unquote(spec.Path.Value), PackageName = pkg.Name()", fmt.Sprintf("ImportMap.Add records the wrong data [alias:%v path(unquoted; a raw-string import path keeps its back quotes otherwise):%v name:%v]", okAlias, okPath, okName))
	}
	// RESOLVE-ORDER in Find
	find := P.LookupFunc("util", "ImportMap.Find")
	if find == nil {
		c.fail("RESOLVE-ORDER", "util.ImportMap.Find", "", "method not found")
		return
	}
	short0 := P.Desc(find.Params[1])
	type ret struct {
		kind string
		blk  *ssa.BasicBlock
	}
	var rets []ret
	allInstrs(find, func(b *ssa.BasicBlock, ins ssa.Instruction) {
		r, ok := ins.(*ssa.Return)
		if !ok || len(r.Results) != 1 {
			return
		}
		if isNilConst(r.Results[0]) {
			return
		}
		kind := "?"
		for _, l := range P.BlockGuards(b) {
			if l.Kind == "eq" && l.Pos {
				other := ""
				if P.Desc(l.X) == short0 {
					other = P.Desc(l.Y)
				} else if P.Desc(l.Y) == short0 {
					other = P.Desc(l.X)
				}
				switch {
				case strings.HasSuffix(other, "util.Import.Alias)"):
					kind = "alias"
				case strings.HasSuffix(other, "util.Import.PackageName)"):
					kind = "name"
				case strings.HasSuffix(other, "util.Import.FullPath)"):
					kind = "path"
				}
			}
			if call := litCall(l); call != nil && l.Pos && call.Call.StaticCallee() != nil && FuncName(call.Call.StaticCallee()) == "util.matchesPathComponentWithSlash" {
				kind = "suffix"
			}
		}
		if (kind == "path" || kind == "suffix") && !c.nameUnknownGuard(P.BlockGuards(b)) {
			c.pathFallbackOpen = true
		}
		kind = c.nameOwn(kind, P.BlockGuards(b))
		rets = append(rets, ret{kind, b})
	})
	defer func() {
		// "IMPL01 iff pkg is not bound under its explicit alias or the imported package's declared name": the two
		// path-based guesses may stand in for the declared name only where that name is not known
		c.check(!c.pathFallbackOpen, "RESOLVE-ORDER/PATH-FALLBACK", "util.ImportMap.Find#path-fallback", P.Pos(find.Pos()), "path-based matches only for imports whose declared package name is unknown",
			"an import whose declared package name is known is also matched by its import path / last path element: `@implements dirname.I` is accepted for a package that declares another name than its directory (missed IMPL01)")
	}()
	decided := false
	// table-driven form: one return under `matches(candidate, shortName)` with matches ranging over a package-level
	// list of predicates (outer loop) and candidate over the entries (inner loop): the order is the order of the list
	if len(rets) == 1 && rets[0].kind == "?" {
		if kinds, ok := c.resolveOrderTable(find, rets[0].blk); ok {
			want := resolveOrderWant
			c.check(strings.Join(kinds, ",") == strings.Join(want, ","), "RESOLVE-ORDER", "util.ImportMap.Find", P.Pos(find.Pos()), resolveOrderText+" (predicate table, in this order)", fmt.Sprintf("qualifier resolution order is not %s (predicate table gives %v): with two imports of the same declared name, one of them aliased, the order of the import specs decides", resolveOrderText, kinds))
			decided = true
		}
	}
	// general form: a sequence of first-match searches (helpers taking a predicate, slices.IndexFunc, functions that
	// are one search themselves), a search with a predicate drawn from a list standing for the whole list
	if kinds, ok := c.resolveOrderSteps(find); ok && !decided {
		want := resolveOrderWant
		c.check(strings.Join(kinds, ",") == strings.Join(want, ","), "RESOLVE-ORDER", "util.ImportMap.Find", P.Pos(find.Pos()), resolveOrderText+" (a sequence of first-match searches, in this order)", fmt.Sprintf("qualifier resolution order is not %s (the searches are made in the order %v): with two imports of the same declared name, one of them aliased, the order of the import specs decides", resolveOrderText, kinds))
		decided = true
	}
	// fused form: one pass that returns an alias match at once and keeps, per lower priority, the first match in a
	// variable that is assigned only while it is still nil; after the pass the variables are returned in order
	if kinds, ok := c.resolveOrderFused(find); ok && !decided {
		want := resolveOrderWant
		c.check(strings.Join(kinds, ",") == strings.Join(want, ","), "RESOLVE-ORDER", "util.ImportMap.Find", P.Pos(find.Pos()), resolveOrderText+" (one pass, first match of each priority kept)", fmt.Sprintf("qualifier resolution order is not %s (single pass gives %v): with two imports of the same declared name, one of them aliased, the order of the import specs decides", resolveOrderText, kinds))
		decided = true
	}
	if !decided {
		// order by dominance of the loops: a return of kind k must be reachable only after the loops of earlier kinds finished
		sort.Slice(rets, func(i, j int) bool { return rets[i].blk.Index < rets[j].blk.Index })
		var kinds []string
		for _, r := range rets {
			kinds = append(kinds, r.kind)
		}
		// establish order through loop-exit dominance
		orderOK := len(rets) == len(resolveOrderWant)
		want := resolveOrderWant
		pos := map[string]*ssa.BasicBlock{}
		for _, r := range rets {
			pos[r.kind] = r.blk
		}
		headerOf := func(b *ssa.BasicBlock) *ssa.BasicBlock {
			for x := b; x != nil; x = x.Idom() {
				if x.Comment == "rangeindex.loop" {
					return x
				}
			}
			return nil
		}
		for i := 0; orderOK && i+1 < len(want); i++ {
			a, b := pos[want[i]], pos[want[i+1]]
			if a == nil || b == nil {
				orderOK = false
				break
			}
			ha, hb := headerOf(a), headerOf(b)
			if ha == nil || hb == nil || ha == hb || !dominates(ha, hb) {
				orderOK = false
				break
			}
			if la := loopOf(ha); la != nil && la[hb] {
				orderOK = false // nested, not sequential
			}
		}
		c.check(orderOK, "RESOLVE-ORDER", "util.ImportMap.Find", P.Pos(find.Pos()), resolveOrderText, fmt.Sprintf("qualifier resolution order is not %s (found %v): with two imports of the same declared name, one of them aliased, the order of the import specs decides (gofmt sorts them)", resolveOrderText, kinds))
	}
	// empty qualifier -> nil
	emptyNil := false
	allInstrs(find, func(b *ssa.BasicBlock, ins ssa.Instruction) {
		if r, ok := ins.(*ssa.Return); ok && len(r.Results) == 1 && isNilConst(r.Results[0]) {
			for _, l := range P.BlockGuards(b) {
				if l.Kind == "eq" && l.Pos && (P.Desc(l.X) == `const("")` || P.Desc(l.Y) == `const("")`) {
					emptyNil = true
				}
			}
		}
	})
	c.check(emptyNil, "RESOLVE-ORDER/EMPTY", "util.ImportMap.Find", P.Pos(find.Pos()), "empty qualifier resolves to nothing", "the empty qualifier is not rejected")
	// parseImplementsAnnotation: PackageNotFound <=> qualifier given and Find == nil
	pf := P.LookupFunc("annotations", "parseImplementsAnnotation")
	if pf != nil {
		var sawTrue, sawFalseFound, sawFalseLocal bool
		allOK := true
		fieldOf := func(st *ssa.Store, name string) bool {
			fa, ok := st.Addr.(*ssa.FieldAddr)
			return ok && typeStr(deref(fa.X.Type())) == "annotations.ImplementsAnnotation" && deref(fa.X.Type()).Underlying().(*types.Struct).Field(fa.Field).Name() == name
		}
		// the qualifier: what is stored as PackageName
		quals := map[string]bool{}
		allInstrs(pf, func(b *ssa.BasicBlock, ins ssa.Instruction) {
			if st, ok := ins.(*ssa.Store); ok && fieldOf(st, "PackageName") {
				quals[P.Desc(st.Val)] = true
			}
		})
		// the flag starts out false when the annotation is a freshly allocated struct of this function: the two
		// "false" cases then need no assignment
		fresh := true
		allInstrs(pf, func(b *ssa.BasicBlock, ins ssa.Instruction) {
			st, ok := ins.(*ssa.Store)
			if !ok || !fieldOf(st, "PackageNotFound") {
				return
			}
			if a, isA := st.Addr.(*ssa.FieldAddr).X.(*ssa.Alloc); !isA || a.Parent() != pf {
				fresh = false
			}
			// every way the stored flag is computed - in place or by a helper - with the conditions of that way
			for _, vc := range P.ValueCases(st.Val, 0) {
				cv, isC := constBool(vc.Val)
				if !isC {
					allOK = false
					continue
				}
				g := append(append([]Lit{}, vc.Guards...), P.BlockGuards(b)...)
				findNil := func(pos bool) bool {
					return hasLit(g, func(l Lit) bool {
						return nilCheckedValue(l) != nil && l.Pos == pos && strings.HasPrefix(litOther(l, "nil"), "call((*util.ImportMap).Find;")
					})
				}
				noQual := func(pos bool) bool {
					return hasLit(g, func(l Lit) bool {
						other := litOther(l, `const("")`)
						if other == "" || l.Pos != pos {
							return false
						}
						return strings.Contains(other, "annotations.ImplementsAnnotation.PackageName") || quals[other]
					})
				}
				switch {
				case cv && findNil(true) && noQual(false):
					sawTrue = true
				case !cv && findNil(false) && noQual(false):
					sawFalseFound = true
				case !cv && noQual(true):
					sawFalseLocal = true
				default:
					allOK = false
				}
			}
		})
		sawTrue = sawTrue && allOK
		if fresh && sawTrue {
			sawFalseFound, sawFalseLocal = true, true
		}
		c.check(sawTrue && sawFalseFound && sawFalseLocal, "IMPL01-WHEN", "annotations.parseImplementsAnnotation", P.Pos(pf.Pos()), "PackageNotFound iff a qualifier is given and imports.Find(qualifier) == nil", fmt.Sprintf("PackageNotFound is not set exactly when a given qualifier is unresolved [true-case:%v found-case:%v local-case:%v]", sawTrue, sawFalseFound, sawFalseLocal))
	}
}

// ruleMatcherShape: the structural matcher as it is (string model): all fields compared, all methods examined.
// Its fundamental defect (identity by rendering, receiver-kind filter, pointer depth) is reported by ruleTypeIdent.
// famInstance: a function body read in one calling context (helpers are read once per call site).
type famInstance struct {
	Fn   *ssa.Function
	Pins pinMap
}

// familyInstances: fn itself and, for every static call of a non-anchor product helper made from it (transitively,
// depth <= 3), the helper's body pinned to that call - so that a helper called twice (once per argument list) is
// read twice, each time with its parameters standing for that call's arguments.
func (c *Ctx) familyInstances(fn *ssa.Function) []famInstance {
	P := c.P
	out := []famInstance{{fn, nil}}
	var walk func(inst famInstance, depth int)
	walk = func(inst famInstance, depth int) {
		if depth > 3 {
			return
		}
		fns := append([]*ssa.Function{inst.Fn}, inst.Fn.AnonFuncs...)
		for _, f := range fns {
			allInstrs(f, func(b *ssa.BasicBlock, ins ssa.Instruction) {
				call, ok := ins.(*ssa.Call)
				if !ok {
					return
				}
				g := call.Call.StaticCallee()
				if g == nil || g == fn || !P.IsProductFunc(g) || len(g.Blocks) == 0 || P.isAnchor(g) || inst.Pins[g] != nil {
					return
				}
				np := pinMap{}
				for k, v := range inst.Pins {
					np[k] = v
				}
				np[g] = call
				ni := famInstance{g, np}
				out = append(out, ni)
				walk(ni, depth+1)
			})
		}
	}
	walk(out[0], 0)
	return out
}

// forFamilyInstrs runs f on every instruction of fn and of the helper instances it calls, each under its pins.
func (c *Ctx) forFamilyInstrs(fn *ssa.Function, f func(inst famInstance, b *ssa.BasicBlock, ins ssa.Instruction)) {
	for _, inst := range c.familyInstances(fn) {
		inst := inst
		c.P.PinnedAll(inst.Pins, func() {
			fns := append([]*ssa.Function{inst.Fn}, inst.Fn.AnonFuncs...)
			for _, g := range fns {
				allInstrs(g, func(b *ssa.BasicBlock, ins ssa.Instruction) { f(inst, b, ins) })
			}
		})
	}
}

func (c *Ctx) ruleMatcherShape() {
	P := c.P
	if tm := P.LookupFunc("implements", "typesMatch"); tm != nil {
		var fields []string
		allInstrs(tm, func(b *ssa.BasicBlock, ins ssa.Instruction) {
			r, ok := ins.(*ssa.Return)
			if !ok || len(r.Results) != 1 {
				return
			}
			f := P.condFormula(r.Results[0], 0)
			for _, l := range literals(f, true) {
				if l.Kind == "eq" && l.Pos {
					dx, dy := P.Desc(l.X), P.Desc(l.Y)
					for _, fld := range []string{"TypeName", "TypePackage", "IsPointer", "IsVariadic"} {
						if (strings.HasSuffix(dx, "MethodType."+fld+")") && strings.HasSuffix(dy, "InterfaceType."+fld+")")) || (strings.HasSuffix(dy, "MethodType."+fld+")") && strings.HasSuffix(dx, "InterfaceType."+fld+")")) {
							fields = append(fields, fld)
						}
					}
				}
			}
		})
		sort.Strings(fields)
		c.check(strings.Join(fields, ",") == "IsPointer,IsVariadic,TypeName,TypePackage", "MATCHER/FIELDS", "implements.typesMatch", P.Pos(tm.Pos()), "all four components of the type model are compared", "typesMatch does not compare all of TypeName, TypePackage, IsPointer, IsVariadic: "+strings.Join(fields, ","))
	} else {
		c.fail("MATCHER/FIELDS", "implements.typesMatch", "", "function not found")
	}
	if sm := P.LookupFunc("implements", "signaturesMatch"); sm != nil {
		var lenIn, lenOut bool
		nPair := 0
		c.forFamilyInstrs(sm, func(_ famInstance, b *ssa.BasicBlock, ins ssa.Instruction) {
			switch x := ins.(type) {
			case *ssa.BinOp:
				if x.Op == token.NEQ || x.Op == token.EQL {
					dx, dy := P.Desc(x.X), P.Desc(x.Y)
					if strings.Contains(dx, "builtin len") && strings.Contains(dy, "builtin len") {
						if strings.Contains(dx+dy, "TypeMethod.Inputs") && strings.Contains(dx+dy, "InterfaceMethod.Inputs") {
							lenIn = true
						}
						if strings.Contains(dx+dy, "TypeMethod.Outputs") && strings.Contains(dx+dy, "InterfaceMethod.Outputs") {
							lenOut = true
						}
					}
				}
			case *ssa.Call:
				// slices.EqualFunc(have, want, same): equal lengths and same(have[i], want[i]) for every i (documented)
				if cal := x.Call.StaticCallee(); cal != nil && strings.HasPrefix(FuncName(cal), "slices.EqualFunc") && len(x.Call.Args) == 3 {
					a0, a1 := P.Desc(x.Call.Args[0]), P.Desc(x.Call.Args[1])
					isIn := strings.Contains(a0, "TypeMethod.Inputs") && strings.Contains(a1, "InterfaceMethod.Inputs")
					isOut := strings.Contains(a0, "TypeMethod.Outputs") && strings.Contains(a1, "InterfaceMethod.Outputs")
					// the comparison: typesMatch on the two elements, in this order
					okCmp := false
					if pf := P.closureValue(x.Call.Args[2], 0); pf != nil && len(pf.Params) == 2 {
						nRet, nGood := 0, 0
						allInstrs(pf, func(_ *ssa.BasicBlock, pi ssa.Instruction) {
							r, ok := pi.(*ssa.Return)
							if !ok || len(r.Results) != 1 {
								return
							}
							nRet++
							if tc, ok := r.Results[0].(*ssa.Call); ok && tc.Call.StaticCallee() != nil && FuncName(tc.Call.StaticCallee()) == "implements.typesMatch" && len(tc.Call.Args) == 2 {
								if P.cellOfParam(tc.Call.Args[0]) == pf.Params[0] && P.cellOfParam(tc.Call.Args[1]) == pf.Params[1] {
									nGood++
								}
							}
						})
						okCmp = nRet == 1 && nGood == 1
					}
					// its answer is a conjunct of what signaturesMatch returns
					inAnswer := false
					allInstrs(sm, func(_ *ssa.BasicBlock, ri ssa.Instruction) {
						if r, ok := ri.(*ssa.Return); ok && len(r.Results) == 1 {
							for _, l := range literals(P.condFormula(r.Results[0], 0), true) {
								if l.Kind == "cond" && l.Pos && l.Val == ssa.Value(x) {
									inAnswer = true
								}
							}
						}
					})
					if okCmp && inAnswer && x.Parent() == sm {
						if isIn {
							lenIn = true
							nPair++
						}
						if isOut {
							lenOut = true
							nPair++
						}
					}
				}
				if x.Call.StaticCallee() != nil && FuncName(x.Call.StaticCallee()) == "implements.typesMatch" {
					a0, a1 := P.Desc(x.Call.Args[0]), P.Desc(x.Call.Args[1])
					same := (strings.Contains(a0, "TypeMethod.Inputs") && strings.Contains(a1, "InterfaceMethod.Inputs")) || (strings.Contains(a0, "TypeMethod.Outputs") && strings.Contains(a1, "InterfaceMethod.Outputs"))
					// both lists are indexed by the same variable of a loop over the whole first list (the lengths are
					// compared before)
					sameIdx := false
					if i0, ok0 := x.Call.Args[0].(*ssa.IndexAddr); ok0 {
						if i1, ok1 := x.Call.Args[1].(*ssa.IndexAddr); ok1 {
							sameIdx = i0.Index == i1.Index
						}
					}
					if same && strings.HasPrefix(a0, "&elem(") && (strings.HasPrefix(a1, "&elem(") || (sameIdx && strings.HasPrefix(a1, "&elem["))) {
						nPair++
					}
				}
			}
		})
		c.check(lenIn && lenOut && nPair == 2, "MATCHER/SIGNATURE", "implements.signaturesMatch", P.Pos(sm.Pos()), "parameter and result counts and every pair of corresponding types are compared", fmt.Sprintf("signaturesMatch does not compare counts and every corresponding pair [len(in):%v len(out):%v pairwise loops:%d]", lenIn, lenOut, nPair))
	} else {
		c.fail("MATCHER/SIGNATURE", "implements.signaturesMatch", "", "function not found")
	}
	if ci := P.LookupFunc("implements", "checkImplementation"); ci != nil {
		// every interface method is examined; it is reported missing iff absent by name or signature mismatch
		nAppend := 0
		okGuards := true
		allInstrs(ci, func(b *ssa.BasicBlock, ins ssa.Instruction) {
			call, ok := ins.(*ssa.Call)
			if !ok {
				return
			}
			if bi, ok := call.Call.Value.(*ssa.Builtin); !ok || bi.Name() != "append" || typeStr(call.Type()) != "[]implements.InterfaceMethod" {
				return
			}
			nAppend++
			g := nonLoopGuards(P.BlockGuards(b))
			absent := hasLit(g, func(l Lit) bool { return lookupOK(l) != nil && !l.Pos })
			mismatch := hasLit(g, func(l Lit) bool {
				call := litCall(l)
				return call != nil && !l.Pos && call.Call.StaticCallee() != nil && FuncName(call.Call.StaticCallee()) == "implements.signaturesMatch"
			}) && hasLit(g, func(l Lit) bool { return lookupOK(l) != nil && l.Pos })
			// `if have, ok := m[name]; ok && match(have, want) { continue }; append`: one append under not(ok && match)
			both := len(g) == 1 && g[0].Kind == "and" && !g[0].Pos && len(g[0].Subs) == 2 &&
				hasLit(g[0].Subs, func(l Lit) bool { return lookupOK(l) != nil && l.Pos }) &&
				hasLit(g[0].Subs, func(l Lit) bool {
					call := litCall(l)
					return call != nil && l.Pos && call.Call.StaticCallee() != nil && FuncName(call.Call.StaticCallee()) == "implements.signaturesMatch"
				})
			if both {
				nAppend++ // stands for both listing reasons
			} else if !(absent || mismatch) || (absent && len(g) != 1) || (mismatch && len(g) != 2) {
				okGuards = false
			}
			if !strings.Contains(P.Desc(call.Call.Args[1]), "implements.InterfaceModel.Methods") {
				okGuards = false
			}
		})
		c.check(nAppend == 2 && okGuards, "MATCHER/MISSING", "implements.checkImplementation", P.Pos(ci.Pos()), "an interface method is listed iff it is absent by name or its signature differs", "checkImplementation does not list exactly the interface methods that are absent or mismatching")
		// pointer contract: all methods; value contract: value-receiver methods only
		var allWhenPtr, valueOnly bool
		// the table of usable methods may be filled by a helper that is handed the flag: read it in the calling
		// context of checkImplementation
		cpins, cfamily := P.ContextPins(ci)
		var contractFns []*ssa.Function
		for f := range cfamily {
			if f == ci || (!P.isAnchor(f) && f.Parent() == nil) {
				contractFns = append(contractFns, f)
			}
		}
		sort.Slice(contractFns, func(i, j int) bool { return FuncName(contractFns[i]) < FuncName(contractFns[j]) })
		if len(ci.Params) < 3 {
			c.fail("MATCHER/CONTRACT", "implements.checkImplementation", P.Pos(ci.Pos()), "checkImplementation is not handed the pointer/value flag of the annotation being checked: the contract cannot depend on `&`")
			return
		}
		flagD := P.Desc(ci.Params[2])
		isFlag := func(v ssa.Value) bool { return v == ssa.Value(ci.Params[2]) || (v != nil && P.Desc(v) == flagD) }
		P.PinnedAll(cpins, func() {
			for _, cf := range contractFns {
				allInstrs(cf, func(b *ssa.BasicBlock, ins ssa.Instruction) {
					mu, ok := ins.(*ssa.MapUpdate)
					if !ok {
						return
					}
					g := nonLoopGuards(P.BlockGuards(b))
					reqP := func(pos bool) bool {
						return hasLit(g, func(l Lit) bool { return l.Kind == "cond" && isFlag(l.Val) && l.Pos == pos })
					}
					recvP := func(pos bool) bool {
						return hasLit(g, func(l Lit) bool {
							return l.Kind == "cond" && l.Val != nil && l.Pos == pos && strings.HasSuffix(P.Desc(l.Val), "TypeMethod.ReceiverIsPointer)")
						})
					}
					_ = mu
					if reqP(true) && len(g) == 1 {
						allWhenPtr = true
					}
					// `if requirePointer || !m.ReceiverIsPointer { add }`: both clauses in one condition
					if len(g) == 1 && g[0].Kind == "or" && g[0].Pos && len(g[0].Subs) == 2 {
						sub := g[0].Subs
						isReq := func(l Lit) bool { return l.Kind == "cond" && isFlag(l.Val) && l.Pos }
						isVal := func(l Lit) bool {
							return l.Kind == "cond" && l.Val != nil && !l.Pos && strings.HasSuffix(P.Desc(l.Val), "TypeMethod.ReceiverIsPointer)")
						}
						if (isReq(sub[0]) && isVal(sub[1])) || (isReq(sub[1]) && isVal(sub[0])) {
							allWhenPtr, valueOnly = true, true
						}
					}
					if reqP(false) && recvP(false) && len(g) == 2 {
						valueOnly = true
					}
				})
			}
		})
		c.check(allWhenPtr && valueOnly, "MATCHER/CONTRACT", "implements.checkImplementation", P.Pos(ci.Pos()), "&I: all methods; I: methods with value receiver", "the pointer/value contract is not: with & all methods count, without & only value-receiver methods")
	} else {
		c.fail("MATCHER/MISSING", "implements.checkImplementation", "", "function not found")
	}
}

// ruleTypeIdent: TYPE-IDENT / METHOD-SET — the verdict must be decided by go/types (Identical / Implements /
// MissingMethod / NewMethodSet(T)), not by renderings of types. Today's matcher violates this (known findings).
func (c *Ctx) ruleTypeIdent() {
	P := c.P
	usesGoTypes := false
	for _, fn := range P.ModFuncs {
		if funcPkgPath(fn) != modulePath+"/src/implements" {
			continue
		}
		allInstrs(fn, func(b *ssa.BasicBlock, ins ssa.Instruction) {
			call, ok := ins.(*ssa.Call)
			if !ok {
				return
			}
			switch P.calleeName(call.Common()) {
			case "go/types.Identical", "go/types.Implements", "go/types.MissingMethod", "go/types.AssignableTo", "go/types.Satisfies":
				usesGoTypes = true
			}
		})
	}
	if usesGoTypes {
		c.ok("TYPE-IDENT", "implements#verdict", "", "the verdict consults go/types identity")
	}
	// (1) identity by spelling
	if tm := P.LookupFunc("implements", "typesMatch"); tm != nil && !usesGoTypes {
		stringEq := false
		allInstrs(tm, func(b *ssa.BasicBlock, ins ssa.Instruction) {
			if bo, ok := ins.(*ssa.BinOp); ok && bo.Op == token.EQL && typeStr(bo.X.Type()) == "string" && strings.HasSuffix(P.Desc(bo.X), ".TypeName)") {
				stringEq = true
			}
		})
		if stringEq {
			c.fail("TYPE-IDENT", "implements.typesMatch#identity-by-rendering", P.Pos(tm.Pos()), "two types are 'the same' iff their rendered names are equal: func parameter names, alias names and unnamed type terms make identical types differ (false IMPL03)")
		}
	}
	// (2) rendering fallback t.String()
	for _, name := range []string{"convertTypesToInterfaceType", "convertTypesToMethodType"} {
		fn := P.LookupFunc("implements", name)
		if fn == nil {
			continue
		}
		render, depth := false, false
		allInstrs(fn, func(b *ssa.BasicBlock, ins ssa.Instruction) {
			if call, ok := ins.(*ssa.Call); ok {
				if call.Call.IsInvoke() && call.Call.Method.Name() == "String" && typeStr(call.Call.Value.Type()) == "go/types.Type" {
					render = true
				}
			}
			if st, ok := ins.(*ssa.Store); ok {
				if fa, ok := st.Addr.(*ssa.FieldAddr); ok {
					if cv, isC := constBool(st.Val); isC && cv && deref(fa.X.Type()).Underlying().(*types.Struct).Field(fa.Field).Name() == "IsPointer" {
						// set on the result of the recursive call: depth collapses to one bit
						if P.RootsAny(fa.X, func(r ssa.Value) bool {
							a, ok := r.(*ssa.Alloc)
							if !ok {
								return false
							}
							vals, _, _ := P.CellStores(a)
							for _, v := range vals {
								if call, ok := v.(*ssa.Call); ok && call.Call.StaticCallee() == fn {
									return true
								}
							}
							return false
						}) {
							depth = true
						}
					}
				}
			}
		})
		// every rendered name that takes part in the comparison must be one of the known renderings: the object name
		// of a named type (with its package path beside it), the name of a basic type, or the path-qualified
		// Type.String() of the fallback (the recorded finding). Any other rendering - in particular one that
		// qualifies packages by *name* - identifies more distinct types with each other than the recorded finding says.
		if !usesGoTypes {
			nStores, nBad := 0, 0
			// the converter itself and, in the context of each call, the helpers it builds its result with
			type scope struct {
				f    *ssa.Function
				pins pinMap
			}
			scopes := []scope{{fn, nil}}
			allInstrs(fn, func(_ *ssa.BasicBlock, ins ssa.Instruction) {
				if call, ok := ins.(*ssa.Call); ok {
					if h := call.Call.StaticCallee(); h != nil && h != fn && P.IsProductFunc(h) && len(h.Blocks) > 0 && !P.isAnchor(h) {
						scopes = append(scopes, scope{h, pinMap{h: call}})
					}
				}
			})
			for _, sc := range scopes {
				sc := sc
				P.PinnedAll(sc.pins, func() {
					allInstrs(sc.f, func(b *ssa.BasicBlock, ins ssa.Instruction) {
						st, ok := ins.(*ssa.Store)
						if !ok {
							return
						}
						fa, ok := st.Addr.(*ssa.FieldAddr)
						if !ok {
							return
						}
						if _, isStruct := deref(fa.X.Type()).Underlying().(*types.Struct); !isStruct {
							return
						}
						switch deref(fa.X.Type()).Underlying().(*types.Struct).Field(fa.Field).Name() {
						case "TypeName":
						case "TypePackage":
							// the package beside an object name is its full path (or "" for universe / unnamed types)
							if !P.RootsAllDeep(st.Val, func(r ssa.Value) bool {
								if cs, ok := r.(*ssa.Const); ok {
									return cs.Value != nil && cs.Value.ExactString() == `""`
								}
								return P.CallTo(r, "(*go/types.Package).Path") != nil
							}) {
								nBad++
								c.fail("TYPE-IDENT", "implements."+name+"#rendering", P.Pos(st.Pos()), "the compared TypePackage is "+short(P.DescDeep(st.Val))+", not (*types.Package).Path(): named types of distinct packages are identified")
							}
							return
						default:
							return
						}
						nStores++
						bad := ""
						if !P.RootsAllDeep(st.Val, func(r ssa.Value) bool {
							call, ok := r.(*ssa.Call)
							if !ok {
								bad = P.Desc(r)
								return false
							}
							if call.Call.IsInvoke() && call.Call.Method.Name() == "String" && typeStr(call.Call.Value.Type()) == "go/types.Type" {
								render = true
								return true
							}
							switch P.calleeName(call.Common()) {
							case "(*go/types.TypeName).Name", "(*go/types.object).Name", "(*go/types.Basic).Name":
								return true
							case "go/types.TypeString":
								if c.pathQualifier(call.Call.Args[1]) {
									render = true
									return true
								}
								bad = "types.TypeString with a qualifier that is neither nil nor (*types.Package).Path"
								return false
							}
							bad = P.Desc(r)
							return false
						}) {
							nBad++
							c.fail("TYPE-IDENT", "implements."+name+"#rendering", P.Pos(st.Pos()), "the compared TypeName is rendered by "+short(bad)+": not the object name of a named/basic type and not the path-qualified Type.String(); distinct types of same-named packages are identified")
						}
					})
				})
			}
			// the case analysis of the rendering is made on the type itself: Underlying() identifies a defined type with
			// what it is defined as (`type Ref *Node` is not `*Node`)
			allInstrs(fn, func(b *ssa.BasicBlock, ins ssa.Instruction) {
				ta, ok := ins.(*ssa.TypeAssert)
				if !ok || typeStr(ta.X.Type()) != "go/types.Type" {
					return
				}
				if P.RootsAny(ta.X, func(r ssa.Value) bool {
					call, ok := r.(*ssa.Call)
					return ok && call.Call.IsInvoke() && call.Call.Method.Name() == "Underlying"
				}) {
					nBad++
					c.fail("TYPE-IDENT", "implements."+name+"#rendering", P.Pos(ta.Pos()), "the rendering distinguishes its cases ("+typeStr(ta.AssertedType)+") on t.Underlying(): a defined type is identified with the type it is defined as (`type Ref *Node` and `*Node` are rendered alike; missed IMPL03)")
				}
			})
			if nStores == 0 {
				c.fail("TYPE-IDENT", "implements."+name+"#rendering", P.Pos(fn.Pos()), "no store to a TypeName field found (rule instance lost)")
			} else if nBad == 0 {
				c.ok("TYPE-IDENT", "implements."+name+"#rendering", P.Pos(fn.Pos()), fmt.Sprintf("%d TypeName renderings: object name / basic name / path-qualified String()", nStores))
			}
		}
		// (2b) a named type is rendered by its object name alone: the type arguments of an instantiated generic
		// type are dropped, Box[int] and Box[string] are identified (missed IMPL03)
		if !usesGoTypes {
			objName, typeArgs := false, false
			allInstrs(fn, func(b *ssa.BasicBlock, ins ssa.Instruction) {
				if call, ok := ins.(*ssa.Call); ok {
					switch P.calleeName(call.Common()) {
					case "(*go/types.Named).Obj":
						objName = true
					case "(*go/types.Named).TypeArgs":
						typeArgs = true
					}
				}
			})
			if objName && !typeArgs {
				c.fail("TYPE-IDENT", "implements."+name+"#type-args-dropped", P.Pos(fn.Pos()), "a named type is identified by (package path, object name) only: instantiations of one generic type with different type arguments are treated as the same type (missed IMPL03)")
			}
		}
		if render && !usesGoTypes {
			c.fail("TYPE-IDENT", "implements."+name+"#string-fallback", P.Pos(fn.Pos()), "types that are neither pointer, named nor basic are identified by Type.String(), which is not canonical")
		}
		if depth && !usesGoTypes {
			c.fail("TYPE-IDENT", "implements."+name+"#pointer-depth", P.Pos(fn.Pos()), "pointer depth is collapsed to one bit: *T and **T are treated as the same type (missed IMPL03)")
		}
	}
	// (2t) the two converters are twins: a type on the interface side and the same type on the implementing side must
	// come out with the same rendering, so whatever one of them does to a type (look through aliases, strip a
	// pointer, render a fallback) the other does too - compared as the set of go/types operations each applies
	if !usesGoTypes {
		fi, fm := P.LookupFunc("implements", "convertTypesToInterfaceType"), P.LookupFunc("implements", "convertTypesToMethodType")
		if fi != nil && fm != nil {
			ops := func(fn *ssa.Function) map[string]bool {
				out := map[string]bool{}
				for _, f := range P.StaticClosure(fn) {
					allInstrs(f, func(_ *ssa.BasicBlock, ins ssa.Instruction) {
						switch x := ins.(type) {
						case *ssa.TypeAssert:
							if strings.HasPrefix(typeStr(x.AssertedType), "*go/types.") {
								out["assert "+typeStr(x.AssertedType)] = true
							}
						case *ssa.Call:
							n := P.calleeName(x.Common())
							if strings.Contains(n, "go/types.") {
								out["call "+n] = true
							}
						}
					})
				}
				return out
			}
			oi, om := ops(fi), ops(fm)
			var diff []string
			for k := range oi {
				if !om[k] {
					diff = append(diff, k+" (interface side only)")
				}
			}
			for k := range om {
				if !oi[k] {
					diff = append(diff, k+" (implementing side only)")
				}
			}
			sort.Strings(diff)
			c.check(len(diff) == 0, "TYPE-IDENT/TWINS", "implements.convertTypesToInterfaceType~convertTypesToMethodType", P.Pos(fm.Pos()), "both sides of the comparison treat a type the same way",
				"the two signature converters do not apply the same go/types operations: "+strings.Join(diff, "; ")+" - the same type is rendered differently on the two sides of the comparison (false IMPL03 for a correct implementation)")
		}
	}
	// (2c) methods are paired by name alone: an unexported method of another package is a different method
	// (go/types: Id() = package path + name), `seal()` of package impl does not implement `seal()` of package api
	if !usesGoTypes {
		usesID := false
		for _, fn := range P.ModFuncs {
			if funcPkgPath(fn) != modulePath+"/src/implements" {
				continue
			}
			allInstrs(fn, func(b *ssa.BasicBlock, ins ssa.Instruction) {
				if call, ok := ins.(*ssa.Call); ok {
					n := P.calleeName(call.Common())
					if strings.HasSuffix(n, ").Id") || strings.HasSuffix(n, ").Exported") || n == "go/types.Id" || n == "go/token.IsExported" {
						usesID = true
					}
				}
			})
		}
		if cm := P.LookupFunc("implements", "checkImplementation"); cm != nil && !usesID {
			c.fail("METHOD-SET", "implements.checkImplementation#unexported-by-name", P.Pos(cm.Pos()), "methods are paired by name only: an unexported method required by an interface of another package is considered implemented by a same-named method of the annotated type's package (missed IMPL03)")
		}
	}
	// (3) method set
	if em := P.LookupFunc("implements", "extractMethodsFromNamedType"); em != nil && !usesGoTypes {
		onlyPtr := true
		n := 0
		allInstrs(em, func(b *ssa.BasicBlock, ins ssa.Instruction) {
			if call, ok := ins.(*ssa.Call); ok && P.CallTo(call, "go/types.NewMethodSet") != nil {
				n++
				if !strings.HasPrefix(P.Desc(call.Call.Args[0]), "call(go/types.NewPointer;") {
					onlyPtr = false
				}
			}
		})
		// (3b) the implementing side is always read as the method set of *T: for an interface-typed T (type T
		// interface{...}) that set is empty - pointer-to-interface has no methods - so a correct annotation gets IMPL03
		if n > 0 && onlyPtr {
			handlesIface := false
			for _, f := range P.StaticClosure(em) {
				allInstrs(f, func(b *ssa.BasicBlock, ins ssa.Instruction) {
					switch x := ins.(type) {
					case *ssa.Call:
						if P.calleeName(x.Common()) == "go/types.IsInterface" {
							handlesIface = true
						}
					case *ssa.TypeAssert:
						if typeStr(x.AssertedType) == "*go/types.Interface" {
							handlesIface = true
						}
					}
				})
			}
			if !handlesIface {
				c.fail("METHOD-SET", "implements.extractMethodsFromNamedType#interface-typed", P.Pos(em.Pos()), "methods of the annotated type are always taken from the method set of *T; for an interface-typed T that set is empty, so `@implements I` on `type T interface{ ...I's methods... }` gets a false IMPL03")
			}
		}
		if n > 0 && onlyPtr {
			c.fail("METHOD-SET", "implements.checkImplementation#receiver-kind-filter", P.Pos(em.Pos()), "the value method set is approximated as 'methods of *T declared with a value receiver': methods promoted through an embedded pointer are in T's method set but are filtered out (false IMPL03)")
		}
	}
}

// ruleQueries: which annotations contribute interface / type queries (ToInterfaceQuery, ToTypeQuery), how the
// interface loader enumerates methods, and that the import map is per file.
func (c *Ctx) ruleQueries() {
	P := c.P
	ann := "annotations.ImplementsAnnotation"
	notFound := func(l Lit) bool {
		return l.Kind == "cond" && l.Val != nil && strings.HasSuffix(P.Desc(l.Val), "."+ann+".PackageNotFound)")
	}
	if fn := P.LookupFunc("annotations", "PackageAnnotations.ToTypeQuery"); fn != nil {
		okUpd, okApp := false, false
		allInstrs(fn, func(b *ssa.BasicBlock, ins ssa.Instruction) {
			g := nonLoopGuards(P.BlockGuards(b))
			switch x := ins.(type) {
			case *ssa.MapUpdate:
				// a type is marked as seen only when its annotation contributes a query
				okUpd = hasLit(g, func(l Lit) bool { return !l.Pos && notFound(l) }) && strings.HasSuffix(P.Desc(x.Key), "."+ann+".OnType)")
			case *ssa.Call:
				if bi, ok := x.Call.Value.(*ssa.Builtin); ok && bi.Name() == "append" && typeStr(x.Type()) == "[]annotations.TypeQuery" {
					nf := hasLit(g, func(l Lit) bool { return !l.Pos && notFound(l) })
					dd := hasLit(g, func(l Lit) bool { return lookupOK(l) != nil && !l.Pos })
					okApp = nf && dd && len(g) == 2 && c.complitFieldFrom(fn, "annotations.TypeQuery", "TypeName", "."+ann+".OnType)")
				}
			}
		})
		c.check(okUpd && okApp, "QUERY-SHAPE", "annotations.PackageAnnotations.ToTypeQuery", P.Pos(fn.Pos()), "one type query per annotated type that has a resolvable annotation (dedup among those only)",
			"a type whose first @implements is unresolved (IMPL01) is marked as seen before the skip: its later, resolvable annotations are never checked (lost IMPL03)")
	} else {
		c.fail("QUERY-SHAPE", "annotations.PackageAnnotations.ToTypeQuery", "", "method not found")
	}
	if fn := P.LookupFunc("annotations", "PackageAnnotations.ToInterfaceQuery"); fn != nil {
		okApp := false
		allInstrs(fn, func(b *ssa.BasicBlock, ins ssa.Instruction) {
			if x, ok := ins.(*ssa.Call); ok {
				if bi, ok := x.Call.Value.(*ssa.Builtin); ok && bi.Name() == "append" && typeStr(x.Type()) == "[]annotations.InterfaceQuery" {
					g := nonLoopGuards(P.BlockGuards(b))
					okApp = len(g) == 1 && hasLit(g, func(l Lit) bool { return !l.Pos && notFound(l) }) &&
						c.complitFieldFrom(fn, "annotations.InterfaceQuery", "InterfaceName", "."+ann+".InterfaceName)") &&
						c.complitFieldFrom(fn, "annotations.InterfaceQuery", "PackageName", "."+ann+".PackageFullPath)")
				}
			}
		})
		c.check(okApp, "QUERY-SHAPE", "annotations.PackageAnnotations.ToInterfaceQuery", P.Pos(fn.Pos()), "one interface query (name, resolved full path) per resolvable annotation", "interface queries are not exactly (InterfaceName, PackageFullPath) of every annotation whose package was found")
	} else {
		c.fail("QUERY-SHAPE", "annotations.PackageAnnotations.ToInterfaceQuery", "", "method not found")
	}
	// interface methods: the full method set (embedded interfaces included)
	if fn := P.LookupFunc("implements", "extractMethodsFromInterface"); fn != nil {
		var calls []string
		allInstrs(fn, func(b *ssa.BasicBlock, ins ssa.Instruction) {
			if x, ok := ins.(*ssa.Call); ok {
				n := P.calleeName(x.Common())
				if strings.HasPrefix(n, "(*go/types.Interface).") {
					calls = append(calls, strings.TrimPrefix(n, "(*go/types.Interface)."))
				}
			}
		})
		sort.Strings(calls)
		okM := strings.Join(calls, ",") == "Method,NumMethods"
		c.check(okM, "IFACE-METHODS", "implements.extractMethodsFromInterface", P.Pos(fn.Pos()), "iterates NumMethods()/Method(i): all methods including those of embedded interfaces", "interface methods are enumerated with "+strings.Join(calls, ",")+": methods inherited from embedded interfaces are not compared")
	} else {
		c.fail("IFACE-METHODS", "implements.extractMethodsFromInterface", "", "function not found")
	}
	// the import map handed to the @implements parser is built per file from that file's own imports
	for _, ps := range c.parseSites() {
		if ps.Keyword != "@implements" || len(ps.Call.Call.Args) < 4 {
			continue
		}
		imp := ps.Call.Call.Args[3]
		fileFn := ps.Call.Parent()
		okScope, okFill := false, false
		P.Pinned(ps.ViaFn, ps.Via, func() {
			// the map is one freshly allocated util.ImportMap ...
			var allocs []*ssa.Alloc
			okScope = P.RootsAll(imp, func(r ssa.Value) bool {
				a, ok := r.(*ssa.Alloc)
				if ok && typeStr(deref(a.Type())) == "util.ImportMap" {
					allocs = append(allocs, a)
					return true
				}
				return false
			}) && len(allocs) == 1
			if !okScope {
				return
			}
			a := allocs[0]
			textDesc := P.Desc(ps.Text)
			// ... filled, in the function that allocates it, from range <file>.Imports, unconditionally; <file> is the
			// file the parsed comment belongs to, and the allocation is repeated for every file (file is a parameter of
			// the allocating function, or allocation and file binding share the innermost loop)
			allInstrs(a.Parent(), func(b *ssa.BasicBlock, ins ssa.Instruction) {
				call, ok := ins.(*ssa.Call)
				if !ok || call.Call.StaticCallee() == nil || FuncName(call.Call.StaticCallee()) != "(*util.ImportMap).Add" {
					return
				}
				if !P.RootsAll(call.Call.Args[0], func(r ssa.Value) bool { return r == a }) {
					return
				}
				var files []ssa.Value
				for _, e := range P.Resolve(call.Call.Args[1]) {
					u, ok := e.(*ssa.UnOp)
					if !ok {
						continue
					}
					ia, ok := u.X.(*ssa.IndexAddr)
					if !ok || !(isRangeIndex(ia.Index) || isFullIndexLoopOver(ia.Index, ia.X)) {
						continue
					}
					for _, l := range P.Resolve(ia.X) {
						if f := fieldLoad(l, "go/ast.File", "Imports"); f != nil {
							files = append(files, f)
						}
					}
				}
				if len(files) != 1 || len(nonLoopGuards(P.BlockGuards(b))) != 0 {
					return
				}
				file := files[0]
				sameFile := strings.Contains(textDesc, "field("+P.Desc(file)+".go/ast.File.")
				fresh := false
				switch fv := file.(type) {
				case *ssa.Parameter:
					fresh = fv.Parent() == a.Parent()
				case ssa.Instruction:
					la, lf := loopOf(a.Block()), loopOf(fv.Block())
					fresh = fv.Parent() == a.Parent() && la != nil && lf != nil && len(la) == len(lf) && la[fv.Block()] && lf[a.Block()]
				}
				if sameFile && fresh {
					okFill = true
				}
			})
		})
		c.check(okScope && okFill, "IMPORTS-PER-FILE", FuncName(fileFn), P.Pos(ps.Call.Pos()), "qualifiers are resolved against the imports of the annotation's own file",
			"the import map used to resolve @implements qualifiers is not built per file from that file's imports: a qualifier bound only in another file resolves (or two files' aliases collide)")
	}
}

// complitFieldFrom: in fn, every composite literal of type typ stores into field a value whose descriptor ends
// with suffix.
func (c *Ctx) complitFieldFrom(fn *ssa.Function, typ, field, suffix string) bool {
	P := c.P
	n, ok := 0, true
	allInstrs(fn, func(b *ssa.BasicBlock, ins ssa.Instruction) {
		st, isS := ins.(*ssa.Store)
		if !isS {
			return
		}
		fa, isF := st.Addr.(*ssa.FieldAddr)
		if !isF || typeStr(deref(fa.X.Type())) != typ || fieldName(deref(fa.X.Type()), fa.Field) != field {
			return
		}
		n++
		if !strings.HasSuffix(P.Desc(st.Val), suffix) {
			ok = false
		}
	})
	return ok && n > 0
}

// pathQualifier: the types.Qualifier argument renders packages by their full path - nil, or a function all of
// whose results are (*types.Package).Path() of its parameter.
func (c *Ctx) pathQualifier(q ssa.Value) bool {
	P := c.P
	return P.RootsAllDeep(q, func(r ssa.Value) bool {
		if cs, ok := r.(*ssa.Const); ok && cs.Value == nil {
			return true
		}
		var fn *ssa.Function
		switch x := r.(type) {
		case *ssa.Function:
			fn = x
		case *ssa.MakeClosure:
			fn, _ = x.Fn.(*ssa.Function)
		}
		if fn == nil || len(fn.Params) != 1 || len(fn.Blocks) == 0 {
			return false
		}
		n, ok := 0, true
		allInstrs(fn, func(b *ssa.BasicBlock, ins ssa.Instruction) {
			if ret, isRet := ins.(*ssa.Return); isRet && len(ret.Results) == 1 {
				n++
				if !P.RootsAllDeep(ret.Results[0], func(v ssa.Value) bool {
					call := P.CallTo(v, "(*go/types.Package).Path")
					return call != nil && P.RootsAllDeep(call.Call.Args[0], func(a ssa.Value) bool { return a == fn.Params[0] })
				}) {
					ok = false
				}
			}
		})
		return ok && n > 0
	})
}

// nameUnknownGuard: among the literals, import.PackageName == "" holds.
func (c *Ctx) nameUnknownGuard(lits []Lit) bool {
	return hasLit(lits, func(l Lit) bool {
		other := litOther(l, `const("")`)
		return other != "" && l.Pos && strings.HasSuffix(other, "util.Import.PackageName)")
	})
}

// resolveOrderFused recognises the single-pass form of ImportMap.Find (see the call site) and returns the priority
// order it implements.
func (c *Ctx) resolveOrderFused(find *ssa.Function) ([]string, bool) {
	loops := naturalLoops(find)
	if len(loops) == 0 {
		return dbgFused(1)
	}
	// one pass after the other: each loop over the entries is a phase with at most one kind returned at once and
	// the kinds it keeps in variables returned behind it
	sort.Slice(loops, func(i, j int) bool { return loops[i].head.Index < loops[j].head.Index })
	for i := 0; i+1 < len(loops); i++ {
		if !dominates(loops[i].head, loops[i+1].head) || loops[i].body[loops[i+1].head] {
			return dbgFused(10)
		}
	}
	claimed := map[*ssa.Return]bool{}
	var kinds []string
	for i, lp := range loops {
		ks, ok := c.resolveOrderFusedLoop(find, lp, i == len(loops)-1, claimed)
		if !ok {
			return nil, false
		}
		kinds = append(kinds, ks...)
	}
	// every result of Find belongs to one of the passes
	all := true
	allInstrs(find, func(_ *ssa.BasicBlock, ins ssa.Instruction) {
		if r, ok := ins.(*ssa.Return); ok && len(r.Results) == 1 && !isNilConst(r.Results[0]) && !claimed[r] {
			all = false
		}
	})
	if !all {
		return dbgFused(11)
	}
	return kinds, true
}

func (c *Ctx) resolveOrderFusedLoop(find *ssa.Function, lp natLoop, lastLoop bool, claimed map[*ssa.Return]bool) ([]string, bool) {
	P := c.P
	short0 := P.Desc(find.Params[1])
	kindOf := func(lits []Lit) string {
		kind := ""
		for _, l := range lits {
			if l.Kind == "eq" && l.Pos {
				other := ""
				if P.Desc(l.X) == short0 {
					other = P.Desc(l.Y)
				} else if P.Desc(l.Y) == short0 {
					other = P.Desc(l.X)
				}
				switch {
				case strings.HasSuffix(other, "util.Import.Alias)"):
					kind = "alias"
				case strings.HasSuffix(other, "util.Import.PackageName)"):
					kind = "name"
				case strings.HasSuffix(other, "util.Import.FullPath)"):
					kind = "path"
				}
			}
			if call := litCall(l); call != nil && l.Pos && call.Call.StaticCallee() != nil && FuncName(call.Call.StaticCallee()) == "util.matchesPathComponentWithSlash" {
				kind = "suffix"
			}
		}
		return c.nameOwn(kind, lits)
	}
	type post struct {
		kind string
		v    *ssa.Phi
		blk  *ssa.BasicBlock
	}
	var kinds []string
	var posts []post
	inLoop := 0
	bad := false
	allInstrs(find, func(b *ssa.BasicBlock, ins ssa.Instruction) {
		r, ok := ins.(*ssa.Return)
		if !ok || len(r.Results) != 1 || isNilConst(r.Results[0]) {
			return
		}
		if _, isElem := r.Results[0].(*ssa.IndexAddr); isElem {
			// the immediate return inside the pass: the element itself, under its kind's condition
			if len(b.Preds) != 1 || !lp.body[b.Preds[0]] {
				return // (of another pass)
			}
			k := kindOf(P.BlockGuards(b))
			if k == "" {
				bad = true
				return
			}
			inLoop++
			claimed[r] = true
			kinds = append(kinds, k)
			return
		}
		// after the pass: a variable carried by the loop
		phi, ok := r.Results[0].(*ssa.Phi)
		if !ok || phi.Block() != lp.head {
			return // (of another pass, or of none: the caller counts)
		}
		claimed[r] = true
		posts = append(posts, post{"", phi, b})
	})
	if bad || inLoop > 1 || (inLoop == 0 && len(posts) == 0) {
		return dbgFused(2)
	}
	// the pass is left early only by the immediate return
	for _, ex := range lp.exits {
		if ex[0] == lp.head {
			continue
		}
		if _, isRet := lastInstr(ex[1]).(*ssa.Return); !isRet {
			return dbgFused(3)
		}
	}
	// each carried variable: nil at the start, assigned the element only while still nil and under its kind
	for i := range posts {
		phi := posts[i].v
		k := ""
		for ei, e := range phi.Edges {
			if !lp.body[phi.Block().Preds[ei]] {
				if !isNilConst(e) {
					return dbgFused(4)
				}
				continue
			}
			// the value carried round the loop: the variable itself (kept) or the element (assigned), joined by phis
			type vcase struct {
				val    ssa.Value
				guards []Lit
				from   *ssa.BasicBlock // the block the assigned value comes from
			}
			var cases []vcase
			var expand func(v ssa.Value, g []Lit, depth int) bool
			var fromBlk *ssa.BasicBlock
			expand = func(v ssa.Value, g []Lit, depth int) bool {
				if v == ssa.Value(phi) {
					return true // kept
				}
				if _, isElem := v.(*ssa.IndexAddr); isElem {
					cases = append(cases, vcase{v, g, fromBlk})
					return true
				}
				inner, ok := v.(*ssa.Phi)
				if !ok || depth > 4 || !lp.body[inner.Block()] || inner.Block() == lp.head {
					return false
				}
				for ei2, e2 := range inner.Edges {
					g2 := append(append([]Lit{}, g...), P.EdgeGuards(inner.Block().Preds[ei2], inner.Block())...)
					g2 = append(g2, P.BlockGuards(inner.Block().Preds[ei2])...)
					fromBlk = inner.Block().Preds[ei2]
					if !expand(e2, g2, depth+1) {
						return false
					}
				}
				return true
			}
			if !expand(e, nil, 0) {
				return dbgFused(5)
			}
			for _, vc := range cases {
				// (read off the branch structure: the literals of the three variables look alike)
				whileNil := false
				if vc.from != nil {
					for _, tb := range find.Blocks {
						ifi, ok := lastInstr(tb).(*ssa.If)
						if !ok || len(tb.Succs) != 2 {
							continue
						}
						bo, ok := ifi.Cond.(*ssa.BinOp)
						if !ok || !((bo.X == ssa.Value(phi) && isNilConst(bo.Y)) || (bo.Y == ssa.Value(phi) && isNilConst(bo.X))) {
							continue
						}
						branch := 0
						if bo.Op == token.NEQ {
							branch = 1
						} else if bo.Op != token.EQL {
							continue
						}
						if sb := tb.Succs[branch]; len(sb.Preds) == 1 && dominates(sb, vc.from) {
							whileNil = true
						}
					}
				}
				kk := kindOf(vc.guards)
				if os.Getenv("GGV_DEBUG_FUSED") != "" {
					fmt.Println("FUSED case", phi.Name(), "whileNil", whileNil, "kind", kk, "nguards", len(vc.guards))
					for _, l := range vc.guards {
						fmt.Println("   ", l.String()[:min(len(l.String()), 120)], "nilv:", nilCheckedValue(l) != nil)
					}
				}
				if !whileNil || kk == "" || (k != "" && k != kk) {
					return dbgFused(6)
				}
				if (kk == "path" || kk == "suffix") && !c.nameUnknownGuard(vc.guards) {
					c.pathFallbackOpen = true
				}
				k = kk
			}
		}
		if k == "" {
			return dbgFused(7)
		}
		posts[i].kind = k
	}
	// returned in the order of the blocks, each only after the earlier variables were found nil; all but the last
	// under "is not nil" (read off the branch structure)
	nilTested := func(phi *ssa.Phi, blk *ssa.BasicBlock, wantNil bool) bool {
		for _, tb := range find.Blocks {
			ifi, ok := lastInstr(tb).(*ssa.If)
			if !ok || len(tb.Succs) != 2 {
				continue
			}
			bo, ok := ifi.Cond.(*ssa.BinOp)
			if !ok || !((bo.X == ssa.Value(phi) && isNilConst(bo.Y)) || (bo.Y == ssa.Value(phi) && isNilConst(bo.X))) {
				continue
			}
			var nilBranch int
			switch bo.Op {
			case token.EQL:
				nilBranch = 0
			case token.NEQ:
				nilBranch = 1
			default:
				continue
			}
			br := nilBranch
			if !wantNil {
				br = 1 - nilBranch
			}
			if sb := tb.Succs[br]; len(sb.Preds) == 1 && dominates(sb, blk) {
				return true
			}
		}
		return false
	}
	sort.Slice(posts, func(i, j int) bool { return posts[i].blk.Index < posts[j].blk.Index })
	for i, pp := range posts {
		for j := 0; j < i; j++ {
			if !nilTested(posts[j].v, pp.blk, true) {
				return dbgFused(8)
			}
		}
		if (i < len(posts)-1 || !lastLoop) && !nilTested(pp.v, pp.blk, false) {
			return dbgFused(9)
		}
		kinds = append(kinds, pp.kind)
	}
	return kinds, true
}

func dbgFused(n int) ([]string, bool) {
	if os.Getenv("GGV_DEBUG_FUSED") != "" {
		fmt.Println("FUSED bail", n)
	}
	return nil, false
}

// nameOwn refines the kind of a qualifier match: a match by declared package name that is restricted to imports
// without explicit alias (the ones the file binds under that name).
func (c *Ctx) nameOwn(kind string, lits []Lit) string {
	if kind != "name" {
		return kind
	}
	P := c.P
	for _, l := range lits {
		if l.Kind != "eq" || !l.Pos {
			continue
		}
		dx, dy := P.Desc(l.X), P.Desc(l.Y)
		if (strings.HasSuffix(dx, "util.Import.Alias)") && dy == `const("")`) || (strings.HasSuffix(dy, "util.Import.Alias)") && dx == `const("")`) {
			return "name-own"
		}
	}
	return kind
}

var resolveOrderWant = []string{"alias", "name-own", "name", "path", "suffix"}

const resolveOrderText = "explicit alias > declared name of an import without alias > declared name of any import > exact path > last path element"

// ---- RESOLVE-ORDER, general form: a sequence of first-match searches ------------------------------------------
//
// A *search* is a value that is the first entry of the import list (in index order, over the whole list) accepted
// by a predicate, or "none" (nil / -1):
//
//	h(..., pred)                with h a first-match helper (firstMatchHelper)
//	&list[slices.IndexFunc(list, pred)]   returned under `index >= 0`
//	g(name)                     with g a product function that is itself one search (its own returns are analysed)
//
// Find is a sequence of searches: each is returned when it found something, the next one is tried only after that
// (its call is dominated by the previous one); the last may be returned as it is. A search whose predicate is the
// element of a loop over a whole list of predicates stands for the listed predicates in list order.

type importSearch struct {
	kinds []string
	at    ssa.Instruction // where the list is searched
}

// searchOf: the search v stands for (nil if v is not one). ctx: the pins under which v is described.
func (c *Ctx) searchOf(find *ssa.Function, v ssa.Value, retBlk *ssa.BasicBlock, short0 string, depth int) *importSearch {
	P := c.P
	if depth > 4 {
		return nil
	}
	switch x := v.(type) {
	case *ssa.Call:
		callee := x.Call.StaticCallee()
		if callee == nil || !P.IsProductFunc(callee) || len(callee.Blocks) == 0 {
			return nil
		}
		pi := -1
		for i, a := range x.Call.Args {
			if _, isF := a.Type().Underlying().(*types.Signature); isF {
				if pi >= 0 {
					return nil
				}
				pi = i
			}
		}
		if pi >= 0 {
			if !c.firstMatchHelper(callee, pi) {
				return nil
			}
			kinds := c.predKinds(find, x.Call.Args[pi], x.Block(), retBlk, short0)
			if kinds == nil {
				return nil
			}
			return &importSearch{kinds, x}
		}
		// a product function that is one search itself, asked with the short name
		named := false
		for _, a := range x.Call.Args {
			if P.Desc(a) == short0 {
				named = true
			}
		}
		if !named {
			return nil
		}
		var inner *importSearch
		okAll := true
		P.Pinned(callee, x, func() {
			allInstrs(callee, func(b *ssa.BasicBlock, ins ssa.Instruction) {
				r, ok := ins.(*ssa.Return)
				if !ok || len(r.Results) != 1 || isNilConst(r.Results[0]) {
					return
				}
				s := c.searchOf(find, r.Results[0], b, short0, depth+1)
				if s == nil || inner != nil {
					okAll = false
					return
				}
				inner = s
			})
		})
		if !okAll || inner == nil {
			return nil
		}
		return &importSearch{inner.kinds, x}
	case *ssa.IndexAddr:
		ic, ok := x.Index.(*ssa.Call)
		if !ok || ic.Call.StaticCallee() == nil || !strings.HasPrefix(FuncName(ic.Call.StaticCallee()), "slices.IndexFunc") || len(ic.Call.Args) != 2 {
			return nil
		}
		if !sameSliceValue(x.X, ic.Call.Args[0]) && P.Desc(x.X) != P.Desc(ic.Call.Args[0]) {
			return nil
		}
		// returned only when something was found: index >= 0 on the way
		found := false
		for _, l := range P.BlockGuards(retBlk) {
			if l.Kind == "lt" && l.X != nil && l.Y != nil {
				// found >= 0  ==  !(found < 0)
				if !l.Pos && l.X == ssa.Value(ic) {
					if k, isC := constInt(l.Y); isC && k == 0 {
						found = true
					}
				}
				// -1 < found / 0 <= found forms
				if l.Pos && l.Y == ssa.Value(ic) {
					if k, isC := constInt(l.X); isC && k == -1 {
						found = true
					}
				}
			}
			if l.Kind == "eq" && !l.Pos && (l.X == ssa.Value(ic) || l.Y == ssa.Value(ic)) {
				for _, o := range []ssa.Value{l.X, l.Y} {
					if k, isC := constInt(o); isC && k == -1 {
						found = true
					}
				}
			}
		}
		if !found {
			return nil
		}
		kinds := c.predKinds(find, ic.Call.Args[1], ic.Block(), retBlk, short0)
		if kinds == nil {
			return nil
		}
		return &importSearch{kinds, ic}
	}
	return nil
}

// predKinds: the priorities a predicate value stands for: one for a function literal judged by its own conditions;
// the listed ones, in order, for a literal that only hands its arguments to the element of a loop over a whole list
// of predicates.
func (c *Ctx) predKinds(find *ssa.Function, pred ssa.Value, searchBlk, retBlk *ssa.BasicBlock, short0 string) []string {
	P := c.P
	pf := P.closureValue(pred, 0)
	if pf == nil || len(pf.Blocks) == 0 {
		return nil
	}
	// func(imp) bool { return matches(imp, shortName) } with matches captured from a loop over the list of predicates
	var dyn *ssa.Call
	nRet := 0
	allInstrs(pf, func(b *ssa.BasicBlock, ins ssa.Instruction) {
		if r, ok := ins.(*ssa.Return); ok && len(r.Results) == 1 {
			nRet++
			if call, ok := r.Results[0].(*ssa.Call); ok && call.Call.StaticCallee() == nil && !call.Call.IsInvoke() {
				dyn = call
			}
		}
	})
	if dyn != nil && nRet == 1 {
		named := false
		for _, a := range dyn.Call.Args {
			if P.Desc(a) == short0 {
				named = true
			}
		}
		// the function value called: a variable of the enclosing function (captured, also as a per-round cell)
		roots := P.Resolve(dyn.Call.Value)
		if os.Getenv("GGV_RO_DEBUG") != "" {
			fmt.Printf("RO predKinds dyn named=%v roots=%d %T\n", named, len(roots), roots[0])
		}
		if named && len(roots) == 1 && retBlk.Parent() == find && searchBlk.Parent() == find {
			if kinds, ok := c.resolveOrderTableFrom(find, retBlk, roots[0], searchBlk, false, nil); ok {
				return kinds
			}
		}
		return nil
	}
	k := c.classifyImportPred(pf, short0)
	if k == "?" {
		return nil
	}
	return []string{k}
}

// resolveOrderSteps: Find as a sequence of searches (see above); the kinds in the order they are tried.
func (c *Ctx) resolveOrderSteps(find *ssa.Function) ([]string, bool) {
	P := c.P
	short0 := P.Desc(find.Params[1])
	type step struct {
		s   *importSearch
		ret *ssa.Return
	}
	var steps []step
	okAll := true
	allInstrs(find, func(b *ssa.BasicBlock, ins ssa.Instruction) {
		r, ok := ins.(*ssa.Return)
		if !ok || len(r.Results) != 1 || isNilConst(r.Results[0]) {
			return
		}
		s := c.searchOf(find, r.Results[0], b, short0, 0)
		if s == nil {
			okAll = false
			return
		}
		steps = append(steps, step{s, r})
	})
	if !okAll || len(steps) == 0 {
		return nil, false
	}
	// order: the searches are made one after the other; every one but the last is returned only when it found
	// something
	sort.SliceStable(steps, func(i, j int) bool {
		a, b := steps[i].s.at, steps[j].s.at
		if a.Block() == b.Block() {
			return instrIdx(a) < instrIdx(b)
		}
		return dominates(a.Block(), b.Block())
	})
	var kinds []string
	for i, st := range steps {
		if i+1 < len(steps) {
			nx := steps[i+1].s.at
			if !(st.s.at.Block() == nx.Block() && instrIdx(st.s.at) < instrIdx(nx)) && !dominates(st.s.at.Block(), nx.Block()) {
				return nil, false
			}
			// returned under "found"
			atv, _ := st.s.at.(ssa.Value)
			guarded := false
			for _, l := range P.BlockGuards(st.ret.Block()) {
				if v := nilCheckedValue(l); v != nil && !l.Pos && atv != nil && v == atv {
					guarded = true
				}
				if l.Kind == "lt" || l.Kind == "eq" {
					if l.X == atv || l.Y == atv {
						guarded = true // index form: judged in searchOf
					}
				}
			}
			if !guarded {
				return nil, false
			}
		}
		kinds = append(kinds, st.s.kinds...)
	}
	return kinds, true
}

// constFolded: literals with the parts that are constants in the current calling context folded away:
// -and(true, B) is -B; -and(false, B) says nothing; +and(..) parts are listed on their own.
func (c *Ctx) constFolded(lits []Lit) []Lit {
	P := c.P
	isConstBool := func(l Lit) (val, ok bool) {
		if l.Kind != "cond" || l.Val == nil {
			return false, false
		}
		allC := true
		l.In(P, func() {
			for _, r := range P.Resolve(l.Val) {
				b, isC := constBool(r)
				if !isC || (ok && b != val) {
					allC = false
					return
				}
				val, ok = b, true
			}
		})
		if !allC || !ok {
			return false, false
		}
		if !l.Pos {
			val = !val
		}
		return val, true
	}
	var out []Lit
	for _, l := range lits {
		if (l.Kind == "and" && !l.Pos) || (l.Kind == "or" && l.Pos) {
			// a disjunction of the (negated) parts: drop parts that are constantly false, the whole literal if a
			// part is constantly true; a single remaining part stands on its own
			var rest []Lit
			dropAll := false
			for _, sl := range l.Subs {
				if l.Kind == "and" {
					sl.Pos = !sl.Pos
				}
				if sl.Ctx == nil {
					sl.Ctx = l.Ctx
				}
				if v, ok := isConstBool(sl); ok {
					if v {
						dropAll = true
					}
					continue
				}
				rest = append(rest, sl)
			}
			if dropAll {
				continue
			}
			if len(rest) == 1 {
				out = append(out, rest[0])
				continue
			}
		}
		out = append(out, l)
	}
	return out
}

// cellOfParam: v is the address of the local copy of a parameter (&p for a parameter p whose address is taken) or
// the parameter itself: returns that parameter.
func (P *Program) cellOfParam(v ssa.Value) *ssa.Parameter {
	if prm, ok := v.(*ssa.Parameter); ok {
		return prm
	}
	al, ok := v.(*ssa.Alloc)
	if !ok || al.Referrers() == nil {
		return nil
	}
	var prm *ssa.Parameter
	n := 0
	for _, r := range *al.Referrers() {
		if st, ok := r.(*ssa.Store); ok && st.Addr == ssa.Value(al) {
			n++
			prm, _ = st.Val.(*ssa.Parameter)
		}
	}
	if n != 1 {
		return nil
	}
	return prm
}

// ruleTypeModelKey (C05, tenth round): the model of an annotated type is filed under the name the annotation is
// attached to - the name under which the type was picked from the set of annotated names (`wanted[name]`) - because
// FindMissingMethods asks for it under ann.OnType. A model named after the type the declaration *denotes*
// (named.Obj().Name()) is lost for an annotated alias declaration: a wrong claim on it is never checked.
func (c *Ctx) ruleTypeModelKey() {
	P := c.P
	n := 0
	for _, fn := range P.ModFuncs {
		if funcPkgPath(fn) != modulePath+"/src/implements" {
			continue
		}
		allInstrs(fn, func(b *ssa.BasicBlock, ins ssa.Instruction) {
			st, ok := ins.(*ssa.Store)
			if !ok {
				return
			}
			fa, ok := st.Addr.(*ssa.FieldAddr)
			if !ok || typeStr(deref(fa.X.Type())) != "implements.TypeModel" || fieldName(deref(fa.X.Type()), fa.Field) != "Name" {
				return
			}
			n++
			d := P.Desc(st.Val)
			picked := ""
			// (the conditions of the callers included: the literal may be built in a helper)
			for _, l := range P.Guards(st) {
				lk := lookupOK(l)
				if lk == nil && l.Kind == "cond" && l.Val != nil {
					lk, _ = l.Val.(*ssa.Lookup) // wanted[name] on a map[string]bool
				}
				if lk != nil && l.Pos {
					if mt, isM := lk.X.Type().Underlying().(*types.Map); isM && typeStr(mt.Key()) == "string" {
						picked = P.Desc(lk.Index)
						if picked == d {
							break
						}
					}
				}
			}
			c.check(picked != "" && picked == d, "TYPE-MODEL/KEY", FuncName(fn), P.Pos(st.Pos()), "the model is named by the annotated name it was picked under",
				"the type model is not filed under the annotated name it was picked by (named "+short(d)+", picked under "+short(picked)+"): FindMissingMethods looks it up under ann.OnType - an @implements on an alias declaration is never checked")
		})
	}
	c.floor("TypeModel literals", n, 1)
	// METHOD-SET/RECV-KIND (twelfth round): within the known approximation (receiver-kind filter), the kind recorded
	// for a method is the kind of its declared receiver and nothing else - a record overridden for some methods
	// (promoted ones, say) moves pointer-receiver methods into the value method set: missed IMPL03
	nk := 0
	for _, fn := range P.ModFuncs {
		if funcPkgPath(fn) != modulePath+"/src/implements" {
			continue
		}
		allInstrs(fn, func(b *ssa.BasicBlock, ins ssa.Instruction) {
			st, ok := ins.(*ssa.Store)
			if !ok {
				return
			}
			fa, ok := st.Addr.(*ssa.FieldAddr)
			if !ok || typeStr(deref(fa.X.Type())) != "implements.TypeMethod" || fieldName(deref(fa.X.Type()), fa.Field) != "ReceiverIsPointer" {
				return
			}
			nk++
			var consts []string
			fromRecv := true
			for _, r := range P.Resolve(st.Val) {
				if cs, isC := r.(*ssa.Const); isC {
					consts = append(consts, cs.String())
					continue
				}
				if !strings.Contains(P.Desc(r), "call((*go/types.Signature).Recv; ") {
					fromRecv = false
				}
			}
			c.check(len(consts) == 0 && fromRecv, "METHOD-SET/RECV-KIND", FuncName(fn), P.Pos(st.Pos()), "the receiver kind recorded for a method is computed from Signature.Recv() of that method, on every path",
				fmt.Sprintf("the receiver kind recorded for a method is not (only) that of its declared receiver [constants: %v, from Recv(): %v]: pointer-receiver methods can be counted into the value method set (missed IMPL03)", consts, fromRecv))
		})
	}
	c.floor("TypeMethod.ReceiverIsPointer records", nk, 1)
}
