package main

// INDEX-SRC / UNIFORM / FACT-* rules: how annotations get from the reader into the indices of a checker,
// locally and across packages (C06, and the "same package or directly imported" clauses of C01..C04, C09).

import (
	"fmt"
	"go/token"
	"go/types"
	"sort"
	"strings"

	"golang.org/x/tools/go/ssa"
)

// passFieldCall: call of a function-valued field of *analysis.Pass (ExportPackageFact, ImportPackageFact, Report...).
func (c *Ctx) passFieldCall(ci ssa.CallInstruction) string {
	com := ci.Common()
	if com.IsInvoke() {
		return ""
	}
	name := ""
	for _, r := range c.P.Resolve(com.Value) {
		u, ok := r.(*ssa.UnOp)
		if !ok {
			return ""
		}
		fa, ok := u.X.(*ssa.FieldAddr)
		if !ok || typeStr(deref(fa.X.Type())) != "golang.org/x/tools/go/analysis.Pass" {
			return ""
		}
		name = deref(fa.X.Type()).Underlying().(*types.Struct).Field(fa.Field).Name()
	}
	return name
}

// builderSpec: which annotation list a builder ranges over and what it stores (field names of the annotation
// element; "[]X" = every element of list field X; kind = required value of annot.Kind, -1 none).
type builderSpec struct {
	list string
	adds []addSpec
}
type addSpec struct {
	method string
	kind   int
	args   []string
}

var builderSpecs = map[string]builderSpec{
	"indexing.BuildImmutableTypesIndex":  {"ImmutableAnnotations", []addSpec{{"(util.TypesMap).Add", -1, []string{"OnType"}}}},
	"indexing.BuildConstructorIndex":     {"ConstructorAnnotations", []addSpec{{"(util.TypeAssociationRegistry).Add", -1, []string{"[]ConstructorNames", "OnType"}}}},
	"indexing.BuildTestOnlyTypesIndex":   {"TestonlyAnnotations", []addSpec{{"(util.TypesMap).Add", 0, []string{"ObjectName"}}}},
	"indexing.BuildTestOnlyFuncsIndex":   {"TestonlyAnnotations", []addSpec{{"(util.TypeAssociationRegistry).Add", 1, []string{"ObjectName", "ObjectName"}}}},
	"indexing.BuildTestOnlyMethodsIndex": {"TestonlyAnnotations", []addSpec{{"(util.TypeAssociationRegistry).Add", 2, []string{"ObjectName", "ReceiverType"}}}},
	"indexing.BuildMutableFieldsIndex":   {"MutableAnnotations", []addSpec{{"(util.TypeAssociationRegistry).Add", -1, []string{"FieldName", "OnType"}}}},
	"indexing.BuildPackageOnlyIndex": {"PackageOnlyAnnotations", []addSpec{
		{"(*util.AttachmentsMap).AddPkgTypeAttachment", 0, []string{"ObjectName", "[]AllowedPackages"}},
		{"(*util.AttachmentsMap).AddPkgFunctionAttachment", 1, []string{"ObjectName", "[]AllowedPackages"}},
		{"(*util.AttachmentsMap).AddPkgTypeMethodAttachment", 2, []string{"ReceiverType", "ObjectName", "[]AllowedPackages"}},
	}},
}

// kindConstName documents the TestOnlyKind values the specs refer to.
var kindNames = []string{"TestOnlyOnType", "TestOnlyOnFunc", "TestOnlyOnMethod"}

func baseName(fn *ssa.Function) string {
	n := FuncName(fn)
	if i := strings.Index(n, "["); i >= 0 {
		n = n[:i]
	}
	return n
}

// pkgIterators: the functions of package indexing that hand out the (package, annotations) sequence - recognised
// by their result type iter.Seq2[*types.Package, *annotations.PackageAnnotations], not by name.
func (c *Ctx) pkgIterators() []string {
	if c.pkgIters != nil {
		return c.pkgIters
	}
	set := map[string]bool{}
	for fn := range c.P.AllFuncs {
		if fn.Parent() != nil || funcPkgPath(fn) != modulePath+"/src/indexing" || fn.Signature.Results().Len() != 1 {
			continue
		}
		t := fn.Signature.Results().At(0).Type().String()
		if strings.HasPrefix(t, "iter.Seq2[*go/types.Package,") && strings.Contains(t, "annotations.PackageAnnotations") {
			set[baseName(fn)] = true
		}
	}
	c.pkgIters = []string{}
	for n := range set {
		c.pkgIters = append(c.pkgIters, n)
	}
	sort.Strings(c.pkgIters)
	return c.pkgIters
}

// fromPkgIter: descriptor d starts with pre + "iterelem<k>(call(<package iterator>[".
func (c *Ctx) fromPkgIter(d, pre string, k int) bool {
	for _, n := range c.pkgIterators() {
		if strings.HasPrefix(d, fmt.Sprintf("%siterelem%d(call(%s[", pre, k, n)) {
			return true
		}
	}
	return false
}

// ruleIndexSrc checks every instantiation of the given builders (all when none given).
func (c *Ctx) ruleIndexSrc(builders ...string) {
	P := c.P
	want := map[string]bool{}
	for _, b := range builders {
		want[b] = true
	}
	// kind constants
	ap := P.Pkg("annotations")
	kindVal := map[int]bool{}
	if ap != nil {
		for i, kn := range kindNames {
			if k, ok := ap.Types.Scope().Lookup(kn).(*types.Const); ok && k.Val().ExactString() == fmt.Sprint(i) {
				kindVal[i] = true
			}
		}
	}
	c.check(len(kindVal) == 3, "INDEX-SRC/KIND-CONSTS", "annotations.TestOnlyKind", "", "TestOnlyOnType/Func/Method = 0/1/2", "the TestOnlyKind constants are not the three distinct values 0,1,2 the index builders discriminate on")

	seenBuilders := map[string]int{}
	for fn := range P.AllFuncs {
		bn := baseName(fn)
		spec, ok := builderSpecs[bn]
		if !ok || len(fn.Blocks) == 0 || fn.Parent() != nil || !strings.Contains(FuncName(fn), "[") || fn.Origin() == nil || hasTypeParamArg(fn) {
			continue
		}
		if len(want) > 0 && !want[bn] {
			continue
		}
		seenBuilders[bn]++
		name := FuncName(fn)
		// the builder is analysed in its own calling context: helpers it shares with other builders are pinned to
		// the call made from here
		pins, family := P.ContextPins(fn)
		P.PinnedAll(pins, func() {
			// all functions of the builder: itself + closures
			fns := P.StaticClosure(fn)
			found := map[string]bool{}
			for _, f := range fns {
				if !family[f] {
					continue
				}
				allInstrs(f, func(b *ssa.BasicBlock, ins ssa.Instruction) {
					call, ok := ins.(*ssa.Call)
					if !ok {
						return
					}
					callee := call.Call.StaticCallee()
					if callee == nil {
						return
					}
					cn := FuncName(callee)
					for _, as := range spec.adds {
						if cn != as.method {
							continue
						}
						cons := name + "#" + strings.TrimPrefix(as.method, "(*util.AttachmentsMap).")
						where := P.Pos(call.Pos())
						found[as.method] = true
						a := call.Call.Args
						// receiver: the result object created in this builder
						okRecv := P.RootsAll(a[0], func(r ssa.Value) bool {
							switch x := r.(type) {
							case *ssa.Call:
								n := P.calleeName(x.Common())
								return n == "util.NewTypesMap" || n == "util.NewTypeAssociationRegistry"
							case *ssa.Alloc:
								return typeStr(deref(x.Type())) == "util.AttachmentsMap"
							}
							return false
						})
						if !okRecv {
							c.fail("INDEX-SRC/RESULT", cons, where, "Add is applied to an object that is not the freshly created result of the builder: "+short(P.Desc(a[0])))
							continue
						}
						// package key: Path() of the *yielding* package
						okPkg := P.RootsAll(a[1], func(r ssa.Value) bool {
							pc := P.CallTo(r, "(*go/types.Package).Path")
							return pc != nil && c.fromPkgIter(P.Desc(pc.Call.Args[0]), "", 0)
						})
						if !okPkg {
							c.fail("INDEX-SRC/PKG-KEY", cons, where, "entries are not stored under the path of the package that declared the annotation (pkg.Path() of the yielded package): "+short(P.Desc(a[1])))
							continue
						}
						// other args: fields of elem(range ann.<list>)
						okArgs := true
						why := ""
						if len(a)-2 != len(as.args) {
							okArgs, why = false, "unexpected number of arguments"
						}
						for i := 0; okArgs && i < len(as.args); i++ {
							d := c.liveDesc(a[i+2])
							f := as.args[i]
							annElem := "elem(field("
							var wantSuffix string
							if strings.HasPrefix(f, "[]") {
								wantSuffix = ".annotations.PackageAnnotations." + spec.list + "))." + elemTypeOf(spec.list) + "." + f[2:] + "))"
								if !(c.fromPkgIter(d, "elem(field("+annElem, 1) && strings.HasSuffix(d, wantSuffix)) {
									okArgs, why = false, fmt.Sprintf("argument %d is not every element of annot.%s: %s", i+1, f[2:], short(d))
								}
							} else {
								wantSuffix = ".annotations.PackageAnnotations." + spec.list + "))." + elemTypeOf(spec.list) + "." + f + ")"
								if !(c.fromPkgIter(d, "field("+annElem, 1) && strings.HasSuffix(d, wantSuffix)) {
									okArgs, why = false, fmt.Sprintf("argument %d is not annot.%s of an element of ann.%s: %s", i+1, f, spec.list, short(d))
								}
							}
						}
						if !okArgs {
							c.fail("INDEX-SRC/ARGS", cons, where, why)
							continue
						}
						// guards: loops + the Kind discriminant only (UNIFORM: local and imported annotations alike)
						kindOK := as.kind < 0
						var extra []string
						for _, l := range P.GuardsWithin(call, fn) {
							if l.Kind == "rangeloop" || l.Kind == "rangefunc" {
								continue
							}
							if l.Kind == "eq" {
								isKind := func(v ssa.Value) bool { return strings.HasSuffix(P.Desc(v), "."+elemTypeOf(spec.list)+".Kind)") }
								constOf := func(v ssa.Value) string {
									if rs := P.Resolve(v); len(rs) == 1 {
										if cs, ok := rs[0].(*ssa.Const); ok && cs.Value != nil {
											return cs.Value.ExactString()
										}
									}
									return ""
								}
								var kv string
								if isKind(l.X) {
									kv = constOf(l.Y)
								} else if isKind(l.Y) {
									kv = constOf(l.X)
								}
								if kv != "" {
									if l.Pos && kv == fmt.Sprint(as.kind) {
										kindOK = true
										continue
									}
									if !l.Pos && kv != fmt.Sprint(as.kind) {
										continue // other switch cases excluded
									}
								}
							}
							// pass.Pkg == nil: a hand-built pass without a package has nothing to index at all (the
							// guard iterOverPackages itself starts with, also when a caller asks first)
							if v := nilCheckedValue(l); v != nil && !l.Pos && strings.HasSuffix(P.Desc(v), "golang.org/x/tools/go/analysis.Pass.Pkg)") {
								continue
							}
							extra = append(extra, short(l.String()))
						}
						if !kindOK {
							c.fail("INDEX-SRC/KIND", cons, where, fmt.Sprintf("entries are not restricted to annot.Kind == %s", kindNames[max0(as.kind)]))
							continue
						}
						if len(extra) > 0 {
							c.fail("INDEX-SRC/UNIFORM", cons, where, "index entries depend on an extra condition (imported and local annotations must be processed by the same statements): "+strings.Join(extra, "; "))
							continue
						}
						c.ok("INDEX-SRC", cons, where, fmt.Sprintf("stores %v of every element of ann.%s under the yielding package's path", as.args, spec.list))
					}
				})
			}
			for _, as := range spec.adds {
				if !found[as.method] {
					c.fail("INDEX-SRC", name+"#"+as.method, P.Pos(fn.Pos()), "builder never calls "+as.method)
				}
			}
			// the builder returns the object it filled
			allInstrs(fn, func(b *ssa.BasicBlock, ins ssa.Instruction) {
				if r, ok := ins.(*ssa.Return); ok && len(r.Results) == 1 {
					okRet := P.RootsAll(r.Results[0], func(x ssa.Value) bool {
						switch y := x.(type) {
						case *ssa.Call:
							n := P.calleeName(y.Common())
							return n == "util.NewTypesMap" || n == "util.NewTypeAssociationRegistry"
						case *ssa.Alloc:
							return typeStr(deref(y.Type())) == "util.AttachmentsMap"
						}
						return false
					})
					c.check(okRet, "INDEX-SRC/RETURN", name, P.Pos(r.Pos()), "returns the filled index", "builder does not return the index it filled: "+short(P.Desc(r.Results[0])))
				}
			})
		})
	}
	var bl []string
	for b := range builderSpecs {
		if len(want) == 0 || want[b] {
			bl = append(bl, b)
		}
	}
	sort.Strings(bl)
	for _, b := range bl {
		c.floor("instantiations of "+b, seenBuilders[b], 1)
	}
}

func max0(i int) int {
	if i < 0 {
		return 0
	}
	return i
}

func elemTypeOf(list string) string {
	switch list {
	case "ImmutableAnnotations":
		return "annotations.ImmutableAnnotation"
	case "ConstructorAnnotations":
		return "annotations.ConstructorAnnotation"
	case "TestonlyAnnotations":
		return "annotations.TestOnlyAnnotation"
	case "MutableAnnotations":
		return "annotations.MutableAnnotation"
	case "PackageOnlyAnnotations":
		return "annotations.PackageOnlyAnnotation"
	case "ImplementsAnnotations":
		return "annotations.ImplementsAnnotation"
	}
	return "?"
}

// ruleIterPackages: iterOverPackages yields (pass.Pkg, local annotations) and then, for EVERY direct import,
// the imported fact if there is one; a missing fact skips that import only.
func (c *Ctx) ruleIterPackages() {
	P := c.P
	n := 0
	for fn := range P.AllFuncs {
		isIter := false
		for _, n := range c.pkgIterators() {
			if baseName(fn) == n {
				isIter = true
			}
		}
		if !isIter || !strings.Contains(FuncName(fn), "[") || fn.Parent() != nil || len(fn.Blocks) == 0 || fn.Origin() == nil || hasTypeParamArg(fn) {
			continue
		}
		n++
		name := FuncName(fn)
		var iter *ssa.Function
		for _, af := range fn.AnonFuncs {
			iter = af
		}
		if iter == nil {
			c.undecided("ITER-PACKAGES", name, P.Pos(fn.Pos()), "iterator function literal not found")
			continue
		}
		yield := iter.Params[0]
		var yields []*ssa.Call
		var importCall ssa.CallInstruction
		allInstrs(iter, func(b *ssa.BasicBlock, ins ssa.Instruction) {
			if call, ok := ins.(*ssa.Call); ok {
				if call.Call.Value == yield {
					yields = append(yields, call)
				}
				if c.passFieldCall(call) == "ImportPackageFact" {
					importCall = call
				}
			}
		})
		// the loop over the imports in a helper the iterator hands its yield function to
		// (`yieldImportedAnnotations[T](pass, yield)`): its yield and its ImportPackageFact call, under the conditions of
		// that call
		var helperSite *ssa.Call
		yield2, iter2 := ssa.Value(yield), iter
		if len(yields) == 1 && importCall == nil {
			allInstrs(iter, func(b *ssa.BasicBlock, ins ssa.Instruction) {
				call, ok := ins.(*ssa.Call)
				if !ok || helperSite != nil {
					return
				}
				callee := call.Call.StaticCallee()
				if callee == nil || !P.IsProductFunc(callee) || len(callee.Blocks) == 0 || callee.Pkg != fn.Pkg {
					return
				}
				for ai, a := range call.Call.Args {
					if a == ssa.Value(yield) && ai < len(callee.Params) {
						helperSite = call
						yield2, iter2 = callee.Params[ai], callee
					}
				}
			})
			if helperSite != nil {
				allInstrs(iter2, func(b *ssa.BasicBlock, ins ssa.Instruction) {
					if call, ok := ins.(*ssa.Call); ok {
						if call.Call.Value == yield2 {
							yields = append(yields, call)
						}
						if c.passFieldCall(call) == "ImportPackageFact" {
							importCall = call
						}
					}
				})
			}
		}
		if len(yields) != 2 || importCall == nil {
			c.fail("ITER-PACKAGES", name, P.Pos(iter.Pos()), fmt.Sprintf("expected one yield for the current package, one for imports and one ImportPackageFact call; found %d yields", len(yields)))
			continue
		}
		if helperSite == nil {
			sort.Slice(yields, func(i, j int) bool { return yields[i].Pos() < yields[j].Pos() })
		}
		// yield 1: (pass.Pkg, packageAnnotations parameter)
		y1 := yields[0]
		ok1 := c.P.isPassField(y1.Call.Args[0], "Pkg")
		ok1 = ok1 && P.RootsAll(y1.Call.Args[1], func(r ssa.Value) bool {
			p, isP := r.(*ssa.Parameter)
			return isP && p.Parent() == fn
		}) || ok1 && strings.Contains(P.Desc(y1.Call.Args[1]), "PackageAnnotations")
		var extra1 []string
		for _, l := range P.BlockGuards(y1.Block()) {
			if nilCheck(l) {
				continue
			}
			extra1 = append(extra1, short(l.String()))
		}
		c.check(ok1 && len(extra1) == 0, "ITER-PACKAGES/LOCAL", name, P.Pos(y1.Pos()), "yields (pass.Pkg, local annotations) unconditionally",
			"the current package's own annotations are not yielded unconditionally as (pass.Pkg, packageAnnotations): "+strings.Join(extra1, "; "))
		// yield 2: (imp, fact.GetAnnotations()) under ImportPackageFact(imp, fact) with imp = element of pass.Pkg.Imports()
		y2 := yields[1]
		impD := P.Desc(y2.Call.Args[0])
		okImp := strings.HasPrefix(impD, "elem(call((*go/types.Package).Imports; field(") && strings.Contains(impD, "analysis.Pass.Pkg")
		ia := importCall.Common().Args
		okSame := len(ia) == 2 && P.Desc(ia[0]) == impD
		factD := P.Desc(ia[1])
		// a fresh fact object per import: the value handed to ImportPackageFact is the result of a CreateEmpty() call
		// made inside the loop
		okFact := false
		for _, r := range P.ResolveOpaque(ia[1]) {
			rc, isCall := r.(*ssa.Call)
			okFact = isCall && strings.HasSuffix(P.calleeName(rc.Common()), "CreateEmpty") && loopOf(rc.Block()) != nil
			if !okFact {
				break
			}
		}
		okAnn := strings.Contains(P.Desc(y2.Call.Args[1]), "GetAnnotations") && strings.Contains(P.Desc(y2.Call.Args[1]), factD)
		guarded := false
		var extra2 []string
		g2 := P.BlockGuards(y2.Block())
		if helperSite != nil {
			g2 = append(append([]Lit{}, g2...), P.BlockGuards(helperSite.Block())...)
		}
		for _, l := range g2 {
			if nilCheck(l) || l.Kind == "rangeloop" {
				continue
			}
			if l.Pos && l.Val == importCall.(ssa.Value) {
				guarded = true
				continue
			}
			if call := litCall(l); call != nil && (call.Call.Value == ssa.Value(yield) || call.Call.Value == yield2) && l.Pos {
				continue // first yield returned true
			}
			extra2 = append(extra2, short(l.String()))
		}
		c.check(okImp && okSame && okFact && okAnn && guarded && len(extra2) == 0, "ITER-PACKAGES/IMPORTS", name, P.Pos(y2.Pos()),
			"for each element of pass.Pkg.Imports(): yields (imp, fact.GetAnnotations()) iff ImportPackageFact(imp, fact) with a fresh fact of the analyzer's own type",
			fmt.Sprintf("imported annotations are not yielded as (imp, fact.GetAnnotations()) for every direct import with a fact [imports=%v sameImp=%v freshFact=%v annotations=%v guardedByImport=%v extra=%v]", okImp, okSame, okFact, okAnn, guarded, extra2))
		// the loop over imports is left early only when yield returns false
		loop := loopOf(y2.Block())
		if loop == nil {
			c.fail("ITER-PACKAGES/ALL-IMPORTS", name, P.Pos(y2.Pos()), "imported facts are not read in a loop over pass.Pkg.Imports()")
		} else {
			okExit := true
			why := ""
			g := P.guardsOf(iter2)
			for b := range loop {
				for _, s := range b.Succs {
					if loop[s] {
						continue
					}
					// exit edge: allowed if it is the loop header's own exit (range exhausted) or guarded by !yield(...)
					if b.Comment == "rangeindex.loop" {
						continue
					}
					// `for i := 0; i < len(imports); i++`: leaving from the controlling test is exhaustion as well
					if ifi, isIf := lastInstr(b).(*ssa.If); isIf && b.Succs[1] == s {
						if bo, isB := ifi.Cond.(*ssa.BinOp); isB && bo.Op == token.LSS && fullIndexLoopBound(bo.X) != nil {
							continue
						}
					}
					just := false
					for _, l := range g.edgeLits[edge{b, s}] {
						if call := litCall(l); call != nil && call.Call.Value == yield2 && !l.Pos {
							just = true
						}
					}
					if !just {
						okExit = false
						why = "the loop over the imports is left at " + P.Pos(lastInstr(b).Pos()) + " for a reason other than the consumer stopping: imports after a package without a fact are never consulted"
					}
				}
			}
			c.check(okExit, "ITER-PACKAGES/ALL-IMPORTS", name, P.Pos(y2.Pos()), "every direct import is consulted; a missing fact skips only that import", why)
		}
	}
	c.floor("instantiations of the package iterator (iter.Seq2[*types.Package, *PackageAnnotations])", n, 1)
}

func hasTypeParamArg(fn *ssa.Function) bool {
	for _, t := range fn.TypeArgs() {
		if _, ok := types.Unalias(t).(*types.TypeParam); ok {
			return true
		}
	}
	return false
}

// liveDesc: the descriptor of v in the current calling context. A value selected by a flag that is a constant in
// this context (a sibling builder merged into one helper with a bool parameter: `x := a; if flag { x = b }`) is
// the alternative that is live here.
func (c *Ctx) liveDesc(v ssa.Value) string {
	P := c.P
	d := P.Desc(v)
	if _, isPhi := v.(*ssa.Phi); !isPhi {
		return d
	}
	constFalse := func(l Lit) bool {
		switch l.Kind {
		case "cond":
			if l.Val == nil {
				return false
			}
			rs := P.Resolve(l.Val)
			if len(rs) != 1 {
				return false
			}
			if cv, isC := constBool(rs[0]); isC {
				return cv != l.Pos
			}
		case "eq":
			rx, ry := P.Resolve(l.X), P.Resolve(l.Y)
			if len(rx) == 1 && len(ry) == 1 {
				cx, okx := rx[0].(*ssa.Const)
				cy, oky := ry[0].(*ssa.Const)
				if okx && oky && cx.Value != nil && cy.Value != nil {
					return (cx.Value.ExactString() == cy.Value.ExactString()) != l.Pos
				}
			}
		}
		return false
	}
	live := map[string]bool{}
	for _, vc := range P.ValueCases(v, 0) {
		dead := false
		for _, g := range vc.Guards {
			if constFalse(g) {
				dead = true
			}
		}
		if !dead {
			live[vc.Desc] = true
		}
	}
	if len(live) == 1 {
		for k := range live {
			return k
		}
	}
	return d
}
