package main

// C12 (layout independence), C13 (type identity, not spelling), C09 (containers answer "no" when empty).

import (
	"fmt"
	"go/token"
	"go/types"
	"sort"
	"strings"

	"golang.org/x/tools/go/ssa"
)

// rulePosCompare: ordered comparison of positions / use of line or column numbers happens only where a scope is
// computed (packages ignore, util.IgnoreSet) or a message is rendered (reporting) — never in a checker's decision.
func (c *Ctx) rulePosCompare() {
	P := c.P
	nCmp, nLine := 0, 0
	// allowed: the scope/rendering code itself, and helpers that are only ever called from it
	var allowedPkg func(fn *ssa.Function) bool
	busy := map[*ssa.Function]bool{}
	allowedPkg = func(fn *ssa.Function) bool {
		for fn.Parent() != nil {
			fn = fn.Parent()
		}
		pp := strings.TrimPrefix(funcPkgPath(fn), modulePath+"/src/")
		if pp == "ignore" || pp == "reporting" || strings.Contains(FuncName(fn), "util.IgnoreSet)") {
			return true
		}
		if busy[fn] {
			return true
		}
		busy[fn] = true
		defer delete(busy, fn)
		callers := P.Callers(fn)
		if len(callers) == 0 || fn.Object() == nil || fn.Object().Exported() {
			return false
		}
		for _, cs := range callers {
			if !allowedPkg(cs.Parent()) {
				return false
			}
		}
		return true
	}
	for _, fn := range P.ModFuncs {
		allInstrs(fn, func(b *ssa.BasicBlock, ins ssa.Instruction) {
			switch x := ins.(type) {
			case *ssa.BinOp:
				if typeStr(x.X.Type()) != "go/token.Pos" && typeStr(x.Y.Type()) != "go/token.Pos" {
					return
				}
				switch x.Op {
				case token.LSS, token.LEQ, token.GTR, token.GEQ, token.SUB, token.ADD:
					nCmp++
					c.check(allowedPkg(fn), "POS-COMPARE", fmt.Sprintf("%s#%s/%d", FuncName(fn), x.Op, nCmp), P.Pos(x.Pos()), "position order used for scope computation only",
						"a checker decision compares/combines source positions ("+x.Op.String()+"): moving declarations, blank lines or gofmt change the verdict")
				}
			case *ssa.FieldAddr, *ssa.Field:
				var tn, f string
				switch y := x.(type) {
				case *ssa.FieldAddr:
					tn = typeStr(deref(y.X.Type()))
					f = fieldName(deref(y.X.Type()), y.Field)
				case *ssa.Field:
					tn = typeStr(y.X.Type())
					f = fieldName(y.X.Type(), y.Field)
				}
				if tn == "go/token.Position" && (f == "Line" || f == "Column" || f == "Offset") {
					nLine++
					c.check(allowedPkg(fn), "POS-COMPARE/LINE", fmt.Sprintf("%s#%s/%d", FuncName(fn), f, nLine), P.Pos(ins.Pos()), "line/column used for inline scope or rendering only",
						"a checker decision depends on a line/column number")
				}
			}
		})
	}
	c.floor("position order comparisons", nCmp, 6)
	c.floor("line/column uses", nLine, 3)
}

// ruleReaderState: in the readers (annotations, ignore) a captured variable is only ever extended by append
// (accumulators): nothing is carried from one declaration / comment to the next.
func (c *Ctx) ruleReaderState() {
	P := c.P
	n := 0
	for _, fn := range P.ModFuncs {
		pp := strings.TrimPrefix(funcPkgPath(fn), modulePath+"/src/")
		if pp != "annotations" && pp != "ignore" {
			continue
		}
		// accumulator objects (a collector struct handed from helper to helper) are held to the same rule as
		// captured variables: a field of an object that outlives the call is only ever extended by append
		allInstrs(fn, func(b *ssa.BasicBlock, ins ssa.Instruction) {
			st, ok := ins.(*ssa.Store)
			if !ok {
				return
			}
			fa, ok := st.Addr.(*ssa.FieldAddr)
			if !ok || P.moduleStruct(deref(fa.X.Type())) == nil {
				return
			}
			if _, local := fa.X.(*ssa.Alloc); local {
				return // object under construction in this function
			}
			n++
			fname := deref(fa.X.Type()).Underlying().(*types.Struct).Field(fa.Field).Name()
			cons := fmt.Sprintf("%s#.%s", FuncName(fn), fname)
			isWalkCB := false
			for _, w := range c.walks() {
				if w.Callback == fn {
					isWalkCB = true
				}
			}
			if isAppendOfField(P, st.Val, fa) {
				c.ok("READER-STATE", cons, P.Pos(st.Pos()), "append-only accumulator field")
			} else if isWalkCB && pp == "ignore" {
				c.ok("READER-STATE", cons, P.Pos(st.Pos()), "search state of a scope computation local to one comment (SCOPE rules)")
			} else {
				c.fail("READER-STATE", cons, P.Pos(st.Pos()), "the reader assigns a field of a shared object: what is read for one declaration depends on the declarations before it")
			}
		})
		if fn.Parent() == nil {
			continue
		}
		// walk-callback closures of package ignore are covered by the scope rules (nextPos / flag cells)
		isWalkCB := false
		for _, w := range c.walks() {
			if w.Callback == fn {
				isWalkCB = true
			}
		}
		allInstrs(fn, func(b *ssa.BasicBlock, ins ssa.Instruction) {
			st, ok := ins.(*ssa.Store)
			if !ok {
				return
			}
			fv, ok := st.Addr.(*ssa.FreeVar)
			if !ok || strings.HasPrefix(fv.Name(), "jump$") {
				return
			}
			n++
			cell := P.cellOf(fv)
			cons := fmt.Sprintf("%s#%s", FuncName(fn), fv.Name())
			switch {
			case isAppendOfCell(P, st.Val, cell):
				c.ok("READER-STATE", cons, P.Pos(st.Pos()), "append-only accumulator")
			case isWalkCB && pp == "ignore":
				c.ok("READER-STATE", cons, P.Pos(st.Pos()), "search state of a scope computation local to one comment (SCOPE rules)")
			default:
				c.fail("READER-STATE", cons, P.Pos(st.Pos()), "the reader assigns a captured variable inside its loops: what is read for one declaration depends on the declarations before it")
			}
		})
	}
	c.floor("stores to captured variables in the readers", n, 6)
}

// isAppendOfField: v = append(<load of the same field of the same object>, ...).
func isAppendOfField(P *Program, v ssa.Value, fa *ssa.FieldAddr) bool {
	call, ok := v.(*ssa.Call)
	if !ok {
		return false
	}
	b, ok := call.Call.Value.(*ssa.Builtin)
	if !ok || b.Name() != "append" {
		return false
	}
	u, ok := call.Call.Args[0].(*ssa.UnOp)
	if !ok || u.Op != token.MUL {
		return false
	}
	fa2, ok := u.X.(*ssa.FieldAddr)
	return ok && fa2.Field == fa.Field && (fa2.X == fa.X || P.Desc(fa2.X) == P.Desc(fa.X))
}

// ruleAliasAll: every type assertion / type switch from types.Type to a concrete go/types node is made on an
// un-aliased value (go.mod's go 1.25 => gotypesalias=1: `type A = T` is a *types.Alias).
var aliasReviewed = map[string]string{
	"implements.extractTypesFromTuple":       "the type of a variadic parameter is the slice the type checker builds, never an alias node",
	"implements.extractMethodTypesFromTuple": "the type of a variadic parameter is the slice the type checker builds, never an alias node",
	"implements.convertTypesToInterfaceType": "string-model matcher: aliases in signatures are part of known finding KF-C05-1",
	"implements.convertTypesToMethodType":    "string-model matcher: aliases in signatures are part of known finding KF-C05-1",
	"implements.getUnderlyingTypeName":       "operand is Named.Underlying(), which is never an alias",
}

func (c *Ctx) ruleAliasAll(pkgs ...string) {
	P := c.P
	n := 0
	for _, fn := range P.ModFuncs {
		if len(pkgs) > 0 {
			in := false
			for _, p := range pkgs {
				if funcPkgPath(fn) == modulePath+"/src/"+p {
					in = true
				}
			}
			if !in {
				continue
			}
		}
		idx := 0
		allInstrs(fn, func(b *ssa.BasicBlock, ins ssa.Instruction) {
			ta, ok := ins.(*ssa.TypeAssert)
			if !ok || typeStr(ta.X.Type()) != "go/types.Type" {
				return
			}
			at := typeStr(ta.AssertedType)
			if !strings.HasPrefix(at, "*go/types.") || at == "*go/types.Alias" {
				return
			}
			n++
			idx++
			cons := fmt.Sprintf("%s#%s/%d", FuncName(fn), strings.TrimPrefix(at, "*go/types."), idx)
			where := P.Pos(ta.Pos())
			bad := ""
			for _, r := range P.Resolve(ta.X) {
				call, isCall := r.(*ssa.Call)
				name := ""
				if isCall {
					name = P.calleeName(call.Common())
				}
				switch {
				case name == "go/types.Unalias":
				case strings.HasSuffix(name, ".Underlying"):
				case name == "(*go/types.Func).Type" || isFuncObjectType(P, r):
				case strings.HasPrefix(name, "go/types.New"):
				default:
					bad = short(P.termDesc(r, false))
				}
			}
			if bad == "" {
				c.ok("ALIAS", cons, where, "operand is un-aliased (Unalias / Underlying / Func.Type)")
			} else if reason, ok := aliasReviewed[FuncName(fn)]; ok {
				c.ok("ALIAS", cons, where, "reviewed: "+reason)
			} else {
				c.fail("ALIAS", cons, where, "assertion to "+at+" on a value that may be a *types.Alias ("+bad+"): uses through `type A = T` silently fall through")
			}
		})
	}
	if len(pkgs) == 0 {
		c.floor("assertions from types.Type to concrete go/types nodes", n, 25)
	} else {
		c.floor("assertions from types.Type to concrete go/types nodes in "+strings.Join(pkgs, ","), n, 5)
	}
}

// ruleNoSyntacticType: the only place where a type is identified by its spelling is the receiver of a
// declaration (ExtractReceiverType on FuncDecl.Recv); use-site types always come from TypesInfo.
func (c *Ctx) ruleNoSyntacticType() {
	P := c.P
	n := 0
	for _, fn := range P.ModFuncs {
		allInstrs(fn, func(b *ssa.BasicBlock, ins ssa.Instruction) {
			call, ok := ins.(*ssa.Call)
			if !ok || call.Call.StaticCallee() == nil || FuncName(call.Call.StaticCallee()) != "annotations.ExtractReceiverType" {
				return
			}
			n++
			d := P.Desc(call.Call.Args[0])
			okD := strings.Contains(d, "go/ast.FuncDecl.Recv).go/ast.FieldList.List)).go/ast.Field.Type)")
			c.check(okD, "NO-SYNTACTIC-TYPE", FuncName(fn), P.Pos(call.Pos()), "spelling is read from a method declaration's receiver only", "a type is identified by the spelling of a type expression that is not a declaration's receiver: "+short(d))
		})
	}
	c.floor("ExtractReceiverType call sites", n, 1)
	// no checker turns a type expression into text (a cache or lookup keyed by types.ExprString(expr) identifies
	// types by their spelling: the same text denotes different types under different imports, different texts the
	// same type)
	nText := 0
	for _, fn := range P.ModFuncs {
		pk := funcPkgPath(fn)
		isChecker := false
		for _, p := range []string{"immutable", "constructor", "testonly", "packageonly", "implements", "indexing"} {
			if pk == modulePath+"/src/"+p {
				isChecker = true
			}
		}
		if !isChecker {
			continue
		}
		allInstrs(fn, func(b *ssa.BasicBlock, ins ssa.Instruction) {
			call, ok := ins.(*ssa.Call)
			if !ok {
				return
			}
			switch P.calleeName(call.Common()) {
			case "go/types.ExprString", "go/types.WriteExpr", "go/printer.Fprint", "(*go/printer.Config).Fprint", "go/format.Node":
				nText++
				c.fail("NO-SYNTACTIC-TYPE", FuncName(fn)+"#expr-text", P.Pos(call.Pos()), "a checker renders a syntax expression as text ("+P.calleeName(call.Common())+"): what it then looks up or remembers under that text is identified by spelling, not by the type the expression denotes")
			}
		})
	}
	if nText == 0 {
		c.ok("NO-SYNTACTIC-TYPE", "checkers#expr-text", "", "no checker renders a syntax expression as text")
	}
	// ... and only as a fallback: the receiver type under which a method annotation is indexed (and under which the
	// enclosing method is looked up) is the defined type the method belongs to, taken from the method's object -
	// `func (a *A) M()` with `type A = T` is a method of T, and T is what call sites look up
	nRecv := 0
	byObject := func(v ssa.Value) bool {
		return P.RootsAnyDeep(v, func(r ssa.Value) bool {
			call, ok := r.(*ssa.Call)
			if !ok || call.Call.StaticCallee() == nil || FuncName(call.Call.StaticCallee()) != "util.ExtractTypeName" {
				return false
			}
			_, callees := P.derives(call.Call.Args[0], func(ssa.Value) bool { return false }, 10)
			return hasCallee(callees, "(*go/types.Signature).Recv")
		})
	}
	for _, fn := range P.ModFuncs {
		allInstrs(fn, func(b *ssa.BasicBlock, ins ssa.Instruction) {
			call, ok := ins.(*ssa.Call)
			if !ok || call.Call.StaticCallee() == nil {
				return
			}
			var recv ssa.Value
			switch FuncName(call.Call.StaticCallee()) {
			case "annotations.parseTestOnlyAnnotation", "annotations.parsePackageOnlyAnnotation":
				if len(call.Call.Args) > 4 {
					recv = call.Call.Args[4]
				}
			case fnMatch:
				if strings.HasSuffix(FuncName(fn), "isInTestOnlyContext") && len(call.Call.Args) == 4 && strings.Contains(P.Desc(call.Call.Args[0]), "testOnlyMethods") {
					recv = call.Call.Args[3]
				}
			}
			if recv == nil {
				return
			}
			if _, isConst := recv.(*ssa.Const); isConst {
				return // annotation on a type declaration: no receiver
			}
			nRecv++
			c.check(byObject(recv), "RECEIVER-BY-TYPE", FuncName(fn)+"->"+FuncName(call.Call.StaticCallee()), P.Pos(call.Pos()), "receiver type name comes from the method object's receiver type (aliases resolved), the spelling only as fallback",
				"the receiver type of a method is taken from its spelling only: a method declared through an alias receiver (type A = T; func (a *A) M()) is indexed under A and never matched by calls, which are looked up under T: "+short(P.DescDeep(recv)))
		})
	}
	c.floor("uses of a method's receiver type name", nRecv, 3)
	// no checker reads identifier spelling of a *type expression* (Ident.Name of ValueSpec.Type, CompositeLit.Type ...)
	bad := 0
	for _, fn := range P.ModFuncs {
		pp := strings.TrimPrefix(funcPkgPath(fn), modulePath+"/src/")
		if pp != "immutable" && pp != "constructor" && pp != "testonly" && pp != "packageonly" {
			continue
		}
		allInstrs(fn, func(b *ssa.BasicBlock, ins ssa.Instruction) {
			fa, ok := ins.(*ssa.FieldAddr)
			if !ok || typeStr(deref(fa.X.Type())) != "go/ast.Ident" || fieldName(deref(fa.X.Type()), fa.Field) != "Name" {
				return
			}
			d := P.Desc(fa.X)
			for _, tf := range []string{"go/ast.ValueSpec.Type", "go/ast.CompositeLit.Type", "go/ast.Field.Type", "go/ast.StarExpr.X); *go/ast.Ident", "go/ast.ArrayType.Elt"} {
				if strings.Contains(d, tf) && !strings.Contains(d, "go/ast.FuncDecl.Recv") {
					if tf == "go/ast.StarExpr.X); *go/ast.Ident" && strings.Contains(d, "AssignStmt.Lhs") || strings.Contains(d, "IncDecStmt.X") {
						continue // `*r = v`: the operand of a dereference in a statement, not a type expression
					}
					bad++
					c.fail("NO-SYNTACTIC-TYPE", FuncName(fn)+"#ident-name", P.Pos(fa.Pos()), "a checker reads the spelling of a type expression ("+tf+") instead of resolving it through TypesInfo")
				}
			}
		})
	}
	// ... nor decides on the syntactic class of a use-site type expression: `var x (p.T)`, `var x p.T` and
	// `var x A` (A an alias) denote the same type, a type switch on the expression tells them apart
	nTA := 0
	for _, fn := range P.ModFuncs {
		pp := strings.TrimPrefix(funcPkgPath(fn), modulePath+"/src/")
		if pp != "immutable" && pp != "constructor" && pp != "testonly" && pp != "packageonly" {
			continue
		}
		allInstrs(fn, func(b *ssa.BasicBlock, ins ssa.Instruction) {
			ta, ok := ins.(*ssa.TypeAssert)
			if !ok || typeStr(ta.X.Type()) != "go/ast.Expr" {
				return
			}
			nTA++
			switch typeStr(ta.AssertedType) {
			case "*go/ast.FuncType", "*go/ast.ArrayType", "*go/ast.MapType", "*go/ast.ChanType", "*go/ast.StructType", "*go/ast.InterfaceType", "*go/ast.Ellipsis":
				return // these never denote a defined type (nor an alias or a pointer to one): telling them apart loses nothing
			}
			which := ""
			if P.RootsAnyDeep(ta.X, func(r ssa.Value) bool {
				for _, tf := range [][2]string{{"go/ast.ValueSpec", "Type"}, {"go/ast.CompositeLit", "Type"}, {"go/ast.Field", "Type"}, {"go/ast.ArrayType", "Elt"}, {"go/ast.MapType", "Key"}, {"go/ast.MapType", "Value"}} {
					if base := fieldLoad(r, tf[0], tf[1]); base != nil {
						if tf[0] == "go/ast.Field" && strings.Contains(P.DescDeep(base), "go/ast.FuncDecl.Recv") {
							continue
						}
						which = tf[0] + "." + tf[1]
						return true
					}
				}
				return false
			}) {
				bad++
				c.fail("NO-SYNTACTIC-TYPE", FuncName(fn)+"#type-switch", P.Pos(ta.Pos()), "a checker branches on the syntactic class ("+typeStr(ta.AssertedType)+") of a use-site type expression ("+which+"): parenthesised, aliased and qualified spellings of one type are treated differently")
			}
		})
	}
	c.floor("assertions on ast.Expr operands in the checkers", nTA, 4)
	if bad == 0 {
		c.ok("NO-SYNTACTIC-TYPE", "checkers", "", "no checker reads the spelling of a use-site type expression")
	}
}

func fieldName(t types.Type, i int) string {
	st, ok := t.Underlying().(*types.Struct)
	if !ok || i >= st.NumFields() {
		return ""
	}
	return st.Field(i).Name()
}

// ruleContainersEmptyFalse: the index containers answer "no" on the empty state: a `true` answer always comes
// from something found in the container.
func (c *Ctx) ruleContainersEmptyFalse() {
	P := c.P
	names := []string{"TypesMap.Contains", "TypeAssociationRegistry.Match", "TypeAssociationRegistry.HasType",
		"AttachmentsMap.HasAnyTypeAttachments", "AttachmentsMap.HasAnyFunctionAttachments", "AttachmentsMap.HasAnyMethodAttachments",
		"AttachmentsMap.HasPkgTypeAttachment", "AttachmentsMap.HasPkgFunctionAttachment", "AttachmentsMap.HasPkgTypeMethodAttachment"}
	for _, nm := range names {
		fn := P.LookupFunc("util", nm)
		if fn == nil {
			c.fail("CONTAINER-EMPTY", "util."+nm, "", "query method not found")
			continue
		}
		okAll := true
		why := ""
		for _, o := range c.outcomes(fn) {
			cv, isC := constBool(o.Val)
			if isC && !cv {
				continue
			}
			// a possibly-true outcome must rest on a successful lookup / element found
			found := false
			var check func(ls []Lit)
			check = func(ls []Lit) {
				for _, l := range ls {
					if lookupOK(l) != nil && l.Pos {
						found = true
					}
					// 0 < len(m[k]) and the like: a comparison on what a lookup in the container returned
					if l.Kind == "lt" && l.Pos && strings.Contains(l.Key, "lookup(") && lenOf(l.Y) != nil {
						found = true
					}
					if nv := nilCheckedValue(l); nv != nil && !l.Pos {
						found = found || strings.Contains(P.Desc(nv), "lookup") || strings.Contains(P.Desc(nv), "Get")
					}
					if l.Kind == "eq" && l.Pos && (strings.HasPrefix(P.Desc(l.X), "elem(lookup") || strings.HasPrefix(P.Desc(l.Y), "elem(lookup") || strings.HasPrefix(P.Desc(l.X), "elem(extract0(lookup") || strings.Contains(P.Desc(l.X)+P.Desc(l.Y), "elem(lookup")) {
						found = true
					}
					if call := litCall(l); call != nil && l.Pos && strings.HasPrefix(P.calleeName(call.Common()), "slices.Contains[") {
						found = true
					}
				}
			}
			check(o.Guards)
			if !isC {
				d := P.Desc(o.Val)
				if strings.HasPrefix(d, "lookup(") || strings.Contains(d, "lookup") || strings.Contains(d, "slices.Contains[") {
					found = true
				}
				f := P.condFormula(o.Val, 0)
				check(literals(f, true))
			}
			if !found {
				okAll, why = false, "a `true` answer at "+P.Pos(o.At.Pos())+" does not depend on an entry found in the container"
			}
		}
		c.check(okAll, "CONTAINER-EMPTY", "util."+nm, P.Pos(fn.Pos()), "true only for an entry found in the container", why)
	}
}

// ruleKindStorage (CONTAINER-KIND): the attachment container keeps what was attached to a type, to a function, to
// a field and to a method apart. A query for one kind has to read storage that only the Add method of that kind
// writes; a query that reads nothing but storage shared with another kind (the per-type entry that is also
// created when something is attached to a method or a field of the type) answers for items that were never
// annotated.
func (c *Ctx) ruleKindStorage() {
	P := c.P
	type fkey struct {
		t string
		f int
	}
	written := func(fn *ssa.Function) map[fkey]bool {
		out := map[fkey]bool{}
		for _, f := range P.StaticClosure(fn) {
			allInstrs(f, func(_ *ssa.BasicBlock, ins ssa.Instruction) {
				switch x := ins.(type) {
				case *ssa.Store:
					if fa, ok := x.Addr.(*ssa.FieldAddr); ok {
						out[fkey{typeStr(deref(fa.X.Type())), fa.Field}] = true
					}
				case *ssa.MapUpdate:
					if ld, ok := x.Map.(*ssa.UnOp); ok {
						if fa, ok := ld.X.(*ssa.FieldAddr); ok {
							out[fkey{typeStr(deref(fa.X.Type())), fa.Field}] = true
						}
					}
				case *ssa.Call:
					// the address of the field handed to a product helper that writes through it
					// (appendUnder(&x.lists, key, value))
					callee := x.Call.StaticCallee()
					if callee == nil || !P.IsProductFunc(callee) || len(callee.Blocks) == 0 {
						return
					}
					for i, a := range x.Call.Args {
						fa, ok := a.(*ssa.FieldAddr)
						if !ok || i >= len(callee.Params) {
							continue
						}
						prm := callee.Params[i]
						writes := false
						allInstrs(callee, func(_ *ssa.BasicBlock, ci ssa.Instruction) {
							switch y := ci.(type) {
							case *ssa.Store:
								if y.Addr == ssa.Value(prm) {
									writes = true
								}
							case *ssa.MapUpdate:
								if ld, ok := y.Map.(*ssa.UnOp); ok && ld.X == ssa.Value(prm) {
									writes = true
								}
							}
						})
						if writes {
							out[fkey{typeStr(deref(fa.X.Type())), fa.Field}] = true
						}
					}
				}
			})
		}
		return out
	}
	read := func(fn *ssa.Function) map[fkey]bool {
		out := map[fkey]bool{}
		for _, f := range P.StaticClosure(fn) {
			allInstrs(f, func(_ *ssa.BasicBlock, ins ssa.Instruction) {
				switch x := ins.(type) {
				case *ssa.UnOp:
					if fa, ok := x.X.(*ssa.FieldAddr); ok && x.Op == token.MUL {
						out[fkey{typeStr(deref(fa.X.Type())), fa.Field}] = true
					}
				case *ssa.Field:
					out[fkey{typeStr(x.X.Type()), x.Field}] = true
				}
			})
		}
		return out
	}
	adders := map[string]string{"type": "AttachmentsMap.AddPkgTypeAttachment", "function": "AttachmentsMap.AddPkgFunctionAttachment",
		"method": "AttachmentsMap.AddPkgTypeMethodAttachment", "field": "AttachmentsMap.AddPkgTypeFieldAttachment", "package": "AttachmentsMap.AddPkgAttachment"}
	writers := map[fkey]map[string]bool{}
	for kind, nm := range adders {
		fn := P.LookupFunc("util", nm)
		if fn == nil {
			if kind == "type" || kind == "function" || kind == "method" {
				c.fail("CONTAINER-KIND", "util."+nm, "", "Add method not found")
			}
			continue
		}
		for k := range written(fn) {
			if writers[k] == nil {
				writers[k] = map[string]bool{}
			}
			writers[k][kind] = true
		}
	}
	queries := []struct{ name, kind string }{
		{"AttachmentsMap.HasAnyTypeAttachments", "type"}, {"AttachmentsMap.HasPkgTypeAttachment", "type"},
		{"AttachmentsMap.HasAnyFunctionAttachments", "function"}, {"AttachmentsMap.HasPkgFunctionAttachment", "function"},
		{"AttachmentsMap.HasAnyMethodAttachments", "method"}, {"AttachmentsMap.HasPkgTypeMethodAttachment", "method"},
	}
	n := 0
	for _, q := range queries {
		fn := P.LookupFunc("util", q.name)
		if fn == nil {
			c.fail("CONTAINER-KIND", "util."+q.name, "", "query method not found")
			continue
		}
		own := ""
		var shared []string
		for k := range read(fn) {
			w := writers[k]
			if len(w) == 1 && w[q.kind] {
				own = k.t + "." + fieldNameOfType(P, k.t, k.f)
			} else if len(w) > 1 && w[q.kind] {
				shared = append(shared, k.t+"."+fieldNameOfType(P, k.t, k.f))
			}
		}
		sort.Strings(shared)
		n++
		c.check(own != "", "CONTAINER-KIND", "util."+q.name, P.Pos(fn.Pos()), "answers from storage that only the Add method of its kind writes ("+own+")",
			fmt.Sprintf("the query for what is attached to a %s reads no storage that only %s writes (it reads %v, which Add methods of other kinds fill too): it answers true for a %s nothing was attached to", q.kind, adders[q.kind], shared, q.kind))
	}
	c.floor("attachment queries compared with their Add method", n, 6)
}

func fieldNameOfType(P *Program, t string, i int) string {
	for _, p := range P.SSA.AllPackages() {
		if p.Pkg == nil {
			continue
		}
		for _, nm := range p.Pkg.Scope().Names() {
			if tn, ok := p.Pkg.Scope().Lookup(nm).(*types.TypeName); ok && typeStr(tn.Type()) == t {
				return fieldName(tn.Type(), i)
			}
		}
	}
	return fmt.Sprintf("#%d", i)
}
