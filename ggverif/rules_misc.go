package main

// Further structural rules: PRUNE-PRED (the @testonly-context predicate), GATE-BEFORE-DEDUP,
// COPY-WRITEBACK (map-of-struct containers), TYPEINFO helpers.

import (
	"fmt"
	"go/token"
	"go/types"
	"strings"

	"golang.org/x/tools/go/ssa"
)

// rulePrunePred: the predicate that decides "this FuncDecl is itself @testonly" returns true exactly for
// (method  ∧ testOnlyMethods.Match(pass.Pkg.Path(), decl.Name.Name, receiver type)) or
// (!method ∧ testOnlyFuncs.Match(pass.Pkg.Path(), decl.Name.Name, decl.Name.Name)).
func (c *Ctx) rulePrunePred() {
	P := c.P
	var preds []*ssa.Function
	for _, w := range c.walksOfPkg("testonly") {
		if w.Callback == nil {
			continue
		}
		allInstrs(w.Callback, func(b *ssa.BasicBlock, ins ssa.Instruction) {
			r, ok := ins.(*ssa.Return)
			if !ok || len(r.Results) != 1 {
				return
			}
			if cv, isC := c.walkContinues(w, r.Results[0]); isC && cv {
				return
			}
			gl := P.BlockGuards(b)
			if _, isC := c.walkContinues(w, r.Results[0]); !isC && !w.Visitor {
				gl = append(append([]Lit{}, gl...), literals(P.condFormula(r.Results[0], 0), false)...)
			}
			for _, l := range gl {
				if call := litCall(l); call != nil && l.Pos {
					if h := call.Call.StaticCallee(); h != nil && P.IsProductFunc(h) && len(h.Blocks) > 0 {
						preds = append(preds, h)
					}
				}
			}
		})
	}
	c.floor("@testonly-context predicates guarding a prune", len(preds), 1)
	for _, h := range preds {
		name := FuncName(h)
		sum := P.BoolSummary(h)
		if !sum.ok {
			c.undecided("PRUNE-PRED", name, P.Pos(h.Pos()), "cannot summarise predicate")
			continue
		}
		isRecvNil := func(l Lit) bool {
			v := nilCheckedValue(l)
			return v != nil && fieldLoad(firstRoot(P, v), "go/ast.FuncDecl", "Recv") != nil
		}
		notMethodEdge := func(l Lit) bool {
			if isRecvNil(l) && l.Pos {
				return true
			}
			// len(Recv.List) > 0 is false
			if l.Kind == "lt" && !l.Pos && lenOf(l.Y) != nil {
				return true
			}
			if l.Kind == "eq" && l.Pos && (lenOf(l.X) != nil || lenOf(l.Y) != nil) {
				return true
			}
			return false
		}
		sawM, sawF := false, false
		for i, r := range sum.returns {
			cons := fmt.Sprintf("%s#return%d", name, i)
			where := P.Pos(r.ret.Pos())
			if !r.mayTrue {
				// constant false: only for a nil declaration
				if P.BlockCutBy(r.ret.Block(), func(l Lit) bool { return nilCheck(l) && l.Pos }) {
					c.ok("PRUNE-PRED", cons, where, "returns false only for a nil argument")
				} else {
					c.fail("PRUNE-PRED", cons, where, "predicate returns constant false on a path that is not a nil check: bodies of @testonly functions would be checked")
				}
				continue
			}
			if cv, isC := constBool(r.val); isC && cv {
				c.fail("PRUNE-PRED", cons, where, "predicate returns constant true: the function is treated as @testonly without (or in addition to) the matching index lookup for its own kind")
				continue
			}
			roots := P.Resolve(r.val)
			if len(roots) != 1 {
				c.fail("PRUNE-PRED", cons, where, "predicate result mixes several sources: "+short(P.Desc(r.val)))
				continue
			}
			call := P.CallTo(roots[0], fnMatch)
			if call == nil {
				c.fail("PRUNE-PRED", cons, where, "predicate result is not a Match on a @testonly index: "+short(P.Desc(r.val)))
				continue
			}
			a := call.Call.Args
			declName := func(v ssa.Value) bool {
				return P.RootsAll(v, func(x ssa.Value) bool {
					id := fieldLoad(x, "go/ast.Ident", "Name")
					if id == nil {
						return false
					}
					return P.RootsAll(id, func(y ssa.Value) bool {
						fd := fieldLoad(y, "go/ast.FuncDecl", "Name")
						if fd == nil {
							return false
						}
						_, isParam := fd.(*ssa.Parameter)
						return isParam
					})
				})
			}
			if !P.isPassPkgCall(a[1], "Path") {
				c.fail("PRUNE-PRED", cons, where, "index is queried with a package that is not pass.Pkg.Path(): "+short(P.DescDeep(a[1])))
				continue
			}
			if !declName(a[2]) {
				c.fail("PRUNE-PRED", cons, where, "index is queried with a name that is not the declaration's own name: "+short(P.DescDeep(a[2])))
				continue
			}
			switch {
			case P.originatesOnlyFrom(a[0], "indexing.BuildTestOnlyMethodsIndex"):
				isMethod := false
				for _, l := range r.guards {
					if isRecvNil(l) && !l.Pos {
						isMethod = true
					}
				}
				sawERT := false
				okT := P.RootsAll(a[3], func(x ssa.Value) bool {
					if P.CallTo(x, "annotations.ExtractReceiverType") != nil {
						sawERT = true
						return true
					}
					// the defined type the method object belongs to (receiver aliases resolved)
					if call := P.CallTo(x, "util.ExtractTypeName"); call != nil {
						if _, callees := P.derives(call.Call.Args[0], func(ssa.Value) bool { return false }, 10); hasCallee(callees, "(*go/types.Signature).Recv") {
							sawERT = true
							return true
						}
					}
					cs, isC := x.(*ssa.Const)
					return isC && cs.Value != nil && cs.Value.ExactString() == `""`
				}) && sawERT
				if c.check(isMethod && okT, "PRUNE-PRED", cons, where, "method: testOnlyMethods.Match(pkg, name, receiver type) under Recv != nil",
					"methods index is consulted for a declaration that is not known to be a method, or not with its receiver type") {
					sawM = true
				}
			case P.originatesOnlyFrom(a[0], "indexing.BuildTestOnlyFuncsIndex"):
				notMethod := P.BlockCutBy(r.ret.Block(), notMethodEdge)
				okN := declName(a[3])
				if c.check(notMethod && okN, "PRUNE-PRED", cons, where, "function: testOnlyFuncs.Match(pkg, name, name) only when the declaration has no receiver",
					"functions index is consulted on a path where the declaration may be a method: an un-annotated method sharing its name with a @testonly function is treated as @testonly and its body is skipped") {
					sawF = true
				}
			default:
				c.fail("PRUNE-PRED", cons, where, "Match on an index that is neither the @testonly methods nor the functions index")
			}
		}
		c.check(sawM && sawF, "PRUNE-PRED", name+"#both-kinds", P.Pos(h.Pos()), "methods and functions are both covered", "predicate does not cover both @testonly methods and @testonly functions")
	}
}

// ruleGateBeforeDedup: a use is recorded as "already reported" only after the ignore gate let it pass
// (otherwise a suppressed first use hides every later use: C07 "moves to the next unsuppressed use").
// isSelectorIdentSet: m is a map[*ast.Ident]bool field of a module struct (or a local map) every update of which is
// `m[sel.Sel] = true` for sel the *ast.SelectorExpr being visited by a walk callback, made unconditionally in the
// selector case: "this identifier is the Sel of a selector and is handled with it".
func (c *Ctx) isSelectorIdentSet(m ssa.Value) bool {
	is, uncond := c.selectorIdentSet(m)
	return is && uncond
}

// selectorIdentSet: is: every update of m is `m[sel.Sel] = true` for the selector being visited; uncond: none of
// them depends on anything but the kind of the visited node (in particular not on what the selector path found:
// an identifier that was handled with its selector - reported, suppressed or fine - is not looked at again).
func (c *Ctx) selectorIdentSet(m ssa.Value) (is, uncond bool) {
	P := c.P
	mt, ok := m.Type().Underlying().(*types.Map)
	if !ok || typeStr(mt.Key()) != "*go/ast.Ident" {
		return false, false
	}
	md := P.DescDeep(m)
	n, okAll := 0, true
	uncond = true
	for _, fn := range P.ModFuncs {
		allInstrs(fn, func(b *ssa.BasicBlock, ins ssa.Instruction) {
			mu, isMU := ins.(*ssa.MapUpdate)
			if !isMU || !types.Identical(mu.Map.Type(), m.Type()) || P.DescDeep(mu.Map) != md {
				return
			}
			n++
			if cv, isC := constBool(mu.Value); !isC || !cv {
				okAll = false
				return
			}
			okKey := P.RootsAllDeep(mu.Key, func(r ssa.Value) bool {
				sel := fieldLoad(r, "go/ast.SelectorExpr", "Sel")
				if sel == nil {
					return false
				}
				// sel = <node being visited>.(*ast.SelectorExpr)
				return P.RootsAllDeep(sel, func(q ssa.Value) bool {
					var ta *ssa.TypeAssert
					switch x := q.(type) {
					case *ssa.Extract:
						ta, _ = x.Tuple.(*ssa.TypeAssert)
					case *ssa.TypeAssert:
						ta = x
					}
					return ta != nil && c.roleOf(firstRoot(P, ta.X), 0) == "node"
				})
			})
			if !okKey {
				okAll = false
				return
			}
			for _, l := range P.BlockGuards(b) {
				if l.Kind == "rangeloop" || l.Kind == "rangefunc" {
					continue
				}
				// nil tests of syntax (node.Sel != nil), not of what a finder returned
				if v := nilCheckedValue(l); v != nil && strings.Contains(typeStr(v.Type()), "go/ast.") {
					continue
				}
				if x, t, _ := typeAssertOK(l); x != nil && strings.HasPrefix(typeStr(t), "*go/ast.") {
					continue
				}
				uncond = false
			}
		})
	}
	return n > 0 && okAll, uncond
}

func (c *Ctx) ruleGateBeforeDedup(pkgs ...string) {
	P := c.P
	n := 0
	for _, pkg := range pkgs {
		for _, w := range c.walksOfPkg(pkg) {
			for _, fn := range w.Closure {
				allInstrs(fn, func(b *ssa.BasicBlock, ins ssa.Instruction) {
					mu, ok := ins.(*ssa.MapUpdate)
					if !ok {
						return
					}
					if is, uncond := c.selectorIdentSet(mu.Map); is {
						// not a once-per-file map: the set of identifiers that are the Sel of a visited selector
						c.check(uncond, "QUALIFIED-SET", FuncName(fn), P.Pos(mu.Pos()), "marks the Sel identifier of the selector expression being visited (handled by the selector case), whatever that case finds",
							"the Sel identifier of a visited selector is marked as handled only under a condition on what the selector path found: a reference whose report was suppressed (or that is allowed) is examined again as a bare identifier, at another position")
						return
					}
					n++
					gated := false
					for _, l := range P.Guards(mu) {
						if call := P.litCallTo(l, fnIgnoreContain); call != nil && !l.Pos && c.isPassIgnoreSet(call.Call.Args[0]) {
							gated = true
						}
					}
					c.check(gated, "GATE-BEFORE-DEDUP", FuncName(fn), P.Pos(mu.Pos()), "dedup map is updated only under !ignoreSet.Contains(code, pos)",
						"the once-per-file map is updated before/without the ignore gate: a suppressed first use prevents the report of later unsuppressed uses")
				})
			}
		}
	}
	c.floor("dedup map updates in "+strings.Join(pkgs, ","), n, len(pkgs))
}

// ruleCopyWriteback: a struct value copied out of a map (found := m[k]) and then mutated through a
// pointer-receiver method must be stored back (m[k] = found) on every path to the function exit.
func (c *Ctx) ruleCopyWriteback(pkgs ...string) {
	P := c.P
	n := 0
	for _, fn := range P.ModFuncs {
		inPkg := false
		for _, p := range pkgs {
			if funcPkgPath(fn) == modulePath+"/src/"+p {
				inPkg = true
			}
		}
		if !inPkg {
			continue
		}
		// local struct cells filled from a map lookup
		allInstrs(fn, func(b *ssa.BasicBlock, ins ssa.Instruction) {
			a, ok := ins.(*ssa.Alloc)
			if !ok || P.moduleStruct(deref(a.Type())) == nil {
				return
			}
			vals, _, _ := P.CellStores(a)
			var lk *ssa.Lookup
			var lkMap, lkKey string // the looked-up map and key, as seen from this function
			for _, v := range vals {
				switch x := v.(type) {
				case *ssa.Lookup:
					lk = x
				case *ssa.Extract:
					if l, ok := x.Tuple.(*ssa.Lookup); ok && x.Index == 0 {
						lk = l
					}
				case *ssa.Call:
					// an accessor helper that returns the stored copy: `entry := m.entryFor(key)`
					callee := x.Call.StaticCallee()
					if callee == nil || !P.IsProductFunc(callee) || len(callee.Blocks) == 0 || P.isAnchor(callee) {
						continue
					}
					var rets []*ssa.Return
					allInstrs(callee, func(_ *ssa.BasicBlock, i2 ssa.Instruction) {
						if r, ok := i2.(*ssa.Return); ok {
							rets = append(rets, r)
						}
					})
					if len(rets) != 1 || len(rets[0].Results) != 1 {
						continue
					}
					if l, ok := rets[0].Results[0].(*ssa.Lookup); ok {
						lk = l
						P.PinnedAll(pinMap{callee: x}, func() { lkMap, lkKey = P.Desc(l.X), P.Desc(l.Index) })
					} else {
						// get-or-create: `found, ok := m[k]; if !ok { found = T{}; m[k] = found }; return found` - what is
						// returned is the stored copy or a fresh value that was stored under the key just now
						P.PinnedAll(pinMap{callee: x}, func() {
							for _, r := range P.Resolve(rets[0].Results[0]) {
								var l *ssa.Lookup
								switch y := r.(type) {
								case *ssa.Lookup:
									l = y
								case *ssa.Extract:
									if ll, ok := y.Tuple.(*ssa.Lookup); ok && y.Index == 0 {
										l = ll
									}
								}
								if l != nil {
									lk = l
									lkMap, lkKey = P.Desc(l.X), P.Desc(l.Index)
								}
							}
						})
					}
				}
			}
			if lk == nil {
				return
			}
			if lkMap == "" {
				lkMap, lkKey = P.Desc(lk.X), P.Desc(lk.Index)
			}
			// mutating calls on &a
			refs := a.Referrers()
			if refs == nil {
				return
			}
			for _, r := range *refs {
				call, ok := r.(*ssa.Call)
				if !ok {
					continue
				}
				argIdx := -1
				for i, arg := range call.Call.Args {
					if arg == a {
						argIdx = i
					}
				}
				if argIdx < 0 {
					continue
				}
				callee := P.Callee(&call.Call)
				calleeName := "a function value"
				if callee != nil {
					if w, _ := c.writesThroughParam(callee, argIdx, map[string]bool{}); !w {
						continue
					}
					calleeName = FuncName(callee)
				}
				// (a call through an unknown function value that receives &copy is assumed to modify it)
				n++
				cons := FuncName(fn) + "#" + calleeName
				if writebackOnAllPaths(P, call, a, lkMap, lkKey) {
					c.ok("COPY-WRITEBACK", cons, P.Pos(call.Pos()), "mutated copy is stored back into "+short(P.Desc(lk.X))+" on every path")
				} else {
					c.fail("COPY-WRITEBACK", cons, P.Pos(call.Pos()), "struct copied out of a map is mutated by "+calleeName+" but not stored back on every path: the mutation is lost when the callee allocates a new inner map/slice")
				}
			}
		})
	}
	c.floor("map-value copies mutated through a pointer method", n, 1)
}

func writesThroughReceiver(P *Program, fn *ssa.Function, seen map[*ssa.Function]bool) bool {
	if fn == nil || seen[fn] || len(fn.Blocks) == 0 || len(fn.Params) == 0 {
		return false
	}
	seen[fn] = true
	recv := fn.Params[0]
	found := false
	allInstrs(fn, func(b *ssa.BasicBlock, ins ssa.Instruction) {
		switch x := ins.(type) {
		case *ssa.Store:
			if fa, ok := x.Addr.(*ssa.FieldAddr); ok && fa.X == recv {
				found = true
			}
		case *ssa.MapUpdate:
			if u, ok := x.Map.(*ssa.UnOp); ok && u.Op == token.MUL {
				if fa, ok := u.X.(*ssa.FieldAddr); ok && fa.X == recv {
					found = true
				}
			}
		case *ssa.Call:
			if callee := x.Call.StaticCallee(); callee != nil && len(x.Call.Args) > 0 && x.Call.Args[0] == recv {
				if writesThroughReceiver(P, callee, seen) {
					found = true
				}
			}
		}
	})
	return found
}

// writebackOnAllPaths: from the instruction after call, every path to a Return executes
// MapUpdate(map == lk.X, key == lk.Index, value == load(cell)).
func writebackOnAllPaths(P *Program, call *ssa.Call, cell *ssa.Alloc, lkMap, lkKey string) bool {
	isWB := func(ins ssa.Instruction) bool {
		mu, ok := ins.(*ssa.MapUpdate)
		if !ok {
			return false
		}
		if P.Desc(mu.Map) != lkMap || P.Desc(mu.Key) != lkKey {
			return false
		}
		u, ok := mu.Value.(*ssa.UnOp)
		return ok && u.Op == token.MUL && u.X == cell
	}
	b := call.Block()
	idx := 0
	for i, ins := range b.Instrs {
		if ins == call {
			idx = i + 1
		}
	}
	seen := map[*ssa.BasicBlock]bool{}
	var walk func(b *ssa.BasicBlock, from int) bool
	walk = func(b *ssa.BasicBlock, from int) bool {
		for _, ins := range b.Instrs[from:] {
			if isWB(ins) {
				return true
			}
			if _, ok := ins.(*ssa.Return); ok {
				return false
			}
		}
		for _, s := range b.Succs {
			if seen[s] {
				continue
			}
			seen[s] = true
			if !walk(s, 0) {
				return false
			}
		}
		return true
	}
	return walk(b, idx)
}

// reachesTypeInfoHelpers: product code of package pkg calls util.ExtractTypeInfo / ExtractTypeName.
func (c *Ctx) reachesTypeInfoHelpers(pkg string) bool {
	P := c.P
	for _, name := range []string{"ExtractTypeInfo", "ExtractTypeName"} {
		top := P.LookupFunc("util", name)
		if top == nil {
			continue
		}
		for _, cs := range P.Callers(top) {
			if f := cs.Parent(); f != nil && f.Pkg != nil && f.Pkg.Pkg.Name() == pkg {
				return true
			}
		}
	}
	return false
}

// ruleTypeInfoHelpers: util.ExtractTypeInfo / ExtractTypeName resolve the named type alias-safely and strip one pointer.
func (c *Ctx) ruleTypeInfoHelpers() {
	P := c.P
	n := 0
	for _, name := range []string{"ExtractTypeInfo", "ExtractTypeName"} {
		top := P.LookupFunc("util", name)
		if top == nil {
			continue
		}
		for _, fn := range P.StaticClosure(top) {
			allInstrs(fn, func(b *ssa.BasicBlock, ins ssa.Instruction) {
				ta, ok := ins.(*ssa.TypeAssert)
				if !ok || typeStr(ta.AssertedType) != "*go/types.Named" {
					return
				}
				n++
				var detail string
				lit := Lit{Kind: "cond", Pos: true, Val: nil}
				_ = lit
				roots := P.Resolve(ta.X)
				sawPlain, sawElem, bad := false, false, ""
				for _, r := range roots {
					call := P.CallTo(r, "go/types.Unalias")
					if call == nil {
						bad = short(P.termDesc(r, false))
						continue
					}
					// one Unalias call may serve both origins: Unalias(t) with t the type or, behind a pointer, its element
					for _, a := range P.Resolve(call.Call.Args[0]) {
						if P.CallTo(a, "(*go/types.Pointer).Elem") != nil {
							if P.elemOfUnaliasedPointer(a) {
								sawElem = true
							} else {
								bad = "the pointer is stripped before aliases are looked through (type P = *T is not seen as a pointer): " + short(P.termDesc(a, false))
							}
						} else {
							sawPlain = true
						}
					}
				}
				switch {
				case bad != "":
					detail = "operand of the *types.Named assertion is not un-aliased: " + bad
				case !sawPlain || !sawElem:
					detail = "type resolution does not cover both T and *T through aliases"
				}
				c.check(detail == "", "ALIAS/TYPEINFO", "util."+name, P.Pos(ta.Pos()), "Named assertion on Unalias(t) and Unalias(ptr.Elem())", detail)
			})
		}
		// the (package path, name) pair handed to the checkers denotes a package-level type
		if name == "ExtractTypeInfo" {
			pred := c.pkgLevelPred()
			allInstrs(top, func(b *ssa.BasicBlock, ins ssa.Instruction) {
				r, ok := ins.(*ssa.Return)
				if !ok || len(r.Results) != 1 || isNilConst(r.Results[0]) {
					return
				}
				c.check(hasLit(P.BlockGuards(b), pred), "PACKAGE-LEVEL", "util."+name, P.Pos(r.Pos()), "a type is identified only if its object is declared in the package scope", pkgLevelDetail)
			})
		}
	}
	c.floor("*types.Named assertions in util type helpers", n, 2)
}

// elemOfUnaliasedPointer: v is ptr.Elem() for a ptr obtained by asserting an un-aliased type to *types.Pointer
// (`types.Unalias(t).(*types.Pointer)`): a pointer hidden behind an alias (type P = *T) is stripped as well.
func (P *Program) elemOfUnaliasedPointer(v ssa.Value) bool {
	call := P.CallTo(v, "(*go/types.Pointer).Elem")
	if call == nil || len(call.Call.Args) == 0 {
		return false
	}
	return P.RootsAll(call.Call.Args[0], func(r ssa.Value) bool {
		var ta *ssa.TypeAssert
		switch x := r.(type) {
		case *ssa.Extract:
			ta, _ = x.Tuple.(*ssa.TypeAssert)
		case *ssa.TypeAssert:
			ta = x
		}
		if ta == nil || typeStr(ta.AssertedType) != "*go/types.Pointer" {
			return false
		}
		return P.RootsAll(ta.X, func(o ssa.Value) bool { return P.CallTo(o, "go/types.Unalias") != nil })
	})
}
