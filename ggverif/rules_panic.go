package main

// C10: enumerated panic-site obligations and loop/recursion shape on all product functions
// (a superset of what is reachable from the analyzers' Run functions).

import (
	"fmt"
	"go/constant"
	"go/token"
	"go/types"
	"regexp"
	"sort"
	"strings"

	"golang.org/x/tools/go/ssa"
)

// nilableCalls: library functions/methods documented to return nil for some well-typed input.
var nilableCalls = map[string]string{
	"(*go/types.Info).TypeOf":      "nil if the expression is not found",
	"(*go/types.Info).ObjectOf":    "nil if the identifier is not found",
	"(*go/types.Info).PkgNameOf":   "nil if the import spec is not found",
	"(*go/types.Scope).Lookup":     "nil if the name is not declared",
	"invoke go/types.Object.Pkg":   "nil for universe objects",
	"(*go/types.object).Pkg":       "nil for universe objects",
	"(*go/types.TypeName).Pkg":     "nil for universe objects",
	"(*go/token.FileSet).File":     "nil for positions outside the set",
	"(*flag.FlagSet).Lookup":       "nil if the flag is not defined",
	"(*go/types.Signature).Recv":   "nil for functions",
	"(*go/types.Func).Pkg":         "nil for universe functions",
	"(*go/types.Signature).Params": "never nil in go/types >= 1.x (kept out)",
}

// optionalASTFields: pointer/interface children of AST nodes that are nil in well-formed trees.
var optionalASTFields = map[string]bool{
	"go/ast.FuncDecl.Recv": true, "go/ast.FuncDecl.Body": true, "go/ast.FuncDecl.Doc": true,
	"go/ast.GenDecl.Doc": true, "go/ast.TypeSpec.Doc": true, "go/ast.Field.Doc": true,
	"go/ast.ValueSpec.Type": true, "go/ast.ImportSpec.Name": true, "go/ast.ValueSpec.Doc": true,
	"go/ast.Field.Tag": true, "go/ast.TypeSpec.TypeParams": true, "go/ast.FuncType.Results": true,
	"go/ast.File.Doc": true, "go/ast.IfStmt.Else": true, "go/ast.IfStmt.Init": true,
	"go/ast.CompositeLit.Type": true, "go/ast.TypeSpec.Comment": true, "go/ast.Field.Comment": true,
}

func isPointerLike(t types.Type) bool {
	switch types.Unalias(t).Underlying().(type) {
	case *types.Pointer, *types.Interface, *types.Map, *types.Signature, *types.Chan:
		return true
	}
	return false
}

// nilableProductFuncs: product functions with a pointer-like single result that return nil on some path.
func (c *Ctx) nilableProductFuncs() map[*ssa.Function]bool {
	out := map[*ssa.Function]bool{}
	for _, fn := range c.P.ModFuncs {
		if fn.Signature.Results().Len() != 1 || !isPointerLike(fn.Signature.Results().At(0).Type()) {
			continue
		}
		allInstrs(fn, func(b *ssa.BasicBlock, ins ssa.Instruction) {
			if r, ok := ins.(*ssa.Return); ok && len(r.Results) == 1 {
				for _, x := range c.P.Resolve(r.Results[0]) {
					if isNilConst(x) {
						out[fn] = true
					}
				}
			}
		})
	}
	return out
}

// nilSource explains why value v may be nil ("" if it is not a recognised nilable source).
func (c *Ctx) nilSource(v ssa.Value, nilFuncs map[*ssa.Function]bool) string {
	P := c.P
	if !isPointerLike(v.Type()) {
		return ""
	}
	switch x := v.(type) {
	case *ssa.Call:
		n := P.calleeName(x.Common())
		if why, ok := nilableCalls[n]; ok && !strings.Contains(why, "kept out") {
			return n + ": " + why
		}
		if callee := x.Call.StaticCallee(); callee != nil && nilFuncs[callee] {
			return FuncName(callee) + " returns nil on some path"
		}
	case *ssa.Lookup:
		if !x.CommaOk {
			if P.isPassField(x.X, "ResultOf") {
				return "" // presence and type of required results: REQ-RESULT / ASSERT
			}
			return "map lookup yields nil for a missing key"
		}
	case *ssa.UnOp:
		if x.Op != token.MUL {
			return ""
		}
		if fa, ok := x.X.(*ssa.FieldAddr); ok {
			tn := typeStr(deref(fa.X.Type()))
			f := deref(fa.X.Type()).Underlying().(*types.Struct).Field(fa.Field).Name()
			if optionalASTFields[tn+"."+f] {
				return tn + "." + f + " is nil when the child is absent"
			}
			if n := P.moduleStruct(deref(fa.X.Type())); n != nil {
				if c.assignedBeforeWalk()[fieldKey{n, fa.Field}] {
					return "" // WALKSTATE/PER-ITERATION: assigned a non-nil value before every walk that reads it
				}
				if vals, ok := P.fieldSources(n, fa.Field); ok {
					for _, s := range vals {
						if cs, isC := s.(*ssa.Const); isC && cs.Value == nil {
							return tn + "." + f + " is left nil by some composite literal / assignment"
						}
					}
				}
			}
		}
	case *ssa.Extract:
		if ta, ok := x.Tuple.(*ssa.TypeAssert); ok && x.Index == 0 && ta.CommaOk {
			return "comma-ok type assertion yields nil when it fails"
		}
		if lk, ok := x.Tuple.(*ssa.Lookup); ok && x.Index == 0 && lk.CommaOk {
			return "comma-ok map lookup yields nil for a missing key"
		}
	}
	return ""
}

// derefUses: instructions that panic if v is nil.
func (c *Ctx) derefUses(v ssa.Value) []ssa.Instruction {
	var out []ssa.Instruction
	if c.derefVia == nil {
		c.derefVia = map[ssa.Instruction]ssa.Value{}
	}
	seen := map[ssa.Value]bool{}
	var walk func(x ssa.Value)
	walk = func(x ssa.Value) {
		if seen[x] {
			return
		}
		seen[x] = true
		refs := x.Referrers()
		if refs == nil {
			return
		}
		for _, r := range *refs {
			switch u := r.(type) {
			case *ssa.FieldAddr:
				if u.X == x {
					out = append(out, u)
					c.derefVia[u] = x
				}
			case *ssa.Field:
			case *ssa.UnOp:
				if u.Op == token.MUL && u.X == x {
					out = append(out, u)
					c.derefVia[u] = x
				}
			case *ssa.Store:
				if u.Addr == x {
					out = append(out, u)
					c.derefVia[u] = x
				}
			case *ssa.IndexAddr:
				if u.X == x {
					if _, isPtr := x.Type().Underlying().(*types.Pointer); isPtr {
						out = append(out, u)
						c.derefVia[u] = x
					}
				}
			case *ssa.MapUpdate:
				// writes to nil maps are the subject of NIL-MAP
			case *ssa.TypeAssert:
				if !u.CommaOk && u.X == x {
					out = append(out, u)
					c.derefVia[u] = x // x.(T) on a nil interface panics
				}
			case ssa.CallInstruction:
				com := u.Common()
				// types.Unalias(nil) is nil: the result is as nilable as the argument
				if cv, isVal := u.(ssa.Value); isVal && !com.IsInvoke() && c.P.calleeName(com) == "go/types.Unalias" && len(com.Args) == 1 && com.Args[0] == x {
					walk(cv)
					continue
				}
				if com.IsInvoke() && com.Value == x {
					out = append(out, u)
					c.derefVia[u] = x
					continue
				}
				if !com.IsInvoke() && com.Value == x {
					out = append(out, u)
					c.derefVia[u] = x // calling a nil func value
					continue
				}
				if callee := com.StaticCallee(); callee != nil && len(com.Args) > 0 && com.Args[0] == x && callee.Signature.Recv() != nil {
					// method call with x as receiver
					if c.P.IsProductFunc(callee) && len(callee.Blocks) > 0 {
						if !c.paramNilSafe(callee, 0, 0) {
							out = append(out, u)
							c.derefVia[u] = x
						}
					} else if _, isPtr := x.Type().Underlying().(*types.Pointer); isPtr {
						if !nilSafeLibMethods[FuncName(callee)] {
							out = append(out, u)
							c.derefVia[u] = x
						}
					}
					continue
				}
				// passed as ordinary argument to a product function: nil-safe if the callee guards it
				if callee := com.StaticCallee(); callee != nil && c.P.IsProductFunc(callee) && len(callee.Blocks) > 0 {
					for i, a := range com.Args {
						if a == x && i < len(callee.Params) && !c.paramNilSafe(callee, i, 0) {
							out = append(out, u)
							c.derefVia[u] = x
						}
					}
				}
			case *ssa.Phi:
				// a join that may carry the nilable value: its dereferences count as well (a nil check of the
				// joined value, or of the source itself, discharges them)
				walk(u)
			case *ssa.ChangeType:
				walk(u)
			case *ssa.MakeInterface:
				// a nil *T in an ast.Node is not a nil node: ast.Inspect / ast.Walk visit it and read its fields
				if _, isPtr := x.Type().Underlying().(*types.Pointer); isPtr && u.X == x {
					seenI := map[ssa.Value]bool{}
					var asNode func(iv ssa.Value)
					asNode = func(iv ssa.Value) {
						if seenI[iv] || iv.Referrers() == nil {
							return
						}
						seenI[iv] = true
						for _, r2 := range *iv.Referrers() {
							switch y := r2.(type) {
							case *ssa.Phi:
								asNode(y)
							case *ssa.ChangeInterface:
								asNode(y)
							case ssa.CallInstruction:
								n := c.P.calleeName(y.Common())
								args := y.Common().Args
								if (n == "go/ast.Inspect" && len(args) == 2 && args[0] == iv) || (n == "go/ast.Walk" && len(args) == 2 && args[1] == iv) {
									out = append(out, y)
									c.derefVia[y] = x
								}
							}
						}
					}
					asNode(u)
				}
			}
		}
	}
	walk(v)
	return out
}

var nilSafeLibMethods = map[string]bool{}

// paramNilSafe: every dereferencing use of parameter #idx inside fn is guarded by a nil check of it.
func (c *Ctx) paramNilSafe(fn *ssa.Function, idx int, depth int) bool {
	if depth > 2 || idx >= len(fn.Params) {
		return false
	}
	key := fmt.Sprintf("%p/%d", fn, idx)
	if v, ok := c.nilSafeMemo[key]; ok {
		return v
	}
	if c.nilSafeMemo == nil {
		c.nilSafeMemo = map[string]bool{}
	}
	c.nilSafeMemo[key] = true // optimistic for recursion
	p := fn.Params[idx]
	ok := true
	for _, u := range c.derefUses(p) {
		if !c.nilGuarded(u, p) {
			ok = false
		}
	}
	c.nilSafeMemo[key] = ok
	return ok
}

// nilGuarded: at instruction u, value v is known non-nil (a nil check of v, or of a value with the same
// descriptor, guards u; for comma-ok results: the ok flag).
func (c *Ctx) nilGuarded(u ssa.Instruction, v ssa.Value) bool {
	if via := c.derefVia[u]; via != nil && via != v {
		if c.nilGuarded1(u, via) {
			return true
		}
	}
	return c.nilGuarded1(u, v)
}

func (c *Ctx) nilGuarded1(u ssa.Instruction, v ssa.Value) bool {
	P := c.P
	vd := P.Desc(v)
	for _, l := range P.Expand(P.Guards(u)) {
		if nv := nilCheckedValue(l); nv != nil && !l.Pos && (nv == v || P.Desc(nv) == vd) {
			return true
		}
		if ex, ok := v.(*ssa.Extract); ok && ex.Index == 0 {
			if l.Kind == "cond" && l.Pos && l.Val != nil {
				if ok2, isEx := l.Val.(*ssa.Extract); isEx && ok2.Tuple == ex.Tuple && ok2.Index == 1 {
					return true
				}
			}
		}
		// a positive type assertion of v to a concrete type implies non-nil
		if x, _, _ := typeAssertOK(l); x != nil && l.Pos && (x == v || P.Desc(x) == vd) {
			return true
		}
		if (l.Kind == "and" || l.Kind == "or") && !l.Pos == (l.Kind == "or") {
			for _, s := range l.Subs {
				if nv := nilCheckedValue(s); nv != nil && !s.Pos && (nv == v || P.Desc(nv) == vd) {
					return true
				}
			}
		}
	}
	// same-block: the dereference comes after a nil check only via guards; a value freshly produced by a
	// type switch case (typeassert value with ok) is handled above.
	return false
}

// reviewedNilSites: dereferences of nilable values that are safe for a reason the analysis does not see.
// key: function + "#" + short reason tag; each with one line of justification.
var reviewedNilSites = map[string]string{
	"implements.extractMethodsFromNamedType#(*go/types.Signature).Recv->.object": "the function comes from types.NewMethodSet(...).At(i).Obj(): a method, whose signature always has a receiver (go/types contract)",
}

// recvOfMethodSetEntry: v is Signature.Recv() of the signature of a method-set entry (MethodSet.At(i).Obj()).
func (c *Ctx) recvOfMethodSetEntry(v ssa.Value) bool {
	call, ok := v.(*ssa.Call)
	if !ok || c.P.CallTo(call, "(*go/types.Signature).Recv") == nil || len(call.Call.Args) == 0 {
		return false
	}
	d := c.P.Desc(call.Call.Args[0])
	if strings.HasPrefix(d, "{") {
		return false // several origins: not decided here
	}
	return strings.Contains(d, "call((*go/types.Selection).Obj; call((*go/types.MethodSet).At; ")
}

// assignedBeforeWalk: fields of module structs that are only read by walk callbacks and are assigned a non-nil
// value (address of a local, made map, ...) on every path of each iteration before the walk starts.
func (c *Ctx) assignedBeforeWalk() map[fieldKey]bool {
	if c.abw != nil {
		return c.abw
	}
	P := c.P
	c.abw = map[fieldKey]bool{}
	for _, w := range c.walks() {
		if w.Callback == nil {
			continue
		}
		inspectFn := w.Call.Parent()
		loop := loopOf(w.Call.Block())
		allInstrs(inspectFn, func(b *ssa.BasicBlock, ins ssa.Instruction) {
			st, ok := ins.(*ssa.Store)
			if !ok {
				return
			}
			fa, ok := st.Addr.(*ssa.FieldAddr)
			if !ok {
				return
			}
			n := P.moduleStruct(deref(fa.X.Type()))
			if n == nil || !dominates(b, w.Call.Block()) || (loop != nil && !loop[b]) {
				return
			}
			nonNil := P.RootsAll(st.Val, func(r ssa.Value) bool {
				switch r.(type) {
				case *ssa.Alloc, *ssa.MakeMap, *ssa.MakeSlice, *ssa.MakeClosure, *ssa.Function:
					return true
				}
				return false
			})
			if !nonNil {
				return
			}
			// the field must not be read outside walk closures of this package (where it could still be nil)
			c.abw[fieldKey{n, fa.Field}] = true
		})
	}
	// drop fields that are also loaded by functions outside every walk closure and outside the assigning function
	inClosure := map[*ssa.Function]bool{}
	for _, w := range c.walks() {
		for _, f := range w.Closure {
			inClosure[f] = true
		}
		inClosure[w.Call.Parent()] = true
	}
	for _, fn := range P.ModFuncs {
		if inClosure[fn] {
			continue
		}
		allInstrs(fn, func(b *ssa.BasicBlock, ins ssa.Instruction) {
			if fa, ok := ins.(*ssa.FieldAddr); ok {
				if n := P.moduleStruct(deref(fa.X.Type())); n != nil {
					if refs := fa.Referrers(); refs != nil {
						for _, r := range *refs {
							if u, ok := r.(*ssa.UnOp); ok && u.Op == token.MUL {
								delete(c.abw, fieldKey{n, fa.Field})
							}
						}
					}
				}
			}
		})
	}
	return c.abw
}

func (c *Ctx) ruleNilDeref(pkgs ...string) {
	P := c.P
	nilFuncs := c.nilableProductFuncs()
	inPkgs := func(fn *ssa.Function) bool {
		if len(pkgs) == 0 {
			return true
		}
		for _, p := range pkgs {
			if funcPkgPath(fn) == modulePath+"/src/"+p {
				return true
			}
		}
		return false
	}
	nSrc, nUse := 0, 0
	for _, fn := range P.ModFuncs {
		if !inPkgs(fn) {
			continue
		}
		allInstrs(fn, func(b *ssa.BasicBlock, ins ssa.Instruction) {
			v, ok := ins.(ssa.Value)
			if !ok {
				return
			}
			why := c.nilSource(v, nilFuncs)
			if why == "" {
				return
			}
			nSrc++
			for _, u := range c.derefUses(v) {
				nUse++
				cons := fmt.Sprintf("%s#%s", FuncName(fn), derefTag(P, u, v))
				if c.nilGuarded(u, v) {
					c.ok("NIL-DEREF", cons, P.Pos(u.Pos()), "guarded: "+why)
				} else if c.recvOfMethodSetEntry(v) {
					c.ok("NIL-DEREF", cons, P.Pos(u.Pos()), "the signature is that of types.NewMethodSet(...).At(i).Obj(): a method, whose signature always has a receiver (go/types contract)")
				} else if reason, ok := reviewedNilSites[cons]; ok {
					c.ok("NIL-DEREF", cons, P.Pos(u.Pos()), "reviewed: "+reason)
				} else {
					c.fail("NIL-DEREF", cons, P.Pos(u.Pos()), "possible nil dereference: "+why+"; the use is not dominated by a nil check")
				}
			}
		})
	}
	c.count("nilable sources", nSrc)
	c.count("dereferencing uses of nilable sources", nUse)
	if len(pkgs) == 0 {
		c.floor("dereferencing uses of nilable values", nUse, 30)
	}
}

func derefTag(P *Program, u ssa.Instruction, v ssa.Value) string {
	src := "?"
	switch x := v.(type) {
	case *ssa.Call:
		src = P.calleeName(x.Common())
	case *ssa.UnOp:
		if fa, ok := x.X.(*ssa.FieldAddr); ok {
			src = typeStr(deref(fa.X.Type())) + "." + deref(fa.X.Type()).Underlying().(*types.Struct).Field(fa.Field).Name()
		}
	case *ssa.Lookup:
		src = "lookup"
	case *ssa.Extract:
		src = "commaok"
	case *ssa.Parameter:
		src = "param " + x.Name()
	}
	use := fmt.Sprintf("%T", u)
	switch x := u.(type) {
	case *ssa.FieldAddr:
		use = "." + deref(x.X.Type()).Underlying().(*types.Struct).Field(x.Field).Name()
	case ssa.CallInstruction:
		use = "call " + P.calleeName(x.Common())
	case *ssa.UnOp:
		use = "*"
	}
	return src + "->" + strings.TrimPrefix(use, "*ssa.")
}

// ruleAsserts: every non-comma-ok type assertion is justified.
func (c *Ctx) ruleAsserts(pkgs ...string) {
	P := c.P
	n := 0
	for _, fn := range P.ModFuncs {
		if len(pkgs) > 0 {
			in := false
			for _, p := range pkgs {
				if funcPkgPath(fn) == modulePath+"/src/"+p {
					in = true
				}
			}
			if !in {
				continue
			}
		}
		idx := 0
		allInstrs(fn, func(b *ssa.BasicBlock, ins ssa.Instruction) {
			ta, ok := ins.(*ssa.TypeAssert)
			if !ok || ta.CommaOk {
				return
			}
			n++
			idx++
			cons := fmt.Sprintf("%s#assert(%s)/%d", FuncName(fn), typeStr(ta.AssertedType), idx)
			where := P.Pos(ta.Pos())
			d := P.Desc(ta.X)
			at := typeStr(ta.AssertedType)
			switch {
			case strings.HasPrefix(d, "lookup(field(") && strings.Contains(d, "analysis.Pass.ResultOf); global(analyzer."):
				// REQ-RESULT proves presence and type
				var dep *AnalyzerInfo
				for _, a := range c.M.Analyzers {
					if strings.Contains(d, "global(analyzer."+a.VarName+")") {
						dep = a
					}
				}
				okT := dep != nil && c.resultTypeOf(dep) != nil && types.Identical(c.resultTypeOf(dep), ta.AssertedType)
				c.check(okT, "ASSERT", cons, where, "ResultOf["+depName(dep)+"] has ResultType "+at+" (REQ-RESULT)", "unchecked assertion of pass.ResultOf[...] to "+at+" does not match the producer's ResultType: panic")
			case at == "*go/types.Signature" && P.RootsAll(ta.X, func(r ssa.Value) bool {
				call, ok := r.(*ssa.Call)
				return ok && (P.calleeName(call.Common()) == "(*go/types.Func).Type" || P.calleeName(call.Common()) == "invoke go/types.Object.Type" && false)
			}):
				c.ok("ASSERT", cons, where, "(*types.Func).Type() is always a *types.Signature (go/types contract)")
			case at == "*go/types.Signature" && isFuncObjectType(P, ta.X):
				c.ok("ASSERT", cons, where, "Type() of a *types.Func is always a *types.Signature (go/types contract)")
			case at == "*go/types.Func" && strings.Contains(d, "(*go/types.Selection).Obj") && strings.Contains(d, "(*go/types.MethodSet).At"):
				c.ok("ASSERT", cons, where, "the object of a method-set selection is a *types.Func (go/types contract)")
			case at == "flag.Getter" && strings.Contains(d, "flag.Flag.Value"):
				c.ok("ASSERT", cons, where, "every flag.Value created by package flag implements flag.Getter (documented)")
			case at == "bool" && strings.Contains(d, "invoke flag.Getter.Get") && strings.Contains(d, "const(\"scan-tests\")"):
				// the flag "scan-tests" is defined with fs.Bool in CreateFlagSet (FLAG-TABLE)
				okB := false
				if cf := P.LookupFunc("config", "CreateFlagSet"); cf != nil {
					allInstrs(cf, func(_ *ssa.BasicBlock, i2 ssa.Instruction) {
						if call, ok := i2.(*ssa.Call); ok && P.CallTo(call, "(*flag.FlagSet).Bool") != nil && constString(call.Call.Args[1]) == "scan-tests" {
							okB = true
						}
					})
				}
				c.check(okB, "ASSERT", cons, where, "flag scan-tests is defined with fs.Bool: Get() yields a bool", "Get().(bool) on a flag that is not defined as a bool flag: panic at start-up")
			default:
				// proven by a dominating type switch / comma-ok on the same operand and type
				proven := false
				for _, l := range P.Guards(ta) {
					if x, t, _ := typeAssertOK(l); x != nil && l.Pos && types.Identical(t, ta.AssertedType) && P.Desc(x) == d {
						proven = true
					}
				}
				c.check(proven, "ASSERT", cons, where, "dynamic type established by a dominating comma-ok assertion", "unchecked type assertion to "+at+" on "+short(d)+": panics when the dynamic type differs")
			}
		})
	}
	c.count("unchecked type assertions", n)
	if len(pkgs) == 0 {
		c.floor("unchecked type assertions", n, 10)
	}
}

func depName(a *AnalyzerInfo) string {
	if a == nil {
		return "?"
	}
	return a.VarName
}

// rulePartialAPI: library calls that panic on bad arguments.
func (c *Ctx) rulePartialAPI() {
	P := c.P
	n := 0
	for _, fn := range P.ModFuncs {
		allInstrs(fn, func(b *ssa.BasicBlock, ins ssa.Instruction) {
			call, ok := ins.(*ssa.Call)
			if !ok {
				return
			}
			name := P.calleeName(call.Common())
			cons := FuncName(fn) + "#" + name
			where := P.Pos(call.Pos())
			switch name {
			case "regexp.MustCompile":
				n++
				pat := constString(call.Call.Args[0])
				_, err := regexp.Compile(pat)
				c.check(pat != "" && err == nil && fn.Name() == "init", "PARTIAL-API", cons+"("+short(pat)+")", where, "constant pattern that compiles, evaluated at init", "regexp.MustCompile on a non-constant or invalid pattern, or outside package initialisation: panic")
			case "strings.Repeat":
				n++
				d := P.Desc(call.Call.Args[1])
				okN := strings.HasPrefix(d, "call(builtin len;") || regexp.MustCompile(`^const\(\d+\)$`).MatchString(d)
				c.check(okN, "PARTIAL-API", cons, where, "count is a length / non-negative constant", "strings.Repeat count may be negative: "+short(d))
			case "(*go/types.Tuple).At", "(*go/types.Interface).Method", "(*go/types.MethodSet).At", "(*go/types.Interface).ExplicitMethod":
				n++
				lenName := map[string]string{"(*go/types.Tuple).At": "(*go/types.Tuple).Len", "(*go/types.Interface).Method": "(*go/types.Interface).NumMethods", "(*go/types.MethodSet).At": "(*go/types.MethodSet).Len", "(*go/types.Interface).ExplicitMethod": "(*go/types.Interface).NumExplicitMethods"}[name]
				recvD := P.Desc(call.Call.Args[0])
				okI := false
				for _, l := range P.BlockGuards(b) {
					if l.Kind == "lt" && l.Pos && l.X == call.Call.Args[1] || (l.Kind == "lt" && l.Pos && P.Desc(l.X) == P.Desc(call.Call.Args[1])) {
						if bc := P.CallTo(firstRoot(P, l.Y), lenName); bc != nil && P.Desc(bc.Call.Args[0]) == recvD {
							okI = true
						}
					}
				}
				// otherwise: linear arithmetic over the index computation and the dominating conditions, with the
				// accessor of the (immutable) library object as a pure function of its receiver
				if !okI {
					var lenCall *ssa.Call
					allInstrs(fn, func(_ *ssa.BasicBlock, i2 ssa.Instruction) {
						if lc2, ok := i2.(*ssa.Call); ok && lenCall == nil && P.CallTo(lc2, lenName) != nil && P.Desc(lc2.Call.Args[0]) == recvD {
							lenCall = lc2
						}
					})
					if lenCall != nil {
						lc := c.newLin(b)
						ix, ln := lc.of(call.Call.Args[1]), lc.of(lenCall)
						okI = lc.prove(ix) && lc.prove(geq(ln.add(linConst(1), -1), ix))
					}
				}
				// index starts at 0 and only grows: phi[0, i+1]
				c.check(okI, "PARTIAL-API", cons, where, "index < "+lenName+"() of the same object", name+" with an index not bounded by "+lenName+"() of the same object: panic")
			}
		})
	}
	c.count("partial library API calls", n)
	c.floor("partial library API calls", n, 10)
}

// ruleNilMap: every map that is written originates from make / a literal.
func (c *Ctx) ruleNilMap() {
	P := c.P
	n := 0
	for _, fn := range P.ModFuncs {
		idx := 0
		allInstrs(fn, func(b *ssa.BasicBlock, ins ssa.Instruction) {
			mu, ok := ins.(*ssa.MapUpdate)
			if !ok {
				return
			}
			n++
			idx++
			cons := fmt.Sprintf("%s#mapupdate%d", FuncName(fn), idx)
			okM := P.RootsAllDeep(mu.Map, func(r ssa.Value) bool {
				switch x := r.(type) {
				case *ssa.MakeMap:
					return true
				case *ssa.Call:
					callee := x.Call.StaticCallee()
					if callee != nil && P.IsProductFunc(callee) {
						// constructor returning a made map
						okRet := true
						allInstrs(callee, func(_ *ssa.BasicBlock, i2 ssa.Instruction) {
							if ret, ok := i2.(*ssa.Return); ok && len(ret.Results) == 1 {
								if !P.RootsAll(ret.Results[0], func(y ssa.Value) bool { _, isMk := y.(*ssa.MakeMap); return isMk }) {
									okRet = false
								}
							}
						})
						return okRet
					}
				case *ssa.Const:
					// nil origin: acceptable only if this update is guarded by a non-nil check / preceded by make on nil,
					// or the field holding the map is assigned a made map before every walk that writes it
					if u, ok := mu.Map.(*ssa.UnOp); ok {
						if fa, ok := u.X.(*ssa.FieldAddr); ok {
							if n := P.moduleStruct(deref(fa.X.Type())); n != nil && c.assignedBeforeWalk()[fieldKey{n, fa.Field}] {
								return true
							}
						}
					}
					return c.mapNilHandled(mu)
				case *ssa.Lookup, *ssa.Extract, *ssa.UnOp:
					return c.mapNilHandled(mu) || c.mapMadeBefore(mu)
				case *ssa.Parameter:
					// receiver / parameter map: callers' concern; for methods on map types the zero map is nil
					return c.mapNilHandled(mu) || c.mapMadeBefore(mu) || c.receiverMapFromConstructor(x)
				}
				return false
			})
			if !okM && c.mapMadeByInitMethod(mu) {
				okM = true
			}
			if !okM {
				// `m := outer[k]; if m == nil { m = make(...); outer[k] = m }; m[x] = ...`: every way the written map
				// is chosen is either a fresh make or a value that was just found to be non-nil
				okM = true
				for _, vc := range P.ValueCases(mu.Map, 0) {
					if _, isMk := vc.Val.(*ssa.MakeMap); isMk {
						continue
					}
					nonNil := hasLit(append(append([]Lit{}, vc.Guards...), P.BlockGuards(b)...), func(l Lit) bool {
						v := nilCheckedValue(l)
						return v != nil && !l.Pos && v == vc.Val
					})
					if !nonNil {
						okM = false
					}
				}
			}
			c.check(okM, "NIL-MAP", cons, P.Pos(mu.Pos()), "written map originates from make (or a nil map is replaced by make first)", "write to a map that may be nil: "+short(P.DescDeep(mu.Map)))
		})
	}
	c.count("map updates", n)
	c.floor("map updates", n, 10)
}

// mapNilHandled: the update is dominated by `m != nil` or follows `if m == nil { m = make }` on the same location.
func (c *Ctx) mapNilHandled(mu *ssa.MapUpdate) bool {
	P := c.P
	md := P.Desc(mu.Map)
	for _, l := range P.BlockGuards(mu.Block()) {
		if nv := nilCheckedValue(l); nv != nil && !l.Pos && P.Desc(nv) == md {
			return true
		}
	}
	return c.mapMadeBefore(mu)
}

// mapMadeBefore: on every path to the update, the map location was either found non-nil or assigned a made map:
// the pattern `if x.f == nil { x.f = make(...) }` (or x[k] == nil) immediately dominating the update.
func (c *Ctx) mapMadeBefore(mu *ssa.MapUpdate) bool {
	P := c.P
	// the map operand is a load of address A (or lookup m[k]); look for a dominating If on load(A)==nil whose
	// true branch stores a MakeMap to A and joins before mu.
	var addrD string
	switch x := mu.Map.(type) {
	case *ssa.UnOp:
		addrD = P.Desc(x.X)
	case *ssa.Lookup:
		addrD = "lookup:" + P.Desc(x.X) + ";" + P.Desc(x.Index)
	default:
		return false
	}
	fn := mu.Parent()
	for _, b := range fn.Blocks {
		ifi, ok := lastInstr(b).(*ssa.If)
		if !ok || !dominates(b, mu.Block()) {
			continue
		}
		f := P.condFormula(ifi.Cond, 0)
		for _, l := range literals(f, true) {
			nv := nilCheckedValue(l)
			if nv == nil || !l.Pos {
				continue
			}
			var nd string
			switch y := nv.(type) {
			case *ssa.UnOp:
				nd = P.Desc(y.X)
			case *ssa.Lookup:
				nd = "lookup:" + P.Desc(y.X) + ";" + P.Desc(y.Index)
			}
			if nd != addrD {
				continue
			}
			// true successor must store/update a MakeMap into the same location
			made := false
			for _, i2 := range b.Succs[0].Instrs {
				switch s := i2.(type) {
				case *ssa.Store:
					if _, isMk := s.Val.(*ssa.MakeMap); isMk && P.Desc(s.Addr) == addrD {
						made = true
					}
				case *ssa.MapUpdate:
					if _, isMk := s.Value.(*ssa.MakeMap); isMk && "lookup:"+P.Desc(s.Map)+";"+P.Desc(s.Key) == addrD {
						made = true
					}
				}
			}
			if made {
				return true
			}
		}
	}
	return false
}

// receiverMapFromConstructor: a method on a named map type whose values are only created by a product
// constructor (annotated @constructor in the repo) that uses make.
func (c *Ctx) receiverMapFromConstructor(p *ssa.Parameter) bool {
	fn := p.Parent()
	if fn.Signature.Recv() == nil || len(fn.Params) == 0 || fn.Params[0] != p {
		return false
	}
	n, ok := types.Unalias(p.Type()).(*types.Named)
	if !ok {
		return false
	}
	if _, isMap := n.Underlying().(*types.Map); !isMap {
		return false
	}
	// all product call sites pass a value originating from a constructor that makes the map
	callers := c.P.Callers(fn)
	if len(callers) == 0 {
		return false
	}
	for _, cs := range callers {
		okC := c.P.RootsAllDeep(cs.Common().Args[0], func(r ssa.Value) bool {
			switch x := r.(type) {
			case *ssa.MakeMap:
				return true
			case *ssa.Call:
				callee := x.Call.StaticCallee()
				if callee == nil {
					return false
				}
				okRet := len(callee.Blocks) > 0
				allInstrs(callee, func(_ *ssa.BasicBlock, i2 ssa.Instruction) {
					if ret, ok := i2.(*ssa.Return); ok && len(ret.Results) == 1 {
						if !c.P.RootsAll(ret.Results[0], func(y ssa.Value) bool { _, isMk := y.(*ssa.MakeMap); return isMk }) {
							okRet = false
						}
					}
				})
				return okRet
			}
			return false
		})
		if !okC {
			return false
		}
	}
	return true
}

// ruleDivExit: divisions by non-zero constants only; no user panic / process exit.
func (c *Ctx) ruleDivExit() {
	P := c.P
	nDiv, nPanic := 0, 0
	for _, fn := range P.ModFuncs {
		allInstrs(fn, func(b *ssa.BasicBlock, ins ssa.Instruction) {
			switch x := ins.(type) {
			case *ssa.BinOp:
				if x.Op == token.QUO || x.Op == token.REM {
					if bt, ok := x.X.Type().Underlying().(*types.Basic); ok && bt.Info()&types.IsInteger != 0 {
						nDiv++
						cs, isC := x.Y.(*ssa.Const)
						okD := isC && cs.Value != nil && constant.Sign(cs.Value) != 0
						c.check(okD, "DIV", fmt.Sprintf("%s#div%d", FuncName(fn), nDiv), P.Pos(x.Pos()), "integer division by a non-zero constant", "integer division by a value that may be zero: "+short(P.Desc(x.Y)))
					}
				}
			case *ssa.Panic:
				// go/ssa synthesises panics for the range-over-func protocol; user-written panics are real
				if strings.HasPrefix(b.Comment, "rangefunc.") || strings.HasPrefix(b.Comment, "yield-") {
					return
				}
				nPanic++
				c.fail("EXIT/PANIC", FuncName(fn), P.Pos(x.Pos()), "explicit panic in product code")
			}
		})
	}
	if nPanic == 0 {
		c.ok("EXIT/PANIC", "product code", "", "no explicit panic statement")
	}
	c.count("integer divisions", nDiv)
}

// ruleReadFileErr: the error of pass.ReadFile is checked before the content is used.
func (c *Ctx) ruleReadFileErr() {
	P := c.P
	n := 0
	for _, fn := range P.ModFuncs {
		allInstrs(fn, func(b *ssa.BasicBlock, ins ssa.Instruction) {
			ci, ok := ins.(*ssa.Call)
			if !ok {
				return
			}
			// the analyzers read files through the driver (pass.ReadFile: only files of the package, a plain read); a
			// direct open of a name taken from a position - which a //line directive chooses - can block (a pipe, a
			// device) or read anything. Package main may read its own executable.
			if cal := ci.Call.StaticCallee(); cal != nil && !(fn.Pkg != nil && fn.Pkg.Pkg.Name() == "main") {
				switch FuncName(cal) {
				case "os.ReadFile", "os.Open", "os.OpenFile", "io/ioutil.ReadFile":
					c.fail("DIRECT-IO", FuncName(fn)+"#"+FuncName(cal), P.Pos(ci.Pos()), "a file is opened directly ("+FuncName(cal)+") instead of through pass.ReadFile: the name may come from a //line directive (a pipe or a device blocks the analysis; C10: no hang)")
				}
			}
			if c.passFieldCall(ci) != "ReadFile" {
				return
			}
			n++
			var content, errV *ssa.Extract
			if refs := ci.Referrers(); refs != nil {
				for _, r := range *refs {
					if ex, ok := r.(*ssa.Extract); ok {
						if ex.Index == 0 {
							content = ex
						} else {
							errV = ex
						}
					}
				}
			}
			okE := errV != nil
			if content != nil && errV != nil {
				if refs := content.Referrers(); refs != nil {
					for _, r := range *refs {
						g := P.BlockGuards(r.Block())
						if !hasLit(g, func(l Lit) bool { return nilCheckedValue(l) == ssa.Value(errV) && l.Pos }) {
							okE = false
						}
					}
				}
			}
			c.check(okE, "ERR", FuncName(fn)+"#ReadFile", P.Pos(ci.Pos()), "content is used only when err == nil (unreadable file degrades to a message without excerpt)", "the result of pass.ReadFile is used without checking the error")
		})
	}
	c.floor("pass.ReadFile calls", n, 1)
}

// ruleTerminates: loop shapes and recursion.
func (c *Ctx) ruleTerminates() {
	P := c.P
	nLoops := 0
	for _, fn := range P.ModFuncs {
		// natural loops by header
		headers := map[*ssa.BasicBlock]map[*ssa.BasicBlock]bool{}
		for _, t := range fn.Blocks {
			for _, h := range t.Succs {
				if dominates(h, t) {
					if headers[h] == nil {
						headers[h] = map[*ssa.BasicBlock]bool{h: true}
					}
					work := []*ssa.BasicBlock{t}
					for len(work) > 0 {
						x := work[len(work)-1]
						work = work[:len(work)-1]
						if headers[h][x] {
							continue
						}
						headers[h][x] = true
						work = append(work, x.Preds...)
					}
				}
			}
		}
		var hs []*ssa.BasicBlock
		for h := range headers {
			hs = append(hs, h)
		}
		sort.Slice(hs, func(i, j int) bool { return hs[i].Index < hs[j].Index })
		for _, h := range hs {
			nLoops++
			cons := fmt.Sprintf("%s#loop@b%d", FuncName(fn), h.Index)
			where := "-"
			if li := lastInstr(h); li != nil {
				where = P.Pos(li.Pos())
			}
			body := headers[h]
			switch {
			case h.Comment == "rangeindex.loop" || h.Comment == "rangeiter.loop":
				c.ok("TERMINATES", cons, where, "range over a finite slice/map/string")
			case h.Comment == "for.loop" || h.Comment == "for.body" || h.Comment == "for.post":
				okL, why := c.boundedFor(h, body)
				c.check(okL, "TERMINATES", cons, where, why, "loop is not a bounded counting loop or a scanner loop: "+why)
			default:
				okL, why := c.boundedFor(h, body)
				c.check(okL, "TERMINATES", cons, where, why, "unrecognised loop shape ("+h.Comment+"): "+why)
			}
		}
	}
	c.count("loops", nLoops)
	c.floor("loops", nLoops, 40)
	// recursion: product call-graph cycles
	idx := map[*ssa.Function]int{}
	for i, fn := range P.ModFuncs {
		idx[fn] = i
	}
	onstack := map[*ssa.Function]bool{}
	visited := map[*ssa.Function]bool{}
	var cycles [][2]*ssa.Function
	var dfs func(fn *ssa.Function)
	dfs = func(fn *ssa.Function) {
		visited[fn] = true
		onstack[fn] = true
		allInstrs(fn, func(b *ssa.BasicBlock, ins ssa.Instruction) {
			var callee *ssa.Function
			switch x := ins.(type) {
			case ssa.CallInstruction:
				callee = x.Common().StaticCallee()
			case *ssa.MakeClosure:
				callee = x.Fn.(*ssa.Function)
			}
			if callee == nil || !P.IsProductFunc(callee) || len(callee.Blocks) == 0 {
				return
			}
			if onstack[callee] {
				cycles = append(cycles, [2]*ssa.Function{fn, callee})
				return
			}
			if !visited[callee] {
				dfs(callee)
			}
		})
		onstack[fn] = false
	}
	for _, fn := range P.ModFuncs {
		if !visited[fn] {
			dfs(fn)
		}
	}
	for _, cy := range cycles {
		fn, callee := cy[0], cy[1]
		cons := FuncName(fn) + "->" + FuncName(callee)
		okR := false
		if fn == callee {
			// structural descent: the recursive argument is <param>.(*types.Pointer).Elem()
			okR = true
			allInstrs(fn, func(b *ssa.BasicBlock, ins ssa.Instruction) {
				if call, ok := ins.(*ssa.Call); ok && call.Call.StaticCallee() == fn {
					d := P.Desc(call.Call.Args[0])
					if !strings.HasPrefix(d, "call((*go/types.Pointer).Elem; typeassert(") {
						okR = false
					}
				}
			})
		}
		c.check(okR, "TERMINATES/RECURSION", cons, P.Pos(fn.Pos()), "self-recursion on ptr.Elem() (structural descent over a finite type term)", "recursion that is not a structural descent on a type term")
	}
}

// boundedFor: `for i := a; i < n; i++` with n loop-invariant and i only incremented, or `for scanner.Scan()`.
func (c *Ctx) boundedFor(h *ssa.BasicBlock, body map[*ssa.BasicBlock]bool) (bool, string) {
	P := c.P
	// find the loop condition: an If in the loop with one successor outside
	for b := range body {
		ifi, ok := lastInstr(b).(*ssa.If)
		if !ok {
			continue
		}
		exits := !body[b.Succs[0]] || !body[b.Succs[1]]
		if !exits {
			continue
		}
		if call, ok := ifi.Cond.(*ssa.Call); ok && P.calleeName(call.Common()) == "(*bufio.Scanner).Scan" {
			return true, "for scanner.Scan(): bufio.Scanner terminates on finite input"
		}
		bo, ok := ifi.Cond.(*ssa.BinOp)
		if !ok {
			continue
		}
		var iv, bound ssa.Value
		switch bo.Op {
		case token.LSS, token.LEQ:
			iv, bound = bo.X, bo.Y
		case token.GTR, token.GEQ:
			iv, bound = bo.Y, bo.X
		default:
			continue
		}
		// `i + k < n` / `i - k < n` with a constant k is the same test on i
		for {
			off, isOff := iv.(*ssa.BinOp)
			if !isOff || (off.Op != token.ADD && off.Op != token.SUB) {
				break
			}
			if _, isC := off.Y.(*ssa.Const); isC {
				iv = off.X
				continue
			}
			if _, isC := off.X.(*ssa.Const); isC && off.Op == token.ADD {
				iv = off.Y
				continue
			}
			break
		}
		phi, ok := iv.(*ssa.Phi)
		if !ok || !body[phi.Block()] {
			continue
		}
		// bound defined outside the loop
		// (or re-computed in the loop from loop-invariant operands: `i <= last+1`)
		var invariant func(v ssa.Value, depth int) bool
		invariant = func(v ssa.Value, depth int) bool {
			bi, ok := v.(ssa.Instruction)
			if !ok || bi.Block() == nil || !body[bi.Block()] {
				return true
			}
			if depth > 4 {
				return false
			}
			switch x := v.(type) {
			case *ssa.Call:
				cn := P.calleeName(x.Common())
				return strings.HasSuffix(cn, ".Len") || strings.HasSuffix(cn, ".NumMethods") || cn == "builtin len"
			case *ssa.BinOp:
				switch x.Op {
				case token.ADD, token.SUB, token.MUL:
					return invariant(x.X, depth+1) && invariant(x.Y, depth+1)
				}
			case *ssa.Convert:
				return invariant(x.X, depth+1)
			}
			return false
		}
		if !invariant(bound, 0) {
			continue
		}
		// every in-loop edge of the phi is phi + positive constant
		inc := true
		for i, e := range phi.Edges {
			if !body[phi.Block().Preds[i]] {
				continue
			}
			add, ok := e.(*ssa.BinOp)
			if !ok || add.Op != token.ADD || add.X != phi {
				inc = false
				continue
			}
			cs, ok := add.Y.(*ssa.Const)
			if !ok || cs.Value == nil || constant.Sign(cs.Value) <= 0 {
				inc = false
			}
		}
		if inc {
			return true, "counting loop: induction variable strictly increases towards a loop-invariant bound"
		}
	}
	return false, "no strictly increasing induction variable compared with a loop-invariant bound"
}

// rulePanicFree: the C10 obligations restricted to some packages (used by C18 for the configuration cone).
func (c *Ctx) rulePanicFree(pkgs ...string) {
	c.ruleNilDeref(pkgs...)
	c.ruleAsserts(pkgs...)
}

// isFuncObjectType: v is <*types.Func>.Type() (the promoted (*types.object).Type on the embedded object).
func isFuncObjectType(P *Program, v ssa.Value) bool {
	return P.RootsAll(v, func(r ssa.Value) bool {
		call, ok := r.(*ssa.Call)
		if !ok {
			return false
		}
		n := P.calleeName(call.Common())
		if n == "(*go/types.Func).Type" {
			return true
		}
		if n != "(*go/types.object).Type" || len(call.Call.Args) != 1 {
			return false
		}
		fa, ok := call.Call.Args[0].(*ssa.FieldAddr)
		return ok && typeStr(deref(fa.X.Type())) == "go/types.Func"
	})
}

// mapMadeByInitMethod: the written map is field F of the receiver, and the update is dominated by a call, on the
// same receiver, of a product method that stores make(...) into F whenever its own "initialised" flag is false
// and sets that flag (lazy initialisation helper called first).
func (c *Ctx) mapMadeByInitMethod(mu *ssa.MapUpdate) bool {
	u, ok := mu.Map.(*ssa.UnOp)
	if !ok {
		return false
	}
	fa, ok := u.X.(*ssa.FieldAddr)
	if !ok {
		return false
	}
	if c.mapInitBefore(mu.Parent(), mu, fa.X, fa) {
		return true
	}
	// the update sits in an unexported helper method of the object: every caller has initialised the receiver
	// before it calls the helper
	fn := mu.Parent()
	if fn.Parent() != nil || len(fn.Params) == 0 || fa.X != ssa.Value(fn.Params[0]) || (fn.Object() != nil && fn.Object().Exported()) {
		return false
	}
	callers := c.P.Callers(fn)
	if len(callers) == 0 {
		return false
	}
	for _, cs := range callers {
		args := cs.Common().Args
		if len(args) == 0 || !c.mapInitBefore(cs.Parent(), cs, args[0], fa) {
			return false
		}
	}
	return true
}

// mapInitBefore: in function fn, before instruction at, the object recv had its map field (fa.Field) allocated by
// one of the initialisation idioms.
func (c *Ctx) mapInitBefore(fn *ssa.Function, at ssa.Instruction, recv ssa.Value, fa *ssa.FieldAddr) bool {
	P := c.P
	recvD := P.Desc(recv)
	found := false
	allInstrs(fn, func(b *ssa.BasicBlock, ins ssa.Instruction) {
		call, ok := ins.(*ssa.Call)
		if !ok || !dominates(b, at.Block()) {
			return
		}
		if b == at.Block() {
			// same block: the call must come first
			before := false
			for _, i2 := range b.Instrs {
				if i2 == ins {
					before = true
					break
				}
				if i2 == at {
					break
				}
			}
			if !before {
				return
			}
		}
		callee := call.Call.StaticCallee()
		if callee == nil || !P.IsProductFunc(callee) || len(call.Call.Args) == 0 || len(callee.Params) == 0 || P.Desc(call.Call.Args[0]) != recvD {
			return
		}
		// callee: Store MakeMap -> recv.F guarded by !recv.Flag, and Store true -> recv.Flag in the same block
		allInstrs(callee, func(cb *ssa.BasicBlock, i2 ssa.Instruction) {
			st, ok := i2.(*ssa.Store)
			if !ok {
				return
			}
			fa2, ok := st.Addr.(*ssa.FieldAddr)
			if !ok || fa2.Field != fa.Field || fa2.X != callee.Params[0] {
				return
			}
			if _, isMk := st.Val.(*ssa.MakeMap); !isMk {
				return
			}
			// guarded by a negative load of a bool field that is set to true in the same block
			for _, l := range P.BlockGuards(cb) {
				if l.Kind != "cond" || l.Pos || l.Val == nil {
					continue
				}
				lu, ok := l.Val.(*ssa.UnOp)
				if !ok {
					continue
				}
				flag, ok := lu.X.(*ssa.FieldAddr)
				if !ok || flag.X != callee.Params[0] {
					continue
				}
				for _, i3 := range cb.Instrs {
					if s3, ok := i3.(*ssa.Store); ok {
						if f3, ok := s3.Addr.(*ssa.FieldAddr); ok && f3.Field == flag.Field && f3.X == callee.Params[0] {
							if cv, isC := constBool(s3.Val); isC && cv {
								// and the flag is set to true nowhere else in product code
								if c.flagOnlySetIn(flag, callee) {
									found = true
								}
							}
						}
					}
				}
			}
		})
		// second idiom: the callee makes sure the field is allocated - `if recv.F == nil { recv.F = make(...) }`
		// on every path to each of its returns
		if !found && c.calleeEnsuresMap(callee, fa.Field) {
			found = true
		}
	})
	if found {
		return true
	}
	// third idiom: the guard lives at the call - `if !recv.Flag { recv.reset() }` dominates the update, reset
	// stores a fresh map into the field and sets the flag, and nothing else sets the flag
	for _, b := range fn.Blocks {
		ifi, ok := lastInstr(b).(*ssa.If)
		if !ok || !dominates(b, at.Block()) || len(b.Succs) != 2 {
			continue
		}
		var flag *ssa.FieldAddr
		branch := 0
		for bi, val := range []bool{true, false} {
			for _, l := range literals(P.condFormula(ifi.Cond, 0), val) {
				if l.Kind != "cond" || l.Pos || l.Val == nil {
					continue
				}
				if lu, ok := l.Val.(*ssa.UnOp); ok {
					if f2, ok := lu.X.(*ssa.FieldAddr); ok && P.Desc(f2.X) == recvD {
						flag, branch = f2, bi
					}
				}
			}
		}
		if flag == nil {
			continue
		}
		// fourth idiom: the same written out in place - `if !recv.Flag { recv.F = make(...); recv.Flag = true }`
		{
			madeMap, setFlag := false, false
			for _, ins := range b.Succs[branch].Instrs {
				st, ok := ins.(*ssa.Store)
				if !ok {
					continue
				}
				f3, ok := st.Addr.(*ssa.FieldAddr)
				if !ok || P.Desc(f3.X) != recvD {
					continue
				}
				if _, isMk := st.Val.(*ssa.MakeMap); isMk && f3.Field == fa.Field {
					madeMap = true
				}
				if cv, isC := constBool(st.Val); isC && cv && f3.Field == flag.Field {
					setFlag = true
				}
			}
			if madeMap && setFlag && c.flagSetOnlyWithMap(flag, fa.Field) {
				return true
			}
		}
		for _, ins := range b.Succs[branch].Instrs {
			call, ok := ins.(*ssa.Call)
			if !ok {
				continue
			}
			callee := call.Call.StaticCallee()
			if callee == nil || !P.IsProductFunc(callee) || len(call.Call.Args) == 0 || len(callee.Params) == 0 || P.Desc(call.Call.Args[0]) != recvD {
				continue
			}
			madeMap, setFlag := false, false
			allInstrs(callee, func(cb *ssa.BasicBlock, i2 ssa.Instruction) {
				st, ok := i2.(*ssa.Store)
				if !ok || len(P.BlockGuards(cb)) != 0 {
					return
				}
				f3, ok := st.Addr.(*ssa.FieldAddr)
				if !ok || f3.X != ssa.Value(callee.Params[0]) {
					return
				}
				if _, isMk := st.Val.(*ssa.MakeMap); isMk && f3.Field == fa.Field {
					madeMap = true
				}
				if cv, isC := constBool(st.Val); isC && cv && f3.Field == flag.Field {
					setFlag = true
				}
			})
			if madeMap && setFlag && c.flagOnlySetIn(flag, callee) {
				return true
			}
		}
	}
	return false
}

// calleeEnsuresMap: a method that, on every path to every return, leaves recv.<field> non-nil: an
// `if recv.F == nil` whose true branch stores a fresh map into recv.F dominates all returns, and nothing in the
// method stores anything else into the field.
func (c *Ctx) calleeEnsuresMap(callee *ssa.Function, field int) bool {
	if len(callee.Params) == 0 || len(callee.Blocks) == 0 {
		return false
	}
	P := c.P
	recv := callee.Params[0]
	isField := func(v ssa.Value) bool {
		fa, ok := v.(*ssa.FieldAddr)
		return ok && fa.Field == field && fa.X == ssa.Value(recv)
	}
	okStores := true
	var makeBlocks []*ssa.BasicBlock
	allInstrs(callee, func(b *ssa.BasicBlock, ins ssa.Instruction) {
		if st, ok := ins.(*ssa.Store); ok && isField(st.Addr) {
			if _, isMk := st.Val.(*ssa.MakeMap); isMk {
				makeBlocks = append(makeBlocks, b)
			} else {
				okStores = false
			}
		}
	})
	if !okStores || len(makeBlocks) == 0 {
		return false
	}
	for _, b := range callee.Blocks {
		ifi, ok := lastInstr(b).(*ssa.If)
		if !ok {
			continue
		}
		nilTest := false
		for _, l := range literals(P.condFormula(ifi.Cond, 0), true) {
			if nv := nilCheckedValue(l); nv != nil && l.Pos {
				if u, ok := nv.(*ssa.UnOp); ok && isField(u.X) {
					nilTest = true
				}
			}
		}
		if !nilTest {
			continue
		}
		// the true branch makes the map
		made := false
		for _, mb := range makeBlocks {
			if dominates(b.Succs[0], mb) {
				made = true
			}
		}
		if !made {
			continue
		}
		all := true
		allInstrs(callee, func(rb *ssa.BasicBlock, ins ssa.Instruction) {
			if _, isRet := ins.(*ssa.Return); isRet && !dominates(b, rb) {
				all = false
			}
		})
		if all {
			return true
		}
	}
	return false
}

// flagSetOnlyWithMap: wherever product code sets the flag field, the same block stores a fresh map into field
// mapField of the same object (flag set => map allocated).
func (c *Ctx) flagSetOnlyWithMap(flag *ssa.FieldAddr, mapField int) bool {
	P := c.P
	n := P.moduleStruct(deref(flag.X.Type()))
	if n == nil {
		return false
	}
	ok := true
	for _, fn := range P.ModFuncs {
		allInstrs(fn, func(b *ssa.BasicBlock, ins ssa.Instruction) {
			st, isS := ins.(*ssa.Store)
			if !isS {
				return
			}
			fa, isF := st.Addr.(*ssa.FieldAddr)
			if !isF || fa.Field != flag.Field || P.moduleStruct(deref(fa.X.Type())) != n {
				return
			}
			if cv, isC := constBool(st.Val); isC && !cv {
				return
			}
			with := false
			for _, i2 := range b.Instrs {
				if s2, isS2 := i2.(*ssa.Store); isS2 {
					if f2, isF2 := s2.Addr.(*ssa.FieldAddr); isF2 && f2.Field == mapField && f2.X == fa.X {
						if _, isMk := s2.Val.(*ssa.MakeMap); isMk {
							with = true
						}
					}
				}
			}
			if !with {
				ok = false
			}
		})
	}
	return ok
}

func (c *Ctx) flagOnlySetIn(flag *ssa.FieldAddr, only *ssa.Function) bool {
	P := c.P
	n := P.moduleStruct(deref(flag.X.Type()))
	if n == nil {
		return false
	}
	ok := true
	for _, fn := range P.ModFuncs {
		if fn == only {
			continue
		}
		allInstrs(fn, func(b *ssa.BasicBlock, ins ssa.Instruction) {
			if st, isS := ins.(*ssa.Store); isS {
				if fa, isF := st.Addr.(*ssa.FieldAddr); isF && fa.Field == flag.Field && P.moduleStruct(deref(fa.X.Type())) == n {
					if cv, isC := constBool(st.Val); !isC || cv {
						ok = false
					}
				}
			}
		})
	}
	return ok
}
