package main

// C07: scope of an @ignore comment, and the report-time gate (REPORT-GATE), message format (C17).

import (
	"fmt"
	"go/token"
	"go/types"
	"os"
	"sort"
	"strconv"
	"strings"

	"golang.org/x/tools/go/ssa"
)

type phiLeaf struct {
	Val    ssa.Value
	Guards []Lit
}

// phiLeaves enumerates the non-phi origins of v together with the literals that hold on the way
// (edge guards of every phi edge taken).
func (c *Ctx) phiLeaves(v ssa.Value, acc []Lit, depth int) []phiLeaf {
	P := c.P
	phi, ok := v.(*ssa.Phi)
	if !ok || depth > 6 {
		g := acc
		if ins, isIns := v.(ssa.Instruction); isIns && ins.Block() != nil && len(acc) == 0 {
			g = P.BlockGuards(ins.Block())
		}
		return []phiLeaf{{Val: v, Guards: dedupLits(g)}}
	}
	var out []phiLeaf
	for i, e := range phi.Edges {
		eg := P.EdgeGuards(phi.Block().Preds[i], phi.Block())
		out = append(out, c.phiLeaves(e, append(append([]Lit{}, acc...), eg...), depth+1)...)
	}
	return out
}

// pairCase: one way the pair (S, E) is chosen, with the conditions of that way and the calling context (helpers
// entered) in which S, E and the conditions have to be read.
type pairCase struct {
	S, E   ssa.Value
	Guards []Lit
	Pins   pinMap
}

// pairCases splits two values that are selected together - two phis of one block, or two results of one call of a
// product helper - into their alternatives.
func (c *Ctx) pairCases(s, e ssa.Value, acc []Lit, pins pinMap, depth int) []pairCase {
	P := c.P
	leaf := []pairCase{{s, e, dedupLits(acc), pins}}
	if depth > 5 {
		return leaf
	}
	sp, sok := s.(*ssa.Phi)
	ep, eok := e.(*ssa.Phi)
	if sok && eok && sp.Block() == ep.Block() {
		var out []pairCase
		for i := range ep.Edges {
			var g []Lit
			P.PinnedAll(pins, func() { g = P.EdgeGuards(ep.Block().Preds[i], ep.Block()) })
			out = append(out, c.pairCases(sp.Edges[i], ep.Edges[i], append(append([]Lit{}, acc...), g...), pins, depth+1)...)
		}
		return out
	}
	// only one of the two is selected at a join (`end := next(); if end == NoPos { end = comment.End() }`)
	if eok != sok || (eok && sok) {
		one, isEnd := ep, true
		if !eok {
			one, isEnd = sp, false
		}
		var out []pairCase
		for i := range one.Edges {
			var g []Lit
			P.PinnedAll(pins, func() { g = P.EdgeGuards(one.Block().Preds[i], one.Block()) })
			ns, ne := s, e
			if isEnd {
				ne = one.Edges[i]
			} else {
				ns = one.Edges[i]
			}
			out = append(out, c.pairCases(ns, ne, append(append([]Lit{}, acc...), g...), pins, depth+1)...)
		}
		return out
	}
	sx, sok2 := s.(*ssa.Extract)
	ex, eok2 := e.(*ssa.Extract)
	if sok2 && eok2 && sx.Tuple == ex.Tuple {
		if call, ok := sx.Tuple.(*ssa.Call); ok {
			callee := call.Call.StaticCallee()
			if callee != nil && P.IsProductFunc(callee) && len(callee.Blocks) > 0 && !P.isAnchor(callee) && pins[callee] == nil {
				np := pinMap{}
				for f, cs := range pins {
					np[f] = cs
				}
				np[callee] = call
				var out []pairCase
				allInstrs(callee, func(b *ssa.BasicBlock, ins ssa.Instruction) {
					r, ok := ins.(*ssa.Return)
					if !ok || sx.Index >= len(r.Results) || ex.Index >= len(r.Results) {
						return
					}
					var g []Lit
					P.PinnedAll(np, func() { g = P.BlockGuards(b) })
					out = append(out, c.pairCases(r.Results[sx.Index], r.Results[ex.Index], append(append([]Lit{}, acc...), g...), np, depth+1)...)
				})
				if len(out) > 0 {
					return out
				}
			}
		}
	}
	// one of the two is what a product helper answers (`end = scopeEndAfterComment(file, comment)`): one case per
	// return of the helper, under its conditions, in the context of this call
	for _, isEnd := range []bool{true, false} {
		v := s
		if isEnd {
			v = e
		}
		call, ok := v.(*ssa.Call)
		if !ok {
			continue
		}
		callee := call.Call.StaticCallee()
		if callee == nil || !P.IsProductFunc(callee) || len(callee.Blocks) == 0 || P.isAnchor(callee) || pins[callee] != nil || callee.Signature.Results().Len() != 1 {
			continue
		}
		nRet := 0
		allInstrs(callee, func(_ *ssa.BasicBlock, ins ssa.Instruction) {
			if _, ok := ins.(*ssa.Return); ok {
				nRet++
			}
		})
		if nRet < 2 {
			continue
		}
		np := pinMap{}
		for f, cs := range pins {
			np[f] = cs
		}
		np[callee] = call
		var out []pairCase
		allInstrs(callee, func(b *ssa.BasicBlock, ins ssa.Instruction) {
			r, ok := ins.(*ssa.Return)
			if !ok || len(r.Results) != 1 {
				return
			}
			var g []Lit
			P.PinnedAll(np, func() { g = P.BlockGuards(b) })
			ns, ne := s, e
			if isEnd {
				ne = r.Results[0]
			} else {
				ns = r.Results[0]
			}
			out = append(out, c.pairCases(ns, ne, append(append([]Lit{}, acc...), g...), np, depth+1)...)
		})
		if len(out) > 0 {
			return out
		}
	}
	return leaf
}

func hasLit(ls []Lit, pred func(Lit) bool) bool {
	for _, l := range ls {
		ok := false
		l.In(curP, func() { ok = pred(l) })
		if ok {
			return true
		}
	}
	return false
}

// ruleIgnoreScope: the (start, end) handed to the @ignore parser for each of the four placements.
func (c *Ctx) ruleIgnoreScope() {
	P := c.P
	var ps *parseSite
	var pss []*parseSite
	for _, s := range c.parseSites() {
		if s.Keyword == "@ignore" {
			ps = s
			pss = append(pss, s)
		}
	}
	if ps == nil || len(ps.Call.Call.Args) != 3 {
		c.fail("SCOPE", "ignore.ReadIgnoreAnnotations", "", "call of the @ignore parser with (text, start, end) not found")
		return
	}
	where := P.Pos(ps.Call.Pos())
	name := FuncName(ps.Call.Parent())
	startV, endV := ps.Call.Call.Args[1], ps.Call.Call.Args[2]
	// the comment whose text is parsed
	var comment ssa.Value
	for _, r := range P.Resolve(ps.Text) {
		comment = fieldLoad(r, "go/ast.Comment", "Text")
	}
	if comment == nil {
		c.fail("SCOPE", name, where, "cannot identify the comment being parsed")
		return
	}
	cD := P.Desc(comment)
	fileD := "iterelem0(call((*config.Config).FilterFiles;"
	isCommentPos := func(v ssa.Value) bool {
		return P.RootsAll(v, func(r ssa.Value) bool {
			call := P.CallTo(r, "(*go/ast.Comment).Pos")
			return call != nil && P.Desc(call.Call.Args[0]) == cD
		})
	}
	isCommentEnd := func(v ssa.Value) bool {
		return P.RootsAll(v, func(r ssa.Value) bool {
			call := P.CallTo(r, "(*go/ast.Comment).End")
			return call != nil && P.Desc(call.Call.Args[0]) == cD
		})
	}
	// atoms
	beforePackage := func(l Lit) bool {
		return l.Kind == "lt" && isCommentPos(l.X) && P.RootsAll(l.Y, func(r ssa.Value) bool {
			b := fieldLoad(r, "go/ast.File", "Package")
			return b != nil && strings.HasPrefix(P.Desc(b), fileD)
		})
	}
	inlineCallOf := func(v ssa.Value) *ssa.Call {
		ex, ok := v.(*ssa.Extract)
		if !ok {
			return nil
		}
		call, ok := ex.Tuple.(*ssa.Call)
		if !ok || call.Call.StaticCallee() == nil || FuncName(call.Call.StaticCallee()) != "ignore.findInlineNode" {
			return nil
		}
		a := call.Call.Args
		if len(a) != 3 || !strings.HasPrefix(P.Desc(a[0]), fileD) || P.Desc(a[1]) != cD || !c.P.isPassField(a[2], "Fset") {
			return nil
		}
		return call
	}
	isInlineFound := func(l Lit) bool {
		if l.Kind != "cond" || l.Val == nil {
			return false
		}
		ex, ok := l.Val.(*ssa.Extract)
		return ok && ex.Index == 2 && inlineCallOf(ex) != nil
	}
	nextCallOf := func(v ssa.Value) *ssa.Call {
		call, ok := v.(*ssa.Call)
		if !ok || call.Call.StaticCallee() == nil || FuncName(call.Call.StaticCallee()) != "ignore.findNextNodeAfterComment" {
			return nil
		}
		a := call.Call.Args
		if len(a) != 2 || !strings.HasPrefix(P.Desc(a[0]), fileD) || !isCommentPos(a[1]) {
			return nil
		}
		return call
	}
	nextIsNoPos := func(l Lit) bool {
		return l.Kind == "eq" && ((isZeroPos(l.X) && nextCallOf(l.Y) != nil) || (isZeroPos(l.Y) && nextCallOf(l.X) != nil))
	}

	leaves := c.pairCases(startV, endV, nil, nil, 0)
	if len(pss) > 1 {
		// one call of the parser per placement (`return parse(text, start, file.End())` under each test): the
		// conditions of each call select its pair
		leaves = nil
		for _, s := range pss {
			if len(s.Call.Call.Args) != 3 || s.Call.Parent() != ps.Call.Parent() || P.Desc(s.Text) != P.Desc(ps.Text) {
				c.undecided("SCOPE", name, where, "several calls of the @ignore parser that do not parse the same comment in one function: shape not recognised")
				return
			}
			leaves = append(leaves, c.pairCases(s.Call.Call.Args[1], s.Call.Call.Args[2], P.BlockGuards(s.Call.Block()), nil, 0)...)
		}
	}
	if len(leaves) < 2 {
		c.undecided("SCOPE", name, where, "start/end of the @ignore scope are not selected in one place (a pair of phis, or the two results of one helper): shape not recognised")
		return
	}
	seen := map[string]bool{}
	for i, lf := range leaves {
		P.PinnedAll(lf.Pins, func() {
			g := lf.Guards
			s, e := lf.S, lf.E
			pos := func(pred func(Lit) bool) bool { return hasLit(g, func(l Lit) bool { return l.Pos && pred(l) }) }
			neg := func(pred func(Lit) bool) bool { return hasLit(g, func(l Lit) bool { return !l.Pos && pred(l) }) }
			var kind string
			switch {
			case pos(beforePackage):
				kind = "file-level"
				okE := P.RootsAll(e, func(r ssa.Value) bool {
					call := P.CallTo(r, "(*go/ast.File).End")
					return call != nil && strings.HasPrefix(P.Desc(call.Call.Args[0]), fileD)
				})
				c.check(isCommentPos(s) && okE, "SCOPE/FILE-LEVEL", name, where, "comment before the package clause: [comment.Pos(), file.End()]", "a comment before the package clause does not get the scope [comment.Pos(), file.End()]: "+short(P.Desc(e)))
			case neg(beforePackage) && pos(isInlineFound):
				kind = "inline"
				cs, ce := inlineCallOf(s), inlineCallOf(e)
				okS := cs != nil && s.(*ssa.Extract).Index == 0
				okE := ce != nil && e.(*ssa.Extract).Index == 1
				c.check(okS && okE && cs == ce, "SCOPE/INLINE", name, where, "trailing comment: the range computed by findInlineNode", "a trailing comment does not get the (start, end) computed by findInlineNode")
			case neg(beforePackage) && neg(isInlineFound) && neg(nextIsNoPos):
				kind = "standalone"
				c.check(isCommentPos(s) && nextCallOf(e) != nil, "SCOPE/STANDALONE", name, where, "stand-alone comment: [comment.Pos(), findNextNodeAfterComment(file, comment.Pos())]", "a stand-alone comment does not get the scope [comment.Pos(), end of the next declaration/node]: "+short(P.Desc(e)))
			case neg(beforePackage) && neg(isInlineFound) && pos(nextIsNoPos):
				kind = "standalone-last"
				c.check(isCommentPos(s) && isCommentEnd(e), "SCOPE/STANDALONE-LAST", name, where, "nothing follows: the comment itself", "a stand-alone comment with nothing after it does not get the scope of the comment itself")
			default:
				c.fail("SCOPE/PLACEMENT", fmt.Sprintf("%s#edge%d", name, i), where, "scope selected under conditions that are none of: before the package clause / trailing code (findInlineNode) / stand-alone: "+strings.Join(litKeysShort(g), "; "))
				return
			}
			seen[kind] = true
		})
	}
	for _, k := range []string{"file-level", "inline", "standalone", "standalone-last"} {
		if !seen[k] {
			c.fail("SCOPE/PLACEMENT", name+"#"+k, where, "no scope is computed for placement "+k)
		}
	}
	c.scopeNextNode()
	c.scopeInline()
}

// scopeNextNode: findNextNodeAfterComment returns the END of the declaration that follows the comment, or the END
// of the first node inside the enclosing declaration that starts after the comment.
func (c *Ctx) scopeNextNode() {
	P := c.P
	fn := P.LookupFunc("ignore", "findNextNodeAfterComment")
	if fn == nil {
		c.fail("SCOPE-END", "ignore.findNextNodeAfterComment", "", "function not found")
		return
	}
	name := FuncName(fn)
	commentPos := P.Desc(fn.Params[1])
	commentPosDeep := P.DescDeep(fn.Params[1])
	declsOf := func(d string) bool {
		return strings.HasPrefix(d, "elem[?](field(") && strings.Contains(d, "go/ast.File.Decls)")
	}
	nEnd := 0
	var check func(v ssa.Value, at ssa.Instruction, guards []Lit)
	check = func(v ssa.Value, at ssa.Instruction, guards []Lit) {
		where := P.Pos(at.Pos())
		if cs, ok := v.(*ssa.Const); ok && cs.Value != nil && cs.Value.ExactString() == "0" {
			return // NoPos
		}
		call, ok := v.(*ssa.Call)
		if !ok {
			c.fail("SCOPE-END", name, where, "scope end is not the End() of a node: "+short(P.Desc(v)))
			return
		}
		n := P.calleeName(call.Common())
		if !strings.HasSuffix(n, ".End") {
			c.fail("SCOPE-END", name, where, "scope of a stand-alone @ignore ends at "+n+" of the following node, not at its End(): a diagnostic anchored inside the statement is not covered")
			return
		}
		var node ssa.Value
		if call.Call.IsInvoke() {
			node = call.Call.Value
		} else {
			node = call.Call.Args[0]
		}
		nd := P.Desc(node)
		// the node starts after the comment: +lt(commentPos, node.Pos())
		after := hasLit(guards, func(l Lit) bool {
			if l.Kind != "lt" || !l.Pos || (P.Desc(l.X) != commentPos && P.DescDeep(l.X) != commentPosDeep) {
				return false
			}
			return P.RootsAll(l.Y, func(r ssa.Value) bool {
				pc, ok := r.(*ssa.Call)
				if !ok || !strings.HasSuffix(P.calleeName(pc.Common()), ".Pos") {
					return false
				}
				var pn ssa.Value
				if pc.Call.IsInvoke() {
					pn = pc.Call.Value
				} else {
					pn = pc.Call.Args[0]
				}
				return P.Desc(pn) == nd
			})
		})
		okNode := declsOf(nd) || strings.HasPrefix(nd, "cbparam0(go/ast.Inspect; elem[?](field(")
		nEnd++
		c.check(after && okNode, "SCOPE-END", fmt.Sprintf("%s#end%d", name, nEnd), where, "ends at End() of a node that starts after the comment",
			"scope end is not End() of a declaration/node that starts after the comment: "+short(nd))
		// inside the walk: once the node is recorded, the walk does not descend into it - its children (a doc or
		// line comment group attached to a spec starts before the spec) must not replace it
		if wf := at.Parent(); wf != fn && at.Block() != nil {
			seen := map[*ssa.BasicBlock]bool{}
			work := []*ssa.BasicBlock{at.Block()}
			prunes, nRet := true, 0
			for len(work) > 0 {
				b := work[len(work)-1]
				work = work[:len(work)-1]
				if seen[b] {
					continue
				}
				seen[b] = true
				if r, ok := lastInstr(b).(*ssa.Return); ok && len(r.Results) == 1 {
					nRet++
					if cv, isC := constBool(r.Results[0]); !isC || cv {
						// (a visitor prunes by returning nil)
						if cs, isNil := r.Results[0].(*ssa.Const); !isNil || !cs.IsNil() || P.visitorWalk(at.Parent()) == nil {
							prunes = false
						}
					}
				}
				work = append(work, b.Succs...)
			}
			c.check(prunes && nRet > 0, "SCOPE-END/FIRST-NODE", fmt.Sprintf("%s#end%d", name, nEnd), where, "the walk does not descend below the node it has recorded",
				"after recording the node that follows the comment the walk goes on into that node: a child that starts after the comment but before the node (the comment group attached to a declaration) replaces it, and the scope shrinks to that comment")
		}
	}
	var analyse func(fn *ssa.Function, outer []Lit, depth int)
	analyse = func(fn *ssa.Function, outer []Lit, depth int) {
		allInstrs(fn, func(b *ssa.BasicBlock, ins ssa.Instruction) {
			r, ok := ins.(*ssa.Return)
			if !ok || len(r.Results) != 1 {
				return
			}
			v := r.Results[0]
			// the search inside the declaration may live in a helper: its results, with the helper entered from here
			if call, isCall := v.(*ssa.Call); isCall && depth < 2 {
				if h := call.Call.StaticCallee(); h != nil && P.IsProductFunc(h) && len(h.Blocks) > 0 && !P.isAnchor(h) && !strings.HasSuffix(P.calleeName(call.Common()), ".End") {
					P.PinnedAll(pinMap{h: call}, func() { analyse(h, append(append([]Lit{}, outer...), P.BlockGuards(b)...), depth+1) })
					return
				}
			}
			if u, ok := v.(*ssa.UnOp); ok {
				if cell := P.cellOf(u.X); cell != nil {
					_, stores, _ := P.CellStores(cell)
					for _, st := range stores {
						check(st.Val, st, append(append([]Lit{}, outer...), P.GuardsWithin(st, fn)...))
					}
					return
				}
				// the search state may be a field of a finder object local to this function, assigned by the walk
				// callback (a method of that object)
				if fa, ok := u.X.(*ssa.FieldAddr); ok {
					if n := P.moduleStruct(deref(fa.X.Type())); n != nil {
						if a, isLocal := fa.X.(*ssa.Alloc); isLocal && a.Parent() == fn {
							for _, f := range P.ModFuncs {
								allInstrs(f, func(_ *ssa.BasicBlock, i2 ssa.Instruction) {
									st, ok := i2.(*ssa.Store)
									if !ok {
										return
									}
									fa2, ok := st.Addr.(*ssa.FieldAddr)
									if !ok || fa2.Field != fa.Field || P.moduleStruct(deref(fa2.X.Type())) != n {
										return
									}
									check(st.Val, st, P.GuardsWithin(st, fn))
								})
							}
							return
						}
					}
				}
			}
			for _, leaf := range c.phiLeaves(v, nil, 0) {
				g := leaf.Guards
				if len(g) == 0 {
					g = P.BlockGuards(b)
				}
				check(leaf.Val, r, append(append(g, P.BlockGuards(b)...), outer...))
			}
		})
	}
	analyse(fn, nil, 0)
	c.floor("scope ends computed by findNextNodeAfterComment", nEnd, 2)
	// the declaration index: first declaration whose End() lies after the comment
	c.checkDeclSearch(fn, commentPos)
}

// checkDeclSearch: idx := sort.Search(len(file.Decls), func(i) { return file.Decls[i].End() > commentPos })
func (c *Ctx) checkDeclSearch(fn *ssa.Function, commentPos string) {
	P := c.P
	n := 0
	// the search may sit in fn itself or in a helper it shares with its sibling (read in fn's calling context)
	pins, family := P.ContextPins(fn)
	var fams []*ssa.Function
	for f := range family {
		if f.Parent() == nil && (f == fn || !P.isAnchor(f)) {
			fams = append(fams, f)
		}
	}
	sort.Slice(fams, func(i, j int) bool { return FuncName(fams[i]) < FuncName(fams[j]) })
	P.PinnedAll(pins, func() {
		for _, f := range fams {
			allInstrs(f, func(b *ssa.BasicBlock, ins ssa.Instruction) {
				call, ok := ins.(*ssa.Call)
				if !ok || P.CallTo(call, "sort.Search") == nil {
					return
				}
				n++
				okLen := strings.HasPrefix(P.Desc(call.Call.Args[0]), "call(builtin len; field(") && strings.Contains(P.Desc(call.Call.Args[0]), "go/ast.File.Decls)")
				okPred := false
				for _, r := range P.Resolve(call.Call.Args[1]) {
					if mc, ok := r.(*ssa.MakeClosure); ok {
						pf := mc.Fn.(*ssa.Function)
						allInstrs(pf, func(_ *ssa.BasicBlock, i2 ssa.Instruction) {
							if ret, ok := i2.(*ssa.Return); ok && len(ret.Results) == 1 {
								f := P.condFormula(ret.Results[0], 0)
								for _, l := range literals(f, true) {
									// commentPos < Decls[i].End()
									if l.Kind == "lt" && l.Pos && strings.Contains(P.Desc(l.Y), ".End; elem[?](field(") && strings.Contains(P.Desc(l.Y), "go/ast.File.Decls)") {
										okPred = true
									}
								}
							}
						})
					}
				}
				c.check(okLen && okPred, "SCOPE/DECL-SEARCH", FuncName(fn), P.Pos(call.Pos()), "binary search for the first declaration ending after the comment", "the declaration search is not `first i with file.Decls[i].End() > commentPos` over all declarations")
			})
		}
	})
	c.floor("declaration searches in "+FuncName(fn), n, 1)
}

// scopeInline: findInlineNode — a trailing comment covers its own physical line:
// start = File.LineStart(line) with line taken from a position NOT adjusted by //line directives,
// end = comment.End(); "trailing" means some node that starts before the comment ends on the comment's line.
// tupleOutcome: one way a multi-result function returns: the result values, where (in the function itself) and in
// which calling context (helpers entered by `return helper(...)`) they have to be read.
type tupleOutcome struct {
	Results []ssa.Value
	At      *ssa.Return // the return statement of the function itself
	Pins    pinMap
	Guards  []Lit // guards of the helper's return statement(s) (not those of At's block)
}

// tupleOutcomes lists the returns of fn; `return helper(args)` (all results taken from one call of a non-anchor
// product helper) is replaced by the helper's own returns.
func (c *Ctx) tupleOutcomes(fn *ssa.Function) []tupleOutcome {
	P := c.P
	var out []tupleOutcome
	var expand func(rs []ssa.Value, at *ssa.Return, pins pinMap, g []Lit, depth int)
	expand = func(rs []ssa.Value, at *ssa.Return, pins pinMap, g []Lit, depth int) {
		var call *ssa.Call
		all := len(rs) > 1 && depth < 4
		for i, r := range rs {
			ex, ok := r.(*ssa.Extract)
			if !ok || ex.Index != i {
				all = false
				break
			}
			cl, ok := ex.Tuple.(*ssa.Call)
			if !ok || (call != nil && cl != call) {
				all = false
				break
			}
			call = cl
		}
		if all && call != nil {
			callee := call.Call.StaticCallee()
			if callee != nil && P.IsProductFunc(callee) && len(callee.Blocks) > 0 && !P.isAnchor(callee) && pins[callee] == nil {
				np := pinMap{}
				for k, v := range pins {
					np[k] = v
				}
				np[callee] = call
				allInstrs(callee, func(b *ssa.BasicBlock, ins ssa.Instruction) {
					if r, ok := ins.(*ssa.Return); ok && len(r.Results) == len(rs) {
						var hg []Lit
						P.PinnedAll(np, func() { hg = P.BlockGuards(b) })
						expand(r.Results, at, np, append(append([]Lit{}, g...), hg...), depth+1)
					}
				})
				return
			}
		}
		out = append(out, tupleOutcome{rs, at, pins, g})
	}
	allInstrs(fn, func(b *ssa.BasicBlock, ins ssa.Instruction) {
		if r, ok := ins.(*ssa.Return); ok {
			expand(r.Results, r, nil, nil, 0)
		}
	})
	return out
}

func (c *Ctx) scopeInline() {
	P := c.P
	fn := P.LookupFunc("ignore", "findInlineNode")
	if fn == nil {
		c.fail("SCOPE/INLINE-RANGE", "ignore.findInlineNode", "", "function not found")
		return
	}
	name := FuncName(fn)
	commentD := P.Desc(fn.Params[1])
	isLineOfComment := func(v ssa.Value) bool {
		return P.RootsAll(v, func(r ssa.Value) bool {
			b := fieldLoad(r, "go/token.Position", "Line")
			if b == nil {
				return false
			}
			return P.RootsAll(b, func(q ssa.Value) bool {
				pc := P.CallTo(q, "(*go/token.FileSet).PositionFor")
				if pc == nil {
					return false
				}
				cv, isC := constBool(pc.Call.Args[2])
				return isC && !cv && strings.Contains(P.Desc(pc.Call.Args[1]), "(*go/ast.Comment).Pos; "+commentD)
			})
		})
	}
	nTrue := 0
	for _, to := range c.tupleOutcomes(fn) {
		to := to
		if len(to.Results) != 3 {
			continue
		}
		P.PinnedAll(to.Pins, func() {
			r := struct{ Results []ssa.Value }{to.Results}
			b := to.At.Block()
			cv, isC := constBool(r.Results[2])
			where := P.Pos(to.At.Pos())
			if !isC {
				c.fail("SCOPE/INLINE-RANGE", name, where, "found-flag is not a constant on this return")
				return
			}
			if !cv {
				return
			}
			nTrue++
			okStart := P.RootsAll(r.Results[0], func(x ssa.Value) bool {
				ls := P.CallTo(x, "(*go/token.File).LineStart")
				if ls == nil {
					return false
				}
				okFile := P.RootsAll(ls.Call.Args[0], func(f ssa.Value) bool {
					fc := P.CallTo(f, "(*go/token.FileSet).File")
					return fc != nil && strings.Contains(P.Desc(fc.Call.Args[1]), "(*go/ast.Comment).Pos; "+commentD)
				})
				return okFile && isLineOfComment(ls.Call.Args[1])
			})
			okEnd := P.RootsAll(r.Results[1], func(x ssa.Value) bool {
				ec := P.CallTo(x, "(*go/ast.Comment).End")
				return ec != nil && P.Desc(ec.Call.Args[0]) == commentD
			})
			c.check(okStart && okEnd, "SCOPE/INLINE-RANGE", fmt.Sprintf("%s#found%d", name, nTrue), where,
				"[start of the comment's physical line, comment.End()]",
				"an inline @ignore does not cover exactly [File.LineStart(<unadjusted line of the comment>), comment.End()]: "+short(P.Desc(r.Results[0])))
			// why is it inline: a node/declaration before the comment ends on the comment's line
			just := P.BlockCutBy(b, func(l Lit) bool {
				if l.Kind == "eq" && l.Pos && (isLineOfComment(l.X) || isLineOfComment(l.Y)) {
					other := l.X
					if isLineOfComment(l.X) {
						other = l.Y
					}
					return strings.Contains(P.Desc(other), ".End;") && strings.Contains(P.Desc(other), "(*go/token.FileSet).PositionFor")
				}
				// the flag set by the inner walk
				if l.Kind == "cond" && l.Pos {
					return c.flagMeansCodeOnLine(l.Val, fn, isLineOfComment)
				}
				return false
			})
			c.check(just, "SCOPE/INLINE-WHEN", fmt.Sprintf("%s#found%d", name, nTrue), where, "inline iff code that starts before the comment ends on the comment's line",
				"a comment is treated as trailing without a node/declaration ending on its line before it")
			// a comment trailing the LAST declaration of the file lies after every declaration (the search index is
			// len(Decls)); the "previous declaration ends on this line" case must not require idx < len(Decls)
			viaPrev := hasLit(P.BlockGuards(b), func(l Lit) bool {
				return l.Kind == "eq" && l.Pos && (isLineOfComment(l.X) || isLineOfComment(l.Y)) && strings.Contains(P.Desc(l.X)+P.Desc(l.Y), "go/ast.File.Decls")
			})
			if viaPrev {
				restricts := hasLit(P.BlockGuards(b), func(l Lit) bool {
					return l.Kind == "lt" && l.Pos && strings.HasPrefix(P.Desc(l.X), "call(sort.Search;") && strings.HasPrefix(P.Desc(l.Y), "call(builtin len; field(") && strings.Contains(P.Desc(l.Y), "go/ast.File.Decls)")
				})
				c.check(!restricts, "SCOPE/INLINE-LAST-DECL", fmt.Sprintf("%s#found%d", name, nTrue), where, "also for a comment after the last declaration of the file",
					"a trailing @ignore on the last declaration of a file is not recognised as inline (the trailing-declaration case requires a following declaration)")
			}
		})
	}
	c.floor("inline-found returns", nTrue, 1)
	// LINE-UNADJ for every LineStart in product code
	nLS := 0
	for _, f := range P.ModFuncs {
		allInstrs(f, func(b *ssa.BasicBlock, ins ssa.Instruction) {
			call, ok := ins.(*ssa.Call)
			if !ok || P.CallTo(call, "(*go/token.File).LineStart") == nil {
				return
			}
			nLS++
			okU := P.RootsAll(call.Call.Args[1], func(r ssa.Value) bool {
				bb := fieldLoad(r, "go/token.Position", "Line")
				if bb == nil {
					return false
				}
				return P.RootsAll(bb, func(q ssa.Value) bool {
					pc := P.CallTo(q, "(*go/token.FileSet).PositionFor")
					if pc == nil {
						return false
					}
					cv, isC := constBool(pc.Call.Args[2])
					return isC && !cv
				})
			})
			c.check(okU, "LINE-UNADJ", FuncName(f), P.Pos(call.Pos()), "LineStart receives a physical line (PositionFor(p, false).Line)",
				"token.File.LineStart is given a line number that may be adjusted by //line directives (fset.Position): it panics with 'invalid line number'")
		})
	}
	c.floor("token.File.LineStart calls", nLS, 1)
}

// flagMeansCodeOnLine: v is a load of a local bool cell whose only `true` store (in the walk closure) is guarded by
// "node starts before the comment" and "node ends on the comment's line".
func (c *Ctx) flagMeansCodeOnLine(v ssa.Value, fn *ssa.Function, isLineOfComment func(ssa.Value) bool) bool {
	P := c.P
	// the search may live in a helper that returns the flag
	if call, isCall := v.(*ssa.Call); isCall {
		callee := call.Call.StaticCallee()
		if callee == nil || !P.IsProductFunc(callee) || len(callee.Blocks) == 0 || P.isAnchor(callee) {
			return false
		}
		var ret *ssa.Return
		n := 0
		allInstrs(callee, func(_ *ssa.BasicBlock, ins ssa.Instruction) {
			if r, ok := ins.(*ssa.Return); ok {
				ret, n = r, n+1
			}
		})
		if n != 1 || len(ret.Results) != 1 {
			return false
		}
		res := false
		P.PinnedAll(pinMap{callee: call}, func() { res = c.flagMeansCodeOnLine(ret.Results[0], callee, isLineOfComment) })
		return res
	}
	// the flag is chosen between two computations (inside a declaration: the search; between declarations: the
	// previous declaration ends on the comment's line)
	if ph, isPhi := v.(*ssa.Phi); isPhi {
		all, some := true, false
		for i, e := range ph.Edges {
			if cv, isC := constBool(e); isC {
				if cv {
					all = false
				}
				continue
			}
			if _, isCall := e.(*ssa.Call); isCall {
				if c.flagMeansCodeOnLine(e, fn, isLineOfComment) {
					some = true
				} else {
					all = false
				}
				continue
			}
			sameLine := false
			for _, l := range literals(P.condFormula(e, 0), true) {
				if l.Kind == "eq" && l.Pos && (isLineOfComment(l.X) || isLineOfComment(l.Y)) && strings.Contains(P.Desc(l.X)+P.Desc(l.Y), ".End;") && strings.Contains(P.Desc(l.X)+P.Desc(l.Y), "(*go/token.FileSet).PositionFor") {
					sameLine = true
				}
			}
			restricts := hasLit(P.BlockGuards(ph.Block().Preds[i]), func(l Lit) bool {
				return l.Kind == "lt" && l.Pos && strings.HasPrefix(P.Desc(l.Y), "call(builtin len; field(") && strings.Contains(P.Desc(l.Y), "go/ast.File.Decls)")
			})
			if sameLine && !restricts {
				some = true
			} else {
				all = false
			}
		}
		return all && some
	}
	u, ok := v.(*ssa.UnOp)
	if !ok {
		return false
	}
	cell := P.cellOf(u.X)
	if cell == nil {
		return false
	}
	_, stores, _ := P.CellStores(cell)
	sawTrue := false
	lineKinds := map[string]bool{}
	walked := false
	defer func() {
		if os.Getenv("GGV_DEBUG_INLINE") != "" {
			fmt.Printf("DEBUG flagMeans fn=%s walked=%v sawTrue=%v kinds=%v\n", FuncName(fn), walked, sawTrue, lineKinds)
		}
		if walked && sawTrue && !(lineKinds["start"] && lineKinds["end"]) && c.once("trails-code "+FuncName(fn)) {
			c.fail("SCOPE/INLINE-TRAILS-CODE", FuncName(fn), P.Pos(fn.Pos()), "a comment counts as trailing code only if a node ENDS on its line: `{ // @ignore CODE` after the opening brace of a multi-line literal or block (also `for {`, `switch {`, `default:`) is treated as stand-alone, and the diagnostic displayed on that line is not removed by it")
		}
	}()
	for _, st := range stores {
		cv, isC := constBool(st.Val)
		if !isC {
			// a computed flag: `flag = idx > 0 && <previous declaration ends on the comment's line>` - true only
			// together with the line equality; the case must not be restricted to comments that are followed by
			// another declaration
			sameLine := false
			for _, l := range literals(P.condFormula(st.Val, 0), true) {
				if l.Kind == "eq" && l.Pos && (isLineOfComment(l.X) || isLineOfComment(l.Y)) && strings.Contains(P.Desc(l.X)+P.Desc(l.Y), ".End;") && strings.Contains(P.Desc(l.X)+P.Desc(l.Y), "(*go/token.FileSet).PositionFor") {
					sameLine = true
				}
			}
			restricts := hasLit(P.GuardsWithin(st, fn), func(l Lit) bool {
				return l.Kind == "lt" && l.Pos && strings.HasPrefix(P.Desc(l.Y), "call(builtin len; field(") && strings.Contains(P.Desc(l.Y), "go/ast.File.Decls)")
			})
			if !sameLine || restricts {
				return false
			}
			sawTrue = true
			continue
		}
		if !cv {
			continue
		}
		g := P.GuardsWithin(st, fn)
		// "code on the comment's line": a node that starts before the comment has a token on that line - it ends
		// there (`x := 1 // ...`) or it starts there (`{ // ...`, `for { // ...`, `default: // ...`)
		lineEq := func(l Lit, what string) bool {
			if l.Kind != "eq" || !l.Pos {
				return false
			}
			other := l.X
			switch {
			case isLineOfComment(l.X):
				other = l.Y
			case isLineOfComment(l.Y):
			default:
				return false
			}
			return strings.Contains(P.Desc(other), what)
		}
		sameLine := false
		for _, l := range g {
			if lineEq(l, ".End;") {
				sameLine = true
				lineKinds["end"] = true
			}
			if lineEq(l, ".Pos;") {
				sameLine = true
				lineKinds["start"] = true
			}
			var disj []Lit
			switch {
			case l.Kind == "or" && l.Pos:
				disj = l.Subs
			case l.Kind == "and" && !l.Pos: // !(a && b) == !a || !b
				for _, sl := range l.Subs {
					sl.Pos = !sl.Pos
					disj = append(disj, sl)
				}
			}
			if len(disj) > 0 {
				all := true
				for _, sl := range disj {
					switch {
					case lineEq(sl, ".End;"):
						lineKinds["end"] = true
					case lineEq(sl, ".Pos;"):
						lineKinds["start"] = true
					default:
						all = false
					}
				}
				if all {
					sameLine = true
				}
			}
		}
		walked = walked || st.Parent() != fn
		before := hasLit(g, func(l Lit) bool {
			// !(n.Pos() >= commentPos)  ==  n.Pos() < commentPos
			return l.Kind == "lt" && l.Pos && strings.Contains(P.Desc(l.X), ".Pos;") && strings.Contains(P.Desc(l.Y), "(*go/ast.Comment).Pos")
		})
		if !(sameLine && before) {
			return false
		}
		// any node counts: a comment may trail the inner line of a multi-line expression (an element of a literal,
		// an argument of a call), where no statement, declaration, spec or field starts or ends
		var hasNodeAssert func(l Lit) bool
		hasNodeAssert = func(l Lit) bool {
			if v, t, _ := typeAssertOK(l); v != nil && strings.Contains(typeStr(t), "go/ast.") && c.roleOf(firstRoot(P, v), 0) == "node" {
				return true
			}
			for _, sl := range l.Subs {
				if hasNodeAssert(sl) {
					return true
				}
			}
			return false
		}
		if hasLit(g, hasNodeAssert) {
			if c.once("any-node " + FuncName(fn)) {
				c.fail("SCOPE/INLINE-ANY-NODE", FuncName(fn), P.Pos(st.Pos()), "only nodes of some syntactic classes count as code on the comment's line: a comment that trails an inner line of a multi-line expression (`Key: pkg.T{...}, // @ignore CODE`) is treated as stand-alone - the diagnostic on its line stays and the next element is suppressed instead")
			}
			return false
		}
		// the search visits the whole enclosing declaration (receiver, signature, body): the walk that sets the
		// flag starts at an element of file.Decls, not at a part of it
		if wf := st.Parent(); wf != fn && wf.Parent() != nil {
			mc := P.closureSite(wf)
			if mc == nil {
				return false
			}
			call, ai := closurePassedTo(mc)
			if call == nil {
				return false
			}
			switch P.calleeName(call.Common()) {
			case "go/ast.Inspect":
				root := call.Common().Args[1-ai]
				whole := P.RootsAllDeep(root, func(r ssa.Value) bool {
					u, ok := r.(*ssa.UnOp)
					if !ok {
						return false
					}
					ia, ok := u.X.(*ssa.IndexAddr)
					return ok && P.RootsAllDeep(ia.X, func(q ssa.Value) bool { return fieldLoad(q, "go/ast.File", "Decls") != nil })
				})
				if !whole && !c.once("walk-root "+FuncName(wf)) {
					return false
				}
				if !whole {
					c.fail("SCOPE/INLINE-WALK-ROOT", FuncName(wf), P.Pos(call.Pos()), "the search for code on the comment's line does not start at the enclosing top-level declaration ("+short(P.DescDeep(root))+"): nodes outside the walked part (receiver, parameters, results) are not seen and a comment trailing them is treated as stand-alone")
					return false
				}
			}
		}
		sawTrue = true
	}
	return sawTrue
}

// ---------------------------------------------------------------------------------------------
// REPORT-GATE, FORMAT

func (c *Ctx) ruleReportGate(onlyPkgs ...string) {
	P := c.P
	wantPkg := func(p string) bool {
		if len(onlyPkgs) == 0 {
			return true
		}
		for _, x := range onlyPkgs {
			if x == p {
				return true
			}
		}
		return false
	}
	var reports []ssa.CallInstruction
	for _, fn := range P.ModFuncs {
		allInstrs(fn, func(b *ssa.BasicBlock, ins ssa.Instruction) {
			if ci, ok := ins.(ssa.CallInstruction); ok {
				switch c.passFieldCall(ci) {
				case "Report":
					reports = append(reports, ci)
				}
				if callee := ci.Common().StaticCallee(); callee != nil {
					n := FuncName(callee)
					if strings.HasPrefix(n, "(*golang.org/x/tools/go/analysis.Pass).Report") {
						reports = append(reports, ci)
					}
				}
			}
		})
	}
	c.check(len(reports) >= 1, "REPORT-GATE/SINK", "pass.Report", "", fmt.Sprintf("%d place(s) emit diagnostics; each is checked for the ignore gate, the code/position agreement and the format", len(reports)), "no place emits diagnostics (pass.Report*)")
	for _, rep := range reports {
		fn := rep.Parent()
		name := FuncName(fn)
		where := P.Pos(rep.Pos())
		// diagnostic position and message
		arg := rep.Common().Args[0]
		var posV, msgV ssa.Value
		for _, r := range P.Resolve(arg) {
			if u, ok := r.(*ssa.UnOp); ok {
				if a, ok := u.X.(*ssa.Alloc); ok {
					if refs := a.Referrers(); refs != nil {
						for _, rr := range *refs {
							if fa, ok := rr.(*ssa.FieldAddr); ok {
								fname := deref(fa.X.Type()).Underlying().(*types.Struct).Field(fa.Field).Name()
								if frefs := fa.Referrers(); frefs != nil {
									for _, s := range *frefs {
										if st, ok := s.(*ssa.Store); ok {
											switch fname {
											case "Pos":
												posV = st.Val
											case "Message":
												msgV = st.Val
											}
										}
									}
								}
							}
						}
					}
				}
			}
		}
		// the violation being reported: the value whose GetPos() positions the diagnostic (a parameter of the
		// reporting function, or the element of the list it walks)
		vD := ""
		if posV != nil {
			one := true
			P.RootsAll(posV, func(r ssa.Value) bool {
				call, ok := r.(*ssa.Call)
				if !ok || !call.Call.IsInvoke() || call.Call.Method.Name() != "GetPos" || typeStr(call.Call.Value.Type()) != "reporting.Violation" {
					one = false
					return false
				}
				d := P.Desc(call.Call.Value)
				if vD != "" && vD != d {
					one = false
				}
				vD = d
				return true
			})
			if !one {
				vD = ""
			}
		}
		if vD == "" {
			c.fail("REPORT-GATE/POS", name, where, "the diagnostic is not positioned at GetPos() of one violation value")
			continue
		}
		isGet := func(v ssa.Value, m string) bool {
			return P.RootsAll(v, func(r ssa.Value) bool {
				call, ok := r.(*ssa.Call)
				return ok && call.Call.IsInvoke() && call.Call.Method.Name() == m && P.Desc(call.Call.Value) == vD
			})
		}
		// gate
		gated := false
		for _, l := range P.BlockGuards(rep.Block()) {
			if call := P.litCallTo(l, fnIgnoreContain); call != nil && !l.Pos {
				okSet := P.RootsAll(call.Call.Args[0], func(r ssa.Value) bool { return fieldLoad(r, "reporting.Reporter", "ignoreSet") != nil })
				if okSet && isGet(call.Call.Args[1], "GetCode") && isGet(call.Call.Args[2], "GetPos") {
					gated = true
				}
			}
		}
		c.check(gated, "REPORT-GATE/GATE", name, where, "Report is guarded by !r.ignoreSet.Contains(v.GetCode(), v.GetPos())", "the diagnostic is reported without consulting the ignore set for this violation's own code and position")
		// ... and by nothing else: a violation that passes the gate is reported (no memory of earlier reports, no
		// other filter in the sink)
		var extra []string
		var benign func(l Lit) bool
		benign = func(l Lit) bool {
			if l.Kind == "rangeloop" || l.Kind == "rangefunc" || nilCheck(l) {
				return true
			}
			if call := P.litCallTo(l, fnIgnoreContain); call != nil {
				return true
			}
			if lenCheck(l) {
				return true // nothing to report
			}
			if (l.Kind == "and" || l.Kind == "or") && len(l.Subs) > 0 {
				for _, sl := range l.Subs {
					if !benign(sl) {
						return false
					}
				}
				return true
			}
			return false
		}
		for _, l := range P.BlockGuards(rep.Block()) {
			if !benign(l) {
				extra = append(extra, short(l.String()))
			}
		}
		c.check(len(extra) == 0, "REPORT-GATE/ONLY-GATE", name, where, "whether a violation is reported depends on the ignore set only",
			"the sink drops violations under a condition that is not the ignore set: "+strings.Join(extra, "; "))
		c.check(posV != nil && isGet(posV, "GetPos"), "REPORT-GATE/POS", name, where, "Diagnostic.Pos = v.GetPos() (the position that was looked up in the ignore set)", "the diagnostic is positioned elsewhere than the position checked against @ignore")
		okMsg := false
		if msgV != nil {
			for _, r := range P.Resolve(msgV) {
				if call, ok := r.(*ssa.Call); ok && call.Call.StaticCallee() != nil && len(call.Call.Args) == 2 && P.Desc(call.Call.Args[1]) == vD {
					okMsg = c.checkFormat(call.Call.StaticCallee())
					if !okMsg {
						// the same question on the emitted text (Fprintf, concatenation, printer objects)
						m, u, always := c.checkFormatText(call.Call.StaticCallee())
						okMsg = m && u
						if okMsg && c.Prop == "C17" && !c.helpChecked[call.Call.StaticCallee()] {
							if c.helpChecked == nil {
								c.helpChecked = map[*ssa.Function]bool{}
							}
							c.helpChecked[call.Call.StaticCallee()] = true
							c.check(always, "REPORT-GATE/HELP-ALWAYS", FuncName(call.Call.StaticCallee()), P.Pos(call.Call.StaticCallee().Pos()), "the documentation link is written on every path of the message formatter",
								"the documentation link is written only on some paths of the formatter (e.g. only when the source excerpt could be read): a diagnostic whose position was remapped by a //line directive, or whose file cannot be read, carries no link")
						}
					}
				}
			}
		}
		c.check(okMsg, "REPORT-GATE/MESSAGE", name, where, "message is formatted from the same violation: \"[\" GetCode() \"] \" GetMessage(), help = GetDocumentationURL(GetCode())", "message is not `[<v.GetCode()>] <v.GetMessage()>` with the documentation URL of the same code")
	}
	// GetCode/GetPos of every violation type
	for _, vt := range c.M.VTypes {
		if !wantPkg(vt.Pkg) {
			continue
		}
		tn := vt.Pkg + "." + vt.Named.Obj().Name()
		okC := false
		if vt.GetCode != nil {
			okC = true
			allInstrs(vt.GetCode, func(b *ssa.BasicBlock, ins ssa.Instruction) {
				if r, ok := ins.(*ssa.Return); ok && len(r.Results) == 1 {
					isField := P.RootsAll(r.Results[0], func(x ssa.Value) bool { return fieldLoad(x, "", "Code") != nil })
					isConst := constString(r.Results[0]) != "" && c.isCodeConst(constString(r.Results[0]))
					if !isField && !isConst {
						okC = false
					}
				}
			})
		}
		c.check(okC, "REPORT-GATE/GETCODE", tn, "", "GetCode returns the Code field / the type's code constant", "GetCode() does not return the violation's own code: the code looked up in @ignore differs from the one the site carries")
		okP := false
		if vt.GetPos != nil {
			okP = true
			allInstrs(vt.GetPos, func(b *ssa.BasicBlock, ins ssa.Instruction) {
				if r, ok := ins.(*ssa.Return); ok && len(r.Results) == 1 {
					if !P.RootsAll(r.Results[0], func(x ssa.Value) bool { return fieldLoad(x, "", "Pos") != nil }) {
						okP = false
					}
				}
			})
		}
		c.check(okP, "REPORT-GATE/GETPOS", tn, "", "GetPos returns the Pos field", "GetPos() does not return the violation's own Pos field")
		// the reporter writes "[" GetCode() "] " in front of GetMessage(): the message text does not print the code
		// once more (exactly one [CODE] per diagnostic)
		if vt.GetMsg != nil && c.Prop == "C17" { // (a clause of C17 only: "exactly one code ... in the form [CODE]")
			printsCode := ""
			allInstrs(vt.GetMsg, func(b *ssa.BasicBlock, ins ssa.Instruction) {
				r, ok := ins.(*ssa.Return)
				if !ok || len(r.Results) != 1 {
					return
				}
				for _, part := range c.printedParts(r.Results[0], 0) {
					isCode := P.RootsAny(part, func(x ssa.Value) bool {
						if fieldLoad(x, "", "Code") != nil {
							return true
						}
						call, isCall := x.(*ssa.Call)
						return isCall && (call.Call.StaticCallee() == vt.GetCode && vt.GetCode != nil || call.Call.IsInvoke() && call.Call.Method.Name() == "GetCode")
					})
					if isCode {
						printsCode = P.Pos(r.Pos())
					}
				}
			})
			c.check(printsCode == "", "REPORT-GATE/CODE-ONCE", tn, printsCode, "the message text does not repeat the code the reporter prints in front of it",
				"GetMessage() prints the violation's code itself; the reporter writes `[CODE] ` in front of every message, so the diagnostic shows `[CODE] [CODE] ...`")
		}
	}
	// the code and the position a violation was created (and, for detection-time gates, looked up) with are the
	// ones it is displayed with: they are written by the report site's composite literal only
	siteAllocs := map[*ssa.Alloc]bool{}
	for _, s := range c.M.Sites {
		siteAllocs[s.Alloc] = true
	}
	vtOf := map[*types.Named]*ViolationType{}
	for _, vt := range c.M.VTypes {
		vtOf[vt.Named] = vt
	}
	nFieldStores := 0
	for _, fn := range P.ModFuncs {
		allInstrs(fn, func(b *ssa.BasicBlock, ins ssa.Instruction) {
			st, ok := ins.(*ssa.Store)
			if !ok {
				return
			}
			fa, ok := st.Addr.(*ssa.FieldAddr)
			if !ok {
				return
			}
			n, _ := deref(fa.X.Type()).(*types.Named)
			vt := vtOf[n]
			if vt == nil || !wantPkg(vt.Pkg) {
				return
			}
			fname := n.Underlying().(*types.Struct).Field(fa.Field).Name()
			if fname != "Pos" && fname != "Code" {
				return
			}
			nFieldStores++
			if a, ok := fa.X.(*ssa.Alloc); ok && siteAllocs[a] {
				return
			}
			c.fail("REPORT-GATE/POS-STABLE", FuncName(fn)+"#"+vt.Pkg+"."+n.Obj().Name()+"."+fname, P.Pos(st.Pos()),
				"the "+fname+" of a violation is re-assigned after the report site created it ("+short(P.Desc(st.Val))+"): what is displayed differs from what the site decided on and looked up in the ignore set, so `// @ignore CODE` on the displayed line may not remove it")
		})
	}
	if len(onlyPkgs) == 0 {
		c.floor("stores to Pos/Code fields of violation types", nFieldStores, 20)
	}
	// NewReporter: the ignore set of the pass, or nil (then the package gates at detection time: GUARD-SIG)
	nNR := 0
	for _, fn := range P.ModFuncs {
		if fn.TypeParams().Len() > 0 && len(fn.TypeArgs()) == 0 {
			continue // the uninstantiated body of a generic function: its instances are what runs
		}
		allInstrs(fn, func(b *ssa.BasicBlock, ins ssa.Instruction) {
			call, ok := ins.(*ssa.Call)
			if !ok || call.Call.StaticCallee() == nil || FuncName(call.Call.StaticCallee()) != "reporting.NewReporter" {
				return
			}
			// a shared helper of package reporting that creates the reporter for its caller: judged once per
			// caller, in the caller's package and with the caller's arguments
			if funcPkgPath(fn) == modulePath+"/src/reporting" {
				for _, cs := range P.Callers(fn) {
					cpkg := strings.TrimPrefix(funcPkgPath(cs.Parent()), modulePath+"/src/")
					nNR++
					if !wantPkg(cpkg) {
						continue
					}
					P.PinnedAll(pinMap{fn: cs}, func() {
						a := call.Call.Args[1]
						if P.RootsAllDeep(a, isNilConst) {
							// every site of the caller's package must be gated at detection time
							okAll := true
							for _, s := range c.sitesOf(cpkg) {
								si := c.buildSiteInfo(s)
								if !hasLit(si.All, func(l Lit) bool {
									gc := P.litCallTo(l, fnIgnoreContain)
									return gc != nil && !l.Pos && c.isPassIgnoreSet(gc.Call.Args[0])
								}) {
									okAll = false
								}
							}
							c.check(okAll, "REPORT-GATE/NEWREPORTER", FuncName(cs.Parent())+"->"+FuncName(fn), P.Pos(cs.Pos()), "no report-time set; every site of the package is gated at detection time", "reporter is created without an ignore set and some report site of package "+cpkg+" is not gated by ignoreSet.Contains at detection time: @ignore and exclude-checks have no effect there")
							return
						}
						c.check(c.isPassIgnoreSet(a), "REPORT-GATE/NEWREPORTER", FuncName(cs.Parent())+"->"+FuncName(fn), P.Pos(cs.Pos()), "reporter gets the pass's ignore set", "reporter is created with an ignore set that is not the IgnoreReader result of this pass: "+short(P.DescDeep(a)))
					})
				}
				return
			}
			nNR++
			a := call.Call.Args[1]
			pkg := strings.Split(FuncName(fn), ".")[0]
			if !wantPkg(pkg) {
				return
			}
			if P.RootsAll(a, isNilConst) {
				// every site of this package must be gated at detection time
				okAll := true
				for _, s := range c.sitesOf(pkg) {
					si := c.buildSiteInfo(s)
					g := hasLit(si.All, func(l Lit) bool {
						call := P.litCallTo(l, fnIgnoreContain)
						return call != nil && !l.Pos && c.isPassIgnoreSet(call.Call.Args[0])
					})
					if !g {
						okAll = false
					}
				}
				c.check(okAll, "REPORT-GATE/NEWREPORTER", FuncName(fn), P.Pos(call.Pos()), "no report-time set; every site of the package is gated at detection time", "reporter is created without an ignore set and some report site of package "+pkg+" is not gated by ignoreSet.Contains at detection time: @ignore and exclude-checks have no effect there")
			} else {
				c.check(c.isPassIgnoreSet(a), "REPORT-GATE/NEWREPORTER", FuncName(fn), P.Pos(call.Pos()), "reporter gets the pass's ignore set", "reporter is created with an ignore set that is not the IgnoreReader result of this pass: "+short(P.Desc(a)))
			}
		})
	}
	c.floor("reporting.NewReporter calls", nNR, 5)
}

func (c *Ctx) isCodeConst(s string) bool {
	for _, v := range c.M.CodeConsts {
		if v == s {
			return true
		}
	}
	return false
}

// checkFormat: in the formatting function the header is written as "[" GetCode() "] " GetMessage() in this
// order, and the help line uses GetDocumentationURL(GetCode()).
func (c *Ctx) checkFormat(fn *ssa.Function) bool {
	P := c.P
	if len(fn.Params) < 2 {
		return false
	}
	vD := P.Desc(fn.Params[1])
	// the text written to the message builder, in source order, with the helpers that receive the builder read
	// in the context of their call: (block of the formatter the write belongs to, descriptor of the text)
	type ws struct {
		root *ssa.BasicBlock
		desc string
	}
	var seq []ws
	isBuilder := func(v ssa.Value) bool { return typeStr(deref(v.Type())) == "strings.Builder" }
	var collect func(f *ssa.Function, pins pinMap, root *ssa.BasicBlock, depth int)
	collect = func(f *ssa.Function, pins pinMap, root *ssa.BasicBlock, depth int) {
		type item struct {
			pos  token.Pos
			b    *ssa.BasicBlock
			call *ssa.Call
		}
		var items []item
		allInstrs(f, func(b *ssa.BasicBlock, ins ssa.Instruction) {
			if call, ok := ins.(*ssa.Call); ok {
				items = append(items, item{call.Pos(), b, call})
			}
		})
		sort.SliceStable(items, func(i, j int) bool { return items[i].pos < items[j].pos })
		for _, it := range items {
			rb := root
			if rb == nil {
				rb = it.b
			} else if it.b != f.Blocks[0] {
				continue // conditional writes of a helper are not part of the fixed text
			}
			if P.CallTo(it.call, "(*strings.Builder).WriteString") != nil {
				// a + b + c written at once is a, b, c written in turn
				var parts []ssa.Value
				var flat func(v ssa.Value)
				flat = func(v ssa.Value) {
					if bo, ok := v.(*ssa.BinOp); ok && bo.Op == token.ADD {
						flat(bo.X)
						flat(bo.Y)
						return
					}
					parts = append(parts, v)
				}
				flat(it.call.Call.Args[1])
				for _, pv := range parts {
					var d string
					P.PinnedAll(pins, func() { d = P.Desc(pv) })
					seq = append(seq, ws{rb, d})
				}
				continue
			}
			callee := it.call.Call.StaticCallee()
			if callee == nil || !P.IsProductFunc(callee) || len(callee.Blocks) == 0 || depth >= 3 || pins[callee] != nil {
				continue
			}
			passes := false
			for _, a := range it.call.Call.Args {
				if isBuilder(a) {
					passes = true
				}
			}
			if !passes {
				continue
			}
			np := pinMap{callee: it.call}
			for k, v := range pins {
				np[k] = v
			}
			collect(callee, np, rb, depth+1)
		}
	}
	collect(fn, nil, nil, 0)
	okURL := false
	var urlBlocks []*ssa.BasicBlock
	for _, w := range seq {
		if strings.HasPrefix(w.desc, "call(codes.GetDocumentationURL; call(invoke reporting.Violation.GetCode; "+vD) {
			okURL = true
			urlBlocks = append(urlBlocks, w.root)
		}
	}
	// "every diagnostic links to the documentation page": the help line is written on every path to a return,
	// whether or not a source excerpt could be read
	if okURL && c.Prop == "C17" && !c.helpChecked[fn] {
		if c.helpChecked == nil {
			c.helpChecked = map[*ssa.Function]bool{}
		}
		c.helpChecked[fn] = true
		always := true
		allInstrs(fn, func(b *ssa.BasicBlock, ins ssa.Instruction) {
			if _, isRet := ins.(*ssa.Return); !isRet {
				return
			}
			dom := false
			for _, ub := range urlBlocks {
				if dominates(ub, b) {
					dom = true
				}
			}
			if !dom {
				always = false
			}
		})
		c.check(always, "REPORT-GATE/HELP-ALWAYS", FuncName(fn), P.Pos(fn.Pos()), "the documentation link is written on every path of the message formatter",
			"the documentation link is written only on some paths of the formatter (e.g. only when the source excerpt could be read): a diagnostic whose position was remapped by a //line directive, or whose file cannot be read, carries no link")
	}
	// the text written unconditionally, with the two accessors as placeholders: it must contain
	// "[" <code> "] " <message> however the constant pieces are split over WriteString calls
	var tmpl strings.Builder
	for _, w := range seq {
		if w.root != fn.Blocks[0] {
			continue
		}
		switch {
		case w.desc == "call(invoke reporting.Violation.GetCode; "+vD+")":
			tmpl.WriteString("\x00CODE\x00")
		case w.desc == "call(invoke reporting.Violation.GetMessage; "+vD+")":
			tmpl.WriteString("\x00MSG\x00")
		case strings.HasPrefix(w.desc, "const(\"") && strings.HasSuffix(w.desc, "\")"):
			if u, err := strconv.Unquote(w.desc[len("const(") : len(w.desc)-1]); err == nil {
				tmpl.WriteString(u)
			} else {
				tmpl.WriteString("\x00?\x00")
			}
		default:
			tmpl.WriteString("\x00?\x00")
		}
	}
	if strings.Contains(tmpl.String(), "[\x00CODE\x00] \x00MSG\x00") {
		return okURL
	}
	return false
}

// printedParts: the values a string is put together from: operands of concatenations, the arguments of
// fmt.Sprintf / Sprint / Sprintln, results of product helpers (through Resolve); leaves otherwise.
func (c *Ctx) printedParts(v ssa.Value, depth int) []ssa.Value {
	P := c.P
	if depth > 6 {
		return []ssa.Value{v}
	}
	var out []ssa.Value
	for _, r := range P.Resolve(v) {
		switch x := r.(type) {
		case *ssa.BinOp:
			if x.Op == token.ADD {
				out = append(out, c.printedParts(x.X, depth+1)...)
				out = append(out, c.printedParts(x.Y, depth+1)...)
				continue
			}
		case *ssa.Call:
			n := P.calleeName(x.Common())
			if n == "fmt.Sprintf" || n == "fmt.Sprint" || n == "fmt.Sprintln" {
				for _, a := range variadicValues(x) {
					out = append(out, c.printedParts(a, depth+1)...)
				}
				continue
			}
		case *ssa.MakeInterface:
			out = append(out, c.printedParts(x.X, depth+1)...)
			continue
		}
		out = append(out, r)
	}
	return out
}
