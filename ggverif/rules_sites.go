package main

// GUARD-SIG / DISPATCH / REPORT-FLOW: for every report site (composite literal of a violation type), the
// complete set of conditions under which the violation is created AND reaches the reporter is computed
// (upstream guards of the literal + guards along the forward flow of the value) and compared with the
// signature the property statement dictates:
//   (i)  every required atom is present with the required polarity and the required provenance of its operands;
//   (ii) every other atom belongs to a closed list of benign classes. An atom that is neither required nor
//        benign makes the report depend on something the property does not mention  ->  UNEXPECTED-GUARD.

import (
	"fmt"
	"go/types"
	"sort"
	"strings"

	"golang.org/x/tools/go/ssa"
)

const (
	fnContains      = "(util.TypesMap).Contains"
	fnMatch         = "(util.TypeAssociationRegistry).Match"
	fnHasType       = "(util.TypeAssociationRegistry).HasType"
	fnIgnoreContain = "(*util.IgnoreSet).Contains"
	fnReportViol    = "(*reporting.Reporter).ReportViolation"
)

// curP: the program under analysis (set once at start; used where a helper has no *Program at hand).
var curP *Program

type siteInfo struct {
	S    *ReportSite
	Name string // construct name for obligations
	Up   []Lit
	Flow FlowResult
	All  []Lit
	used map[string]string // literal -> role it was accepted for
	Dead string            // non-empty: the path condition of this site (in this calling context) is contradictory
}

func (c *Ctx) isReporterTerminal(ci ssa.CallInstruction, arg int) bool {
	callee := ci.Common().StaticCallee()
	return callee != nil && FuncName(callee) == fnReportViol && arg == 1
}

func (c *Ctx) siteName(s *ReportSite) string {
	// stable across line moves: function + violation type + code + ordinal among equals
	base := fmt.Sprintf("%s#%s(%s)", FuncName(s.Fn), s.VT.Named.Obj().Name(), s.Code)
	n := 0
	for _, o := range c.M.Sites {
		if o == s {
			break
		}
		if o.Fn == s.Fn && o.VT == s.VT && o.Code == s.Code {
			n++
		}
	}
	if s.Via != nil {
		base += "<-" + FuncName(s.Via.Parent())
	}
	if n > 0 {
		base += fmt.Sprintf("/%d", n+1)
	}
	return base
}

func (c *Ctx) buildSiteInfo(s *ReportSite) *siteInfo {
	P := c.P
	si := &siteInfo{S: s, Name: c.siteName(s), used: map[string]string{}}
	if s.Via != nil {
		// guards along the call path through this particular call site
		up := append([]Lit{}, P.BlockGuards(s.Alloc.Block())...)
		up = append(up, P.BlockGuards(s.Via.Block())...)
		up = append(up, P.EntryGuards(s.Via.Parent())...)
		si.Up = dedupLits(up)
		si.Flow = P.FlowToTerminalVia(s.Alloc, c.isReporterTerminal, s.Fn, s.Via)
	} else {
		si.Up = P.Guards(s.Alloc)
		si.Flow = P.FlowToTerminal(s.Alloc, c.isReporterTerminal)
	}
	all := newLitSet(si.Up)
	if si.Flow.Reached {
		all = all.union(si.Flow.Guards)
		// entry guards of every function the value passes through are part of the path condition as well
	}
	si.All = c.constFolded(P.Expand(all.list()))
	for _, l := range si.All {
		// x != x on the way: this calling context can never produce the violation (e.g. a shared finder called
		// with the current package as the declaring package)
		if l.Kind == "eq" && !l.Pos && l.X != nil && l.Y != nil && P.KeyDesc(l.X) == P.KeyDesc(l.Y) && !strings.Contains(P.KeyDesc(l.X), "cycle") {
			si.Dead = short(l.String())
		}
	}
	return si
}

// take marks literals satisfying pred as used for role and returns them.
func (si *siteInfo) take(role string, pred func(l Lit) bool) []Lit {
	var out []Lit
	for _, l := range si.All {
		ok := false
		l.In(curP, func() { ok = pred(l) })
		if ok {
			out = append(out, l)
			if _, ok := si.used[l.String()]; !ok {
				si.used[l.String()] = role
			}
		}
	}
	return out
}

// ---- generic benign classes --------------------------------------------------------------------

func (c *Ctx) benignClass(si *siteInfo, l Lit) string {
	P := c.P
	switch l.Kind {
	case "rangeloop":
		return "range-loop bound"
	case "rangefunc":
		return "range-over-func protocol"
	}
	if nilCheck(l) {
		return "nil check"
	}
	if (l.Kind == "or" || l.Kind == "and") && len(l.Subs) > 0 {
		all := true
		for _, s := range l.Subs {
			if !nilCheck(s) && !c.isEmptyIndexCall(s) {
				all = false
			}
		}
		if all && (l.Kind == "and") == !l.Pos || all && allNil(l.Subs) {
			return "nil checks / empty-index fast path"
		}
	}
	if x, t, _ := typeAssertOK(l); x != nil {
		ts := typeStr(t)
		if strings.HasPrefix(ts, "*go/ast.") {
			if !l.Pos {
				// a negative AST-kind test only excludes that kind; benign iff the same operand is positively
				// asserted to another kind (so the site is for that other kind anyway)
				d := P.Desc(x)
				for _, o := range si.All {
					if ox, ot, _ := typeAssertOK(o); ox != nil && o.Pos && P.Desc(ox) == d && typeStr(ot) != ts {
						return "other AST kind excluded"
					}
				}
			}
			return ""
		}
		if ts == "annotations.PackageAnnotations" || ts == "*config.Config" || ts == "ignore.IgnoreResult" {
			return "ResultOf comma-ok"
		}
	}
	if lenCheck(l) {
		// "no annotations of this kind at all" fast path on a list of PackageAnnotations
		for _, side := range []ssa.Value{l.X, l.Y} {
			if x := lenOf(side); x != nil && strings.Contains(P.Desc(x), ".annotations.PackageAnnotations.") && strings.HasSuffix(P.Desc(x), "Annotations)") {
				return "empty annotation list fast path"
			}
		}
	}
	if lenCheck(l) {
		// "nothing to report" fast path on the list of violations the site's own violation is part of: when the
		// violation exists the list is not empty
		for _, side := range []ssa.Value{l.X, l.Y} {
			if x := lenOf(side); x != nil {
				if sl, ok := x.Type().Underlying().(*types.Slice); ok {
					et := sl.Elem()
					if pt, isP := et.(*types.Pointer); isP {
						et = pt.Elem()
					}
					if nmd, ok := et.(*types.Named); ok {
						nonEmpty := (l.Kind == "eq" && !l.Pos) || (l.Kind == "lt" && l.Pos)
						for _, vt := range c.M.VTypes {
							if vt.Named == nmd && nonEmpty {
								return "non-empty list of violations"
							}
						}
						if typeStr(nmd) == "reporting.Violation" && nonEmpty {
							return "non-empty list of violations"
						}
					}
				}
			}
		}
	}
	if !l.Pos && c.isEmptyIndexCall(l) {
		// fast path "index is empty": membership in an empty index is false anyway
		return "empty-index fast path"
	}
	return ""
}

// finishSite reports every literal that was neither taken by a required/dispatch role nor benign.
func (c *Ctx) finishSite(si *siteInfo, rule string) {
	var unknown []string
	for _, l := range si.All {
		if _, ok := si.used[l.String()]; ok {
			continue
		}
		cl := ""
		l.In(c.P, func() { cl = c.benignClass(si, l) })
		if cl != "" {
			continue
		}
		if call, _ := c.P.litHelperCall(l); call != nil && !c.P.isAnchor(c.P.Callee(&call.Call)) {
			continue // a predicate helper: what its result implies is in the expanded literals, classified one by one
		}
		unknown = append(unknown, l.String())
	}
	where := c.P.Pos(si.S.Alloc.Pos())
	if len(unknown) == 0 {
		c.ok(rule+"/NO-EXTRA-GUARD", si.Name, where, fmt.Sprintf("%d guard literals, all required, dispatch or benign", len(si.All)))
	} else {
		sort.Strings(unknown)
		for _, u := range unknown {
			c.fail(rule+"/UNEXPECTED-GUARD", si.Name, where, "report depends on a condition the property does not mention: "+short(u))
		}
	}
}

func (c *Ctx) require(si *siteInfo, rule, what string, lits []Lit, why string) bool {
	where := c.P.Pos(si.S.Alloc.Pos())
	if len(lits) > 0 {
		c.ok(rule+"/"+what, si.Name, where, short(lits[0].String()))
		return true
	}
	c.fail(rule+"/"+what, si.Name, where, "required guard missing: "+why)
	return false
}

// ---- shared atom recognisers --------------------------------------------------------------------

// namedAssert: +typeassert-ok(X; *types.Named) where every origin of X is a types.Unalias call.
// wantPtrStrip additionally demands that one origin is Unalias(<*types.Pointer>.Elem()).
func (c *Ctx) namedAssertPred(wantPtrStrip bool, detail *string) func(l Lit) bool {
	P := c.P
	return func(l Lit) bool {
		x, t, _ := typeAssertOK(l)
		if x == nil || !l.Pos || typeStr(t) != "*go/types.Named" {
			return false
		}
		roots := P.ResolveDeep(x)
		sawPlain, sawElem := false, false
		for _, r := range roots {
			call := P.CallTo(r, "go/types.Unalias")
			if call == nil {
				*detail = "operand of the *types.Named assertion is not un-aliased: " + short(P.termDesc(r, false))
				return false
			}
			// one Unalias call may serve both origins: Unalias(t) with t the operand's type or, behind a pointer,
			// its element
			for _, a := range P.Resolve(call.Call.Args[0]) {
				if P.CallTo(a, "(*go/types.Pointer).Elem") != nil {
					if !P.elemOfUnaliasedPointer(a) {
						*detail = "the pointer is stripped before aliases are looked through (type P = *T is not seen as a pointer): " + short(P.termDesc(a, false))
						return false
					}
					sawElem = true
				} else {
					sawPlain = true
				}
			}
		}
		if !sawPlain {
			*detail = "no origin from the un-aliased operand type itself"
			return false
		}
		if wantPtrStrip && !sawElem {
			*detail = "pointer is not stripped (no origin Unalias(ptr.Elem())): *T operands / elided &T literals fall through"
			return false
		}
		return true
	}
}

// pathOfNamed / nameOfNamed: v is <named>.Obj().Pkg().Path() resp. <named>.Obj().Name() (or the corresponding
// field of util.TypeInfo, which is filled from exactly those).
func (c *Ctx) isPkgPathOfType(v ssa.Value) bool {
	ok, callees := c.P.derives(v, func(ssa.Value) bool { return false }, 12)
	_ = ok
	return hasCallee(callees, "(*go/types.Package).Path") && !hasCallee(callees, "(*go/types.Package).Name")
}

func (c *Ctx) isNameOfType(v ssa.Value) bool {
	_, callees := c.P.derives(v, func(ssa.Value) bool { return false }, 12)
	return (hasCallee(callees, "(*go/types.object).Name") || hasCallee(callees, "(*go/types.TypeName).Name") || hasCallee(callees, ".Name")) &&
		!hasCallee(callees, "(*go/types.Package).Path")
}

// directRootsAre: every (deep) origin of v satisfies pred.
func (c *Ctx) rootsAre(v ssa.Value, pred func(r ssa.Value) bool) bool {
	return c.P.RootsAllDeep(v, pred)
}

// isPathCall: r is a call <*types.Package>.Path()
func (c *Ctx) isPathCall(r ssa.Value) bool { return c.P.CallTo(r, "(*go/types.Package).Path") != nil }

// isObjName: r is a call of a Name() method of a go/types object
func (c *Ctx) isObjName(r ssa.Value) bool {
	call, ok := r.(*ssa.Call)
	if !ok {
		return false
	}
	n := c.P.calleeName(call.Common())
	return strings.HasPrefix(n, "(*go/types.") && strings.HasSuffix(n, ").Name") && n != "(*go/types.Package).Name" ||
		n == "invoke go/types.Object.Name"
}

// typeKeyArgs: (pkgArg, nameArg) are the package path and the name of one resolved go/types named type.
func (c *Ctx) typeKeyArgs(pkgArg, nameArg ssa.Value) (bool, string) {
	if !c.rootsAre(pkgArg, func(r ssa.Value) bool { return c.isPathCall(r) }) {
		return false, "package-path argument does not originate from (*types.Package).Path(): " + short(c.P.DescDeep(pkgArg))
	}
	if !c.rootsAre(nameArg, func(r ssa.Value) bool { return c.isObjName(r) }) {
		return false, "type-name argument does not originate from <types object>.Name(): " + short(c.P.DescDeep(nameArg))
	}
	return true, ""
}

// indexCall: literal is call `callee` on an index built by builder with (pkg,name) key args at positions pi, ni.
func (c *Ctx) indexCallPred(callee, builderPrefix string, pos bool, check func(call *ssa.Call) (bool, string), detail *string) func(l Lit) bool {
	P := c.P
	return func(l Lit) bool {
		call := P.litCallTo(l, callee)
		if call == nil || l.Pos != pos {
			return false
		}
		if !P.originatesOnlyFrom(call.Call.Args[0], builderPrefix) {
			names, _ := P.originCalls(call.Call.Args[0])
			*detail = fmt.Sprintf("%s is consulted on an index that does not (only) originate from %s*: %v", callee, builderPrefix, names)
			return false
		}
		if check != nil {
			if ok, why := check(call); !ok {
				*detail = why
				return false
			}
		}
		return true
	}
}

// ownPkgEq: eq literal between a (*types.Package).Path() of the type and pass.Pkg.Path().
func (c *Ctx) isOwnPkgEq(l Lit) bool {
	if l.Kind != "eq" {
		return false
	}
	a, b := l.X, l.Y
	pa, pb := c.P.isPassPkgCall(a, "Path"), c.P.isPassPkgCall(b, "Path")
	if pa == pb {
		// both or none: need exactly one side to be pass.Pkg.Path() and the other the type's package path
		if !(pa && pb) {
			return false
		}
		return false
	}
	other := a
	if pa {
		other = b
	}
	return c.rootsAre(other, func(r ssa.Value) bool { return c.isPathCall(r) })
}

// enclosingFuncName: v is the name of the top-level function enclosing the walked node: every origin is the
// constant "" or <FuncDecl>.Name.Name where FuncDecl is a type assertion of a walk root.
func (c *Ctx) isEnclosingFuncName(v ssa.Value) (bool, string) {
	P := c.P
	roots := P.ResolveDeep(v)
	if len(roots) == 0 {
		return false, "no origin"
	}
	sawDecl := false
	for _, r := range roots {
		if cs, ok := r.(*ssa.Const); ok && cs.Value != nil && cs.Value.ExactString() == `""` {
			continue
		}
		base := fieldLoad(r, "go/ast.Ident", "Name")
		if base == nil {
			return false, "function name has an origin that is not FuncDecl.Name.Name: " + short(P.termDesc(r, false))
		}
		okDecl := P.RootsAllDeep(base, func(b ssa.Value) bool {
			fd := fieldLoad(b, "go/ast.FuncDecl", "Name")
			if fd == nil {
				return false
			}
			// the FuncDecl must be a type assertion of the walk root (top-level declaration)
			return P.RootsAllDeep(fd, func(d ssa.Value) bool {
				var ta *ssa.TypeAssert
				switch x := d.(type) {
				case *ssa.Extract:
					ta, _ = x.Tuple.(*ssa.TypeAssert)
				case *ssa.TypeAssert:
					ta = x
				}
				if ta == nil {
					return false
				}
				return c.isWalkRoot(ta.X)
			})
		})
		if !okDecl {
			return false, "function name is not taken from the top-level FuncDecl that is the walk root: " + short(P.DescDeep(base))
		}
		sawDecl = true
	}
	if !sawDecl {
		return false, "function name never originates from a FuncDecl"
	}
	return true, ""
}

// isWalkRoot: v is (the value of) an argument 0 of some ast.Inspect call in product code which is an
// element of range file.Decls.
func (c *Ctx) isWalkRoot(v ssa.Value) bool {
	P := c.P
	d := P.Desc(v)
	if !strings.HasPrefix(d, "elem(field(") || !strings.Contains(d, "go/ast.File.Decls)") {
		return false
	}
	for _, w := range c.walks() {
		if P.Desc(w.Root) == d {
			return true
		}
	}
	return false
}

// ---- walks -------------------------------------------------------------------------------------

type walkInfo struct {
	Call     *ssa.Call
	Root     ssa.Value
	Callback *ssa.Function
	Closure  []*ssa.Function
	Wrapper  *ssa.Function // bound-method wrapper handed to ast.Inspect when the callback is a method value
	Visitor  bool          // ast.Walk with a visitor: Callback is its Visit method (receiver, node) -> ast.Visitor
}

func visitorWalksOf(P *Program) map[*ssa.Function][]*ssa.Call {
	P.buildVisitorWalks()
	return P.visitorWalks
}

// walkContinues: what a result of the walk callback means: descend (true) / prune (false); known: it is a constant
// answer. For a visitor: returning the visitor itself descends, returning nil prunes, anything else hands the
// subtree to another visitor (not known).
func (c *Ctx) walkContinues(w *walkInfo, v ssa.Value) (cont bool, known bool) {
	if !w.Visitor {
		return constBool(v)
	}
	for {
		if mi, ok := v.(*ssa.MakeInterface); ok {
			v = mi.X
			continue
		}
		if ci, ok := v.(*ssa.ChangeInterface); ok {
			v = ci.X
			continue
		}
		break
	}
	if cs, ok := v.(*ssa.Const); ok && cs.IsNil() {
		return false, true
	}
	if len(w.Callback.Params) > 0 && v == ssa.Value(w.Callback.Params[0]) {
		return true, true
	}
	return false, false
}

func (c *Ctx) walks() []*walkInfo {
	if c.walkCache != nil {
		return c.walkCache
	}
	P := c.P
	for _, fn := range P.ModFuncs {
		allInstrs(fn, func(b *ssa.BasicBlock, ins ssa.Instruction) {
			call, ok := ins.(*ssa.Call)
			if !ok {
				return
			}
			callee := call.Call.StaticCallee()
			if callee != nil && FuncName(callee) == "go/ast.Walk" && len(call.Call.Args) == 2 {
				// ast.Walk(visitor, root): the callback is the visitor's Visit method
				w := &walkInfo{Call: call, Root: call.Call.Args[1], Visitor: true}
				for m, ws := range visitorWalksOf(P) {
					if len(ws) == 1 && ws[0] == call {
						w.Callback = m
					}
				}
				if w.Callback != nil {
					w.Closure = P.StaticClosure(w.Callback)
				}
				c.walkCache = append(c.walkCache, w)
				return
			}
			if callee == nil || FuncName(callee) != "go/ast.Inspect" {
				return
			}
			w := &walkInfo{Call: call, Root: call.Call.Args[0]}
			for _, r := range P.Resolve(call.Call.Args[1]) {
				if mc, ok := r.(*ssa.MakeClosure); ok {
					w.Callback = mc.Fn.(*ssa.Function)
				}
				if f, ok := r.(*ssa.Function); ok {
					w.Callback = f
				}
			}
			if w.Callback != nil && isBoundWrapper(w.Callback) {
				// ast.Inspect(root, v.visit): the callback is the method, its node parameter comes after the receiver
				var target *ssa.Function
				allInstrs(w.Callback, func(_ *ssa.BasicBlock, i2 ssa.Instruction) {
					if ci, ok := i2.(ssa.CallInstruction); ok {
						if t := ci.Common().StaticCallee(); t != nil {
							target = t
						}
					}
				})
				if target != nil && len(target.Params) == 2 {
					w.Wrapper, w.Callback = w.Callback, target
				}
			}
			if w.Callback != nil {
				w.Closure = P.StaticClosure(w.Callback)
			}
			c.walkCache = append(c.walkCache, w)
		})
	}
	sort.Slice(c.walkCache, func(i, j int) bool { return c.walkCache[i].Call.Pos() < c.walkCache[j].Call.Pos() })
	return c.walkCache
}

func (c *Ctx) walksOfPkg(pkgShort string) []*walkInfo {
	var out []*walkInfo
	for _, w := range c.walks() {
		if funcPkgPath(w.Call.Parent()) == modulePath+"/src/"+pkgShort {
			out = append(out, w)
		}
	}
	return out
}

// astKinds: the positive AST-kind dispatch atoms of a site: "Kind(operand role)".
func (c *Ctx) astKinds(si *siteInfo) []string {
	var out []string
	for _, l := range si.All {
		if x, t, _ := typeAssertOK(l); x != nil && l.Pos && strings.HasPrefix(typeStr(t), "*go/ast.") {
			out = append(out, strings.TrimPrefix(typeStr(t), "*go/ast.")+"<"+c.operandRole(x)+">")
		}
	}
	sort.Strings(out)
	return out
}

// operandRole names what an asserted AST operand is, structurally: "node" (the walk callback parameter),
// "<Type>.<Field>" for a field of an asserted node, with [] for range elements and [k] for constant indices.
func (c *Ctx) operandRole(x ssa.Value) string {
	P := c.P
	roots := P.Resolve(x)
	var roles []string
	for _, r := range roots {
		roles = append(roles, c.roleOf(r, 0))
	}
	sort.Strings(roles)
	return strings.Join(roles, "|")
}

func (c *Ctx) roleOf(r ssa.Value, depth int) string {
	if depth > 4 {
		return "…"
	}
	switch x := r.(type) {
	case *ssa.Call:
		// ast.Unparen(e): the operand with its parentheses stripped
		if c.P.calleeName(x.Common()) == "go/ast.Unparen" && len(x.Call.Args) == 1 {
			inner := "?"
			if rs := c.P.Resolve(x.Call.Args[0]); len(rs) == 1 {
				inner = c.roleOf(rs[0], depth+1)
			}
			return "unparen(" + inner + ")"
		}
	case *ssa.Parameter:
		if closureLike(x.Parent()) {
			return "node"
		}
		if w := c.P.visitorWalk(x.Parent()); w != nil && len(x.Parent().Params) == 2 && x.Parent().Params[1] == x {
			return "node" // node parameter of the Visit method of a visitor handed to ast.Walk
		}
		for _, w := range c.walks() {
			if w.Wrapper != nil && w.Callback == x.Parent() && len(w.Callback.Params) == 2 && w.Callback.Params[1] == x {
				return "node" // node parameter of a method used as walk callback
			}
		}
		return "param"
	case *ssa.UnOp:
		switch a := x.X.(type) {
		case *ssa.FieldAddr:
			st := deref(a.X.Type()).Underlying().(*types.Struct)
			return strings.TrimPrefix(typeStr(deref(a.X.Type())), "go/ast.") + "." + st.Field(a.Field).Name()
		case *ssa.IndexAddr:
			inner := "?"
			if rs := c.P.Resolve(a.X); len(rs) > 0 {
				inner = c.roleOf(rs[0], depth+1)
			}
			return inner + "[" + strings.Trim(idxTagB(a.Index, a.X), "[]") + "]"
		}
	case *ssa.Extract:
		if nx, ok := x.Tuple.(*ssa.Next); ok {
			if rg, ok := nx.Iter.(*ssa.Range); ok {
				if rs := c.P.Resolve(rg.X); len(rs) > 0 {
					return c.roleOf(rs[0], depth+1) + "[]"
				}
			}
		}
	}
	return "?"
}

func allNil(ls []Lit) bool {
	for _, l := range ls {
		if !nilCheck(l) {
			return false
		}
	}
	return true
}

// isEmptyIndexCall: literal is <index>.Empty() on an index built by an indexing.Build* function.
func (c *Ctx) isEmptyIndexCall(l Lit) bool {
	call := litCall(l)
	if call == nil {
		return false
	}
	name := c.P.calleeName(call.Common())
	if !strings.HasSuffix(name, ").Empty") || len(call.Call.Args) != 1 {
		return false
	}
	return c.P.originatesOnlyFrom(call.Call.Args[0], "indexing.Build")
}

// isPassIgnoreSet: v is the ignore set produced by the IgnoreReader for this pass.
func (c *Ctx) isPassIgnoreSet(v ssa.Value) bool {
	P := c.P
	d := P.Desc(v)
	if strings.Contains(d, "global(analyzer.IgnoreReader)") && strings.Contains(d, "ignore.IgnoreResult.IgnoreSet") {
		return true
	}
	return P.RootsAllDeep(v, func(r ssa.Value) bool { return P.CallTo(r, "ignore.ReadIgnoreAnnotations") != nil })
}
