package main

// C17 (and the table clauses of C08/C16): code constants <-> CodesByCategory <-> docs <-> URL switch <-> sites.

import (
	"fmt"
	"go/ast"
	"go/constant"
	"go/token"
	"go/types"
	"os"
	"path/filepath"
	"regexp"
	"sort"
	"strings"

	"golang.org/x/tools/go/ssa"
)

var pkgCategory = map[string]string{"immutable": "IMM", "constructor": "CTOR", "testonly": "TONL", "packageonly": "PKGO", "implements": "IMPL"}

func (c *Ctx) ruleCodeTable() {
	P := c.P
	cp := P.Pkg("codes")
	if cp == nil {
		c.fail("CODE-TABLE", "codes", "", "package codes not found")
		return
	}
	codes := map[string]string{}    // const name -> value
	prefixes := map[string]string{} // const name -> value
	for name, val := range c.M.CodeConsts {
		if strings.HasSuffix(name, "CategoryPrefix") {
			prefixes[name] = val
		} else {
			codes[name] = val
		}
	}
	// uniqueness, shape
	seenVal := map[string]string{}
	reCode := regexp.MustCompile(`^[A-Z]+[0-9]{2}$`)
	for n, v := range codes {
		if o, dup := seenVal[v]; dup {
			c.fail("CODE-TABLE/UNIQUE", v, "", "code value "+v+" is shared by constants "+o+" and "+n)
		}
		seenVal[v] = n
		c.check(reCode.MatchString(v), "CODE-TABLE/FORM", v, "", "CATEGORY+NN", "code "+v+" is not of the form <letters><two digits>")
	}
	catOf := func(code string) string { return strings.TrimRight(code, "0123456789") }
	prefixVals := map[string]bool{}
	for _, v := range prefixes {
		prefixVals[v] = true
	}
	// CodesByCategory literal
	inTable := map[string]string{} // code -> category key
	var lit *ast.CompositeLit
	for _, f := range cp.Syntax {
		for _, d := range f.Decls {
			gd, ok := d.(*ast.GenDecl)
			if !ok {
				continue
			}
			for _, sp := range gd.Specs {
				vs, ok := sp.(*ast.ValueSpec)
				if !ok {
					continue
				}
				for i, nm := range vs.Names {
					if nm.Name == "CodesByCategory" && i < len(vs.Values) {
						lit, _ = vs.Values[i].(*ast.CompositeLit)
					}
				}
			}
		}
	}
	if lit == nil {
		c.fail("CODE-TABLE", "codes.CodesByCategory", "", "table literal not found")
		return
	}
	strOf := func(e ast.Expr) string {
		if tv, ok := cp.TypesInfo.Types[e]; ok && tv.Value != nil && tv.Value.Kind() == constant.String {
			return constant.StringVal(tv.Value)
		}
		return ""
	}
	for _, el := range lit.Elts {
		kv, ok := el.(*ast.KeyValueExpr)
		if !ok {
			continue
		}
		cat := strOf(kv.Key)
		vl, ok := kv.Value.(*ast.CompositeLit)
		if !ok {
			continue
		}
		for _, ce := range vl.Elts {
			cl, ok := ce.(*ast.CompositeLit)
			if !ok || len(cl.Elts) == 0 {
				continue
			}
			first := cl.Elts[0]
			if kv2, ok := first.(*ast.KeyValueExpr); ok {
				first = kv2.Value
			}
			code := strOf(first)
			if prev, dup := inTable[code]; dup {
				c.fail("CODE-TABLE/ONCE", code, P.Pos(cl.Pos()), "code appears twice in CodesByCategory (under "+prev+" and "+cat+")")
			}
			inTable[code] = cat
		}
	}
	var codeVals []string
	for _, v := range codes {
		codeVals = append(codeVals, v)
	}
	sort.Strings(codeVals)
	for _, v := range codeVals {
		cat, ok := inTable[v]
		c.check(ok && cat == catOf(v) && prefixVals[cat], "CODE-TABLE/CATEGORY", v, P.Pos(lit.Pos()), "listed once under category "+cat,
			fmt.Sprintf("code %s is not listed in CodesByCategory under its own category %s (found %q): category-level @ignore / exclude-checks does not cover it", v, catOf(v), cat))
	}
	for v := range inTable {
		if _, ok := seenVal[v]; !ok {
			c.fail("CODE-TABLE/CONST", v, P.Pos(lit.Pos()), "CodesByCategory lists "+v+" which is not a code constant")
		}
	}
	c.floor("code constants", len(codes), 16)
	c.floor("category prefixes", len(prefixes), 5)
	// docs: 03_codes.md bold codes, 02_06_ignore.md table
	docDir := filepath.Join(P.Root, "book/gogreement-docs/src")
	if b, err := os.ReadFile(filepath.Join(docDir, "03_codes.md")); err == nil {
		doc := map[string]bool{}
		for _, m := range regexp.MustCompile(`\|\s*\*\*([A-Z]+[0-9]{2})\*\*\s*\|`).FindAllStringSubmatch(string(b), -1) {
			doc[m[1]] = true
		}
		var missing, extra []string
		for _, v := range codeVals {
			if !doc[v] {
				missing = append(missing, v)
			}
		}
		for v := range doc {
			if _, ok := seenVal[v]; !ok {
				extra = append(extra, v)
			}
		}
		sort.Strings(extra)
		c.check(len(missing) == 0 && len(extra) == 0, "CODE-TABLE/DOCS", "03_codes.md", "book/gogreement-docs/src/03_codes.md", "documented codes = code constants", fmt.Sprintf("documented codes differ from the code constants: undocumented %v, documented but unknown %v", missing, extra))
	} else {
		c.fail("CODE-TABLE/DOCS", "03_codes.md", "", "cannot read the codes reference: "+err.Error())
	}
	// URL switch: every prefix has a HasPrefix(code, prefix) case returning an existing page
	c.ruleDocURL(prefixVals)
	// SITE-CODE: each site's code is a constant of its package's category
	for _, s := range c.M.Sites {
		want := pkgCategory[s.VT.Pkg]
		_, isConst := seenVal[s.Code]
		c.check(isConst && catOf(s.Code) == want, "SITE-CODE", c.siteName(s), P.Pos(s.Alloc.Pos()), s.Code+" belongs to analyzer category "+want,
			fmt.Sprintf("report site of package %s carries code %q, which is not a documented code of category %s", s.VT.Pkg, s.Code, want))
	}
	perCode := map[string]int{}
	for _, s := range c.M.Sites {
		perCode[s.Code]++
	}
	for _, v := range codeVals {
		c.check(perCode[v] >= 1, "SITE-CODE/COVERED", v, "", fmt.Sprintf("%d report site(s)", perCode[v]), "no report site produces "+v)
	}
}

func (c *Ctx) ruleDocURL(prefixVals map[string]bool) {
	P := c.P
	fn := P.LookupFunc("codes", "GetDocumentationURL")
	if fn == nil {
		c.fail("DOC-URL", "codes.GetDocumentationURL", "", "function not found")
		return
	}
	docDir := filepath.Join(P.Root, "book/gogreement-docs/src")
	covered := map[string]string{}
	codeD := P.Desc(fn.Params[0])
	pageRx := regexp.MustCompile(`const\("(?:https?://[^"]*/)?([0-9a-z_]+)\.html"\)`) // (a constant base URL is folded into the page constant)
	// every way the result is put together: constants concatenated in the function itself, or the page name
	// returned by a helper that is handed the code
	var cases func(f *ssa.Function, pins pinMap, depth int)
	cases = func(f *ssa.Function, pins pinMap, depth int) {
		allInstrs(f, func(b *ssa.BasicBlock, ins ssa.Instruction) {
			r, ok := ins.(*ssa.Return)
			if !ok || len(r.Results) != 1 {
				return
			}
			var parts []ssa.Value
			var flat func(v ssa.Value)
			flat = func(v ssa.Value) {
				if bo, ok := v.(*ssa.BinOp); ok && bo.Op == token.ADD {
					flat(bo.X)
					flat(bo.Y)
					return
				}
				parts = append(parts, v)
			}
			flat(r.Results[0])
			P.PinnedAll(pins, func() {
				for _, pv := range parts {
					if call, ok := pv.(*ssa.Call); ok && depth < 3 {
						callee := call.Call.StaticCallee()
						if callee != nil && P.IsProductFunc(callee) && len(callee.Blocks) > 0 && pins[callee] == nil {
							np := pinMap{callee: call}
							for k, v := range pins {
								np[k] = v
							}
							cases(callee, np, depth+1)
							continue
						}
					}
					// the page may be a variable assigned in an if / else-if chain: each way it gets its value
					for _, vc := range P.ValueCases(pv, 0) {
						m := pageRx.FindStringSubmatch(vc.Desc)
						if m == nil {
							continue
						}
						gs := append(append([]Lit{}, vc.Guards...), P.BlockGuards(b)...)
						for _, l := range gs {
							if call := P.litCallTo(l, "strings.HasPrefix"); call != nil && l.Pos && P.Desc(call.Call.Args[0]) == codeD {
								covered[constString(call.Call.Args[1])] = m[1]
							}
						}
					}
				}
			})
		})
	}
	cases(fn, nil, 0)
	// table-driven form: for _, e := range <package-level table> { if HasPrefix(code, e.<prefix>) { return base + e.<page> } }
	allInstrs(fn, func(b *ssa.BasicBlock, ins ssa.Instruction) {
		r, ok := ins.(*ssa.Return)
		if !ok || len(r.Results) != 1 {
			return
		}
		for _, l := range P.BlockGuards(b) {
			call := P.litCallTo(l, "strings.HasPrefix")
			if call == nil || !l.Pos || call.Call.Args[0] != fn.Params[0] {
				continue
			}
			pd := P.Desc(call.Call.Args[1])
			if os.Getenv("GGV_DEBUG_DOCURL") != "" {
				fmt.Println("DOCURL pd=", pd, " ret=", P.Desc(r.Results[0]))
			}
			// field(<element of global codes.T>.<struct type>.<prefix field>): the element may be the range value
			// of a slice, or &T[i] / T[i] of an array or slice walked by index
			m := regexp.MustCompile(`^field\((elem(?:\[\?\])?\(&?(?:load\()?global\((?:[^()]* )?codes\.([A-Za-z0-9_]+)\)\)?\))\..*\.([A-Za-z0-9_]+)\)$`).FindStringSubmatch(pd)
			if m == nil {
				continue
			}
			elem, table, prefixField := m[1], m[2], m[3]
			m2 := regexp.MustCompile(`field\(`+regexp.QuoteMeta(elem)+`\.[^()]*\.([A-Za-z0-9_]+)\)`).FindAllStringSubmatch(P.Desc(r.Results[0]), -1)
			pageField := ""
			for _, x := range m2 {
				if x[1] != prefixField {
					pageField = x[1]
				}
			}
			if pageField == "" {
				continue
			}
			for p, page := range c.stringTable(table, prefixField, pageField) {
				covered[p] = strings.TrimSuffix(page, ".html")
			}
		}
	})
	var ps []string
	for p := range prefixVals {
		ps = append(ps, p)
	}
	sort.Strings(ps)
	for _, p := range ps {
		page, ok := covered[p]
		exists := false
		if ok {
			if _, err := os.Stat(filepath.Join(docDir, page+".md")); err == nil {
				exists = true
			}
		}
		c.check(ok && exists, "DOC-URL", p, P.Pos(fn.Pos()), "HasPrefix(code, \""+p+"\") -> "+page+".html (page exists)", "category "+p+" has no documentation URL case with an existing page")
	}
	// the page of a category is the page of its annotation: the docs table of 03_codes.md links [@x](page.md)
	if b, err := os.ReadFile(filepath.Join(docDir, "03_codes.md")); err == nil {
		secs := regexp.MustCompile(`(?s)### ([A-Z]+) - .*?\*\*Documentation\*\*: \[[^\]]*\]\(([0-9a-z_]+)\.md\)`).FindAllStringSubmatch(string(b), -1)
		for _, m := range secs {
			if page, ok := covered[m[1]]; ok {
				c.check(page == m[2], "DOC-URL/PAGE", m[1], "book/gogreement-docs/src/03_codes.md", "links to "+m[2], "category "+m[1]+" links to "+page+".html but its documentation page is "+m[2]+".md")
			}
		}
	}
}

// stringTable reads a package-level slice-of-struct literal of package codes: keyField value -> valField value (string
// constants only).
func (c *Ctx) stringTable(table, keyField, valField string) map[string]string {
	out := map[string]string{}
	cp := c.P.Pkg("codes")
	if cp == nil {
		return out
	}
	strOf := func(e ast.Expr) (string, bool) {
		if tv, ok := cp.TypesInfo.Types[e]; ok && tv.Value != nil && tv.Value.Kind() == constant.String {
			return constant.StringVal(tv.Value), true
		}
		return "", false
	}
	for _, f := range cp.Syntax {
		for _, d := range f.Decls {
			gd, ok := d.(*ast.GenDecl)
			if !ok {
				continue
			}
			for _, sp := range gd.Specs {
				vs, ok := sp.(*ast.ValueSpec)
				if !ok {
					continue
				}
				for i, nm := range vs.Names {
					if nm.Name != table || i >= len(vs.Values) {
						continue
					}
					lit, ok := vs.Values[i].(*ast.CompositeLit)
					if !ok {
						continue
					}
					var elemT types.Type
					switch lt := cp.TypesInfo.TypeOf(lit).Underlying().(type) {
					case *types.Slice:
						elemT = lt.Elem()
					case *types.Array:
						elemT = lt.Elem()
					default:
						continue
					}
					st, ok := elemT.Underlying().(*types.Struct)
					if !ok {
						continue
					}
					for _, el := range lit.Elts {
						cl, ok := el.(*ast.CompositeLit)
						if !ok {
							continue
						}
						vals := map[string]string{}
						for j, fe := range cl.Elts {
							if kv, isKV := fe.(*ast.KeyValueExpr); isKV {
								if id, isID := kv.Key.(*ast.Ident); isID {
									if v, ok := strOf(kv.Value); ok {
										vals[id.Name] = v
									}
								}
							} else if j < st.NumFields() {
								if v, ok := strOf(fe); ok {
									vals[st.Field(j).Name()] = v
								}
							}
						}
						if k, ok := vals[keyField]; ok {
							if v, ok := vals[valField]; ok {
								out[k] = v
							}
						}
					}
				}
			}
		}
	}
	return out
}

// ruleMainExit: main ends in multichecker.Main(AllAnalyzers()...), AllAnalyzers returns every analyzer of the
// table, and no other process exit is reachable from product code.
func (c *Ctx) ruleMainExit() {
	P := c.P
	mainPkg := P.SSAPkg[modulePath+"/cmd/gogreement"]
	if mainPkg == nil {
		c.fail("EXIT", "cmd/gogreement", "", "main package not found")
		return
	}
	mainFn := mainPkg.Func("main")
	okMain := false
	allInstrs(mainFn, func(b *ssa.BasicBlock, ins ssa.Instruction) {
		if call, ok := ins.(*ssa.Call); ok && strings.HasSuffix(P.calleeName(call.Common()), "multichecker.Main") {
			roots := P.ResolveOpaque(call.Call.Args[0])
			okMain = len(roots) > 0
			for _, r := range roots {
				if rc, isCall := r.(*ssa.Call); !isCall || P.calleeName(rc.Common()) != "analyzer.AllAnalyzers" {
					okMain = false
				}
			}
		}
	})
	c.check(okMain, "EXIT/MAIN", "main", P.Pos(mainFn.Pos()), "multichecker.Main(analyzer.AllAnalyzers()...)", "main does not hand analyzer.AllAnalyzers() to multichecker.Main (exit status convention / analyzer set)")
	all := P.LookupFunc("analyzer", "AllAnalyzers")
	if all != nil {
		got := map[string]bool{}
		allInstrs(all, func(b *ssa.BasicBlock, ins ssa.Instruction) {
			if st, ok := ins.(*ssa.Store); ok {
				for _, r := range P.Resolve(st.Val) {
					if u, ok := r.(*ssa.UnOp); ok {
						if g, ok := u.X.(*ssa.Global); ok {
							got[g.Name()] = true
						}
					}
				}
			}
		})
		for _, a := range c.M.Analyzers {
			c.check(got[a.VarName], "EXIT/ALL-ANALYZERS", a.VarName, P.Pos(all.Pos()), "registered", "analyzer "+a.VarName+" is not returned by AllAnalyzers: its diagnostics are never produced")
		}
	}
	c.floor("analyzers", len(c.M.Analyzers), 8)
	// no process exit in product code
	n := 0
	for _, fn := range P.ModFuncs {
		allInstrs(fn, func(b *ssa.BasicBlock, ins ssa.Instruction) {
			call, ok := ins.(ssa.CallInstruction)
			if !ok {
				return
			}
			name := P.calleeName(call.Common())
			switch {
			case name == "os.Exit", strings.HasPrefix(name, "log.Fatal"), strings.HasPrefix(name, "log.Panic"), strings.HasPrefix(name, "(*log.Logger).Fatal"):
				n++
				c.fail("EXIT/NO-OTHER", FuncName(fn), P.Pos(call.Pos()), "product code terminates the process itself ("+name+"): the exit status no longer reflects the diagnostics")
			}
		})
	}
	if n == 0 {
		c.ok("EXIT/NO-OTHER", "product code", "", "no os.Exit / log.Fatal in product code")
	}
}

// rulePosInFile: every diagnostic position is <node>.Pos() of a node of a filtered file, or the Pos of an annotation.
func (c *Ctx) rulePosInFile() {
	P := c.P
	for _, s := range c.M.Sites {
		si := &siteInfo{S: s, Name: c.siteName(s)}
		if s.VT.Pkg == "implements" {
			// position = OnTypePos of an annotation = TypeSpec.Pos() recorded by the reader from a filtered file
			d := ""
			if s.PosVal != nil {
				d = P.DescDeep(s.PosVal)
			}
			ok := strings.HasPrefix(d, "call((*go/ast.TypeSpec).Pos;") && strings.Contains(d, "(*config.Config).FilterFiles")
			c.check(ok, "POS-IN-FILE", si.Name, P.Pos(s.Alloc.Pos()), "position of the annotated type spec in a filtered file", "IMPL diagnostic is not positioned at the annotated type of a filtered file: "+short(d))
			continue
		}
		c.checkSitePos(si, "POS-IN-FILE")
	}
}

// ruleNoWalkInReader: the annotation reader does not walk into declarations (local declarations are inert)
// and never reads trailing comments (.Comment fields).
func (c *Ctx) ruleNoWalkInReader() {
	P := c.P
	n := 0
	for _, w := range c.walks() {
		if funcPkgPath(w.Call.Parent()) == modulePath+"/src/annotations" {
			n++
			c.fail("ATTACH/NO-WALK", FuncName(w.Call.Parent()), P.Pos(w.Call.Pos()), "the annotation reader walks into declarations: annotations on local declarations would take effect")
		}
	}
	if n == 0 {
		c.ok("ATTACH/NO-WALK", "annotations", "", "no ast.Inspect/Walk in the annotation reader: only top-level declarations are read")
	}
	bad := 0
	for _, fn := range P.ModFuncs {
		if funcPkgPath(fn) != modulePath+"/src/annotations" {
			continue
		}
		allInstrs(fn, func(b *ssa.BasicBlock, ins ssa.Instruction) {
			fa, ok := ins.(*ssa.FieldAddr)
			if !ok {
				return
			}
			tn := typeStr(deref(fa.X.Type()))
			if !strings.HasPrefix(tn, "go/ast.") {
				return
			}
			f := deref(fa.X.Type()).Underlying().(*types.Struct).Field(fa.Field).Name()
			if f == "Comment" || (tn == "go/ast.File" && f == "Comments") {
				bad++
				c.fail("ATTACH/NO-TRAILING", FuncName(fn), P.Pos(fa.Pos()), "the annotation reader reads "+tn+"."+f+": trailing / free-standing comments would be treated as annotations")
			}
		})
	}
	if bad == 0 {
		c.ok("ATTACH/NO-TRAILING", "annotations", "", "only .Doc comment groups are read")
	}
}
