package main

// C19, the caret line, on a small model of emitted text.
//
// The formatter may write to a strings.Builder / bytes.Buffer (directly, through helpers that are handed the
// builder, through methods of a printer object that owns it) or put strings together with + and Sprintf (helpers
// returning strings). Both are read as sequences of pieces:
//
//	lit "…" | rep(n) (n copies of one byte) | num (a number, possibly in a field of a given width) |
//	shown (the result of truncateString) | pad (the result of the padding loop) | val (anything else)
//
// The obligations are stated on pieces: the pieces emitted on the output line before `shown` and before `pad` have
// the same total width (MARGIN; a num field is as wide as its width only if the number has no more digits:
// WIDEST), the padding loop runs displayColumn-1 times (COUNT), writes one byte per step (ONE-PER-STEP), a tab
// exactly where the shown text has a tab at that offset (TAB), pad goes where shown went (SINK) and the next piece
// starts with '^' (CARET).

import (
	"fmt"
	"go/token"
	"go/types"
	"strings"

	"golang.org/x/tools/go/ssa"
)

type tPiece struct {
	kind string    // lit, rep, num, shown, pad, acc, val
	s    string    // lit
	n    ssa.Value // rep: the count; num: the field width (nil: none)
	v    ssa.Value // num: the number; val: the value
	pad  *padLoop
	sub  []tPiece // opt: what is emitted on one side of a branch only
}

func (p tPiece) String() string {
	switch p.kind {
	case "lit":
		return fmt.Sprintf("%q", p.s)
	case "rep":
		return "rep"
	case "num":
		if p.n != nil {
			return "num*"
		}
		return "num"
	}
	return p.kind
}

type padWrite struct {
	ins   ssa.Instruction
	b     byte
	guard *ssa.BasicBlock // the block whose dominating conditions govern this byte
}

type padLoop struct {
	fn      *ssa.Function
	loop    *natLoop
	phi     *ssa.Phi
	init    ssa.Value
	iters   linExpr
	writes  []padWrite
	okOne   bool
	whyOne  string
	sink    ssa.Value // the builder written to (nil: an accumulator)
	accPhi  *ssa.Phi  // the accumulator ([]byte / string) carried by the loop
	exit    *ssa.BasicBlock
	inFront *ssa.BasicBlock // the block the loop is entered from
}

type textAn struct {
	c           *Ctx
	P           *Program
	lc          *linCtx
	trunc, disp *ssa.Call
	fns         []*ssa.Function
	pads        []*padLoop
	padOfAcc    map[*ssa.Phi]*padLoop
	padOfHead   map[*ssa.BasicBlock]*padLoop
	fields      [][2]ssa.Value // (width, number) of num fields met while measuring margins
	depth       int
}

func stripIface(v ssa.Value) ssa.Value {
	for i := 0; i < 6; i++ {
		switch x := v.(type) {
		case *ssa.MakeInterface:
			v = x.X
		case *ssa.ChangeInterface:
			v = x.X
		case *ssa.ChangeType:
			v = x.X
		default:
			return v
		}
	}
	return v
}

// through: the value behind conversions, parameters with one call site, local variables assigned once and fields
// of module structs stored once.
func (t *textAn) through(v ssa.Value) ssa.Value {
	P := t.P
	for i := 0; i < 12; i++ {
		v = stripIface(v)
		switch x := v.(type) {
		case *ssa.Parameter:
			args := P.paramArgs(x)
			if len(args) != 1 {
				return v
			}
			v = args[0]
			continue
		case *ssa.UnOp:
			if x.Op != token.MUL {
				return v
			}
			if cell := P.cellOf(x.X); cell != nil {
				vals, _, escaped := P.CellStores(cell)
				if !escaped && len(vals) == 1 {
					v = vals[0]
					continue
				}
				return v
			}
			if fa, ok := x.X.(*ssa.FieldAddr); ok {
				if n := P.moduleStruct(deref(fa.X.Type())); n != nil {
					var stored []ssa.Value
					for _, f := range t.fns {
						allInstrs(f, func(_ *ssa.BasicBlock, ins ssa.Instruction) {
							if st, ok := ins.(*ssa.Store); ok {
								if fa2, ok := st.Addr.(*ssa.FieldAddr); ok && fa2.Field == fa.Field && P.moduleStruct(deref(fa2.X.Type())) == n {
									stored = append(stored, st.Val)
								}
							}
						})
					}
					if len(stored) == 1 {
						v = stored[0]
						continue
					}
				}
			}
			return v
		}
		return v
	}
	return v
}

// sinkKey names the builder a write goes to: the allocation (two builders of the same type in two functions are
// different sinks), a field of such an object, or the descriptor of the value.
func (t *textAn) sinkKey(v ssa.Value) string {
	v = stripIface(v)
	if fa, ok := v.(*ssa.FieldAddr); ok {
		return t.sinkKey(fa.X) + "." + fieldName(deref(fa.X.Type()), fa.Field)
	}
	if rs := t.P.Resolve(v); len(rs) == 1 {
		if a, ok := rs[0].(*ssa.Alloc); ok {
			return fmt.Sprintf("alloc:%p", a)
		}
	}
	return t.P.Desc(v)
}

// termOf: the pieces of a string value.
func (t *textAn) termOf(v ssa.Value, depth int) []tPiece {
	P := t.P
	if v == nil || depth > 10 {
		return []tPiece{{kind: "val", v: v}}
	}
	v = t.through(v)
	if t.trunc != nil && v == ssa.Value(t.trunc) {
		return []tPiece{{kind: "shown"}}
	}
	switch x := v.(type) {
	case *ssa.Const:
		if isStringType(x.Type()) {
			return []tPiece{{kind: "lit", s: constString(x)}}
		}
	case *ssa.BinOp:
		if x.Op == token.ADD && isStringType(x.Type()) {
			return append(t.termOf(x.X, depth+1), t.termOf(x.Y, depth+1)...)
		}
	case *ssa.Phi:
		if pl := t.padOfAcc[x]; pl != nil {
			return []tPiece{{kind: "pad", pad: pl}}
		}
		return []tPiece{{kind: "acc", v: x}}
	case *ssa.Convert:
		// string(<[]byte accumulator of the padding loop>)
		if isStringType(x.Type()) {
			if ph, ok := t.through(x.X).(*ssa.Phi); ok {
				if pl := t.padOfAcc[ph]; pl != nil {
					return []tPiece{{kind: "pad", pad: pl}}
				}
			}
		}
	case *ssa.Call:
		n := P.calleeName(x.Common())
		switch {
		case n == "strings.Repeat" && len(x.Call.Args) == 2:
			if _, one := oneByteConst(t.through(x.Call.Args[0])); one {
				return []tPiece{{kind: "rep", n: x.Call.Args[1]}}
			}
		case n == "fmt.Sprintf":
			return t.formatPieces(constString(t.through(x.Call.Args[0])), variadicValues(x), depth)
		case n == "fmt.Sprint":
			if vs := variadicValues(x); len(vs) == 1 && isIntType(vs[0].Type()) {
				return []tPiece{{kind: "num", v: vs[0]}}
			}
		case n == "strconv.Itoa" && len(x.Call.Args) == 1:
			return []tPiece{{kind: "num", v: x.Call.Args[0]}}
		case (n == "(*strings.Builder).String" || n == "(*bytes.Buffer).String") && len(x.Call.Args) == 1:
			// the text of a builder that lives in this function: what the function writes to it
			return t.linearise(x.Parent(), t.sinkKey(x.Call.Args[0]), depth+1)
		}
		if callee := x.Call.StaticCallee(); callee != nil && P.IsProductFunc(callee) && len(callee.Blocks) > 0 && isStringType(x.Type()) && (t.trunc == nil || callee != t.trunc.Call.StaticCallee()) {
			var ret *ssa.Return
			nr := 0
			allInstrs(callee, func(_ *ssa.BasicBlock, ins ssa.Instruction) {
				if r, ok := ins.(*ssa.Return); ok {
					ret, nr = r, nr+1
				}
			})
			if nr == 1 && len(ret.Results) == 1 {
				var out []tPiece
				P.PinnedAll(pinMap{callee: x}, func() { out = t.termOf(ret.Results[0], depth+1) })
				return out
			}
			if out := t.padHelperWithEmptyReturns(callee, x, depth); out != nil {
				return out
			}
		}
	}
	return []tPiece{{kind: "val", v: v}}
}

// formatPieces: the pieces a Printf-style format produces.
func (t *textAn) formatPieces(format string, args []ssa.Value, depth int) []tPiece {
	var out []tPiece
	lit := ""
	flush := func() {
		if lit != "" {
			out = append(out, tPiece{kind: "lit", s: lit})
			lit = ""
		}
	}
	ai := 0
	for i := 0; i < len(format); i++ {
		if format[i] != '%' {
			lit += string(format[i])
			continue
		}
		rest := format[i+1:]
		switch {
		case strings.HasPrefix(rest, "%"):
			lit += "%"
			i++
		case strings.HasPrefix(rest, "*d") && ai+1 < len(args):
			flush()
			out = append(out, tPiece{kind: "num", n: args[ai], v: args[ai+1]})
			ai += 2
			i += 2
		case strings.HasPrefix(rest, "d") && ai < len(args):
			flush()
			out = append(out, tPiece{kind: "num", v: args[ai]})
			ai++
			i++
		case strings.HasPrefix(rest, "*s") && ai+1 < len(args):
			flush()
			if cs, ok := t.through(args[ai+1]).(*ssa.Const); ok && isStringType(cs.Type()) && constString(cs) == "" {
				out = append(out, tPiece{kind: "rep", n: args[ai]})
			} else {
				out = append(out, tPiece{kind: "val", v: args[ai+1]})
			}
			ai += 2
			i += 2
		case (strings.HasPrefix(rest, "s") || strings.HasPrefix(rest, "v")) && ai < len(args):
			flush()
			out = append(out, t.termOf(args[ai], depth+1)...)
			ai++
			i++
		default:
			flush()
			out = append(out, tPiece{kind: "val"})
			return out
		}
	}
	flush()
	if ai != len(args) {
		out = append(out, tPiece{kind: "val"})
	}
	return out
}

// eventPieces: what instruction ins emits into the sink: a write, or a call of a helper that writes.
func (t *textAn) eventPieces(ins ssa.Instruction, sink string, depth int) ([]tPiece, bool) {
	P := t.P
	if a, s, ok := t.c.writeArg(ins); ok {
		if t.sinkKey(s) != sink {
			return nil, false
		}
		if call, isCall := a.(*ssa.Call); isCall && call == ins { // fmt.Fprintf
			return t.formatPieces(constString(t.through(call.Call.Args[1])), variadicValues(call), depth), true
		}
		if b, one := oneByteConst(t.through(a)); one && !isStringType(a.Type()) {
			return []tPiece{{kind: "lit", s: string([]byte{b})}}, true
		}
		return t.termOf(a, depth+1), true
	}
	call, ok := ins.(*ssa.Call)
	if !ok || depth > 6 {
		return nil, false
	}
	callee := call.Call.StaticCallee()
	if callee == nil || !P.IsProductFunc(callee) || len(callee.Blocks) == 0 || (t.trunc != nil && callee == t.trunc.Call.StaticCallee()) || (t.disp != nil && callee == t.disp.Call.StaticCallee()) {
		return nil, false
	}
	if !t.writesTo(callee, sink, call, 0) {
		return nil, false
	}
	var out []tPiece
	P.PinnedAll(pinMap{callee: call}, func() { out = t.linearise(callee, sink, depth+1) })
	return out, true
}

// writesTo: fn (entered through call) contains a write event into the sink, directly or through helpers.
func (t *textAn) writesTo(fn *ssa.Function, sink string, call *ssa.Call, depth int) bool {
	if depth > 4 {
		return false
	}
	found := false
	t.P.PinnedAll(pinMap{fn: call}, func() {
		allInstrs(fn, func(_ *ssa.BasicBlock, ins ssa.Instruction) {
			if _, s, ok := t.c.writeArg(ins); ok && t.sinkKey(s) == sink {
				found = true
			}
			if c2, ok := ins.(*ssa.Call); ok && !found {
				if h := c2.Call.StaticCallee(); h != nil && h != fn && t.P.IsProductFunc(h) && len(h.Blocks) > 0 && t.writesTo(h, sink, c2, depth+1) {
					found = true
				}
			}
		})
	})
	return found
}

// linearise: the pieces fn emits into the sink, in order: straight-line code, guards that return at once, the
// padding loop, loops that do not write, a branch that emits on one side and rejoins (an "opt" group); anything
// else ends the sequence with an unknown piece.
func (t *textAn) linearise(fn *ssa.Function, sink string, depth int) []tPiece {
	if depth > 8 || len(fn.Blocks) == 0 {
		return []tPiece{{kind: "val"}}
	}
	return t.lineariseFrom(fn, fn.Blocks[0], nil, sink, depth)
}

func (t *textAn) lineariseFrom(fn *ssa.Function, b, stop *ssa.BasicBlock, sink string, depth int) []tPiece {
	var out []tPiece
	loops := naturalLoops(fn)
	loopAt := func(b *ssa.BasicBlock) *natLoop {
		for i := range loops {
			if loops[i].head == b {
				return &loops[i]
			}
		}
		return nil
	}
	var emitsIn func(b *ssa.BasicBlock, seen map[*ssa.BasicBlock]bool) bool
	emitsIn = func(b *ssa.BasicBlock, seen map[*ssa.BasicBlock]bool) bool {
		if seen[b] || b == stop {
			return false
		}
		seen[b] = true
		for _, ins := range b.Instrs {
			if _, ok := t.eventPieces(ins, sink, depth+1); ok {
				return true
			}
		}
		for _, s := range b.Succs {
			if emitsIn(s, seen) {
				return true
			}
		}
		return false
	}
	reaches := func(from, to *ssa.BasicBlock) bool {
		seen := map[*ssa.BasicBlock]bool{}
		var dfs func(x *ssa.BasicBlock) bool
		dfs = func(x *ssa.BasicBlock) bool {
			if x == to {
				return true
			}
			if seen[x] {
				return false
			}
			seen[x] = true
			for _, s := range x.Succs {
				if dfs(s) {
					return true
				}
			}
			return false
		}
		return dfs(from)
	}
	visited := map[*ssa.BasicBlock]bool{}
	for steps := 0; steps < 80 && b != nil && b != stop; steps++ {
		if visited[b] {
			out = append(out, tPiece{kind: "val"})
			return out
		}
		visited[b] = true
		if lp := loopAt(b); lp != nil {
			if pl := t.padOfHead[b]; pl != nil && pl.sink != nil && t.sinkKey(pl.sink) == sink {
				out = append(out, tPiece{kind: "pad", pad: pl})
				b = pl.exit
				continue
			}
			writes := false
			for lb := range lp.body {
				for _, ins := range lb.Instrs {
					if _, ok := t.eventPieces(ins, sink, depth+1); ok {
						writes = true
					}
				}
			}
			if len(lp.exits) != 1 {
				out = append(out, tPiece{kind: "val"})
				return out
			}
			if writes {
				// a loop that emits (the lines of the excerpt): an optional, repeated group
				var sub []tPiece
				for lb := range lp.body {
					for _, ins := range lb.Instrs {
						if ps, ok := t.eventPieces(ins, sink, depth+1); ok {
							sub = append(sub, ps...)
						}
					}
				}
				out = append(out, tPiece{kind: "opt", sub: sub})
			}
			b = lp.exits[0][1]
			continue
		}
		for _, ins := range b.Instrs {
			if ps, ok := t.eventPieces(ins, sink, depth+1); ok {
				out = append(out, ps...)
			}
		}
		switch lastInstr(b).(type) {
		case *ssa.Return:
			return out
		case *ssa.Jump:
			b = b.Succs[0]
		case *ssa.If:
			s0, s1 := b.Succs[0], b.Succs[1]
			e0, e1 := emitsIn(s0, map[*ssa.BasicBlock]bool{b: true}), emitsIn(s1, map[*ssa.BasicBlock]bool{b: true})
			switch {
			case !e0 && !e1:
				return out
			case e0 && !e1 && endsWithoutJoin(s1):
				b = s0
			case e1 && !e0 && endsWithoutJoin(s0):
				b = s1
			case reaches(s0, s1) && !reaches(s1, s0) && depth < 8:
				// if cond { emit }: the then side rejoins at the else side
				sub := t.lineariseFrom(fn, s0, s1, sink, depth+1)
				out = append(out, tPiece{kind: "opt", sub: sub})
				b = s1
			case reaches(s1, s0) && !reaches(s0, s1) && depth < 8:
				sub := t.lineariseFrom(fn, s1, s0, sink, depth+1)
				out = append(out, tPiece{kind: "opt", sub: sub})
				b = s0
			default:
				out = append(out, tPiece{kind: "val"})
				return out
			}
		default:
			return out
		}
	}
	return out
}

// endsWithoutJoin: the block returns (possibly after plain jumps): a guard's "nothing to do" side.
func endsWithoutJoin(b *ssa.BasicBlock) bool {
	for i := 0; i < 4 && b != nil; i++ {
		switch lastInstr(b).(type) {
		case *ssa.Return:
			return true
		case *ssa.Jump:
			b = b.Succs[0]
		default:
			return false
		}
	}
	return false
}

func instrIdx(ins ssa.Instruction) int {
	for k, x := range ins.Block().Instrs {
		if x == ins {
			return k
		}
	}
	return -1
}

// cutAtNewline: pieces after the last newline of the sequence; cut reports that there was one.
func cutAtNewline(ps []tPiece) ([]tPiece, bool) {
	for i := len(ps) - 1; i >= 0; i-- {
		if ps[i].kind == "lit" {
			if j := strings.LastIndexByte(ps[i].s, '\n'); j >= 0 {
				rest := append([]tPiece{}, ps[i+1:]...)
				if tail := ps[i].s[j+1:]; tail != "" {
					rest = append([]tPiece{{kind: "lit", s: tail}}, rest...)
				}
				return rest, true
			}
		}
	}
	return ps, false
}

// prefixBefore: what has been emitted into the sink on the current output line before instruction ins: walks back
// through the block, its single predecessors and - at the entry of a helper with one call site - the caller.
// atStart: the walk ended at a newline (certain) rather than at a join (where a new line is taken to begin).
func (t *textAn) prefixBefore(ins ssa.Instruction, sink string) (pieces []tPiece, atStart bool) {
	P := t.P
	b := ins.Block()
	k := instrIdx(ins) - 1
	for steps := 0; steps < 40; steps++ {
		for ; k >= 0; k-- {
			if ps, ok := t.eventPieces(b.Instrs[k], sink, 0); ok {
				rest, cut := cutAtNewline(ps)
				pieces = append(append([]tPiece{}, rest...), pieces...)
				if cut {
					return pieces, true
				}
			}
		}
		if b == b.Parent().Blocks[0] {
			callers := P.Callers(b.Parent())
			if len(callers) != 1 {
				return pieces, false
			}
			ci, ok := callers[0].(ssa.Instruction)
			if !ok || ci.Block() == nil {
				return pieces, false
			}
			b, k = ci.Block(), instrIdx(ci)-1
			continue
		}
		if len(b.Preds) != 1 {
			return pieces, false
		}
		b = b.Preds[0]
		k = len(b.Instrs) - 1
	}
	return pieces, false
}

// nextAfter: the first pieces emitted into the sink after instruction k of block b, in straight-line code (leaving a
// helper with one call site continues behind that call).
func (t *textAn) nextAfter(b *ssa.BasicBlock, k int, sink string) []tPiece {
	P := t.P
	for steps := 0; steps < 12 && b != nil; steps++ {
		for ; k < len(b.Instrs); k++ {
			if ps, ok := t.eventPieces(b.Instrs[k], sink, 0); ok && len(ps) > 0 {
				return ps
			}
		}
		switch lastInstr(b).(type) {
		case *ssa.Jump:
			b, k = b.Succs[0], 0
		case *ssa.Return:
			callers := P.Callers(b.Parent())
			if len(callers) != 1 {
				return nil
			}
			ci, ok := callers[0].(ssa.Instruction)
			if !ok || ci.Block() == nil {
				return nil
			}
			b, k = ci.Block(), instrIdx(ci)+1
		default:
			return nil
		}
	}
	return nil
}

// widthOfValue: an integer used as a count or field width: len(<text>) is the width of that text when it is known.
func (t *textAn) widthOfValue(w ssa.Value) linExpr {
	wv := t.through(w)
	if call, ok := wv.(*ssa.Call); ok {
		if bi, isB := call.Call.Value.(*ssa.Builtin); isB && bi.Name() == "len" && len(call.Call.Args) == 1 && isStringType(call.Call.Args[0].Type()) {
			if e, ok := t.widthOf(t.termOf(call.Call.Args[0], 0)); ok {
				return e
			}
		}
	}
	return t.lc.of(wv)
}

// widthOf: the number of bytes of a piece sequence (false: not a sum of constants, repeats and number fields).
func (t *textAn) widthOf(ps []tPiece) (linExpr, bool) {
	w := linConst(0)
	for _, p := range ps {
		switch p.kind {
		case "lit":
			w = w.add(linConst(int64(len(p.s))), 1)
		case "rep":
			w = w.add(t.widthOfValue(p.n), 1)
		case "num":
			if p.n == nil {
				// the decimal text of a number: as wide as it has digits - one symbol per number
				w = w.add(linVar("digits:"+t.lc.id(t.through(p.v))), 1)
				continue
			}
			w = w.add(t.widthOfValue(p.n), 1)
			t.fields = append(t.fields, [2]ssa.Value{p.n, p.v})
		default:
			return w, false
		}
	}
	return w, true
}

func piecesString(ps []tPiece) string {
	var s []string
	for _, p := range ps {
		s = append(s, p.String())
	}
	return strings.Join(s, " ")
}

// ------------------------------------------------------------------------------------------------
// the padding loop

// findPadLoops: loops (in package reporting) whose continuation condition is linear in the display column and a
// +1 counter, with what they write per step.
func (t *textAn) findPadLoops() {
	c, P, lc := t.c, t.P, t.lc
	t.padOfAcc = map[*ssa.Phi]*padLoop{}
	t.padOfHead = map[*ssa.BasicBlock]*padLoop{}
	for _, fn := range t.fns {
		loops := naturalLoops(fn)
		for li := range loops {
			lp := &loops[li]
			ifi, ok := lastInstr(lp.head).(*ssa.If)
			if !ok || len(lp.head.Succs) != 2 || !lp.body[lp.head.Succs[0]] || lp.body[lp.head.Succs[1]] {
				continue
			}
			if bo, isB := ifi.Cond.(*ssa.BinOp); isB && isIntType(bo.X.Type()) {
				lc.of(bo.X)
				lc.of(bo.Y)
			}
			sub := &linCtx{c: c, P: P, vars: lc.vars, ids: lc.ids}
			sub.condFacts(ifi.Cond, true)
			if len(sub.facts) != 1 || len(sub.disj) != 0 || sub.facts[0].t["displayColumn"] != 1 {
				continue
			}
			f := sub.facts[0]
			var ph *ssa.Phi
			for _, ins := range lp.head.Instrs {
				if x, ok := ins.(*ssa.Phi); ok && isIntType(x.Type()) {
					if e := lc.of(x); len(e.t) == 1 && e.c == 0 {
						for k := range e.t {
							if f.t[k] == -1 {
								ph = x
							}
						}
					}
				}
			}
			if ph == nil {
				continue
			}
			var init ssa.Value
			var inFront *ssa.BasicBlock
			okStep := true
			for i, e := range ph.Edges {
				if lp.body[lp.head.Preds[i]] {
					b2, isB := e.(*ssa.BinOp)
					var k ssa.Value
					if isB && b2.Op == token.ADD && b2.X == ssa.Value(ph) {
						k = b2.Y
					} else if isB && b2.Op == token.ADD && b2.Y == ssa.Value(ph) {
						k = b2.X
					}
					n, isC := int64(0), false
					if k != nil {
						n, isC = constInt(k)
					}
					if !isC || n != 1 {
						okStep = false
					}
				} else {
					if init != nil && init != e {
						okStep = false
					}
					init, inFront = e, lp.head.Preds[i]
				}
			}
			if !okStep || init == nil {
				continue
			}
			pl := &padLoop{fn: fn, loop: lp, phi: ph, init: init, inFront: inFront}
			pl.iters = f.add(lc.of(ph), 1).add(lc.of(init), -1).add(linConst(1), 1)
			if len(lp.exits) == 1 {
				pl.exit = lp.exits[0][1]
			}
			t.padWrites(pl)
			t.pads = append(t.pads, pl)
			t.padOfHead[lp.head] = pl
			if pl.accPhi != nil {
				t.padOfAcc[pl.accPhi] = pl
			}
		}
	}
}

// padWrites: the one-byte writes of the loop body: builder writes of a constant byte (or of a variable that is one
// of several constants), appends of a byte to an accumulator carried by the loop; every path through an iteration
// performs exactly one.
func (t *textAn) padWrites(pl *padLoop) {
	c, P := t.c, t.P
	loop := pl.loop
	isWrite := func(ins ssa.Instruction) (val ssa.Value, sink ssa.Value, acc *ssa.Phi, ok bool) {
		if a, s, okW := c.writeArg(ins); okW {
			if call, isCall := a.(*ssa.Call); isCall && call == ins {
				return a, s, nil, true // Fprintf: not a one-byte write (judged below)
			}
			return a, s, nil, true
		}
		if call, isCall := ins.(*ssa.Call); isCall {
			if elem, base, isApp := oneElemOfAppend(call); isApp {
				if ph, isPhi := base.(*ssa.Phi); isPhi && ph.Block() == loop.head {
					return elem, nil, ph, true
				}
			}
		}
		if bo, isB := ins.(*ssa.BinOp); isB && bo.Op == token.ADD && isStringType(bo.Type()) {
			if ph, isPhi := bo.X.(*ssa.Phi); isPhi && ph.Block() == loop.head {
				return bo.Y, nil, ph, true
			}
		}
		return nil, nil, nil, false
	}
	pl.okOne = true
	seenW := map[ssa.Instruction]bool{}
	entry := loop.head.Succs[0]
	var walk func(b *ssa.BasicBlock, n int, seen map[*ssa.BasicBlock]bool)
	walk = func(b *ssa.BasicBlock, n int, seen map[*ssa.BasicBlock]bool) {
		if b == loop.head {
			if n != 1 && pl.okOne {
				pl.okOne, pl.whyOne = false, fmt.Sprintf("an iteration can write %d characters", n)
			}
			return
		}
		if !loop.body[b] {
			pl.okOne, pl.whyOne = false, "the padding loop can be left from inside an iteration"
			return
		}
		if seen[b] {
			pl.okOne, pl.whyOne = false, "nested loop inside the padding loop"
			return
		}
		seen[b] = true
		defer delete(seen, b)
		for _, ins := range b.Instrs {
			val, sink, acc, ok := isWrite(ins)
			if !ok {
				continue
			}
			n++
			if seenW[ins] {
				continue
			}
			seenW[ins] = true
			if sink != nil {
				if pl.sink != nil && t.sinkKey(pl.sink) != t.sinkKey(sink) {
					pl.okOne, pl.whyOne = false, "the padding is written to two builders"
				}
				pl.sink = sink
			}
			if acc != nil {
				if pl.accPhi != nil && pl.accPhi != acc {
					pl.okOne, pl.whyOne = false, "two accumulators in the padding loop"
				}
				pl.accPhi = acc
			}
			// the byte(s) written
			if bt, one := oneByteConst(val); one {
				pl.writes = append(pl.writes, padWrite{ins, bt, b})
				continue
			}
			if ph, isPhi := val.(*ssa.Phi); isPhi {
				all := true
				for i, e := range ph.Edges {
					bt, one := oneByteConst(e)
					if !one {
						all = false
						break
					}
					pl.writes = append(pl.writes, padWrite{ins, bt, ph.Block().Preds[i]})
				}
				if all {
					continue
				}
			}
			pl.okOne, pl.whyOne = false, "an iteration writes something other than one constant character: "+short(P.Desc(val))
		}
		for _, s := range b.Succs {
			walk(s, n, seen)
		}
	}
	walk(entry, 0, map[*ssa.BasicBlock]bool{})
}

// tabRule: the '\t' of the padding is written exactly when the shown text has a tab at the padded offset.
func (t *textAn) tabRule(pl *padLoop, pname string) {
	c, P, lc := t.c, t.P, t.lc
	loop := pl.loop
	offset := lc.of(pl.phi).add(lc.of(pl.init), -1)
	nTab := 0
	for _, w := range pl.writes {
		wwhere := P.Pos(w.ins.Pos())
		switch w.b {
		case ' ':
		case '\t':
			nTab++
			sawTab := false
			bad := ""
			b := w.guard
			conds := func(yield func(ifi *ssa.If, val bool)) {
				// the branch that leads into b itself (b is entered over one edge only), then its dominators
				chain := []*ssa.BasicBlock{}
				for d := b; d != nil && d != loop.head && loop.body[d]; d = d.Idom() {
					chain = append(chain, d)
				}
				for _, x := range chain {
					d := x.Idom()
					if d == nil || !loop.body[d] {
						continue
					}
					ifi, ok := lastInstr(d).(*ssa.If)
					if !ok || len(d.Succs) != 2 {
						continue
					}
					for k, s := range d.Succs {
						if len(s.Preds) == 1 && dominates(s, b) {
							yield(ifi, k == 0)
						}
					}
				}
			}
			conds(func(ifi *ssa.If, val bool) {
				if ifi.Block() == loop.head {
					return
				}
				bo, ok := ifi.Cond.(*ssa.BinOp)
				if !ok {
					bad = "a condition that is not a comparison"
					return
				}
				// text[offset] == '\t' (or: not != )
				if (bo.Op == token.EQL && val) || (bo.Op == token.NEQ && !val) {
					matched := false
					for _, pr := range [][2]ssa.Value{{bo.X, bo.Y}, {bo.Y, bo.X}} {
						ch, one := oneByteConst(pr[1])
						var text, index ssa.Value
						switch lk := pr[0].(type) {
						case *ssa.Lookup:
							text, index = lk.X, lk.Index
						case *ssa.Index:
							text, index = lk.X, lk.Index
						}
						if !one || ch != '\t' || text == nil || !isStringType(text.Type()) {
							continue
						}
						if t.through(text) != ssa.Value(t.trunc) {
							bad = "the tab positions are read from " + short(P.Desc(text)) + ", not from the text that is shown (the result of truncateString): once the line is truncated the tabs are elsewhere"
							continue
						}
						ix := lc.of(index)
						if !(lc.prove(geq(ix, offset)) && lc.prove(geq(offset, ix))) {
							bad = "the character tested is not the one at the offset being padded"
							continue
						}
						matched = true
					}
					if matched {
						sawTab = true
						return
					}
				}
				if isIntType(bo.X.Type()) {
					sub := &linCtx{c: c, P: P, vars: lc.vars, ids: lc.ids}
					sub.condFacts(bo, val)
					lt := lc.lenVar(t.trunc)
					inRange := &linCtx{c: c, P: P, vars: lc.vars, ids: lc.ids, facts: []linExpr{offset, geq(lt.add(linConst(1), -1), offset), lt}}
					allIn := len(sub.facts) > 0 && len(sub.disj) == 0
					for _, f := range sub.facts {
						if !inRange.prove(f) {
							allIn = false
						}
					}
					if allIn {
						return
					}
				}
				if bad == "" {
					bad = "an additional condition (" + short(P.Desc(ifi.Cond)) + ")"
				}
			})
			c.check(sawTab && bad == "", "EXCERPT/CARET-PAD/TAB", fmt.Sprintf("%s#tab%d", pname, nTab), wwhere, "a tab is written exactly where the shown text has a tab at the padded offset",
				"the tab of the padding is not written exactly when the shown text has a tab at this offset: "+map[bool]string{true: bad, false: "no test <shown text>[offset] == '\\t' governs it"}[bad != ""])
		default:
			c.fail("EXCERPT/CARET-PAD/TAB", fmt.Sprintf("%s#char%q", pname, w.b), wwhere, fmt.Sprintf("the padding contains the character %q", w.b))
		}
	}
	if nTab == 0 {
		c.fail("EXCERPT/CARET-PAD/TAB", pname+"#tab1", P.Pos(pl.phi.Pos()), "the padding never repeats a tab of the shown text: the caret is displaced by every tab before the reported column")
	}
}

// ------------------------------------------------------------------------------------------------

// ruleCaretLineText replaces the shape-specific checks of the caret line by checks on emitted pieces.
func (c *Ctx) ruleCaretLineText(trunc, disp *ssa.Call, numDesc string) {
	P := c.P
	fn := disp.Parent()
	name := FuncName(fn)
	where := P.Pos(disp.Pos())
	t := &textAn{c: c, P: P, trunc: trunc, disp: disp}
	for _, f := range P.ModFuncs {
		if funcPkgPath(f) == modulePath+"/src/reporting" {
			t.fns = append(t.fns, f)
		}
	}
	lc := &linCtx{c: c, P: P, vars: map[ssa.Value]linExpr{}, ids: map[ssa.Value]string{}, trust: true}
	t.lc = lc
	dc := linVar("displayColumn")
	lc.vars[disp] = dc
	for _, f := range t.fns {
		for _, p := range f.Params {
			switch t.through(p) {
			case ssa.Value(disp):
				lc.vars[p] = dc
			case ssa.Value(trunc):
				lc.ids[p] = lc.id(trunc)
			}
		}
	}
	t.findPadLoops()
	if len(t.pads) == 0 {
		c.fail("EXCERPT/CARET-PAD", name, where, "no loop that pads the caret line character by character up to the display column: the padding cannot repeat the tabs of the shown text, so the caret is displaced by every tab before the reported column")
		return
	}
	pl := t.pads[0]
	pname := FuncName(pl.fn)
	want := dc.add(linConst(1), -1)
	c.check(lc.prove(geq(pl.iters, want)) && lc.prove(geq(want, pl.iters)), "EXCERPT/CARET-PAD/COUNT", pname, P.Pos(pl.phi.Pos()), "the padding loop runs displayColumn-1 times",
		"the padding loop does not run displayColumn-1 times: the caret is not written in the display column")
	c.check(pl.okOne && len(pl.writes) > 0, "EXCERPT/CARET-PAD/ONE-PER-STEP", pname, P.Pos(pl.phi.Pos()), "every iteration of the padding loop writes exactly one constant character", "padding loop: "+pl.whyOne)
	t.tabRule(pl, pname)
	// CELLS (found as KF-C19-1 from an agent's remark): the loop counts the *bytes* before the column (one padding
	// per step of a byte index up to a byte column) while a terminal shows one cell per *character*: every
	// multi-byte character before the reported column moves the caret to the right of the character it should
	// stand under. The property's quantifier names lines with multi-byte characters.
	if pl.okOne && len(pl.writes) > 0 {
		c.fail("EXCERPT/CARET-PAD/CELLS", "caret line#one-padding-per-byte", P.Pos(pl.phi.Pos()),
			"the caret line gets one padding per byte before the column, the terminal shows one cell per character: a multi-byte character before the reported column displaces the caret to the right by its extra bytes")
	}

	// ---- where the shown text is emitted, and what is on its line before it
	type emission struct {
		ins    ssa.Instruction
		sink   string
		before []tPiece // within the same event
		after  []tPiece
	}
	find := func(kind string) *emission {
		for _, f := range t.fns {
			var found *emission
			allInstrs(f, func(b *ssa.BasicBlock, ins ssa.Instruction) {
				if found != nil {
					return
				}
				var ps []tPiece
				sink := ""
				if a, s, ok := c.writeArg(ins); ok {
					sink = t.sinkKey(s)
					if call, isCall := a.(*ssa.Call); isCall && call == ins {
						ps = t.formatPieces(constString(t.through(call.Call.Args[1])), variadicValues(call), 0)
					} else {
						ps = t.termOf(a, 0)
					}
				} else if bo, isB := ins.(*ssa.BinOp); isB && bo.Op == token.ADD && isStringType(bo.Type()) {
					// a concatenation that is not part of a larger one: the whole text put together here
					top := true
					if bo.Referrers() != nil {
						for _, r := range *bo.Referrers() {
							if b2, ok := r.(*ssa.BinOp); ok && b2.Op == token.ADD {
								top = false
							}
						}
					}
					if !top {
						return
					}
					ps = t.termOf(bo, 0)
					sink = "text"
					for _, p := range ps {
						if p.kind == "acc" {
							sink = "acc:" + P.Desc(p.v)
						}
					}
				} else {
					return
				}
				for i, p := range ps {
					if p.kind == kind {
						found = &emission{ins: ins, sink: sink, before: ps[:i], after: ps[i+1:]}
						return
					}
				}
			})
			if found != nil {
				return found
			}
		}
		return nil
	}
	shownAt := find("shown")
	if shownAt == nil {
		c.fail("EXCERPT/CARET-PAD/MARGIN", name, where, "the place where the shown text (the result of truncateString) is written was not identified")
		return
	}
	linePrefix := shownAt.before
	if rest, cut := cutAtNewline(linePrefix); cut {
		linePrefix = rest
	} else if !strings.HasPrefix(shownAt.sink, "acc:") && shownAt.sink != "text" {
		more, _ := t.prefixBefore(shownAt.ins, shownAt.sink)
		linePrefix = append(more, linePrefix...)
	} else {
		// a concatenation onto an accumulator: what comes before is the accumulated text (complete lines)
		var trimmed []tPiece
		for _, p := range linePrefix {
			if p.kind != "acc" {
				trimmed = append(trimmed, p)
			}
		}
		linePrefix = trimmed
	}

	// ---- the number printed beside the shown text is the lineNumbers entry of that line
	if numDesc != "" {
		printed := false
		for _, p := range linePrefix {
			if p.kind == "num" && p.v != nil {
				v := t.throughLoadOnly(p.v)
				if P.Desc(v) == numDesc || P.Desc(p.v) == numDesc {
					printed = true
				}
			}
		}
		c.check(printed, "EXCERPT/NUMBER-SHOWN", name, where, "the number printed beside an excerpt line is its lineNumbers entry", "the number printed beside an excerpt line is not the lineNumbers entry of that line (margin: "+piecesString(linePrefix)+")")
	}
	// ---- the caret line: pieces before the padding, the sink, the caret
	var caretPrefix, afterPad []tPiece
	okSink := false
	sinkWhy := "the padding and the shown text are not written to the same builder"
	if pl.sink != nil && t.sinkKey(pl.sink) == shownAt.sink {
		// builder loop: everything emitted on the line before the loop is entered
		sk := t.sinkKey(pl.sink)
		okSink = true
		if pl.inFront != nil {
			last := lastInstr(pl.inFront)
			pre, _ := t.prefixBefore(last, sk)
			caretPrefix = pre
		}
		if pl.exit != nil {
			afterPad = t.nextAfter(pl.exit, 0, sk)
		}
	} else {
		padAt := find("pad")
		if padAt == nil {
			c.fail("EXCERPT/CARET-PAD/SINK", pname, P.Pos(pl.phi.Pos()), "what the padding loop builds is not written anywhere that was identified")
			return
		}
		okSink = padAt.sink == shownAt.sink
		caretPrefix = padAt.before
		if rest, cut := cutAtNewline(caretPrefix); cut {
			caretPrefix = rest
		} else if !strings.HasPrefix(padAt.sink, "acc:") && padAt.sink != "text" {
			more, _ := t.prefixBefore(padAt.ins, padAt.sink)
			caretPrefix = append(more, caretPrefix...)
		} else {
			var trimmed []tPiece
			for _, p := range caretPrefix {
				if p.kind != "acc" {
					trimmed = append(trimmed, p)
				}
			}
			caretPrefix = trimmed
		}
		afterPad = padAt.after
		if len(afterPad) == 0 && !strings.HasPrefix(padAt.sink, "acc:") && padAt.sink != "text" {
			afterPad = t.nextAfter(padAt.ins.Block(), instrIdx(padAt.ins)+1, padAt.sink)
		}
	}
	c.check(okSink, "EXCERPT/CARET-PAD/SINK", pname, P.Pos(pl.phi.Pos()), "the padding is written to where the shown text was written", sinkWhy)
	okCaret := len(afterPad) > 0 && afterPad[0].kind == "lit" && strings.HasPrefix(afterPad[0].s, "^")
	c.check(okCaret, "EXCERPT/CARET-PAD/CARET", pname, P.Pos(pl.phi.Pos()), "the caret is the first thing written after the padding", "the first thing written after the padding is not the caret ("+piecesString(afterPad)+")")

	// ---- the same margin
	t.fields = nil
	lw, okL := t.widthOf(linePrefix)
	fields := t.fields
	cw, okC := t.widthOf(caretPrefix)
	if !okL || !okC || len(linePrefix) == 0 || len(caretPrefix) == 0 {
		c.fail("EXCERPT/CARET-PAD/MARGIN", name, where, fmt.Sprintf("the width of the margin before the shown text [%s] / before the caret padding [%s] is not a sum of constants, repeated characters and number fields", piecesString(linePrefix), piecesString(caretPrefix)))
		return
	}
	for i, f := range fields {
		cons := fmt.Sprintf("%s#field%d", name, i+1)
		okW, whyW := t.widest(f[0], f[1])
		c.check(okW, "EXCERPT/CARET-PAD/WIDEST", cons, where, "the width of the number field is the number of digits of a number that is at least the number shown", "the number shown beside a line can be wider than its field: "+whyW+"; the text of that line starts further right than the caret line assumes")
	}
	c.check(lc.prove(geq(lw, cw)) && lc.prove(geq(cw, lw)), "EXCERPT/CARET-PAD/MARGIN", name, where, "the margin before the caret padding is as wide as the margin before the shown text",
		fmt.Sprintf("the margin written before the caret padding [%s] is not as wide as the one before the shown text [%s]: the caret is displaced", piecesString(caretPrefix), piecesString(linePrefix)))
}

// widest: the field width w is the number of digits of a number that is at least the number v shown in the field.
func (t *textAn) widest(w, v ssa.Value) (bool, string) {
	c, P, lc := t.c, t.P, t.lc
	why := "the width is not the length of the decimal text of a number (len(fmt.Sprintf(\"%d\", n)), len(strconv.Itoa(n)), len(strings.Repeat(\" \", that)))"
	// w = len(<text>) with <text> = decimal(n) or rep(len(decimal(n)))
	var n ssa.Value
	cur := w
	for i := 0; i < 4 && n == nil; i++ {
		cv := t.through(cur)
		call, ok := cv.(*ssa.Call)
		if !ok {
			break
		}
		if callee := call.Call.StaticCallee(); callee != nil && P.IsProductFunc(callee) && len(callee.Blocks) > 0 && isIntType(call.Type()) {
			// the width is computed by a helper (gutterWidth(numbers)): what it returns
			var ret *ssa.Return
			nr := 0
			allInstrs(callee, func(_ *ssa.BasicBlock, ins ssa.Instruction) {
				if r, ok := ins.(*ssa.Return); ok {
					ret, nr = r, nr+1
				}
			})
			if nr != 1 || len(ret.Results) != 1 {
				break
			}
			cur = ret.Results[0]
			continue
		}
		bi, isB := call.Call.Value.(*ssa.Builtin)
		if !isB || bi.Name() != "len" || len(call.Call.Args) != 1 {
			break
		}
		ps := t.termOf(call.Call.Args[0], 0)
		if len(ps) != 1 {
			break
		}
		switch {
		case ps[0].kind == "num" && ps[0].n == nil:
			n = ps[0].v
		case ps[0].kind == "rep":
			cur = ps[0].n
		default:
			i = 4
		}
	}
	if n == nil {
		return false, why
	}
	why = "the number whose digits give the width is not known to be at least the number shown (neither by arithmetic nor as the maximum of the slice the number is taken from)"
	nv := t.through(n)
	blc := c.newLin(t.trunc.Block())
	blc.trust = false
	if blc.prove(geq(blc.of(nv), blc.of(v))) {
		return true, ""
	}
	if sid, isMax := c.maxFoldOver(lc, nv); isMax {
		if ld, isLd := t.throughLoadOnly(v).(*ssa.UnOp); isLd && ld.Op == token.MUL {
			if ia, isIA := ld.X.(*ssa.IndexAddr); isIA && lc.id(ia.X) == sid {
				return true, ""
			}
		}
	}
	_ = P
	return false, why
}

// throughLoadOnly: like through, but an element load stays an element load.
func (t *textAn) throughLoadOnly(v ssa.Value) ssa.Value {
	for i := 0; i < 6; i++ {
		v = stripIface(v)
		p, ok := v.(*ssa.Parameter)
		if !ok {
			return v
		}
		args := t.P.paramArgs(p)
		if len(args) != 1 {
			return v
		}
		v = args[0]
	}
	return v
}

var _ = types.Typ

// newTextAn: the text model for package reporting (trunc / disp: the formatter's calls of truncateString and
// calculateDisplayColumn, nil when they are not found).
func (c *Ctx) newTextAn() *textAn {
	P := c.P
	t := &textAn{c: c, P: P}
	for _, f := range P.ModFuncs {
		if funcPkgPath(f) == modulePath+"/src/reporting" {
			t.fns = append(t.fns, f)
		}
	}
	for _, f := range t.fns {
		allInstrs(f, func(_ *ssa.BasicBlock, ins ssa.Instruction) {
			call, ok := ins.(*ssa.Call)
			if !ok || call.Call.StaticCallee() == nil {
				return
			}
			switch FuncName(call.Call.StaticCallee()) {
			case "reporting.truncateString":
				t.trunc = call
			case "reporting.calculateDisplayColumn":
				t.disp = call
			}
		})
	}
	t.lc = &linCtx{c: c, P: P, vars: map[ssa.Value]linExpr{}, ids: map[ssa.Value]string{}, trust: true}
	if t.disp != nil {
		t.lc.vars[t.disp] = linVar("displayColumn")
		for _, f := range t.fns {
			for _, p := range f.Params {
				if t.through(p) == ssa.Value(t.disp) {
					t.lc.vars[p] = linVar("displayColumn")
				}
			}
		}
	}
	t.findPadLoops()
	return t
}

// checkFormatText: the message the formatter fn returns for violation v, read as emitted pieces, is
// `… [ <v.GetCode()> ] <v.GetMessage()> …` with `… <GetDocumentationURL(v.GetCode())> …` outside every optional
// group (help line on every path).
func (c *Ctx) checkFormatText(fn *ssa.Function) (okMsg, okURL, urlAlways bool) {
	P := c.P
	if len(fn.Params) < 2 {
		return
	}
	vD := P.Desc(fn.Params[1])
	t := c.newTextAn()
	var pieces []tPiece
	n := 0
	allInstrs(fn, func(_ *ssa.BasicBlock, ins ssa.Instruction) {
		if r, ok := ins.(*ssa.Return); ok && len(r.Results) == 1 {
			n++
			pieces = t.termOf(r.Results[0], 0)
		}
	})
	if n != 1 {
		return
	}
	var tmpl strings.Builder
	var flat func(ps []tPiece, opt bool)
	flat = func(ps []tPiece, opt bool) {
		for _, p := range ps {
			switch p.kind {
			case "lit":
				if !opt {
					tmpl.WriteString(p.s)
				}
			case "opt":
				flat(p.sub, true)
			case "val":
				d := ""
				if p.v != nil {
					d = P.Desc(p.v)
				}
				switch {
				case d == "call(invoke reporting.Violation.GetCode; "+vD+")" && !opt:
					tmpl.WriteString("\x00CODE\x00")
				case d == "call(invoke reporting.Violation.GetMessage; "+vD+")" && !opt:
					tmpl.WriteString("\x00MSG\x00")
				case strings.HasPrefix(d, "call(codes.GetDocumentationURL; call(invoke reporting.Violation.GetCode; "+vD):
					okURL = true
					if !opt {
						urlAlways = true
						tmpl.WriteString("\x00URL\x00")
					}
				default:
					if !opt {
						tmpl.WriteString("\x00?\x00")
					}
				}
			default:
				if !opt {
					tmpl.WriteString("\x00?\x00")
				}
			}
		}
	}
	flat(pieces, false)
	okMsg = strings.Contains(tmpl.String(), "[\x00CODE\x00] \x00MSG\x00")
	return
}

// padHelperWithEmptyReturns: a helper that returns the padding of the caret line and, besides the return of what its
// padding loop built, has early returns of the empty string (`if displayColumn <= 1 { return "" }`). Such a return
// is the padding too exactly when the padding is empty there: displayColumn-1 <= 0 must follow from the branch
// conditions that dominate it. Anything else (another constant, an early return that is not provably the
// zero-length case) is not followed, and the caller's rule fails closed.
func (t *textAn) padHelperWithEmptyReturns(callee *ssa.Function, call *ssa.Call, depth int) []tPiece {
	if t.lc == nil || t.disp == nil {
		return nil
	}
	dc, ok := t.lc.vars[ssa.Value(t.disp)]
	if !ok {
		return nil
	}
	var full *ssa.Return
	var empties []*ssa.Return
	bad := false
	allInstrs(callee, func(_ *ssa.BasicBlock, ins ssa.Instruction) {
		r, ok := ins.(*ssa.Return)
		if !ok {
			return
		}
		if len(r.Results) != 1 {
			bad = true
			return
		}
		if k, isConst := r.Results[0].(*ssa.Const); isConst && isStringType(k.Type()) && constString(k) == "" {
			empties = append(empties, r)
			return
		}
		if full != nil {
			bad = true
		}
		full = r
	})
	if bad || full == nil || len(empties) == 0 {
		return nil
	}
	var out []tPiece
	t.P.PinnedAll(pinMap{callee: call}, func() { out = t.termOf(full.Results[0], depth+1) })
	if len(out) != 1 || out[0].kind != "pad" {
		return nil
	}
	want := dc.add(linConst(1), -1)
	for _, r := range empties {
		lc := t.lc
		sub := &linCtx{c: lc.c, P: lc.P, vars: lc.vars, ids: lc.ids, trust: lc.trust, depth: lc.depth, bound: lc.bound, inst: lc.inst,
			nFresh: lc.nFresh + 500000, defSink: lc.def()}
		sub.facts = append(sub.facts, lc.def().facts...)
		sub.blockFacts(r.Block())
		if !sub.prove(geq(linConst(0), want)) {
			return nil
		}
	}
	return out
}
