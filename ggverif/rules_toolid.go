package main

import (
	"fmt"
	"go/token"
	"os"
	"sort"
	"strings"

	"golang.org/x/tools/go/ssa"
)

// ruleToolIdentity (C06, found as D38): under `go vet -vettool` the go command keeps the facts of a package that
// is not named on the command line in its cache; the key is made of the tool's answer to `-V=full`, the flags and
// the package's inputs - not of the environment. A setting that is read from the environment and decides what
// goes into the facts (which files are read) must therefore be part of that answer, or facts written under one
// configuration are used under another and the diagnostics of an importer depend on an earlier run.
//
// Decided on the code:
//
//	READ   = the names of all environment variables product code reads (os.Getenv / os.LookupEnv with names that
//	         resolve to constants; a computed name is reported);
//	ANSWER = a print in the main package whose text is `<x> version devel ... buildID=<v>` (the format the go
//	         command parses), v derived from Sum() of a hash h, executed when an element of os.Args equals
//	         "-V=full", not behind multichecker.Main;
//	for every name in READ: a read of that variable whose value is written into h - and, where the
//	configuration distinguishes set-but-empty from unset (LookupEnv), its presence flag as well.
func (c *Ctx) ruleToolIdentity() {
	P := c.P
	type envCall struct {
		call   *ssa.Call
		names  []string
		lookup bool
	}
	var calls []*envCall
	// the reads that can reach the facts: the configuration (package config and whatever the analyzers' run
	// functions call); an environment variable read elsewhere (say, by the reporter for colours) decides how a
	// diagnostic looks, not which facts are written
	relevant := map[*ssa.Function]bool{}
	for _, a := range c.M.Analyzers {
		if a.RunSSA != nil {
			for _, f := range P.StaticClosure(a.RunSSA) {
				relevant[f] = true
			}
		}
	}
	for _, fn := range P.ModFuncs {
		if !relevant[fn] && !strings.HasSuffix(funcPkgPath(fn), "/src/config") && !(fn.Pkg != nil && fn.Pkg.Pkg.Name() == "main") {
			continue
		}
		if strings.HasSuffix(funcPkgPath(fn), "/src/reporting") {
			continue
		}
		allInstrs(fn, func(b *ssa.BasicBlock, ins ssa.Instruction) {
			call, ok := ins.(*ssa.Call)
			if !ok {
				return
			}
			for _, how := range []string{"os.Getenv", "os.LookupEnv"} {
				if P.CallTo(call, how) == nil {
					continue
				}
				ec := &envCall{call: call, lookup: how == "os.LookupEnv"}
				for _, r := range envNameRoots(P, call.Call.Args[0]) {
					if s := constString(r); s != "" {
						ec.names = append(ec.names, s)
					} else {
						ec.names = append(ec.names, "?"+short(P.Desc(r)))
					}
				}
				sort.Strings(ec.names)
				if os.Getenv("GGV_TOOLID_DEBUG") != "" {
					fmt.Printf("TOOLID env call %s %v\n", P.Pos(call.Pos()), ec.names)
				}
				calls = append(calls, ec)
			}
		})
	}
	// the answer to -V=full
	var answer *ssa.Call
	var hasher ssa.Value
	for _, fn := range P.ModFuncs {
		if fn.Pkg == nil || fn.Pkg.Pkg.Name() != "main" {
			continue
		}
		allInstrs(fn, func(b *ssa.BasicBlock, ins ssa.Instruction) {
			call, ok := ins.(*ssa.Call)
			if !ok || call.Call.StaticCallee() == nil {
				return
			}
			name := FuncName(call.Call.StaticCallee())
			fi := -1
			switch name {
			case "fmt.Printf":
				fi = 0
			case "fmt.Fprintf":
				fi = 1
				if !strings.Contains(P.Desc(call.Call.Args[0]), "os.Stdout") {
					return
				}
			default:
				return
			}
			format := constString(call.Call.Args[fi])
			if !strings.Contains(format, "buildID=") {
				return
			}
			vals := variadicValues(call)
			where := P.Pos(call.Pos())
			// <program> version devel <anything> buildID=<v>\n : what the go command's toolID parses
			fields := strings.Fields(format)
			okFmt := len(fields) >= 4 && strings.HasPrefix(fields[0], "%") && fields[1] == "version" && fields[2] == "devel" &&
				strings.HasPrefix(fields[len(fields)-1], "buildID=%") && strings.HasSuffix(format, "\n") && strings.Count(format, "%") == len(vals) && len(vals) >= 2
			c.check(okFmt, "TOOL-ID/FORMAT", FuncName(fn), where, "`<program> version devel ... buildID=<hash>`: the form of a development tool's answer the go command accepts",
				"the answer to -V=full is not `<program> version devel ... buildID=<value>` + newline (the go command rejects or misreads it): "+fmt.Sprintf("%q", format))
			if !okFmt {
				return
			}
			// the value behind buildID= comes from Sum() of a hash
			for _, r := range P.ResolveDeep(vals[len(vals)-1]) {
				if h := sumReceiver(r); h != nil {
					answer, hasher = call, h
				}
			}
			if answer == nil {
				c.fail("TOOL-ID/HASH", FuncName(fn), where, "the value printed after buildID= is not the Sum() of a hash: "+short(P.Desc(vals[len(vals)-1])))
			}
		})
	}
	// what is read for the configuration: every read that is not one of the fingerprint's own
	written := map[ssa.Value]bool{}
	if hasher != nil {
		c.hashInputs(hasher, written, 0)
	}
	feeds := func(ec *envCall) (value, presence bool) {
		for w := range written {
			c.inputsOf(w, func(r ssa.Value) {
				if r == ssa.Value(ec.call) && !ec.lookup {
					value = true
				}
				if ex, ok := r.(*ssa.Extract); ok && ex.Tuple == ssa.Value(ec.call) {
					if ex.Index == 0 {
						value = true
					} else {
						presence = true
					}
				}
			})
		}
		if !ec.lookup {
			presence = false
		}
		return
	}
	type cover struct{ value, presence bool }
	covered := map[string]*cover{}
	read := map[string]*envCall{}
	needPresence := map[string]bool{}
	for _, ec := range calls {
		v, p := feeds(ec)
		if v {
			for _, n := range ec.names {
				cv := covered[n]
				if cv == nil {
					cv = &cover{}
					covered[n] = cv
				}
				cv.value = true
				cv.presence = cv.presence || p
			}
			continue
		}
		for _, n := range ec.names {
			if read[n] == nil {
				read[n] = ec
			}
			if ec.lookup && extractUsed(ec.call, 1) {
				needPresence[n] = true
			}
		}
	}
	var names []string
	for n := range read {
		names = append(names, n)
	}
	sort.Strings(names)
	for _, n := range names {
		ec := read[n]
		where := P.Pos(ec.call.Pos())
		if strings.HasPrefix(n, "?") {
			c.fail("TOOL-ID/ENV-COVERED", n, where, "an environment variable with a computed name is read: whether the tool's identity covers it is undecided")
			continue
		}
		cv := covered[n]
		switch {
		case answer == nil:
			c.fail("TOOL-ID/ENV-COVERED", n, where, "the configuration reads "+n+" but the tool leaves the answer to -V=full to the framework (a hash of the executable): `go vet` reuses the facts it cached for a dependency under another value of the variable")
		case cv == nil || !cv.value:
			c.fail("TOOL-ID/ENV-COVERED", n, where, "the configuration reads "+n+" but its value is not written into the hash printed as buildID= in answer to -V=full")
		case needPresence[n] && !cv.presence:
			c.fail("TOOL-ID/ENV-COVERED", n, where, "the configuration tells an empty "+n+" from an unset one (LookupEnv), the buildID hash does not: only the value is written into it")
		default:
			c.ok("TOOL-ID/ENV-COVERED", n, where, "read by the configuration and written into the buildID hash of the -V=full answer")
		}
	}
	if answer == nil {
		return
	}
	// when: os.Args has "-V=full", and not behind multichecker.Main
	fn := answer.Parent()
	where := P.Pos(answer.Pos())
	okWhen := c.reachedOnVersionFlag(answer.Block(), fn, 0)
	c.check(okWhen, "TOOL-ID/WHEN", FuncName(fn), where, "printed when an argument equals \"-V=full\", before the framework's main is entered",
		"the identity is not printed under a test of os.Args against \"-V=full\" that precedes multichecker.Main / unitchecker.Main / singlechecker.Main (the framework answers first, with the hash of the executable alone)")
	c.floor("environment variables read by the configuration", len(names), 4)
}

// envNameRoots: the constants a name argument can be: through parameters, phis and the elements of a ranged
// slice literal.
func envNameRoots(P *Program, v ssa.Value) []ssa.Value {
	var out []ssa.Value
	seen := map[ssa.Value]bool{}
	var walk func(x ssa.Value, d int)
	walk = func(x ssa.Value, d int) {
		if seen[x] || d > 12 {
			return
		}
		seen[x] = true
		for _, r := range P.ResolveDeep(x) {
			switch y := r.(type) {
			case *ssa.UnOp:
				// element of a slice/array literal: *(&lit[i])
				if ia, ok := y.X.(*ssa.IndexAddr); ok && y.Op == token.MUL {
					es := literalElems(P, ia.X)
					if es == nil {
						es = globalElems(P, ia.X)
					}
					if es != nil {
						for _, e := range es {
							walk(e, d+1)
						}
						continue
					}
				}
				out = append(out, r)
			case *ssa.Index:
				// element of an array value: (*table)[i]
				if ld, ok := y.X.(*ssa.UnOp); ok && ld.Op == token.MUL {
					if es := globalElems(P, ld.X); es != nil {
						for _, e := range es {
							walk(e, d+1)
						}
						continue
					}
				}
				out = append(out, r)
			case *ssa.Extract:
				// value of a range over a slice: next(range x)
				out = append(out, r)
			default:
				out = append(out, r)
			}
		}
	}
	walk(v, 0)
	return out
}

// literalElems: the values stored into the backing array of a slice literal (x = slice of new [n]T with
// constant-index stores), nil if x is not such a literal.
func literalElems(P *Program, x ssa.Value) []ssa.Value {
	for _, r := range P.ResolveDeep(x) {
		var arr *ssa.Alloc
		switch y := r.(type) {
		case *ssa.Slice:
			arr, _ = y.X.(*ssa.Alloc)
		case *ssa.Alloc:
			arr = y
		}
		if arr == nil || arr.Referrers() == nil {
			return nil
		}
		var out []ssa.Value
		for _, ref := range *arr.Referrers() {
			switch u := ref.(type) {
			case *ssa.IndexAddr:
				if u.Referrers() == nil {
					continue
				}
				for _, r2 := range *u.Referrers() {
					if st, ok := r2.(*ssa.Store); ok && st.Addr == ssa.Value(u) {
						out = append(out, st.Val)
					}
				}
			case *ssa.Slice, *ssa.DebugRef, *ssa.UnOp:
			default:
				return nil
			}
		}
		return out
	}
	return nil
}

// sumReceiver: v is derived from h.Sum(...) of a hash: returns h.
func sumReceiver(v ssa.Value) ssa.Value {
	for d := 0; d < 6; d++ {
		switch x := v.(type) {
		case *ssa.Convert:
			v = x.X
		case *ssa.ChangeType:
			v = x.X
		case *ssa.MakeInterface:
			v = x.X
		case *ssa.Slice:
			v = x.X
		case *ssa.Call:
			if x.Call.IsInvoke() && x.Call.Method.Name() == "Sum" {
				return x.Call.Value
			}
			if cal := x.Call.StaticCallee(); cal != nil {
				switch FuncName(cal) {
				case "encoding/hex.EncodeToString", "fmt.Sprintf", "fmt.Sprint":
					if len(x.Call.Args) > 0 {
						if FuncName(cal) == "encoding/hex.EncodeToString" {
							v = x.Call.Args[0]
							continue
						}
						vs := variadicValues(x)
						if len(vs) == 1 {
							v = vs[0]
							continue
						}
					}
				}
				if cal.Name() == "Sum" && cal.Signature.Recv() != nil && len(x.Call.Args) > 0 {
					return x.Call.Args[0]
				}
			}
			return nil
		default:
			return nil
		}
	}
	return nil
}

// hashInputs: the values written into writer w (a hash or a parameter that receives it): arguments of Write /
// WriteString / io.WriteString / io.Copy / fmt.Fprint*; followed into product functions that receive the writer.
func (c *Ctx) hashInputs(w ssa.Value, out map[ssa.Value]bool, depth int) {
	if depth > 6 || w.Referrers() == nil {
		return
	}
	for _, r := range *w.Referrers() {
		switch u := r.(type) {
		case *ssa.ChangeInterface:
			c.hashInputs(u, out, depth)
		case *ssa.MakeInterface:
			c.hashInputs(u, out, depth)
		case *ssa.Phi:
			c.hashInputs(u, out, depth+1)
		case *ssa.Call:
			if u.Call.IsInvoke() && u.Call.Value == w {
				switch u.Call.Method.Name() {
				case "Write", "WriteString":
					out[u.Call.Args[0]] = true
				}
				continue
			}
			cal := u.Call.StaticCallee()
			if cal == nil {
				continue
			}
			if cal.Signature.Recv() != nil && len(u.Call.Args) >= 2 && u.Call.Args[0] == w {
				switch cal.Name() {
				case "Write", "WriteString", "WriteByte", "WriteRune":
					out[u.Call.Args[1]] = true
					continue
				}
			}
			switch FuncName(cal) {
			case "io.WriteString", "io.Copy":
				if u.Call.Args[0] == w {
					out[u.Call.Args[1]] = true
				}
				continue
			case "fmt.Fprintf", "fmt.Fprint", "fmt.Fprintln":
				if u.Call.Args[0] == w {
					for _, v := range variadicValues(u) {
						out[v] = true
					}
				}
				continue
			}
			if strings.HasPrefix(funcPkgPath(cal), modulePath) {
				for i, a := range u.Call.Args {
					if a == w && i < len(cal.Params) {
						c.hashInputs(cal.Params[i], out, depth+1)
					}
				}
			}
		}
	}
}

// inputsOf calls visit for every value the computation of v takes in: backwards through origins, operands, the
// arguments of calls (boxed variadic arguments included), and - for the text of a strings.Builder / bytes.Buffer -
// everything written to that builder, also from closures that capture it. A branch taken on a value makes the
// values assigned under it depend on it too (`if set { write(value) } else { write("unset") }`): the conditions
// that dominate a write into a builder count as inputs of its text.
func (c *Ctx) inputsOf(v ssa.Value, visit func(ssa.Value)) {
	P := c.P
	seen := map[ssa.Value]bool{}
	var walk func(x ssa.Value, d int)
	walk = func(x ssa.Value, d int) {
		if x == nil || d > 24 || seen[x] {
			return
		}
		seen[x] = true
		visit(x)
		for _, r := range P.ResolveDeep(x) {
			if r != x {
				if seen[r] {
					continue
				}
				seen[r] = true
				visit(r)
			}
			switch y := r.(type) {
			case *ssa.Extract:
				visit(y)
				walk(y.Tuple, d+1)
				continue
			case *ssa.Call:
				if cal := y.Call.StaticCallee(); cal != nil && len(y.Call.Args) > 0 {
					switch FuncName(cal) {
					case "(*strings.Builder).String", "(*bytes.Buffer).String", "(*bytes.Buffer).Bytes":
						if cell := P.cellOf(y.Call.Args[0]); cell != nil {
							for _, al := range P.cellAliases(cell) {
								ins := map[ssa.Value]bool{}
								c.hashInputs(al, ins, 0)
								for in := range ins {
									walk(in, d+1)
								}
								// the conditions under which something is written
								if al.Referrers() != nil {
									for _, ref := range *al.Referrers() {
										if ri, ok := ref.(ssa.Instruction); ok && ri.Block() != nil {
											for _, l := range P.BlockGuards(ri.Block()) {
												for _, lv := range []ssa.Value{l.Val, l.X, l.Y} {
													if lv != nil {
														walk(lv, d+1)
													}
												}
											}
										}
									}
								}
							}
						}
						continue
					}
				}
				for _, vv := range variadicValues(y) {
					walk(vv, d+1)
				}
			}
			ins, ok := r.(ssa.Instruction)
			if !ok {
				continue
			}
			for _, op := range ins.Operands(nil) {
				if *op != nil {
					walk(*op, d+1)
				}
			}
		}
	}
	walk(v, 0)
}

// extractUsed: the idx-th result of a tuple call is used.
func extractUsed(call *ssa.Call, idx int) bool {
	if call.Referrers() == nil {
		return false
	}
	for _, r := range *call.Referrers() {
		if ex, ok := r.(*ssa.Extract); ok && ex.Index == idx && ex.Referrers() != nil {
			for _, u := range *ex.Referrers() {
				if _, isD := u.(*ssa.DebugRef); !isD {
					return true
				}
			}
		}
	}
	return false
}

// reachedOnVersionFlag: block b of fn is entered only when an element of os.Args equals "-V=full" and no
// framework main dominates it; followed to the callers when fn itself has no such test.
func (c *Ctx) reachedOnVersionFlag(b *ssa.BasicBlock, fn *ssa.Function, depth int) bool {
	P := c.P
	if depth > 4 {
		return false
	}
	frameworkBefore := false
	for _, blk := range fn.Blocks {
		for _, ins := range blk.Instrs {
			if call, ok := ins.(*ssa.Call); ok && call.Call.StaticCallee() != nil {
				n := FuncName(call.Call.StaticCallee())
				if (strings.HasSuffix(n, "checker.Main") || strings.HasSuffix(n, "checker.Run")) && (dominates(blk, b)) {
					frameworkBefore = true
				}
			}
		}
	}
	if frameworkBefore {
		return false
	}
	guarded := P.BlockCutBy(b, func(l Lit) bool {
		// slices.Contains(os.Args, "-V=full")
		if call := litCall(l); call != nil && l.Pos && call.Call.StaticCallee() != nil && strings.HasPrefix(FuncName(call.Call.StaticCallee()), "slices.Contains") && len(call.Call.Args) == 2 {
			return constString(call.Call.Args[1]) == "-V=full" && strings.Contains(P.Desc(call.Call.Args[0]), "os.Args")
		}
		if l.Kind != "eq" || !l.Pos || l.X == nil || l.Y == nil {
			return false
		}
		for _, pair := range [][2]ssa.Value{{l.X, l.Y}, {l.Y, l.X}} {
			if constString(pair[0]) == "-V=full" && strings.Contains(P.Desc(pair[1]), "os.Args") {
				return true
			}
		}
		return false
	})
	if guarded {
		return true
	}
	callers := P.Callers(fn)
	if len(callers) == 0 {
		return false
	}
	for _, cs := range callers {
		if !c.reachedOnVersionFlag(cs.Block(), cs.Parent(), depth+1) {
			return false
		}
	}
	return true
}

// globalElems: the values a package-level array / slice variable is initialised with (nil when g is not a global
// that is written exactly once, in its package's init, with a literal).
func globalElems(P *Program, g ssa.Value) []ssa.Value {
	gl, ok := g.(*ssa.Global)
	if !ok || gl.Pkg == nil {
		return nil
	}
	// no other store anywhere in product code
	n := 0
	var init *ssa.Store
	for _, fn := range P.ModFuncs {
		allInstrs(fn, func(_ *ssa.BasicBlock, ins ssa.Instruction) {
			st, ok := ins.(*ssa.Store)
			if !ok {
				return
			}
			if st.Addr == ssa.Value(gl) {
				n++
				init = st
			}
			if ia, ok := st.Addr.(*ssa.IndexAddr); ok && ia.X == ssa.Value(gl) {
				n += 2 // an element assigned separately: not a plain literal
			}
		})
	}
	if n != 1 || init == nil || init.Parent().Name() != "init" {
		return nil
	}
	switch v := init.Val.(type) {
	case *ssa.UnOp:
		if v.Op == token.MUL {
			return literalElems(P, v.X)
		}
	case *ssa.Slice:
		return literalElems(P, v)
	}
	return nil
}
