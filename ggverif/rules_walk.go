package main

// Rules about the AST walks of the checkers: PRUNE, WALK-ROOT, WALKSTATE (callback stores, per-iteration
// re-initialisation, per-file dedup maps), ITER (constant indices and early loop exits).

import (
	"fmt"
	"go/ast"
	"go/token"
	"go/types"
	"sort"
	"strings"

	"golang.org/x/tools/go/ssa"
)

// rulePrune: a walk callback may stop descending (return anything but constant true) only where the
// property allows it. Checker walks: only the @testonly FuncDecl prune. (ignore's two scope searches are
// covered by their own rules.)
func (c *Ctx) rulePrune(pkgs ...string) {
	P := c.P
	n := 0
	for _, pkg := range pkgs {
		for _, w := range c.walksOfPkg(pkg) {
			if w.Callback == nil {
				c.undecided("PRUNE", pkg+" walk", P.Pos(w.Call.Pos()), "ast.Inspect callback is not a function literal / named function")
				continue
			}
			n++
			name := FuncName(w.Callback)
			prunes := 0
			allInstrs(w.Callback, func(b *ssa.BasicBlock, ins ssa.Instruction) {
				r, ok := ins.(*ssa.Return)
				if !ok || len(r.Results) != 1 {
					return
				}
				if cv, isC := c.walkContinues(w, r.Results[0]); isC && cv {
					return
				}
				prunes++
				guards := P.BlockGuards(b)
				if _, isC := c.walkContinues(w, r.Results[0]); !isC && !w.Visitor {
					// `return !pred(...)`: the walk is pruned exactly when the returned expression is false
					guards = append(append([]Lit{}, guards...), literals(P.condFormula(r.Results[0], 0), false)...)
				}
				guards = P.Expand(guards)
				if pkg == "testonly" {
					// allowed: case *ast.FuncDecl with isInTestOnlyContext(ctx, thatNode) true
					okKind, okCtx := false, false
					var fdNode ssa.Value
					for _, l := range guards {
						if x, t, ta := typeAssertOK(l); x != nil && l.Pos && typeStr(t) == "*go/ast.FuncDecl" && c.roleOf(firstRoot(P, x), 0) == "node" {
							okKind = true
							_ = ta
							fdNode = x
						}
					}
					for _, l := range guards {
						if call := litCall(l); call != nil && l.Pos && call.Call.StaticCallee() != nil && FuncName(call.Call.StaticCallee()) == "testonly.isInTestOnlyContext" {
							// its FuncDecl argument must be this very node
							if len(call.Call.Args) == 2 && fdNode != nil {
								same := P.RootsAllDeep(call.Call.Args[1], func(r ssa.Value) bool {
									switch x := r.(type) {
									case *ssa.Extract:
										if ta, ok := x.Tuple.(*ssa.TypeAssert); ok {
											return ta.X == fdNode
										}
									case *ssa.TypeAssert:
										return x.X == fdNode
									}
									return false
								})
								if same {
									okCtx = true
								}
							}
						}
					}
					if okKind && okCtx {
						c.ok("PRUNE", name+"#testonly-funcdecl", P.Pos(r.Pos()), "descent stops only below a FuncDecl that is itself @testonly")
						return
					}
				}
				c.fail("PRUNE", name, P.Pos(r.Pos()), fmt.Sprintf("walk callback stops descending under [%s]: nodes below (closures, nested literals, operands) are never checked", strings.Join(litKeysShort(guards), "; ")))
			})
			if prunes == 0 {
				c.ok("PRUNE", name, P.Pos(w.Call.Pos()), "callback returns true on every path")
			}
			if pkg == "testonly" && prunes == 0 {
				c.fail("PRUNE", name+"#testonly-funcdecl", P.Pos(w.Call.Pos()), "bodies of @testonly functions are not skipped (no prune on FuncDecl with isInTestOnlyContext)")
			}
		}
	}
	c.count("walks", n)
}

// rulePruneGate (C07/C08): whether a walk descends must not depend on the suppression state - otherwise suppressing
// (or excluding) one diagnostic hides the diagnostics of everything below that node.
func (c *Ctx) rulePruneGate(pkgs ...string) {
	P := c.P
	n := 0
	for _, pkg := range pkgs {
		for _, w := range c.walksOfPkg(pkg) {
			if w.Callback == nil {
				continue
			}
			n++
			name := FuncName(w.Callback)
			bad := false
			allInstrs(w.Callback, func(b *ssa.BasicBlock, ins ssa.Instruction) {
				r, ok := ins.(*ssa.Return)
				if !ok || len(r.Results) != 1 {
					return
				}
				if cv, isC := c.walkContinues(w, r.Results[0]); isC && cv {
					return
				}
				guards := P.BlockGuards(b)
				if _, isC := c.walkContinues(w, r.Results[0]); !isC && !w.Visitor {
					guards = append(append([]Lit{}, guards...), literals(P.condFormula(r.Results[0], 0), false)...)
				}
				for _, l := range P.Expand(guards) {
					if call := P.litCallTo(l, fnIgnoreContain); call != nil {
						bad = true
						c.fail("PRUNE/GATE", name, P.Pos(r.Pos()), "the walk stops descending depending on ignoreSet.Contains: suppressing or excluding one diagnostic also removes the diagnostics of every node below it")
					}
				}
			})
			if !bad {
				c.ok("PRUNE/GATE", name, P.Pos(w.Call.Pos()), "descent does not depend on the suppression state")
			}
		}
	}
	c.floor("checker walks examined for suppression-dependent pruning", n, 4)
}

func isConstFalse(v ssa.Value) bool {
	cv, isC := constBool(v)
	return isC && !cv
}

func litKeysShort(ls []Lit) []string {
	var out []string
	for _, l := range ls {
		if l.Kind == "rangeloop" || l.Kind == "rangefunc" {
			continue
		}
		out = append(out, short(l.String()))
	}
	sort.Strings(out)
	if len(out) > 4 {
		out = out[:4]
	}
	return out
}

// ruleWalkRoot: what is walked. immutable/constructor: every top-level declaration of every filtered file
// (range over file.Decls with no filter); testonly/packageonly: the filtered file itself.
func (c *Ctx) ruleWalkRoot(pkgs ...string) {
	P := c.P
	for _, pkg := range pkgs {
		ws := c.walksOfPkg(pkg)
		if len(ws) == 0 {
			c.fail("WALK-ROOT", pkg, "", "no ast.Inspect walk found in checker package "+pkg)
			continue
		}
		for _, w := range ws {
			d := P.Desc(w.Root)
			where := P.Pos(w.Call.Pos())
			name := FuncName(w.Call.Parent())
			fileD := "iterelem0(call((*config.Config).FilterFiles;"
			switch {
			case strings.HasPrefix(d, fileD):
				c.ok("WALK-ROOT", name, where, "walks each file yielded by Config.FilterFiles")
			case strings.HasPrefix(d, "elem(field("+fileD) && strings.HasSuffix(d, ".go/ast.File.Decls))"):
				c.ok("WALK-ROOT", name, where, "walks each top-level declaration of each file yielded by Config.FilterFiles")
			default:
				c.fail("WALK-ROOT", name, where, "walk root is neither a filtered file nor an element of range file.Decls of one: "+short(d))
				continue
			}
			// no restrictive guard between the file loop and the Inspect call
			for _, l := range P.Expand(P.Guards(w.Call)) {
				if l.Kind == "rangeloop" || l.Kind == "rangefunc" || nilCheck(l) || l.Via != "" {
					continue
				}
				if c.benignClass(&siteInfo{}, l) != "" {
					continue
				}
				if pkg == "testonly" && c.notTestFileLit(l) {
					continue
				}
				if x, t, _ := typeAssertOK(l); x != nil && strings.HasPrefix(typeStr(t), "annotations.") || (x != nil && typeStr(t) == "*config.Config") {
					continue
				}
				if call := litCall(l); call != nil {
					n := P.calleeName(call.Common())
					if !l.Pos && strings.HasSuffix(n, ").Empty") {
						continue
					}
					if !l.Pos && n == "testonly.isTestFile" && pkg == "testonly" {
						continue
					}
				}
				if x, t, _ := typeAssertOK(l); x != nil && typeStr(t) == "annotations.PackageAnnotations" {
					continue
				}
				c.fail("WALK-ROOT/UNEXPECTED-GUARD", name, where, "the walk is skipped under a condition the property does not mention: "+short(l.String()))
			}
		}
	}
}

// ruleWalkState: nothing a walk callback (or what it calls) writes may carry information from one visited
// node to another, except append-only accumulators and per-file dedup maps.
func (c *Ctx) ruleWalkState(pkgs ...string) {
	P := c.P
	for _, pkg := range pkgs {
		for _, w := range c.walksOfPkg(pkg) {
			if w.Callback == nil {
				continue
			}
			name := FuncName(w.Callback)
			bad := 0
			for _, fn := range w.Closure {
				allInstrs(fn, func(b *ssa.BasicBlock, ins ssa.Instruction) {
					switch x := ins.(type) {
					case *ssa.Store:
						cls, why := c.classifyStore(w, fn, x)
						if cls == "state" {
							bad++
							c.fail("WALKSTATE/CB-STORE", name, P.Pos(x.Pos()), "walk callback writes state that outlives the visit of one node: "+why)
						}
					case *ssa.MapUpdate:
						okm, why := c.dedupMapPerFile(w, x)
						if okm {
							c.ok("WALKSTATE/DEDUP-PER-FILE", name+"#"+FuncName(fn), P.Pos(x.Pos()), why)
						} else {
							bad++
							c.fail("WALKSTATE/DEDUP-PER-FILE", name+"#"+FuncName(fn), P.Pos(x.Pos()), why)
						}
					}
				})
			}
			if bad == 0 {
				c.ok("WALKSTATE/CB-STORE", name, P.Pos(w.Call.Pos()), fmt.Sprintf("%d functions reachable from the callback: only local temporaries, append-only accumulators and per-file dedup maps are written", len(w.Closure)))
			}
			c.perIteration(w)
			c.perIterationCells(w)
		}
	}
}

// classifyStore: "local" (temporary of the executing function instance), "accumulator" (x = append(x, ...) on a
// captured cell), or "state".
func (c *Ctx) classifyStore(w *walkInfo, fn *ssa.Function, st *ssa.Store) (string, string) {
	P := c.P
	addr := st.Addr
	// strip element / field addressing to find the object
	base := addr
	for {
		switch x := base.(type) {
		case *ssa.IndexAddr:
			base = x.X
			continue
		case *ssa.FieldAddr:
			base = x.X
			continue
		}
		break
	}
	if a, ok := base.(*ssa.Alloc); ok && a.Parent() == fn {
		return "local", ""
	}
	if fv, ok := base.(*ssa.FreeVar); ok {
		cell := P.cellOf(fv)
		if cell != nil {
			// a cell that belongs to a function invoked during the visit of one node is local to that visit
			for _, f := range w.Closure {
				if cell.Parent() == f {
					return "local", ""
				}
			}
		}
		// accumulator idiom: *cell = append(*cell, ...)
		if base == addr && isAppendOfCell(P, st.Val, cell) {
			return "accumulator", ""
		}
		if strings.HasPrefix(fv.Name(), "jump$") {
			return "local", ""
		}
		return "state", fmt.Sprintf("captured variable %q is assigned %s", fv.Name(), short(P.Desc(st.Val)))
	}
	// store through a pointer parameter / loaded pointer: a field of a context object etc.
	if fa, ok := addr.(*ssa.FieldAddr); ok {
		st2 := deref(fa.X.Type()).Underlying().(*types.Struct)
		// stores into a freshly allocated object (composite literal being built) are local
		if P.RootsAllDeep(fa.X, func(r ssa.Value) bool {
			a, ok := r.(*ssa.Alloc)
			return ok && a.Parent() == fn
		}) {
			return "local", ""
		}
		// accumulator field of a collector object: w.found = append(w.found, v)
		if isAppendOfField(P, st.Val, fa) {
			return "accumulator", ""
		}
		return "state", fmt.Sprintf("field %s.%s of a shared object is assigned", typeStr(deref(fa.X.Type())), st2.Field(fa.Field).Name())
	}
	if _, ok := addr.(*ssa.IndexAddr); ok {
		if P.RootsAllDeep(base, func(r ssa.Value) bool {
			a, ok := r.(*ssa.Alloc)
			return ok && a.Parent() == fn
		}) {
			return "local", ""
		}
	}
	// *p = append(*p, v) with p a pointer to the result list kept in the walk's state (found: &violations)
	if call, ok := st.Val.(*ssa.Call); ok {
		if bi, isB := call.Call.Value.(*ssa.Builtin); isB && bi.Name() == "append" && len(call.Call.Args) > 0 {
			if ld, isLd := call.Call.Args[0].(*ssa.UnOp); isLd && ld.Op == token.MUL && sameLoadedLoc(ld.X, addr, 0) {
				return "accumulator", ""
			}
		}
	}
	if _, ok := base.(*ssa.Global); ok {
		return "state", "package-level variable is assigned"
	}
	if P.RootsAllDeep(base, func(r ssa.Value) bool {
		a, ok := r.(*ssa.Alloc)
		return ok && a.Parent() == fn
	}) {
		return "local", ""
	}
	return "state", "store through " + short(P.Desc(base))
}

func isAppendOfCell(P *Program, v ssa.Value, cell *ssa.Alloc) bool {
	call, ok := v.(*ssa.Call)
	if !ok || cell == nil {
		return false
	}
	isCell := func(a ssa.Value) bool {
		u, ok := a.(*ssa.UnOp)
		return ok && u.Op == token.MUL && P.cellOf(u.X) == cell
	}
	if b, ok := call.Call.Value.(*ssa.Builtin); ok {
		return b.Name() == "append" && isCell(call.Call.Args[0])
	}
	// x = extend(x, ...): a product helper every result of which starts with the slice it was given
	callee := call.Call.StaticCallee()
	if callee == nil || !P.IsProductFunc(callee) || len(callee.Params) != len(call.Call.Args) {
		return false
	}
	for i, a := range call.Call.Args {
		if isCell(a) && extendsParam(P, callee, i, 0) {
			return true
		}
	}
	return false
}

// extendsParam: every value fn returns is its i-th parameter (a slice), possibly with elements appended.
func extendsParam(P *Program, fn *ssa.Function, i int, depth int) bool {
	if depth > 3 || len(fn.Blocks) == 0 || i >= len(fn.Params) {
		return false
	}
	prm := fn.Params[i]
	var ext func(v ssa.Value, d int) bool
	ext = func(v ssa.Value, d int) bool {
		if d > 12 {
			return false
		}
		if v == ssa.Value(prm) {
			return true
		}
		switch x := v.(type) {
		case *ssa.Phi:
			for _, e := range x.Edges {
				if e != v && !ext(e, d+1) {
					return false
				}
			}
			return true
		case *ssa.UnOp: // a local copy of the parameter that is only ever extended
			if x.Op != token.MUL {
				return false
			}
			cell := P.cellOf(x.X)
			if cell == nil || cell.Parent() != fn {
				return false
			}
			vals, _, escaped := P.CellStores(cell)
			if escaped || len(vals) == 0 {
				return false
			}
			for _, sv := range vals {
				if u, ok := sv.(*ssa.UnOp); ok && u.Op == token.MUL && P.cellOf(u.X) == cell {
					continue
				}
				if c2, ok := sv.(*ssa.Call); ok {
					if b, isB := c2.Call.Value.(*ssa.Builtin); isB && b.Name() == "append" {
						if u, ok := c2.Call.Args[0].(*ssa.UnOp); ok && u.Op == token.MUL && P.cellOf(u.X) == cell {
							continue
						}
					}
				}
				if !ext(sv, d+1) {
					return false
				}
			}
			return true
		case *ssa.Call:
			if b, ok := x.Call.Value.(*ssa.Builtin); ok {
				return b.Name() == "append" && ext(x.Call.Args[0], d+1)
			}
			callee := x.Call.StaticCallee()
			if callee == nil || !P.IsProductFunc(callee) || len(callee.Params) != len(x.Call.Args) {
				return false
			}
			for j, a := range x.Call.Args {
				if ext(a, d+1) && extendsParam(P, callee, j, depth+1) {
					return true
				}
			}
		}
		return false
	}
	n := 0
	ok := true
	allInstrs(fn, func(_ *ssa.BasicBlock, ins ssa.Instruction) {
		if r, isRet := ins.(*ssa.Return); isRet {
			n++
			if len(r.Results) != 1 || !ext(r.Results[0], 0) {
				ok = false
			}
		}
	})
	return ok && n > 0
}

// dedupMapPerFile: the updated map is created (make) inside the per-file scope of the walk.
func (c *Ctx) dedupMapPerFile(w *walkInfo, mu *ssa.MapUpdate) (bool, string) {
	P := c.P
	roots := P.ResolveDeep(mu.Map)
	if len(roots) == 0 {
		return false, "map of unknown origin is updated during the walk"
	}
	inspectFn := w.Call.Parent()
	loop := loopOf(w.Call.Block())
	nMade := 0
	for _, r := range roots {
		if cs, isC := r.(*ssa.Const); isC && cs.Value == nil {
			continue // the field's zero value before its per-file assignment (NIL-MAP / PER-ITERATION judge that)
		}
		nMade++
		mm, ok := r.(*ssa.MakeMap)
		if !ok {
			return false, "map updated during the walk does not originate from a make(): " + short(P.termDesc(r, false))
		}
		// where the map comes into being from the point of view of the walking function: the make itself, or the
		// call of the constructor helper that makes it (every call of that helper must be such a place)
		madeAt := []*ssa.BasicBlock{mm.Block()}
		if mm.Parent() != inspectFn {
			madeAt = nil
			f := mm.Parent()
			for depth := 0; depth < 3 && f != inspectFn; depth++ {
				callers := P.Callers(f)
				if len(callers) == 0 {
					break
				}
				same := true
				for _, cs := range callers {
					if cs.Parent() != callers[0].Parent() {
						same = false
					}
				}
				if !same {
					break
				}
				if callers[0].Parent() == inspectFn {
					for _, cs := range callers {
						madeAt = append(madeAt, cs.Block())
					}
					break
				}
				f = callers[0].Parent()
			}
			if len(madeAt) == 0 {
				return false, fmt.Sprintf("dedup map is created in %s, outside the per-file scope (%s) of the walk: what is reported in one file depends on the files visited before", FuncName(mm.Parent()), FuncName(inspectFn))
			}
		}
		for _, mb := range madeAt {
			if loop != nil && !loop[mb] {
				return false, "dedup map is created outside the file loop that contains the walk"
			}
		}
		if loop == nil && inspectFn.Synthetic != "range-over-func yield" {
			return false, "walk is not inside a per-file loop body"
		}
	}
	if nMade == 0 {
		return false, "dedup map is never created"
	}
	return true, "map is created per file, next to the ast.Inspect call"
}

// perIteration: every field of a module struct that is read by callback-reachable code and written inside
// the file/declaration loop is definitely (re)assigned in each iteration before the walk starts.
func (c *Ctx) perIteration(w *walkInfo) {
	P := c.P
	P.buildFieldStores()
	inspectFn := w.Call.Parent()
	name := FuncName(w.Callback)
	// fields read by callback-reachable code
	read := map[fieldKey]bool{}
	for _, fn := range w.Closure {
		allInstrs(fn, func(b *ssa.BasicBlock, ins ssa.Instruction) {
			if fa, ok := ins.(*ssa.FieldAddr); ok {
				if n := P.moduleStruct(deref(fa.X.Type())); n != nil {
					// only loads count
					if refs := fa.Referrers(); refs != nil {
						for _, r := range *refs {
							if u, ok := r.(*ssa.UnOp); ok && u.Op == token.MUL {
								read[fieldKey{n, fa.Field}] = true
							}
						}
					}
				}
			}
		})
	}
	// the functions that form the iteration scope: the function containing the Inspect call (and its parents
	// up to the checker entry function)
	var keys []fieldKey
	for k := range read {
		keys = append(keys, k)
	}
	sort.Slice(keys, func(i, j int) bool {
		if keys[i].T.Obj().Name() != keys[j].T.Obj().Name() {
			return keys[i].T.Obj().Name() < keys[j].T.Obj().Name()
		}
		return keys[i].Index < keys[j].Index
	})
	loop := loopOf(w.Call.Block())
	for _, k := range keys {
		fname := k.T.Obj().Name() + "." + k.T.Underlying().(*types.Struct).Field(k.Index).Name()
		// stores to this field located in the iteration scope
		var inScope []*ssa.Store
		scopeFns := map[*ssa.Function]bool{}
		for f := inspectFn; f != nil; f = f.Parent() {
			scopeFns[f] = true
		}
		for fn := range scopeFns {
			allInstrs(fn, func(b *ssa.BasicBlock, ins ssa.Instruction) {
				st, ok := ins.(*ssa.Store)
				if !ok {
					return
				}
				fa, ok := st.Addr.(*ssa.FieldAddr)
				if !ok || P.moduleStruct(deref(fa.X.Type())) != k.T || fa.Field != k.Index {
					return
				}
				// an object allocated inside the iteration (fresh per declaration / file) cannot carry state over
				if a, ok := fa.X.(*ssa.Alloc); ok {
					fresh := fn.Synthetic == "range-over-func yield" || (loop != nil && fn == inspectFn && loop[a.Block()]) || loopOf(a.Block()) != nil
					if fresh || a.Comment == "complit" {
						return
					}
				}
				if P.RootsAll(fa.X, func(r ssa.Value) bool {
					a, ok := r.(*ssa.Alloc)
					return ok && (a.Parent().Synthetic == "range-over-func yield" || loopOf(a.Block()) != nil)
				}) {
					return
				}
				perIter := fn.Synthetic == "range-over-func yield" || (fn == inspectFn && loop != nil && loop[b]) || loopOf(b) != nil
				if perIter {
					inScope = append(inScope, st)
				}
			})
		}
		if len(inScope) == 0 {
			continue // constant for the whole pass
		}
		// some store must dominate the Inspect call within the same function instance (same iteration)
		dom := storesCoverWalk(inScope, w.Call, loop)
		c.check(dom, "WALKSTATE/PER-ITERATION", name+"#"+fname, P.Pos(w.Call.Pos()),
			"field is assigned on every path of each iteration before the walk",
			fmt.Sprintf("field %s is written inside the file/declaration loop and read during the walk, but not re-assigned on every path before each walk: its value leaks from the previous declaration/file", fname))
	}
}

// perIterationCells: the same obligation for captured local variables (closure cells) that the callback reads:
// `currentFunction := ""` declared outside the declaration loop and assigned only for FuncDecls carries the
// previous declaration's value into the walk of the next one.
func (c *Ctx) perIterationCells(w *walkInfo) {
	P := c.P
	inspectFn := w.Call.Parent()
	name := FuncName(w.Callback)
	loop := loopOf(w.Call.Block())
	ancestors := map[*ssa.Function]bool{}
	for f := inspectFn; f != nil; f = f.Parent() {
		ancestors[f] = true
	}
	seen := map[*ssa.Alloc]bool{}
	var cells []*ssa.Alloc
	for _, fn := range w.Closure {
		for _, fv := range fn.FreeVars {
			cell := P.cellOf(fv)
			if cell == nil || seen[cell] || !ancestors[cell.Parent()] {
				continue
			}
			// read by the callback?
			readIt := false
			if refs := fv.Referrers(); refs != nil {
				for _, r := range *refs {
					if u, ok := r.(*ssa.UnOp); ok && u.Op == token.MUL {
						readIt = true
					}
				}
			}
			if !readIt {
				continue
			}
			seen[cell] = true
			cells = append(cells, cell)
		}
	}
	sort.Slice(cells, func(i, j int) bool { return cells[i].Pos() < cells[j].Pos() })
	for _, cell := range cells {
		if cell.Parent() == inspectFn && (loop == nil || loop[cell.Block()]) {
			continue // a fresh variable per iteration / per invocation
		}
		// stores executed once per iteration or more often: in the loop around the walk, in inspectFn when the cell
		// belongs to an enclosing function, or in functions nested in between
		var inScope []*ssa.Store
		for _, al := range P.cellAliases(cell) {
			refs := al.Referrers()
			if refs == nil {
				continue
			}
			for _, r := range *refs {
				st, ok := r.(*ssa.Store)
				if !ok || st.Addr != al {
					continue
				}
				f := st.Parent()
				inWalk := false
				for _, cf := range w.Closure {
					if cf == f {
						inWalk = true
					}
				}
				if inWalk {
					continue // judged by WALKSTATE/CB-STORE
				}
				switch {
				case f == inspectFn && loop != nil && loop[st.Block()]:
					inScope = append(inScope, st)
				case f == inspectFn && cell.Parent() != inspectFn:
					inScope = append(inScope, st)
				case f != inspectFn && f != cell.Parent() && ancestors[f]:
					inScope = append(inScope, st)
				case f == cell.Parent() && f != inspectFn && loopOf(st.Block()) != nil:
					inScope = append(inScope, st)
				}
			}
		}
		if len(inScope) == 0 {
			continue // not re-assigned while iterating: constant for all walks it is visible to
		}
		dom := storesCoverWalk(inScope, w.Call, loop)
		vname := cell.Comment
		c.check(dom, "WALKSTATE/PER-ITERATION", name+"#var "+vname, P.Pos(w.Call.Pos()),
			"variable is assigned on every path of each iteration before the walk",
			fmt.Sprintf("variable %s (declared at %s) is assigned inside the file/declaration loop and read during the walk, but not re-assigned on every path before each walk: its value leaks from the previous declaration/file", vname, P.Pos(cell.Pos())))
	}
}

// ---------------------------------------------------------------------------------------------
// ITER

// ruleIter: (1) constant-index accesses of AST list fields must be one of the reasoned idioms;
// (2) range loops over AST lists / annotation lists in the checker, reader and index packages have no early exit.
func (c *Ctx) ruleIter(pkgs ...string) {
	P := c.P
	type allow struct{ field, reason string }
	allowed := map[string]string{
		"go/ast.CallExpr.Args":  "new(T) has exactly one argument; guarded by len(call.Args) == 1",
		"go/ast.FieldList.List": "a method receiver list has exactly one entry; guarded by len(Recv.List) > 0",
		"go/ast.Field.Names":    "receiver field has at most one name; guarded by len(Names) != 0",
	}
	nIdx, nLoops := 0, 0
	for _, pkg := range pkgs {
		for _, fn := range P.ModFuncs {
			if funcPkgPath(fn) != modulePath+"/src/"+pkg {
				continue
			}
			allInstrs(fn, func(b *ssa.BasicBlock, ins ssa.Instruction) {
				ia, ok := ins.(*ssa.IndexAddr)
				if !ok {
					return
				}
				cst, ok := ia.Index.(*ssa.Const)
				if !ok || cst.Value == nil {
					return
				}
				// base is a load of a field of a go/ast struct?
				for _, r := range P.Resolve(ia.X) {
					u, ok := r.(*ssa.UnOp)
					if !ok {
						continue
					}
					fa, ok := u.X.(*ssa.FieldAddr)
					if !ok {
						continue
					}
					tn := typeStr(deref(fa.X.Type()))
					if !strings.HasPrefix(tn, "go/ast.") {
						continue
					}
					st := deref(fa.X.Type()).Underlying().(*types.Struct)
					key := tn + "." + st.Field(fa.Field).Name()
					nIdx++
					cons := FuncName(fn) + "#" + key + "[" + cst.Value.ExactString() + "]"
					// (the names of a field declaration may be indexed only where the declaration is a method receiver:
					// `a, b T // @mutable` declares two fields)
					isRecv := strings.Contains(P.DescDeep(fa.X), "go/ast.FuncDecl.Recv")
					if reason, ok := allowed[key]; ok && (key != "go/ast.Field.Names" || isRecv) {
						// must be guarded by a length test on the same list
						guarded := false
						for _, l := range P.BlockGuards(b) {
							if lenCheck(l) {
								for _, side := range []ssa.Value{l.X, l.Y} {
									if lx := lenOf(side); lx != nil && P.Desc(lx) == P.Desc(ia.X) {
										guarded = true
									}
								}
							}
						}
						c.check(guarded, "ITER/CONST-INDEX", cons, P.Pos(ia.Pos()), reason, "constant index into "+key+" without a length guard on that list")
					} else {
						c.fail("ITER/CONST-INDEX", cons, P.Pos(ia.Pos()), "only element "+cst.Value.ExactString()+" of the list "+key+" is inspected; every element must be (range over the whole list)")
					}
				}
			})
		}
		// early exits, on the AST
		p := P.Pkg(pkg)
		if p == nil {
			continue
		}
		for _, f := range p.Syntax {
			if strings.HasSuffix(P.Fset.Position(f.Pos()).Filename, "_test.go") {
				continue
			}
			for _, d := range f.Decls {
				fd, ok := d.(*ast.FuncDecl)
				if !ok || fd.Body == nil {
					continue
				}
				ast.Inspect(fd.Body, func(n ast.Node) bool {
					if fs, isFor := n.(*ast.ForStmt); isFor {
						// an index loop over one of those lists: for i := 0; i < len(list); i++ { ... list[i] ... }
						if list := indexLoopList(fs); list != nil && c.iterRelevant(p.TypesInfo.TypeOf(list), list) {
							nLoops++
							cons := pkg + "." + fd.Name.Name + "#index loop " + types.ExprString(list)
							if why := indexLoopPartial(fs, list); why != "" {
								c.fail("ITER/NO-EARLY-EXIT", cons, P.Pos(fs.Pos()), "index loop over "+types.ExprString(list)+" does not visit every element: "+why)
							} else if exit := loopEarlyExit(fs.Body); exit != nil {
								c.fail("ITER/NO-EARLY-EXIT", cons, P.Pos(exit.Pos()), "loop over "+types.ExprString(list)+" can stop before the last element (break/return/goto inside the body)")
							} else {
								c.ok("ITER/NO-EARLY-EXIT", cons, P.Pos(fs.Pos()), "loop visits every element")
							}
						}
						return true
					}
					rs, ok := n.(*ast.RangeStmt)
					if !ok {
						return true
					}
					t := p.TypesInfo.TypeOf(rs.X)
					if t == nil || !c.iterRelevant(p.TypesInfo.TypeOf(rs.X), rs.X) {
						return true
					}
					nLoops++
					exit := loopEarlyExit(rs.Body)
					cons := pkg + "." + fd.Name.Name + "#range " + types.ExprString(rs.X)
					if exit == nil {
						c.ok("ITER/NO-EARLY-EXIT", cons, P.Pos(rs.Pos()), "loop visits every element")
					} else {
						c.fail("ITER/NO-EARLY-EXIT", cons, P.Pos(exit.Pos()), "loop over "+types.ExprString(rs.X)+" can stop before the last element (break/return/goto inside the body)")
					}
					return true
				})
			}
		}
	}
	c.count("constant-index accesses of AST lists", nIdx)
	c.count("range loops over AST/annotation lists", nLoops)
}

// iterRelevant: the ranged expression is a slice of AST nodes / comments / annotations / strings coming from an
// annotation, or an iterator over files / packages.
func (c *Ctx) iterRelevant(t types.Type, x ast.Expr) bool {
	if t == nil {
		return false
	}
	s := typeStr(t)
	switch {
	case strings.HasPrefix(s, "[]go/ast."), strings.HasPrefix(s, "[]*go/ast."):
		return true
	case strings.HasPrefix(s, "[]annotations."), strings.HasPrefix(s, "[]*annotations."):
		return true
	case strings.HasPrefix(s, "iter.Seq"):
		return true
	case s == "[]string":
		// lists taken from an annotation (AllowedPackages, ConstructorNames) or split lists in parse functions
		if se, ok := x.(*ast.SelectorExpr); ok {
			return se.Sel.Name == "AllowedPackages" || se.Sel.Name == "ConstructorNames" || se.Sel.Name == "Codes"
		}
		if id, ok := x.(*ast.Ident); ok {
			return id.Name == "parts"
		}
	case strings.HasPrefix(s, "[]implements."), strings.HasPrefix(s, "[]*implements."), s == "[]reporting.Violation":
		return true
	}
	return false
}

// loopEarlyExit finds a break/return/goto that leaves the loop body (not inside a nested function literal;
// breaks of nested loops/switches/selects do not count).
func loopEarlyExit(body *ast.BlockStmt) ast.Node {
	var found ast.Node
	var walk func(n ast.Node, breakable int)
	walk = func(n ast.Node, breakable int) {
		if n == nil || found != nil {
			return
		}
		switch x := n.(type) {
		case *ast.FuncLit:
			return
		case *ast.ReturnStmt:
			found = x
			return
		case *ast.BranchStmt:
			if x.Tok == token.GOTO || (x.Tok == token.BREAK && (breakable == 0 || x.Label != nil)) {
				found = x
			}
			return
		case *ast.ForStmt:
			walk(x.Body, breakable+1)
			return
		case *ast.RangeStmt:
			walk(x.Body, breakable+1)
			return
		case *ast.SwitchStmt:
			walk(x.Body, breakable+1)
			return
		case *ast.TypeSwitchStmt:
			walk(x.Body, breakable+1)
			return
		case *ast.SelectStmt:
			walk(x.Body, breakable+1)
			return
		}
		ast.Inspect(n, func(m ast.Node) bool {
			if m == nil || m == n {
				return true
			}
			walk(m, breakable)
			return false
		})
	}
	walk(body, 0)
	return found
}

// indexLoopList: the loop condition of fs compares its counter with len(<list>) (possibly +/- a constant): <list>.
func indexLoopList(fs *ast.ForStmt) ast.Expr {
	be, ok := fs.Cond.(*ast.BinaryExpr)
	if !ok {
		return nil
	}
	var found ast.Expr
	for _, side := range []ast.Expr{be.X, be.Y} {
		ast.Inspect(side, func(n ast.Node) bool {
			if call, ok := n.(*ast.CallExpr); ok && len(call.Args) == 1 {
				if id, ok := call.Fun.(*ast.Ident); ok && id.Name == "len" {
					found = call.Args[0]
				}
			}
			return true
		})
	}
	return found
}

// indexLoopPartial: why the index loop does not have the shape `for i := 0; i < len(list); i++` with a counter that
// the body leaves alone ("" if it has).
func indexLoopPartial(fs *ast.ForStmt, list ast.Expr) string {
	init, ok := fs.Init.(*ast.AssignStmt)
	if !ok || len(init.Lhs) != 1 || len(init.Rhs) != 1 {
		return "the counter is not initialised in the loop header"
	}
	ctr, ok := init.Lhs[0].(*ast.Ident)
	if !ok {
		return "the counter is not a variable"
	}
	if lit, ok := init.Rhs[0].(*ast.BasicLit); !ok || lit.Value != "0" {
		return "the counter does not start at 0"
	}
	be := fs.Cond.(*ast.BinaryExpr)
	isCtr := func(e ast.Expr) bool { id, ok := e.(*ast.Ident); return ok && id.Name == ctr.Name }
	isLen := func(e ast.Expr) bool {
		call, ok := e.(*ast.CallExpr)
		if !ok || len(call.Args) != 1 {
			return false
		}
		id, ok := call.Fun.(*ast.Ident)
		return ok && id.Name == "len" && types.ExprString(call.Args[0]) == types.ExprString(list)
	}
	switch {
	case be.Op == token.LSS && isCtr(be.X) && isLen(be.Y):
	case be.Op == token.GTR && isLen(be.X) && isCtr(be.Y):
	case be.Op == token.NEQ && (isCtr(be.X) && isLen(be.Y) || isLen(be.X) && isCtr(be.Y)):
	default:
		return "the loop condition is not `" + ctr.Name + " < len(" + types.ExprString(list) + ")`"
	}
	post, ok := fs.Post.(*ast.IncDecStmt)
	if !ok || post.Tok != token.INC || !isCtr(post.X) {
		if as, isAs := fs.Post.(*ast.AssignStmt); !isAs || as.Tok != token.ADD_ASSIGN || len(as.Lhs) != 1 || !isCtr(as.Lhs[0]) || types.ExprString(as.Rhs[0]) != "1" {
			return "the counter is not incremented by one"
		}
	}
	// the body leaves the counter alone
	why := ""
	ast.Inspect(fs.Body, func(n ast.Node) bool {
		switch x := n.(type) {
		case *ast.AssignStmt:
			for _, l := range x.Lhs {
				if isCtr(l) && x.Tok != token.DEFINE {
					why = "the body assigns the counter"
				}
			}
		case *ast.IncDecStmt:
			if isCtr(x.X) {
				why = "the body changes the counter"
			}
		case *ast.UnaryExpr:
			if x.Op == token.AND && isCtr(x.X) {
				why = "the body takes the address of the counter"
			}
		}
		return true
	})
	return why
}

// storesCoverWalk: every path of one iteration - from the head of the loop around the walk (from the entry of the
// function when the walk is not in a loop: a yield function runs once per element) to the walk call - executes
// one of the stores before the call.
func storesCoverWalk(stores []*ssa.Store, call ssa.Instruction, loop map[*ssa.BasicBlock]bool) bool {
	fn := call.Parent()
	target := call.Block()
	start := fn.Blocks[0]
	if loop != nil {
		for h := range loop {
			head := true
			for x := range loop {
				if !dominates(h, x) {
					head = false
				}
			}
			if head {
				start = h
			}
		}
	}
	assigns := func(b *ssa.BasicBlock) bool {
		for _, st := range stores {
			if st.Parent() != fn || st.Block() != b {
				continue
			}
			if b != target || instrIdx(st) < instrIdx(call) {
				return true
			}
		}
		return false
	}
	seen := map[*ssa.BasicBlock]bool{start: true}
	work := []*ssa.BasicBlock{start}
	for len(work) > 0 {
		x := work[len(work)-1]
		work = work[:len(work)-1]
		if assigns(x) {
			continue
		}
		if x == target {
			return false
		}
		for _, s := range x.Succs {
			if seen[s] || (loop != nil && !loop[s]) {
				continue
			}
			seen[s] = true
			work = append(work, s)
		}
	}
	return true
}
