// Package rx decides language equivalence, inclusion and emptiness of Go (RE2)
// regular expressions by explicit automata construction.
//
// A pattern p denotes the language
//
//	L(p) = { s : regexp.MustCompile(p).MatchString(s) }
//
// i.e. the *search* semantics of package regexp: a pattern that is not anchored
// matches anywhere inside s.  The universe of strings is the set of all finite
// sequences of Unicode scalar values (valid UTF-8), minus the runes listed in
// Options.ExcludeRunes.
//
// Construction.  Each pattern is parsed with syntax.Perl, simplified and
// compiled to a *syntax.Prog, exactly as package regexp does.  The Prog is read
// as an NFA (captures ignored).  It is determinised lazily; a DFA state is
//
//	(set of pcs reached *before* empty-width assertions are evaluated at the
//	 current position, kind of the previous rune)
//
// plus one absorbing "accepted" state, because under search semantics a string
// is accepted as soon as InstMatch is reached at any position.  Empty-width
// assertions (^ $ \A \z \b \B, with or without (?m)) are evaluated when the next
// rune (or end of text) is known, with syntax.EmptyOpContext.  The rune space
// is partitioned into classes that are indistinguishable for every rune
// instruction of all programs involved and for the assertions.  The relation is
// decided by breadth-first exploration of the product automaton, which also
// yields a shortest distinguishing string.
package rx

import (
	"errors"
	"fmt"
	"regexp/syntax"
	"sort"
	"strings"
	"unicode"
)

// MaxStates caps the number of product states explored by one query.
const MaxStates = 200000

// ErrTooManyStates is returned (wrapped) when MaxStates is exceeded.
var ErrTooManyStates = errors.New("rx: product state limit exceeded")

// Options restrict the universe of input strings.
type Options struct {
	ExcludeRunes []rune // runes that never occur in inputs (typically []rune{'\n'})
}

// Result of a comparison.
type Result struct {
	Holds   bool   // the relation holds over the whole universe
	Witness string // when !Holds: a SHORTEST string (fewest runes) showing the difference
	InA     bool   // when !Holds: whether Witness is matched by pattern A (then it is not matched by B), or vice versa
	States  int    // number of product states explored
}

// Equivalent decides whether L(a) == L(b) over all strings of the universe.
// Patterns use Go syntax (syntax.Perl flags); matching is the search semantics
// of MatchString.
func Equivalent(a, b string, opt Options) (Result, error) {
	return compare(modeEquiv, opt, a, b)
}

// Subset decides L(a) ⊆ L(b) (same semantics). On failure Witness ∈ L(a) \ L(b).
func Subset(a, b string, opt Options) (Result, error) {
	return compare(modeSubset, opt, a, b)
}

// Empty decides whether L(a) is empty in the universe; Witness is a shortest
// member when non-empty (Holds=false, InA=true).
func Empty(a string, opt Options) (Result, error) {
	return compare(modeEmpty, opt, a)
}

// ---------------------------------------------------------------------------
// Syntax-tree helpers
// ---------------------------------------------------------------------------

func parse(p string) (*syntax.Regexp, error) {
	re, err := syntax.Parse(p, syntax.Perl)
	if err != nil {
		return nil, fmt.Errorf("rx: parse %q: %w", p, err)
	}
	return re, nil
}

func findCapture(re *syntax.Regexp, k int) *syntax.Regexp {
	if re.Op == syntax.OpCapture && re.Cap == k {
		return re
	}
	for _, sub := range re.Sub {
		if c := findCapture(sub, k); c != nil {
			return c
		}
	}
	return nil
}

// checkCompiles makes sure a pattern text produced by Regexp.String compiles.
func checkCompiles(s string) error {
	re, err := syntax.Parse(s, syntax.Perl)
	if err != nil {
		return fmt.Errorf("rx: internal: generated pattern %q does not parse: %w", s, err)
	}
	if _, err := syntax.Compile(re.Simplify()); err != nil {
		return fmt.Errorf("rx: internal: generated pattern %q does not compile: %w", s, err)
	}
	return nil
}

// Group returns the source text (re.String()) of the sub-expression inside
// capture group k (1-based) of pattern p, i.e. a pattern that can be compiled
// on its own. Flags in force at the group ((?i), (?s), (?m), (?U)) are carried
// into the returned text by Regexp.String. Error if there is no such group.
func Group(p string, k int) (string, error) {
	re, err := parse(p)
	if err != nil {
		return "", err
	}
	if k < 1 {
		return "", fmt.Errorf("rx: group index %d out of range", k)
	}
	c := findCapture(re, k)
	if c == nil {
		return "", fmt.Errorf("rx: pattern %q has no capture group %d", p, k)
	}
	s := c.Sub[0].String()
	if err := checkCompiles(s); err != nil {
		return "", err
	}
	return s, nil
}

// GroupAncestors returns the operators of the syntax-tree nodes that enclose
// capture group k, outermost first (the group's own OpCapture is not
// included). It lets a caller detect contexts in which RequireGroup is only an
// approximation of "group k participates": an OpAlternate ancestor (the other
// branch can match without the group) or a repetition ancestor that can iterate
// more than once (the group may be set in an earlier iteration only).
func GroupAncestors(p string, k int) ([]syntax.Op, error) {
	re, err := parse(p)
	if err != nil {
		return nil, err
	}
	if k < 1 {
		return nil, fmt.Errorf("rx: group index %d out of range", k)
	}
	var walk func(re *syntax.Regexp, path []syntax.Op) ([]syntax.Op, bool)
	walk = func(re *syntax.Regexp, path []syntax.Op) ([]syntax.Op, bool) {
		if re.Op == syntax.OpCapture && re.Cap == k {
			return append([]syntax.Op{}, path...), true
		}
		for _, sub := range re.Sub {
			np := append(append([]syntax.Op{}, path...), re.Op)
			if r, ok := walk(sub, np); ok {
				return r, true
			}
		}
		return nil, false
	}
	r, ok := walk(re, nil)
	if !ok {
		return nil, fmt.Errorf("rx: pattern %q has no capture group %d", p, k)
	}
	return r, nil
}

// RequireGroup returns a pattern equal to p except that every optional
// construct enclosing capture group k (OpQuest -> its operand, OpStar ->
// OpPlus, OpRepeat with Min==0 -> Min=1) is made mandatory. Returned as
// re.String() of the rewritten syntax tree (it is checked to compile). Error
// if there is no such group, or if the group sits under a {0} / {0,0}
// repetition (it can then never participate).
//
// Alternations are NOT touched: if group k lies in one branch of an
// alternation, the result still matches through the other branches. Use
// GroupAncestors to detect that situation.
func RequireGroup(p string, k int) (string, error) {
	re, err := parse(p)
	if err != nil {
		return "", err
	}
	if k < 1 {
		return "", fmt.Errorf("rx: group index %d out of range", k)
	}
	nre, found, err := require(re, k)
	if err != nil {
		return "", err
	}
	if !found {
		return "", fmt.Errorf("rx: pattern %q has no capture group %d", p, k)
	}
	s := nre.String()
	if err := checkCompiles(s); err != nil {
		return "", err
	}
	return s, nil
}

func require(re *syntax.Regexp, k int) (*syntax.Regexp, bool, error) {
	if re.Op == syntax.OpCapture && re.Cap == k {
		return re, true, nil
	}
	for i, sub := range re.Sub {
		nsub, found, err := require(sub, k)
		if err != nil {
			return nil, false, err
		}
		if !found {
			continue
		}
		re.Sub[i] = nsub
		switch re.Op {
		case syntax.OpQuest:
			return nsub, true, nil
		case syntax.OpStar:
			re.Op = syntax.OpPlus
		case syntax.OpRepeat:
			if re.Min == 0 {
				if re.Max == 0 {
					return nil, false, fmt.Errorf("rx: capture group %d is under a {0} repetition and can never participate", k)
				}
				re.Min = 1
			}
		}
		return re, true, nil
	}
	return re, false, nil
}

// AllGreedy reports whether every repetition operator in p is greedy (no
// NonGreedy flag on any *, +, ? or {n,m}).
func AllGreedy(p string) (bool, error) {
	re, err := parse(p)
	if err != nil {
		return false, err
	}
	var walk func(re *syntax.Regexp) bool
	walk = func(re *syntax.Regexp) bool {
		switch re.Op {
		case syntax.OpStar, syntax.OpPlus, syntax.OpQuest, syntax.OpRepeat:
			if re.Flags&syntax.NonGreedy != 0 {
				return false
			}
		}
		for _, sub := range re.Sub {
			if !walk(sub) {
				return false
			}
		}
		return true
	}
	return walk(re), nil
}

// NumGroups returns the number of capture groups of p.
func NumGroups(p string) (int, error) {
	re, err := parse(p)
	if err != nil {
		return 0, err
	}
	return re.MaxCap(), nil
}

// ---------------------------------------------------------------------------
// NFA (a compiled syntax.Prog)
// ---------------------------------------------------------------------------

// Kinds of a rune as seen by the empty-width assertions.
const (
	kNone  uint8 = iota // begin / end of text
	kNL                 // '\n'
	kWord               // [0-9A-Za-z_]
	kOther              // anything else
)

var kindRune = [4]rune{kNone: -1, kNL: '\n', kWord: 'a', kOther: ' '}

// flagsTab[prev][next] is the set of empty-width assertions that hold between
// a rune of kind prev and a rune of kind next.
var flagsTab = func() (t [4][4]syntax.EmptyOp) {
	for p := 0; p < 4; p++ {
		for n := 0; n < 4; n++ {
			t[p][n] = syntax.EmptyOpContext(kindRune[p], kindRune[n])
		}
	}
	return
}()

func kindOf(r rune) uint8 {
	switch {
	case r < 0:
		return kNone
	case r == '\n':
		return kNL
	case syntax.IsWordChar(r):
		return kWord
	}
	return kOther
}

type nfa struct {
	src     string
	prog    *syntax.Prog
	runePCs []uint32 // pcs of the rune-consuming instructions
}

func newNFA(p string) (*nfa, error) {
	re, err := parse(p)
	if err != nil {
		return nil, err
	}
	prog, err := syntax.Compile(re.Simplify())
	if err != nil {
		return nil, fmt.Errorf("rx: compile %q: %w", p, err)
	}
	n := &nfa{src: p, prog: prog}
	for pc := range prog.Inst {
		switch prog.Inst[pc].Op {
		case syntax.InstRune, syntax.InstRune1, syntax.InstRuneAny, syntax.InstRuneAnyNotNL:
			n.runePCs = append(n.runePCs, uint32(pc))
		case syntax.InstAlt, syntax.InstAltMatch, syntax.InstCapture, syntax.InstNop,
			syntax.InstEmptyWidth, syntax.InstMatch, syntax.InstFail:
		default:
			return nil, fmt.Errorf("rx: unsupported instruction %v in program of %q", prog.Inst[pc].Op, p)
		}
	}
	return n, nil
}

// matchRune reports whether the rune instruction at pc consumes r.
func (n *nfa) matchRune(pc uint32, r rune) bool {
	i := &n.prog.Inst[pc]
	switch i.Op {
	case syntax.InstRuneAny:
		return true
	case syntax.InstRuneAnyNotNL:
		return r != '\n'
	case syntax.InstRune, syntax.InstRune1:
		return i.MatchRune(r)
	}
	return false
}

// ---------------------------------------------------------------------------
// Alphabet: partition of the universe's runes into equivalence classes
// ---------------------------------------------------------------------------

const (
	surrLo = 0xD800 // surrogates cannot occur in a valid UTF-8 string
	surrHi = 0xDFFF
)

type alphabet struct {
	lo, hi []rune  // disjoint intervals, sorted, covering the universe's runes
	cls    []int   // class of each interval
	rep    []rune  // representative rune of each class
	kind   []uint8 // kNL / kWord / kOther of each class
}

func (a *alphabet) numClasses() int { return len(a.rep) }

// classOf returns the class of r, or -1 if r is not in the universe.
func (a *alphabet) classOf(r rune) int {
	i := sort.Search(len(a.lo), func(i int) bool { return a.hi[i] >= r })
	if i < len(a.lo) && a.lo[i] <= r {
		return a.cls[i]
	}
	return -1
}

func buildAlphabet(ns []*nfa, exclude []rune) (*alphabet, error) {
	const end = unicode.MaxRune + 1
	pts := []rune{0, end, surrLo, surrHi + 1,
		'\n', '\n' + 1, '0', '9' + 1, 'A', 'Z' + 1, '_', '_' + 1, 'a', 'z' + 1}
	excl := map[rune]bool{}
	for _, r := range exclude {
		if r >= 0 && r <= unicode.MaxRune {
			excl[r] = true
			pts = append(pts, r, r+1)
		}
	}
	for _, n := range ns {
		for _, pc := range n.runePCs {
			in := &n.prog.Inst[pc]
			switch in.Op {
			case syntax.InstRuneAnyNotNL, syntax.InstRuneAny:
				// '\n' is already a boundary.
				continue
			}
			rs := in.Rune
			if len(rs) == 1 {
				r0 := rs[0]
				pts = append(pts, r0, r0+1)
				if syntax.Flags(in.Arg)&syntax.FoldCase != 0 {
					for r1 := unicode.SimpleFold(r0); r1 != r0; r1 = unicode.SimpleFold(r1) {
						pts = append(pts, r1, r1+1)
					}
				}
				continue
			}
			for j := 0; j+1 < len(rs); j += 2 {
				pts = append(pts, rs[j], rs[j+1]+1)
			}
			if len(rs)%2 == 1 { // malformed; be conservative
				pts = append(pts, rs[len(rs)-1], rs[len(rs)-1]+1)
			}
		}
	}
	sort.Slice(pts, func(i, j int) bool { return pts[i] < pts[j] })
	uniq := pts[:0]
	for _, p := range pts {
		if p < 0 || p > end {
			continue
		}
		if len(uniq) == 0 || uniq[len(uniq)-1] != p {
			uniq = append(uniq, p)
		}
	}
	pts = uniq

	// Signature of a rune: its kind and the answer of every rune instruction.
	sigLen := 1
	for _, n := range ns {
		sigLen += len(n.runePCs)
	}
	sig := func(r rune) string {
		b := make([]byte, 0, sigLen)
		b = append(b, '0'+kindOf(r))
		for _, n := range ns {
			for _, pc := range n.runePCs {
				if n.matchRune(pc, r) {
					b = append(b, '1')
				} else {
					b = append(b, '0')
				}
			}
		}
		return string(b)
	}

	al := &alphabet{}
	classIdx := map[string]int{}
	var classIvs [][][2]rune
	add := func(lo, hi rune, s string) {
		c, ok := classIdx[s]
		if !ok {
			c = len(classIvs)
			classIdx[s] = c
			classIvs = append(classIvs, nil)
			al.kind = append(al.kind, kindOf(lo))
		}
		classIvs[c] = append(classIvs[c], [2]rune{lo, hi})
		al.lo = append(al.lo, lo)
		al.hi = append(al.hi, hi)
		al.cls = append(al.cls, c)
	}
	// The boundaries collected above are exact for the instruction forms that
	// syntax.Compile emits, so every interval is uniform.  As a safety net an
	// interval whose two endpoints disagree is bisected until they agree.
	var refine func(lo, hi rune)
	refine = func(lo, hi rune) {
		sl := sig(lo)
		if lo == hi || sl == sig(hi) {
			add(lo, hi, sl)
			return
		}
		mid := lo + (hi-lo)/2
		refine(lo, mid)
		refine(mid+1, hi)
	}
	for i := 0; i+1 < len(pts); i++ {
		lo, hi := pts[i], pts[i+1]-1
		if lo >= surrLo && hi <= surrHi {
			continue
		}
		if lo == hi && excl[lo] {
			continue
		}
		if (lo < surrLo && hi >= surrLo) || (lo <= surrHi && hi > surrHi) {
			return nil, errors.New("rx: internal: interval straddles the surrogate range")
		}
		refine(lo, hi)
	}
	for _, ivs := range classIvs {
		al.rep = append(al.rep, pickRep(ivs))
	}
	// Renumber the classes so that the exploration tries the most readable
	// representatives first (ties between equally short witnesses are then
	// broken in favour of letters, digits, space, punctuation).
	order := make([]int, len(al.rep))
	for i := range order {
		order[i] = i
	}
	sort.SliceStable(order, func(i, j int) bool { return repRank(al.rep[order[i]]) < repRank(al.rep[order[j]]) })
	newIdx := make([]int, len(order))
	rep2 := make([]rune, len(order))
	kind2 := make([]uint8, len(order))
	for ni, oi := range order {
		newIdx[oi] = ni
		rep2[ni] = al.rep[oi]
		kind2[ni] = al.kind[oi]
	}
	al.rep, al.kind = rep2, kind2
	for i := range al.cls {
		al.cls[i] = newIdx[al.cls[i]]
	}
	// Final sanity check: the representative must carry the class signature.
	for i := range al.lo {
		c := al.cls[i]
		if s := sig(al.rep[c]); s != sig(al.lo[i]) || s != sig(al.hi[i]) {
			return nil, fmt.Errorf("rx: internal: non-uniform rune class [%U,%U]", al.lo[i], al.hi[i])
		}
	}
	return al, nil
}

// prefRunes lists printable ASCII in the order in which they are preferred as
// class representatives: letters, digits, space, punctuation.
var prefRunes = func() []rune {
	var rs []rune
	for r := 'a'; r <= 'z'; r++ {
		rs = append(rs, r)
	}
	for r := 'A'; r <= 'Z'; r++ {
		rs = append(rs, r)
	}
	for r := '0'; r <= '9'; r++ {
		rs = append(rs, r)
	}
	rs = append(rs, ' ')
	for r := rune(0x21); r <= 0x7e; r++ {
		if !(r >= 'a' && r <= 'z' || r >= 'A' && r <= 'Z' || r >= '0' && r <= '9') {
			rs = append(rs, r)
		}
	}
	return rs
}()

var prefRank = func() map[rune]int {
	m := map[rune]int{}
	for i, r := range prefRunes {
		m[r] = i
	}
	return m
}()

func repRank(r rune) int {
	if i, ok := prefRank[r]; ok {
		return i
	}
	return len(prefRunes) + int(r)
}

func pickRep(ivs [][2]rune) rune {
	in := func(r rune) bool {
		for _, iv := range ivs {
			if iv[0] <= r && r <= iv[1] {
				return true
			}
		}
		return false
	}
	if ivs[0][0] < 0x80 { // intervals are added in increasing order
		for _, r := range prefRunes {
			if in(r) {
				return r
			}
		}
	}
	for _, iv := range ivs {
		if iv[0] >= 0x80 && unicode.IsPrint(iv[0]) {
			return iv[0]
		}
	}
	for _, iv := range ivs {
		for r, n := iv[0], 0; r <= iv[1] && n < 512; r, n = r+1, n+1 {
			if r >= 0x80 && unicode.IsPrint(r) {
				return r
			}
		}
	}
	return ivs[0][0]
}

// ---------------------------------------------------------------------------
// Lazy DFA
// ---------------------------------------------------------------------------

type closure struct {
	runes   []uint32 // rune instructions that are ready to consume the next rune
	matched bool     // InstMatch is reachable at this position
}

type dstate struct {
	pcs    []uint32 // sorted; rune, empty-width (and never match) instructions
	prev   uint8    // kind of the previous rune (kNone when irrelevant)
	accept bool     // absorbing accepting state
	clo    [4]*closure
	next   []int32 // per class; -1 = not yet computed
}

type dfa struct {
	n      *nfa
	al     *alphabet
	mt     [][]bool // mt[class][pc]: rune instruction pc consumes the class
	start  []uint32 // the start pc (re-added at every position: search semantics)
	states []*dstate
	index  map[string]int32
	sink   int32 // the absorbing accepting state
	init   int32

	mark  []uint32
	gen   uint32
	stack []uint32
}

func newDFA(n *nfa, al *alphabet) *dfa {
	d := &dfa{n: n, al: al, index: map[string]int32{}}
	d.mark = make([]uint32, len(n.prog.Inst))
	d.mt = make([][]bool, al.numClasses())
	for c := range d.mt {
		row := make([]bool, len(n.prog.Inst))
		for _, pc := range n.runePCs {
			row[pc] = n.matchRune(pc, al.rep[c])
		}
		d.mt[c] = row
	}
	d.start = []uint32{uint32(n.prog.Start)}
	d.states = append(d.states, &dstate{accept: true})
	d.sink = 0
	d.init = d.intern(nil, kNone)
	return d
}

func (d *dfa) newGen() {
	d.gen++
	if d.gen == 0 {
		for i := range d.mark {
			d.mark[i] = 0
		}
		d.gen = 1
	}
}

// intern returns the state for "the threads in seed, plus a fresh thread at
// the start pc, sit at a position whose previous rune has kind prev".
func (d *dfa) intern(seed []uint32, prev uint8) int32 {
	// Follow unconditional epsilon moves; stop at empty-width assertions,
	// whose truth is only known once the next rune is.
	d.newGen()
	st := d.stack[:0]
	st = append(st, seed...)
	st = append(st, d.start...)
	var set []uint32
	hasMatch, hasEmpty := false, false
	for len(st) > 0 {
		pc := st[len(st)-1]
		st = st[:len(st)-1]
		if d.mark[pc] == d.gen {
			continue
		}
		d.mark[pc] = d.gen
		in := &d.n.prog.Inst[pc]
		switch in.Op {
		case syntax.InstAlt, syntax.InstAltMatch:
			st = append(st, in.Out, in.Arg)
		case syntax.InstCapture, syntax.InstNop:
			st = append(st, in.Out)
		case syntax.InstEmptyWidth:
			hasEmpty = true
			set = append(set, pc)
		case syntax.InstRune, syntax.InstRune1, syntax.InstRuneAny, syntax.InstRuneAnyNotNL:
			set = append(set, pc)
		case syntax.InstMatch:
			hasMatch = true
		case syntax.InstFail:
		}
	}
	d.stack = st
	if hasMatch {
		// A match ends at this position: whatever follows, the string is accepted.
		return d.sink
	}
	if !hasEmpty {
		prev = kNone // the previous rune cannot influence anything
	}
	sort.Slice(set, func(i, j int) bool { return set[i] < set[j] })
	var kb strings.Builder
	kb.Grow(1 + 4*len(set))
	kb.WriteByte(prev)
	for _, pc := range set {
		kb.WriteByte(byte(pc))
		kb.WriteByte(byte(pc >> 8))
		kb.WriteByte(byte(pc >> 16))
		kb.WriteByte(byte(pc >> 24))
	}
	key := kb.String()
	if id, ok := d.index[key]; ok {
		return id
	}
	s := &dstate{pcs: set, prev: prev, next: make([]int32, d.al.numClasses())}
	for i := range s.next {
		s.next[i] = -1
	}
	id := int32(len(d.states))
	d.states = append(d.states, s)
	d.index[key] = id
	return id
}

// closure computes what is reachable from state s by epsilon moves when the
// next rune has kind next (kNone = end of text).
func (d *dfa) closure(s *dstate, next uint8) *closure {
	if c := s.clo[next]; c != nil {
		return c
	}
	flags := flagsTab[s.prev][next]
	d.newGen()
	st := d.stack[:0]
	st = append(st, s.pcs...)
	c := &closure{}
	for len(st) > 0 {
		pc := st[len(st)-1]
		st = st[:len(st)-1]
		if d.mark[pc] == d.gen {
			continue
		}
		d.mark[pc] = d.gen
		in := &d.n.prog.Inst[pc]
		switch in.Op {
		case syntax.InstAlt, syntax.InstAltMatch:
			st = append(st, in.Out, in.Arg)
		case syntax.InstCapture, syntax.InstNop:
			st = append(st, in.Out)
		case syntax.InstEmptyWidth:
			if syntax.EmptyOp(in.Arg)&^flags == 0 {
				st = append(st, in.Out)
			}
		case syntax.InstRune, syntax.InstRune1, syntax.InstRuneAny, syntax.InstRuneAnyNotNL:
			c.runes = append(c.runes, pc)
		case syntax.InstMatch:
			c.matched = true
		case syntax.InstFail:
		}
	}
	d.stack = st
	s.clo[next] = c
	return c
}

// step returns the successor of state id on a rune of class c.
func (d *dfa) step(id int32, c int) int32 {
	s := d.states[id]
	if s.accept {
		return id
	}
	if nx := s.next[c]; nx >= 0 {
		return nx
	}
	cl := d.closure(s, d.al.kind[c])
	var res int32
	if cl.matched {
		res = d.sink
	} else {
		var seed []uint32
		row := d.mt[c]
		for _, pc := range cl.runes {
			if row[pc] {
				seed = append(seed, d.n.prog.Inst[pc].Out)
			}
		}
		res = d.intern(seed, d.al.kind[c])
	}
	s.next[c] = res
	return res
}

// acceptsAtEnd reports whether the string read so far is in the language.
func (d *dfa) acceptsAtEnd(id int32) bool {
	s := d.states[id]
	return s.accept || d.closure(s, kNone).matched
}

// run feeds str to the DFA. ok is false if str contains a rune outside the
// universe (or invalid UTF-8).
func (d *dfa) run(str string) (accepted, ok bool) {
	id := d.init
	for i, r := range str {
		if r == unicode.ReplacementChar && !strings.HasPrefix(str[i:], "\uFFFD") {
			return false, false
		}
		c := d.al.classOf(r)
		if c < 0 {
			return false, false
		}
		id = d.step(id, c)
	}
	return d.acceptsAtEnd(id), true
}

// ---------------------------------------------------------------------------
// Product exploration
// ---------------------------------------------------------------------------

type mode int

const (
	modeEquiv mode = iota
	modeSubset
	modeEmpty
)

type pnode struct {
	a, b   int32
	parent int32
	cls    int32
}

func compare(m mode, opt Options, pats ...string) (Result, error) {
	var ns []*nfa
	for _, p := range pats {
		n, err := newNFA(p)
		if err != nil {
			return Result{}, err
		}
		ns = append(ns, n)
	}
	al, err := buildAlphabet(ns, opt.ExcludeRunes)
	if err != nil {
		return Result{}, err
	}
	da := newDFA(ns[0], al)
	var db *dfa
	if m != modeEmpty {
		db = newDFA(ns[1], al)
	}

	type key struct{ a, b int32 }
	seen := map[key]bool{}
	var nodes []pnode
	push := func(a, b, parent int32, cls int32) {
		k := key{a, b}
		if seen[k] {
			return
		}
		seen[k] = true
		nodes = append(nodes, pnode{a: a, b: b, parent: parent, cls: cls})
	}
	var b0 int32
	if db != nil {
		b0 = db.init
	}
	push(da.init, b0, -1, -1)

	nc := al.numClasses()
	for qi := 0; qi < len(nodes); qi++ {
		if len(nodes) > MaxStates {
			return Result{States: len(nodes)}, fmt.Errorf("%w (%d) comparing %q", ErrTooManyStates, MaxStates, pats)
		}
		nd := nodes[qi]
		accA := da.acceptsAtEnd(nd.a)
		accB := false
		if db != nil {
			accB = db.acceptsAtEnd(nd.b)
		}
		bad := false
		switch m {
		case modeEquiv:
			bad = accA != accB
		case modeSubset:
			bad = accA && !accB
		case modeEmpty:
			bad = accA
		}
		if bad {
			var rs []rune
			for i := int32(qi); nodes[i].parent >= 0; i = nodes[i].parent {
				rs = append(rs, al.rep[nodes[i].cls])
			}
			for i, j := 0, len(rs)-1; i < j; i, j = i+1, j-1 {
				rs[i], rs[j] = rs[j], rs[i]
			}
			return Result{Holds: false, Witness: string(rs), InA: accA, States: len(nodes)}, nil
		}
		// Prune pairs from which no difference can ever be observed.
		sinkA := da.states[nd.a].accept
		sinkB := db != nil && db.states[nd.b].accept
		switch m {
		case modeEquiv:
			if sinkA && sinkB {
				continue
			}
		case modeSubset:
			if sinkB {
				continue
			}
		}
		for c := 0; c < nc; c++ {
			na := da.step(nd.a, c)
			var nb int32
			if db != nil {
				nb = db.step(nd.b, c)
			}
			push(na, nb, int32(qi), int32(c))
		}
	}
	return Result{Holds: true, States: len(nodes)}, nil
}
